//! C19: both big-integer back ends produce identical results.  The SAME module is compiled into
//! two binaries (default: num-bigint, harness-fast: rug/GMP); inputs are a function of the seed
//! only, so the driver can compare the two implementations case by case, and each binary's cases
//! are evaluated through the model of its own back end.
use crate::c02::server_api;
use crate::c03::client_api;
use crate::ctx::*;
use crate::srp::*;
use wow_srp::server::SrpVerifier;
use wow_srp::verif_hooks::internals as hk;
use wow_srp::verif_hooks::rand as vr;
use wow_srp::{GENERATOR, LARGE_SAFE_PRIME_LITTLE_ENDIAN as NLE};

/// which back end this binary is linked against: the export of zero is `[]` with GMP and `[0]` with num-bigint.
/// Guarded: if the export of zero itself panics the answer falls back to the build's name (wsvfast / wsv)
pub fn is_fast() -> bool {
    match catch(|| hk::bigint::roundtrip_le(&[]).is_empty()) {
        Some(b) => b,
        None => std::env::args().next().map(|a| a.contains("wsvfast")).unwrap_or(false),
    }
}

fn push(ctx: &mut Ctx, op: u32, label: &str, ins: &[&[u8]], out: Vec<Vec<u8>>) {
    let o: Vec<&[u8]> = out.iter().map(|x| x.as_slice()).collect();
    ctx.case(op, label, ins, &o);
}
fn ok_or_panic(r: Option<Vec<u8>>) -> Vec<Vec<u8>> { match r { Some(v) => vec![vec![0], v], None => vec![vec![2]] } }
fn pk(r: Option<Result<[u8; 32], u8>>) -> Vec<Vec<u8>> { match r { None => vec![vec![2]], Some(Ok(k)) => vec![vec![0], k.to_vec()], Some(Err(e)) => vec![vec![1, e]] } }

/// 2^(8*zero_bytes) * m, m odd with `odd_len` bytes (top byte non-zero), little-endian
fn pow2_times_odd(rng: &mut Rng, zero_bytes: usize, odd_len: usize) -> Vec<u8> {
    let mut v = vec![0u8; zero_bytes];
    let mut m = rng.bytes(odd_len);
    m[0] |= 1; let l = m.len(); if m[l - 1] == 0 { m[l - 1] = 1; }
    v.extend_from_slice(&m); v
}
/// operands at limb boundaries
fn limb_shape(rng: &mut Rng, i: usize) -> Vec<u8> {
    let k = [4usize, 8, 12, 16, 24, 8, 8, 16][i % 8];
    match (i / 8) % 6 {
        0 => pow2_times_odd(rng, k, 32 - k),                       // low limbs zero, rest random, 32 bytes
        1 => pow2_times_odd(rng, k, 1),                            // small multiple of 2^(8k)
        2 => { let mut v = vec![0u8; k]; v.push(1); v }            // exactly 2^(8k)
        3 => vec![0xff; k],                                        // 2^(8k) - 1
        4 => { let mut v = rng.bytes(k); v.extend_from_slice(&vec![0u8; 32 - k]); v }   // only low limbs set, high zero bytes
        _ => { let mut v = vec![0u8; k]; v.extend_from_slice(&rng.bytes(1)); v.extend_from_slice(&vec![0u8; 31 - k]); v }
    }
}

pub fn run(ctx: &mut Ctx) {
    let mut rng = ctx.rng("corr");
    ctx.notes.push(format!("this binary uses the {} back end", if is_fast() { "GMP (srp-fast-math)" } else { "num-bigint (srp-default-math)" }));
    let zero32 = [0u8; 32];
    // ---- wrapper operations on operands of every shape ----
    let n_wrap = if ctx.quick() { 60 } else { 600 };
    for i in 0..n_wrap {
        let len = [0usize, 1, 2, 31, 32, 33, 40][i % 7];
        let mut v = rng.bytes(len);
        if i % 5 == 0 && len > 0 { v[len - 1] = 0; }               // high zero byte
        if i % 11 == 0 { v = vec![0u8; len]; }                      // zero with redundant bytes
        push(ctx, 20, "to_bytes_le(from_bytes_le(v))", &[&v], vec![vec![0], hk::bigint::roundtrip_le(&v)]);
        push(ctx, 21, if len > 32 && v[32..].iter().any(|b| *b != 0) { "to_padded_32 of a 33+ byte value" } else { "to_padded_32" }, &[&v],
             ok_or_panic(catch(|| hk::bigint::to_padded_32(&v).to_vec())));
        let m: Vec<u8> = match i % 6 { 0 => NLE.to_vec(), 1 => vec![3], 2 => vec![2], 3 => vec![1], 4 => vec![0xfb], _ => { let mut x = rng.bytes(32); x[0] |= 1; x } };
        push(ctx, 24, "is_zero / mod is zero", &[&v, &m], match catch(|| (hk::bigint::is_zero(&v), { let mut n = [0u8; 32]; n[..m.len().min(32)].copy_from_slice(&m[..m.len().min(32)]); hk::bigint::mod_large_safe_prime_is_zero(&v, n) })) {
            Some((a, b)) => vec![vec![0], vec![a as u8], vec![b as u8]], None => vec![vec![2]] });
    }
    // limb-boundary shapes (32- and 64-bit limbs): low limbs zero with a non-zero rest, exact powers of
    // two and their predecessors -- a back end that inspects only some limbs differs exactly here
    let n_limb = if ctx.quick() { 48 } else { 480 };
    for i in 0..n_limb {
        let v = limb_shape(&mut rng, i);
        push(ctx, 20, "to_bytes_le(from_bytes_le(v)), limb-boundary operand", &[&v], vec![vec![0], hk::bigint::roundtrip_le(&v)]);
        if v.len() <= 32 { push(ctx, 21, "to_padded_32, limb-boundary operand", &[&v], ok_or_panic(catch(|| hk::bigint::to_padded_32(&v).to_vec()))); }
        let m: Vec<u8> = match i % 4 { 0 => NLE.to_vec(), 1 => limb_shape(&mut rng, i + 1), 2 => vec![0, 0, 0, 0, 0, 0, 0, 0, 1], _ => { let mut x = rng.bytes(32); x[0] |= 1; x } };
        if m.len() <= 32 && m.iter().any(|b| *b != 0) {
            push(ctx, 24, "is_zero / mod is zero, limb-boundary operand", &[&v, &m], match catch(|| (hk::bigint::is_zero(&v), { let mut n = [0u8; 32]; n[..m.len()].copy_from_slice(&m); hk::bigint::mod_large_safe_prime_is_zero(&v, n) })) {
                Some((a, b)) => vec![vec![0], vec![a as u8], vec![b as u8]], None => vec![vec![2]] });
        }
    }
    let n_pow = if ctx.quick() { 40 } else { 400 };
    for i in 0..n_pow {
        let base = rng.bytes([1usize, 8, 32][i % 3]);
        let sub = if i % 2 == 0 { rng.bytes(32) } else { vec![] };           // base - sub negative about half the time
        let exp: Vec<u8> = match i % 8 { 0 => vec![], 1 => vec![0], 2 => vec![1], 3 => vec![2], 4 => vec![0xff; 20], 5 => vec![0xff; 32], _ => rng.bytes(32) };
        let m: Vec<u8> = match i % 13 { 0 | 1 | 2 => NLE.to_vec(), 3 => vec![3], 4 => vec![2], 5 => vec![1], 6 => vec![10], 7 => vec![0, 0, 1], 8 => vec![0xfb],
                                         9 => pow2_times_odd(&mut rng, 8, 16), 10 => pow2_times_odd(&mut rng, 4, 12), 11 => pow2_times_odd(&mut rng, 16, 8), _ => { let mut x = rng.bytes(32); x[0] |= 1; x } };
        let base = if i % 5 == 4 { let mut b = base.clone(); b[0] &= 0xfe; b } else { base };   // even bases meet even moduli
        let label = format!("modpow: exponent {} / modulus {}", if exp.iter().all(|b| *b == 0) { "zero" } else { "positive" }, if m[0] % 2 == 0 { "even" } else { "odd" });
        push(ctx, 22, &label, &[&base, &sub, &exp, &m], ok_or_panic(catch(|| hk::bigint::modpow_of_difference(&base, &sub, &exp, &m))));
        let (a, b, c) = (rng.bytes(32), rng.bytes(20), rng.bytes(32));
        push(ctx, 23, "(a*b+c) % m", &[&a, &b, &c, &m], ok_or_panic(catch(|| hk::bigint::mul_add_rem(&a, &b, &c, &m))));
    }
    push(ctx, 22, "modpow: modulus zero (both back ends must panic)", &[&[7], &[], &[5], &[]], ok_or_panic(catch(|| hk::bigint::modpow_of_difference(&[7], &[], &[5], &[]))));
    // ---- SRP functions with degenerate and ordinary private values ----
    let specials: Vec<([u8; 32], &str)> = vec![(zero32, "zero"), ({ let mut x = zero32; x[0] = 1; x }, "one"), (rng.arr(), "random"), ({ let mut x = [0xffu8; 32]; x[31] = 0; x }, "high zero byte")];
    for (b, bl) in &specials {
        let v: [u8; 32] = rng.arr();
        push(ctx, 8, &format!("server public key, b = {}", bl), &[&v, b], pk(catch(|| hk::calculate_server_public_key(v, *b))));
        push(ctx, 12, &format!("client public key, a = {}", bl), &[b, &[GENERATOR], &NLE], pk(catch(|| hk::calculate_client_public_key(*b, GENERATOR, NLE))));
        let a_pub: [u8; 32] = { let mut x: [u8; 32] = rng.arr(); x[31] &= 0x7f; x };
        let u: [u8; 20] = if *bl == "zero" { [0u8; 20] } else { rng.arr() };
        push(ctx, 9, &format!("server S, b = {}, u = {}", bl, if u == [0u8; 20] { "zero" } else { "random" }), &[&a_pub, &v, &u, b],
             match catch(|| hk::calculate_s(a_pub, v, u, *b)) { Some(Some(s)) => vec![vec![0], s.to_vec()], _ => vec![vec![2]] });
    }
    let moduli = primes_le();
    let mut extra: Vec<[u8; 32]> = moduli.clone();
    for m in [2u8, 4, 10, 1] { let mut x = zero32; x[0] = m; extra.push(x); }
    // N' = 2^(8k) * m with m odd (and the bare power of two): with an even generator the client's
    // public key is a non-zero multiple of 2^(8k); N - 1 (even, not a multiple of 2^32)
    for (k, ml) in [(8usize, 16usize), (8, 24), (4, 8), (16, 8), (8, 0), (16, 0), (2, 1)] {
        let v = if ml == 0 { let mut x = vec![0u8; k]; x.push(1); x } else { pow2_times_odd(&mut rng, k, ml) };
        let mut x = zero32; x[..v.len()].copy_from_slice(&v); extra.push(x);
    }
    { let mut x = NLE; x[0] -= 1; extra.push(x); }
    for (mi, n) in extra.iter().enumerate() {
        let g = if mi >= 15 { [2u8, 6, 2, 10, 2, 6, 4, 2][(mi - 15) % 8] } else { [7u8, 2, 3, 255][mi % 4] };
        let (bb, a): ([u8; 32], [u8; 32]) = (rng.arr(), if mi % 5 == 4 { zero32 } else { rng.arr() });
        let (x, u): ([u8; 20], [u8; 20]) = (if mi % 7 == 6 { [0u8; 20] } else { rng.arr() }, rng.arr());
        push(ctx, 10, &format!("client S, modulus #{} ({})", mi, if n[0] % 2 == 0 { "even" } else { "odd" }), &[&bb, &x, &a, &u, &[g], n], ok_or_panic(catch(|| hk::calculate_client_s(bb, x, a, u, g, *n).to_vec())));
        push(ctx, 12, &format!("client public key, modulus #{}", mi), &[&a, &[g], n], pk(catch(|| hk::calculate_client_public_key(a, g, *n))));
    }
    // ---- the public API ----
    let n_login = if ctx.quick() { 10 } else { 80 };
    for k in 0..n_login + 2 {
        let (u, p) = (rand_cred(&mut rng, 1 + k % 16), rand_cred(&mut rng, 16 - k % 16));
        let mut tape = rng.bytes(112);
        if k == n_login { for x in tape[32..64].iter_mut() { *x = 0; } }        // b = 0: exponent zero on the server
        if k == n_login + 1 { for x in tape[64..96].iter_mut() { *x = 0; } }    // a = 0: A = 1, exponent u*x on the client
        match login(&u, &p, &u, &p, &tape) {
            Ok(l) => emit_login_case(ctx, if k < n_login { "login" } else if k == n_login { "login with b = 0" } else { "login with a = 0" }, &l),
            Err(e) => { let (un, pn) = (ns(&u), ns(&p)); ctx.case(1, "login failed", &[un.as_ref().as_bytes(), pn.as_ref().as_bytes(), &tape[..112]], &[&[2], format!("{:?}", e).as_bytes()]); }
        }
        // server with stored values and a client under the announced group N' = 2 (a prime, even)
        let (v, salt, a_pub): ([u8; 32], [u8; 32], [u8; 32]) = (rng.arr(), rng.arr(), { let mut x: [u8; 32] = rng.arr(); x[31] &= 0x7f; x });
        let b = rng.bytes(32); let chal = rng.bytes(16); let ms = [[0u8; 20], rng.arr()];
        let out = server_api(&u, v, salt, &b, a_pub, &ms, &chal);
        let un = ns(&u); let msc: Vec<u8> = ms.iter().flat_map(|m| m.iter().copied()).collect();
        push(ctx, 4, "server with stored values", &[un.as_ref().as_bytes(), &v, &salt, &b, &a_pub, &msc, &chal], out);
        let n2 = { let mut x = zero32; x[0] = if k % 2 == 0 { 2 } else { 5 }; x };
        let (b_pub, a): ([u8; 32], [u8; 32]) = (rng.arr(), rng.arr());
        if let Some(out) = client_api(&u, &p, 3, n2, b_pub, salt, &a, &[]) {
            let pn = ns(&p);
            push(ctx, 3, &format!("client API, announced N' = {}", n2[0]), &[un.as_ref().as_bytes(), pn.as_ref().as_bytes(), &[3], &n2, &b_pub, &salt, &a, &[]], out);
        }
        // announced group N' = 2^64 * m (m odd) with an even generator: A is a non-zero multiple of 2^64
        let n3 = { let v = pow2_times_odd(&mut rng, 8, 8 + k % 16); let mut x = zero32; x[..v.len()].copy_from_slice(&v); x };
        let g3 = [2u8, 6, 10][k % 3];
        if let Some(out) = client_api(&u, &p, g3, n3, b_pub, salt, &a, &[]) {
            let pn = ns(&p);
            push(ctx, 3, "client API, announced N' = 2^64 * odd, even generator", &[un.as_ref().as_bytes(), pn.as_ref().as_bytes(), &[g3], &n3, &b_pub, &salt, &a, &[]], out);
        }
        vr::install_tape(&salt);
        let vf = catch(|| SrpVerifier::from_username_and_password(ns(&u), ns(&p)));
        vr::remove_tape(); vr::take_log();
        if let Some(vf) = vf { let pn = ns(&p); push(ctx, 11, "verifier", &[un.as_ref().as_bytes(), pn.as_ref().as_bytes(), &salt], vec![vec![0], vf.password_verifier().to_vec(), vf.salt().to_vec(), vf.username().as_bytes().to_vec()]); }
    }
    ctx.sample("modpow_of_difference(base, sub, exp = [], modulus = N) (zero exponent), calculate_client_S under N' = 2, login with b = 0".to_string());
    // ---- implementation-only volume: many ordinary logins must succeed in this build too ----
    let per_thread = if ctx.quick() { 300 } else { 20_000 };
    let seed = ctx.seed;
    let res = par(16, |t| {
        let mut rng = Rng::new(seed, &format!("C19/oracle/{}", t));
        let mut fails = Vec::new();
        for _ in 0..per_thread {
            let (u, p) = (rand_cred(&mut rng, 6), rand_cred(&mut rng, 9));
            let tape = rng.bytes(112);
            match login(&u, &p, &u, &p, &tape) {
                Ok(l) => { let sp = spec_session(ns(&u).as_ref().as_bytes(), ns(&p).as_ref().as_bytes(), &tape[0..32], &tape[32..64], &tape[64..96], GENERATOR, &NLE);
                           if l.ks != sp.k || l.m1 != sp.m1 || l.m2 != sp.m2 || l.v != sp.v || l.a_pub != sp.a_pub || l.b_pub != sp.b_pub { fails.push(format!("{{\"user\":{},\"password\":{},\"tape\":\"{}\",\"what\":\"values differ from textbook SRP6 in this build\"}}", jstr(&u), jstr(&p), hex(&tape))); } }
                Err(LoginFail::BadOwnKey) => {}
                Err(e) => fails.push(format!("{{\"user\":{},\"password\":{},\"tape\":\"{}\",\"error\":{}}}", jstr(&u), jstr(&p), hex(&tape), jstr(&format!("{:?}", e)))),
            }
        }
        fails
    });
    for f in res { ctx.oracle_runs += per_thread as u64; for x in f { ctx.fail("login_in_this_build", x); } }
}
