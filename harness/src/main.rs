mod ctx;
mod srp;
mod c01;
mod c02;
mod c03;
mod c04;
mod c05;
mod c06;
mod c07;
mod c08;
mod c09;
mod c10;
mod c11;
mod c12;
mod c13;
mod c14;
mod c15;
mod c16;
mod c17;
mod c18;
mod c19;

use ctx::{Ctx, Tier};
use std::collections::BTreeMap;
use std::path::PathBuf;

static LAST_PANIC: std::sync::Mutex<String> = std::sync::Mutex::new(String::new());

fn main() {
    let args: Vec<String> = std::env::args().collect();
    if args.len() < 2 {
        eprintln!("usage: wsv <prop> [--tier quick|thorough] [--seed N] [--out DIR] [--shards N] | wsv replay <file>");
        std::process::exit(2);
    }
    // caught panics are expected outcomes (they stand for `Panic` in the model) and stay silent; the text and place
    // of the last one is kept so that a panic which escapes every guard can be reported with it
    std::panic::set_hook(Box::new(|info| { if let Ok(mut g) = LAST_PANIC.lock() { *g = format!("{}", info); } }));
    let prop = args[1].clone();
    let mut tier = Tier::Quick;
    let mut seed = 1u64;
    let mut out = PathBuf::from("_work/out");
    let mut shards = 16usize;
    let mut i = 2;
    while i < args.len() {
        match args[i].as_str() {
            "--tier" => { tier = if args[i + 1] == "thorough" { Tier::Thorough } else { Tier::Quick }; i += 2; }
            "--seed" => { seed = args[i + 1].parse().unwrap_or(1); i += 2; }
            "--out" => { out = PathBuf::from(&args[i + 1]); i += 2; }
            "--shards" => { shards = args[i + 1].parse().unwrap_or(16); i += 2; }
            _ => { i += 1; }
        }
    }
    let mut ctx = Ctx { prop: prop.clone(), tier, seed, out, shards, cases: Vec::new(), counters: BTreeMap::new(),
                        failures: Vec::new(), oracle_runs: 0, samples: Vec::new(), notes: Vec::new(), exhaustive: Vec::new() };
    let (run_fn, module, runner): (fn(&mut Ctx), &str, &str) = match prop.as_str() {
        "C01" => (c01::run, "corr.C01", "run_C01"),
        "C02" => (c02::run, "corr.C02", "run_C02"),
        "C03" => (c03::run, "corr.C03", "run_C03"),
        "C04" => (c04::run, "corr.C04", "run_C04"),
        "C05" => (c05::run, "corr.C05", "run_C05"),
        "C06" => (c06::run, "corr.C06", "run_C06"),
        "C07" => (c07::run, "corr.C07", "run_C07"),
        "C08" => (c08::run, "corr.C08", "run_C08"),
        "C09" => (c09::run, "corr.C09", "run_C09"),
        "C10" => (c10::run, "corr.C10", "run_C10"),
        "C11" => (c11::run, "corr.C11", "run_C11"),
        "C12" => (c12::run, "corr.C12", "run_C12"),
        "C13" => (c13::run, "corr.C13", "run_C13"),
        "C14" => (c14::run, "corr.C14", "run_C14"),
        "C15" => (c15::run, "corr.C15", "run_C15"),
        "C16" => (c16::run, "corr.C16", "run_C16"),
        "C17" => (c17::run, "corr.C17", "run_C17"),
        "C18" => (c18::run, "corr.C18", "run_C18"),
        "C19" => (c19::run, "corr.C19", if c19::is_fast() { "run_C19_fast" } else { "run_C19_default" }),
        _ => { eprintln!("unknown property {}", prop); std::process::exit(2); }
    };
    // a panic that escapes every guarded call inside the run: the harness leaves unguarded only what cannot fail
    // on the pinned tree, so this is a finding about the library; it is recorded with the panic text and place,
    // and what was collected so far is still written out
    if std::panic::catch_unwind(std::panic::AssertUnwindSafe(|| run_fn(&mut ctx))).is_err() {
        let msg = LAST_PANIC.lock().map(|g| g.clone()).unwrap_or_default();
        ctx.fail("uncaught_panic", format!("{{\"what\":\"a library call the harness does not guard (it cannot fail on the pinned tree) panicked; the run stopped there\",\"panic\":{}}}", ctx::jstr(&msg)));
    }
    ctx.finish(module, runner);
}
