//! C12: the two directions of a crypto object are independent through split / unsplit / clone;
//! Vanilla unsplit succeeds exactly on equal session keys; two halves on two real threads (a test).
//!
//! Case layout: see the comment at the top of coq/corr/C12.v.
use crate::c11::{obs_tc, obs_vc, obs_wcc, obs_wsc, t_crypto, v_crypto, w_client, w_server};
use crate::ctx::*;
use wow_srp::verif_hooks::internals as hk;
use wow_srp::{tbc_header as t, vanilla_header as v, wrath_header as w};

#[derive(Clone, Debug, PartialEq)]
pub enum Op { Enc(Vec<u8>), Dec(Vec<u8>), Split, Unsplit, Clone }
fn enc_ops(ops: &[Op]) -> Vec<u8> {
    let mut o = Vec::new();
    for x in ops {
        let (tag, b): (u8, &[u8]) = match x { Op::Enc(b) => (0, b), Op::Dec(b) => (1, b), Op::Split => (2, &[]), Op::Unsplit => (3, &[]), Op::Clone => (4, &[]) };
        o.push(tag); o.push(b.len() as u8); o.push((b.len() >> 8) as u8); o.extend_from_slice(b);
    }
    o
}

#[derive(Clone, PartialEq, Eq, Debug)]
enum Obj {
    VC(v::HeaderCrypto), VH(v::EncrypterHalf, v::DecrypterHalf),
    TC(t::HeaderCrypto), TH(t::EncrypterHalf, t::DecrypterHalf),
    CC(w::ClientCrypto), CH(w::ClientEncrypterHalf, w::ClientDecrypterHalf),
    SC(w::ServerCrypto), SH(w::ServerEncrypterHalf, w::ServerDecrypterHalf),
    /// the Wrath client object with its receiving side driven at header level (machine 4)
    HC(w::ClientCrypto), HH(w::ClientEncrypterHalf, w::ClientDecrypterHalf),
}
fn hdr_bytes(h: w::ServerHeader) -> Vec<u8> { let mut o = h.size.to_le_bytes().to_vec(); o.extend((h.opcode as u32).to_le_bytes()); o }
fn attempt_bytes(a: w::WrathServerAttempt) -> Vec<u8> { match a { w::WrathServerAttempt::Header(h) => hdr_bytes(h), w::WrathServerAttempt::AdditionalByteRequired => Vec::new() } }
/// machine: 0 vanilla, 1 tbc, 2 wrath client object, 3 wrath server object, 4 wrath client object at header level
fn fresh(machine: u8, key: [u8; 40]) -> Obj {
    match machine { 0 => Obj::VC(v_crypto(key)), 1 => Obj::TC(t_crypto(key)), 2 => Obj::CC(w_client(key)), 3 => Obj::SC(w_server(key)), _ => Obj::HC(w_client(key)) }
}
fn sel_of(machine: u8) -> [u8; 2] { match machine { 0 => [0, 0], 1 => [1, 0], 2 => [2, 0], 3 => [2, 1], _ => [2, 2] } }

impl Obj {
    fn enc(&mut self, d: &mut [u8]) {
        match self { Obj::VC(c) => c.encrypt(d), Obj::VH(e, _) => e.encrypt(d), Obj::TC(c) => c.encrypt(d), Obj::TH(e, _) => e.encrypt(d),
                     Obj::CC(c) => c.encrypt(d), Obj::CH(e, _) => e.encrypt(d), Obj::SC(c) => c.encrypt(d), Obj::SH(e, _) => e.encrypt(d),
                     Obj::HC(c) => c.encrypt(d), Obj::HH(e, _) => e.encrypt(d) }
    }
    /// one receive call; at header level 4 bytes are an attempt and 1 byte completes a long header
    fn dec_out(&mut self, b: &[u8]) -> Vec<u8> {
        match (&mut *self, b.len()) {
            (Obj::HC(c), 4) => attempt_bytes(c.attempt_decrypt_server_header([b[0], b[1], b[2], b[3]])),
            (Obj::HH(_, x), 4) => attempt_bytes(x.attempt_decrypt_server_header([b[0], b[1], b[2], b[3]])),
            (Obj::HC(c), 1) => hdr_bytes(c.decrypt_large_server_header(b[0])),
            (Obj::HH(_, x), 1) => hdr_bytes(x.decrypt_large_server_header(b[0])),
            _ => { let mut v = b.to_vec(); self.dec(&mut v); v }
        }
    }
    fn dec(&mut self, d: &mut [u8]) {
        match self { Obj::VC(c) => c.decrypt(d), Obj::VH(_, x) => x.decrypt(d), Obj::TC(c) => c.decrypt(d), Obj::TH(_, x) => x.decrypt(d),
                     Obj::CC(c) => c.decrypt(d), Obj::CH(_, x) => x.decrypt(d), Obj::SC(c) => c.decrypt(d), Obj::SH(_, x) => x.decrypt(d),
                     Obj::HC(c) => c.decrypt(d), Obj::HH(_, x) => x.decrypt(d) }
    }
    fn split(self) -> Obj {
        match self { Obj::VC(c) => { let (e, d) = c.split(); Obj::VH(e, d) } Obj::TC(c) => { let (e, d) = c.split(); Obj::TH(e, d) }
                     Obj::CC(c) => { let (e, d) = c.split(); Obj::CH(e, d) } Obj::SC(c) => { let (e, d) = c.split(); Obj::SH(e, d) }
                     Obj::HC(c) => { let (e, d) = c.split(); Obj::HH(e, d) } o => o }
    }
    /// Err = unsplit refused (both halves are consumed by the call)
    fn unsplit(self) -> Result<Obj, ()> {
        match self { Obj::VH(e, d) => e.unsplit(d).map(Obj::VC).map_err(|_| ()), o => Ok(o) }
    }
    fn is_combined(&self) -> bool { matches!(self, Obj::VC(_) | Obj::TC(_) | Obj::CC(_) | Obj::SC(_) | Obj::HC(_)) }
    /// encrypter half then decrypter half
    fn obs(&self) -> Vec<u8> {
        match self.clone().split() {
            Obj::VH(e, d) => { let a = hk::vanilla_encrypter_state(&e); let b = hk::vanilla_decrypter_state(&d); vec![a.0, a.1, b.0, b.1] }
            Obj::TH(e, d) => { let a = hk::tbc_encrypter_state(&e); let b = hk::tbc_decrypter_state(&d); let mut o = a.0.to_vec(); o.push(a.1); o.push(a.2); o.extend(b.0); o.push(b.1); o.push(b.2); o }
            Obj::CH(mut e, mut d) => { let mut a = [0u8; 8]; e.encrypt(&mut a); let mut b = [0u8; 8]; d.decrypt(&mut b); let mut o = a.to_vec(); o.extend(b); o }
            Obj::SH(mut e, mut d) => { let mut a = [0u8; 8]; e.encrypt(&mut a); let mut b = [0u8; 8]; d.decrypt(&mut b); let mut o = a.to_vec(); o.extend(b); o }
            // header level: first what decrypt_large_server_header(0) would complete from the stash
            Obj::HH(mut e, mut d) => { let mut o = hdr_bytes(d.clone().decrypt_large_server_header(0)); let mut a = [0u8; 8]; e.encrypt(&mut a); let mut b = [0u8; 8]; d.decrypt(&mut b); o.extend(a); o.extend(b); o }
            _ => unreachable!(),
        }
    }
}

struct RunOut { obj: Obj, enc: Vec<u8>, dec: Vec<u8>, originals_ok: bool }
/// run a history; Err(()) = an unsplit was refused
fn run_ops(mut obj: Obj, ops: &[Op]) -> Result<RunOut, ()> {
    let (mut eo, mut dox) = (Vec::new(), Vec::new());
    let mut originals: Vec<(Obj, Obj)> = Vec::new();
    for x in ops {
        match x {
            Op::Enc(b) => { let mut b = b.clone(); obj.enc(&mut b); eo.extend(b); }
            Op::Dec(b) => { let o = obj.dec_out(b); dox.extend(o); }
            Op::Split => obj = obj.split(),
            Op::Unsplit => obj = obj.unsplit()?,
            Op::Clone => { let work = obj.clone(); let snapshot = obj.clone(); originals.push((obj, snapshot)); obj = work; }
        }
    }
    let originals_ok = originals.iter().all(|(o, s)| o == s && o.obs() == s.obs());
    Ok(RunOut { obj, enc: eo, dec: dox, originals_ok })
}

/// header-level histories for the Wrath client object: the receive calls are cut out of what a
/// server with the same session key emits (short and long headers, some raw chunks), so that long
/// headers really occur; between the attempt and the fifth byte come sends, splits and clones
fn header_ops(rng: &mut Rng, key: [u8; 40], n: usize) -> Vec<Op> {
    let mut srv = w_server(key);
    let mut ops = Vec::new();
    let filler = |rng: &mut Rng, ops: &mut Vec<Op>| {
        for _ in 0..rng.below(4) {
            match rng.below(4) { 0 => { let l = rng.range(0, 12) as usize; ops.push(Op::Enc(rng.bytes(l))) } 1 => ops.push(Op::Split), _ => ops.push(Op::Clone) }
        }
    };
    while ops.len() < n {
        match rng.below(10) {
            0 => { let l = *rng.pick(&[0usize, 2, 3, 5, 6, 9, 40]); let mut b = rng.bytes(l); srv.encrypt(&mut b); ops.push(Op::Dec(b)); }
            1 | 2 | 3 => { let size = *rng.pick(&[0u32, 4, 0x7FFE, 0x7FFF]); let h = srv.encrypt_server_header(size, rng.next() as u16).to_vec(); ops.push(Op::Dec(h)); }
            _ => {
                let size = *rng.pick(&[0x8000u32, 0x8001, 0xFFFF, 0x10000, 0x012345, 0x7FFFFF]);
                let h = srv.encrypt_server_header(size, rng.next() as u16).to_vec();
                ops.push(Op::Dec(h[..4].to_vec()));
                filler(rng, &mut ops);
                ops.push(Op::Dec(h[4..].to_vec()));
            }
        }
        filler(rng, &mut ops);
    }
    ops
}

fn random_ops(rng: &mut Rng, machine: u8, n: usize) -> Vec<Op> {
    let mut ops = Vec::new();
    let _ = machine;
    for _ in 0..n {
        let r = rng.below(100);
        let chunk = |rng: &mut Rng| { let len = match rng.below(12) { 0 => 0, 1 => 1, 2 => rng.range(41, 90), 3 => rng.range(250, 300), _ => rng.range(1, 24) } as usize; rng.bytes(len) };
        if r < 38 { ops.push(Op::Enc(chunk(rng))); }
        else if r < 76 { ops.push(Op::Dec(chunk(rng))); }
        else if r < 86 { ops.push(Op::Split); }
        else if r < 93 { ops.push(Op::Unsplit); }
        else { ops.push(Op::Clone); }
    }
    ops
}

fn histories(ctx: &mut Ctx) {
    let mut rng = ctx.rng("histories");
    let (nseq, maxops) = if ctx.quick() { (40usize, 60usize) } else { (60, 600) };
    for machine in 0u8..5 {
        for j in 0..nseq {
            let key: [u8; 40] = match j % 9 { 0 => [0u8; 40], 1 => [0xFF; 40], _ => rng.arr() };
            let n = if j < 3 { [0usize, 1, 5][j] } else if j % 2 == 0 { maxops } else { rng.range(2, maxops as u64) as usize };
            let ops = if machine == 4 { header_ops(&mut rng, key, n) } else { random_ops(&mut rng, machine, n) };
            let ops_b = enc_ops(&ops);
            let det = |what: &str| format!("{{\"what\":\"{}\",\"machine\":{},\"key\":\"{}\",\"ops\":\"{}\"}}", what, machine, hex(&key), hex(&ops_b));
            ctx.oracle_runs += 1;
            let r = catch(|| run_ops(fresh(machine, key), &ops));
            let sel = sel_of(machine);
            let mut ins: Vec<&[u8]> = vec![&sel, &key];
            ins.extend(ops_b.chunks(2000));
            let out = match r {
                None => { ctx.case(1, "panic", &ins, &[&[2]]); ctx.fail("panic", det("a call panicked during the history")); continue; }
                Some(Err(())) => { ctx.case(1, "unsplit refused", &ins, &[&[1, 0]]); ctx.fail("unsplit_own_halves", det("unsplit refused the two halves of one object")); continue; }
                Some(Ok(o)) => o,
            };
            let obs = out.obj.obs();
            let label = if ops.iter().all(|x| !matches!(x, Op::Enc(_) | Op::Dec(_))) { "trivial:no data" } else { "history" };
            let (le, ld) = ((out.enc.len() as u32).to_le_bytes(), (out.dec.len() as u32).to_le_bytes());
            let shape = [if out.obj.is_combined() { 0u8 } else { 1 }];
            let mut all = out.enc.clone(); all.extend(&out.dec);
            let mut outs: Vec<&[u8]> = vec![&[0], &le, &ld, &shape, &obs];
            outs.extend(all.chunks(2000));
            ctx.case(1, label, &ins, &outs);
            if !out.originals_ok { ctx.fail("clone_original_changed", det("the original of a clone changed while the clone was used")); }
            // per direction: two separate fresh objects, each handling one direction only
            let enc_only: Vec<Op> = ops.iter().filter(|x| matches!(x, Op::Enc(_))).cloned().collect();
            let dec_only: Vec<Op> = ops.iter().filter(|x| matches!(x, Op::Dec(_))).cloned().collect();
            let a = catch(|| run_ops(fresh(machine, key).split(), &enc_only)).and_then(|x| x.ok());
            let b = catch(|| run_ops(fresh(machine, key), &dec_only)).and_then(|x| x.ok());
            match (a, b) {
                (Some(a), Some(b)) => {
                    if a.enc != out.enc { ctx.fail("direction_enc", det("encrypt outputs differ from a separate object that only encrypts")); }
                    if b.dec != out.dec { ctx.fail("direction_dec", det("decrypt outputs differ from a separate object that only decrypts")); }
                    let (oa, ob) = (a.obj.obs(), b.obj.obs());
                    // (encrypter part, decrypter part) of an observation; at header level the stash comes first
                    let parts = |o: &[u8]| -> (Vec<u8>, Vec<u8>) { if machine == 4 { (o[8..16].to_vec(), [&o[..8], &o[16..]].concat()) } else { (o[..o.len() / 2].to_vec(), o[o.len() / 2..].to_vec()) } };
                    if parts(&obs).0 != parts(&oa).0 || parts(&obs).1 != parts(&ob).1 { ctx.fail("direction_state", det("final per-direction state differs from the single-direction objects")); }
                }
                _ => ctx.fail("panic", det("single-direction reference run panicked")),
            }
            // a clone taken in the middle continues exactly like the object itself
            if ops.len() >= 2 {
                let cut = rng.range(0, ops.len() as u64) as usize;
                let r2 = catch(|| { let first = run_ops(fresh(machine, key), &ops[..cut])?; let copy = first.obj.clone(); let rest = run_ops(copy, &ops[cut..])?; Ok::<_, ()>((first, rest)) });
                match r2 {
                    Some(Ok((first, rest))) => {
                        let mut e = first.enc.clone(); e.extend(&rest.enc); let mut d = first.dec.clone(); d.extend(&rest.dec);
                        if e != out.enc || d != out.dec || rest.obj != out.obj { ctx.fail("clone_diverges", det(&format!("continuing on a clone taken after {} operations gives other results than the uncut run", cut))); }
                    }
                    _ => ctx.fail("panic", det("cut run panicked or refused an unsplit")),
                }
            }
            ctx.count(&format!("history:machine{}", machine));
            ctx.count_n("ops_total", ops.len() as u64);
            for x in &ops { ctx.count(match x { Op::Enc(_) => "ops:enc", Op::Dec(_) => "ops:dec", Op::Split => "ops:split", Op::Unsplit => "ops:unsplit", Op::Clone => "ops:clone" }); }
            if j == 5 { ctx.sample(format!("op=1 machine={} key={} ops={}", machine, hex(&key), hex(&ops_b[..ops_b.len().min(80)]))); }
        }
    }
}

fn unsplit_cases(ctx: &mut Ctx) {
    let mut rng = ctx.rng("unsplit");
    let rounds = if ctx.quick() { 4 } else { 16 };
    let mut n = 0u64;
    for round in 0..rounds {
        let k1: [u8; 40] = if round == 0 { [0u8; 40] } else { rng.arr() };
        let mut pairs: Vec<([u8; 40], bool, String)> = vec![(k1, true, "equal keys".to_string())];
        for i in 0..40 { let mut k2 = k1; k2[i] ^= 1 << rng.below(8); pairs.push((k2, false, format!("keys differ in byte {} only", i))); }
        for i in [0usize, 39] { let mut k2 = k1; k2[i] = k2[i].wrapping_add(1); pairs.push((k2, false, format!("byte {} incremented", i))); }
        pairs.push((rng.arr(), false, "unrelated keys".to_string()));
        { let mut k2 = k1; k2.reverse(); if k2 != k1 { pairs.push((k2, false, "reversed key".to_string())); } }
        for (k2, want_ok, label) in pairs {
            n += 1; ctx.oracle_runs += 1;
            let pe = { let l = rng.range(0, 50) as usize; rng.bytes(l) }; let pd = { let l = rng.range(0, 50) as usize; rng.bytes(l) };
            let det = |what: &str| format!("{{\"what\":\"{}\",\"k1\":\"{}\",\"k2\":\"{}\",\"class\":\"{}\"}}", what, hex(&k1), hex(&k2), label);
            let r = catch(|| {
                let (mut e, _) = v_crypto(k1).split(); let (_, mut d) = v_crypto(k2).split();
                let mut a = pe.clone(); e.encrypt(&mut a); let mut b = pd.clone(); d.decrypt(&mut b);
                let (p1, p2) = (e.is_pair_of(&d), d.is_pair_of(&e));
                let (se, sd) = (hk::vanilla_encrypter_state(&e), hk::vanilla_decrypter_state(&d));
                let joined = e.clone().unsplit(d.clone()).ok();
                (p1, p2, se, sd, joined, e, d)
            });
            let ins: [&[u8]; 4] = [&k1, &k2, &pe, &pd];
            let Some((p1, p2, se, sd, joined, e, d)) = r else { ctx.case(2, "panic", &ins, &[&[2]]); ctx.fail("panic", det("unsplit / is_pair_of panicked")); continue; };
            match &joined {
                Some(c) => { let o = obs_vc(c); ctx.case(2, &label, &ins, &[&[p1 as u8], &[0], &o]);
                    if o != vec![se.0, se.1, sd.0, sd.1] { ctx.fail("unsplit_state", det("the re-joined object does not carry the two halves' states")); }
                    let (e2, d2) = c.clone().split(); if e2 != e || d2 != d { ctx.fail("unsplit_state", det("split after unsplit does not give the two halves back")); } }
                None => ctx.case(2, &label, &ins, &[&[p1 as u8], &[1]]),
            }
            if p1 != p2 { ctx.fail("is_pair_of", det("is_pair_of is not symmetric")); }
            if joined.is_some() != want_ok { ctx.fail("unsplit_iff", det(if want_ok { "unsplit refused halves with the same session key" } else { "unsplit joined halves of different session keys" })); }
            if p1 != want_ok { ctx.fail("is_pair_of", det("is_pair_of does not decide key equality")); }
        }
    }
    ctx.count_n("unsplit_pairs", n);
    ctx.exhaustive.push("unsplit: per base key, the equal key, a one-bit difference in each of the 40 byte positions, +1 in the first and last byte, the reversed key, an unrelated key".to_string());
}

/// a TEST, not part of the proof: the two halves moved to two OS threads against the same calls on one thread
fn threads(ctx: &mut Ctx) {
    let mut rng = ctx.rng("threads");
    let rounds = if ctx.quick() { 6 } else { 40 };
    for round in 0..rounds {
        for machine in 0u8..4 {
            let key: [u8; 40] = rng.arr();
            let n = if ctx.quick() { 200 } else { 1500 };
            let ops: Vec<Op> = random_ops(&mut rng, machine, n).into_iter().filter(|x| matches!(x, Op::Enc(_) | Op::Dec(_))).collect();
            let single = catch(|| run_ops(fresh(machine, key).split(), &ops).ok()).flatten();
            let encs: Vec<Vec<u8>> = ops.iter().filter_map(|x| if let Op::Enc(b) = x { Some(b.clone()) } else { None }).collect();
            let decs: Vec<Vec<u8>> = ops.iter().filter_map(|x| if let Op::Dec(b) = x { Some(b.clone()) } else { None }).collect();
            ctx.oracle_runs += 1;
            macro_rules! two { ($e:expr, $d:expr, $mk:expr) => {{
                let (mut e, mut d) = ($e, $d);
                let ta = std::thread::spawn(move || { let mut out = Vec::new(); for (i, b) in encs.into_iter().enumerate() { let mut b = b; e.encrypt(&mut b); out.extend(b); if i % 7 == 0 { std::thread::yield_now(); } } (e, out) });
                let tb = std::thread::spawn(move || { let mut out = Vec::new(); for (i, b) in decs.into_iter().enumerate() { let mut b = b; d.decrypt(&mut b); out.extend(b); if i % 5 == 0 { std::thread::yield_now(); } } (d, out) });
                match (ta.join(), tb.join()) { (Ok((e, eo)), Ok((d, dox))) => Some(($mk(e, d), eo, dox)), _ => None }
            }} }
            let threaded: Option<(Obj, Vec<u8>, Vec<u8>)> = match fresh(machine, key).split() {
                Obj::VH(e, d) => two!(e, d, Obj::VH), Obj::TH(e, d) => two!(e, d, Obj::TH),
                Obj::CH(e, d) => two!(e, d, Obj::CH), Obj::SH(e, d) => two!(e, d, Obj::SH), _ => None,
            };
            let det = |what: &str| format!("{{\"what\":\"{}\",\"machine\":{},\"key\":\"{}\",\"round\":{}}}", what, machine, hex(&key), round);
            match (single, threaded) {
                (Some(s), Some((obj, eo, dox))) => if s.enc != eo || s.dec != dox || s.obj != obj { ctx.fail("threads", det("two halves on two threads gave other bytes or another final state than the same calls on one thread")); },
                _ => ctx.fail("panic", det("threaded or single-threaded run panicked")),
            }
            ctx.count("thread_runs");
        }
    }
    ctx.notes.push("the two-thread runs are a test of the ownership argument, not part of the proof: all histories are covered by C12_independent_*, schedules by Rust ownership (see props/C12.v)".to_string());
}

/// the syntactic preconditions of the ownership argument
fn ownership_precondition(ctx: &mut Ctx) {
    let repo = std::env::var("VERIF_REPO").unwrap_or_else(|_| "/repo".to_string());
    let strip = |s: &str| -> String {
        // drop // comments and /* */ comments (no string literal in these modules contains them)
        let mut out = String::new(); let b: Vec<char> = s.chars().collect(); let mut i = 0; let mut depth = 0;
        while i < b.len() {
            if depth == 0 && i + 1 < b.len() && b[i] == '/' && b[i + 1] == '/' { while i < b.len() && b[i] != '\n' { i += 1; } continue; }
            if i + 1 < b.len() && b[i] == '/' && b[i + 1] == '*' { depth += 1; i += 2; continue; }
            if depth > 0 && i + 1 < b.len() && b[i] == '*' && b[i + 1] == '/' { depth -= 1; i += 2; continue; }
            if depth == 0 { out.push(b[i]); }
            i += 1;
        }
        out
    };
    ctx.oracle_runs += 1;
    match std::fs::read_to_string(format!("{}/src/lib.rs", repo)) {
        Ok(s) => if !strip(&s).contains("#![forbid(unsafe_code)]") { ctx.fail("ownership_precondition", "{\"what\":\"#![forbid(unsafe_code)] is no longer present in src/lib.rs\"}".to_string()); },
        Err(_) => ctx.fail("ownership_precondition", "{\"what\":\"src/lib.rs not readable\"}".to_string()),
    }
    let files = ["src/vanilla_header/mod.rs", "src/vanilla_header/encrypt.rs", "src/vanilla_header/decrypt.rs", "src/vanilla_header/internal.rs",
                 "src/tbc_header/mod.rs", "src/tbc_header/encrypt.rs", "src/tbc_header/decrypt.rs",
                 "src/wrath_header/mod.rs", "src/wrath_header/encrypt.rs", "src/wrath_header/decrypt.rs", "src/wrath_header/inner_crypto/mod.rs", "src/rc4.rs"];
    let tokens = ["Cell", "Mutex", "RwLock", "Atomic", "static mut", "thread_local", "unsafe", "lazy_static", "OnceLock", "Rc<", "Arc<"];
    let mut scanned = 0;
    for f in files {
        match std::fs::read_to_string(format!("{}/{}", repo, f)) {
            Ok(s) => { scanned += 1; let code = strip(&s);
                for tk in tokens { if code.contains(tk) { ctx.fail("ownership_precondition", format!("{{\"what\":\"shared or interior-mutable state marker in a header module\",\"file\":\"{}\",\"token\":\"{}\"}}", f, tk)); } } }
            Err(_) => ctx.fail("ownership_precondition", format!("{{\"what\":\"header module source not readable\",\"file\":\"{}\"}}", f)),
        }
    }
    ctx.count_n("ownership_files_scanned", scanned);
    // the halves can be moved to another thread at all (compile-time fact, restated)
    fn assert_send<T: Send + 'static>() {}
    assert_send::<v::EncrypterHalf>(); assert_send::<v::DecrypterHalf>(); assert_send::<t::EncrypterHalf>(); assert_send::<t::DecrypterHalf>();
    assert_send::<w::ClientEncrypterHalf>(); assert_send::<w::ClientDecrypterHalf>(); assert_send::<w::ServerEncrypterHalf>(); assert_send::<w::ServerDecrypterHalf>();
}

/// "split and unsplit lose nothing" also after a transport fault: the same sequence of Write-based header calls,
/// some of them to a writer that refuses, through the combined object and through a half split off an identical
/// object must put the same bytes on the wire and report the same results
fn failed_write_histories(ctx: &mut Ctx) {
    struct Refuse;
    impl std::io::Write for Refuse {
        fn write(&mut self, _b: &[u8]) -> std::io::Result<usize> { Err(std::io::Error::new(std::io::ErrorKind::BrokenPipe, "refused")) }
        fn flush(&mut self) -> std::io::Result<()> { Ok(()) }
    }
    let mut rng = ctx.rng("failed_writes");
    let n = if ctx.quick() { 200 } else { 4000 };
    for k in 0..n {
        let key: [u8; 40] = rng.arr();
        let machine = (k % 4) as u8;                    // 0 vanilla, 1 tbc, 2 wrath client, 3 wrath server
        let items = 2 + rng.range(0, 10) as usize;
        let script: Vec<(bool, u32, u32, bool)> = (0..items).map(|i| (rng.chance(1, 2), rng.range(0, 0x7FFFFF) as u32, rng.next() as u32, i > 0 && rng.chance(1, 3))).collect();
        let sc = script.clone();
        let r = catch(move || {
            let (mut wa, mut wb): (Vec<u8>, Vec<u8>) = (Vec::new(), Vec::new());
            let (mut ra, mut rb): (Vec<bool>, Vec<bool>) = (Vec::new(), Vec::new());
            match machine {
                0 => { let mut c = v_crypto(key); let (mut e, _) = v_crypto(key).split();
                       for (srv, s, o, refuse) in sc.iter() {
                           let (x, y) = match (srv, refuse) {
                               (true, false) => (c.write_encrypted_server_header(&mut wa, *s as u16, *o as u16), e.write_encrypted_server_header(&mut wb, *s as u16, *o as u16)),
                               (true, true) => (c.write_encrypted_server_header(&mut Refuse, *s as u16, *o as u16), e.write_encrypted_server_header(&mut Refuse, *s as u16, *o as u16)),
                               (false, false) => (c.write_encrypted_client_header(&mut wa, *s as u16, *o), e.write_encrypted_client_header(&mut wb, *s as u16, *o)),
                               (false, true) => (c.write_encrypted_client_header(&mut Refuse, *s as u16, *o), e.write_encrypted_client_header(&mut Refuse, *s as u16, *o)),
                           }; ra.push(x.is_ok()); rb.push(y.is_ok()); } }
                1 => { let mut c = t_crypto(key); let (mut e, _) = t_crypto(key).split();
                       for (srv, s, o, refuse) in sc.iter() {
                           let (x, y) = match (srv, refuse) {
                               (true, false) => (c.write_encrypted_server_header(&mut wa, *s as u16, *o as u16), e.write_encrypted_server_header(&mut wb, *s as u16, *o as u16)),
                               (true, true) => (c.write_encrypted_server_header(&mut Refuse, *s as u16, *o as u16), e.write_encrypted_server_header(&mut Refuse, *s as u16, *o as u16)),
                               (false, false) => (c.write_encrypted_client_header(&mut wa, *s as u16, *o), e.write_encrypted_client_header(&mut wb, *s as u16, *o)),
                               (false, true) => (c.write_encrypted_client_header(&mut Refuse, *s as u16, *o), e.write_encrypted_client_header(&mut Refuse, *s as u16, *o)),
                           }; ra.push(x.is_ok()); rb.push(y.is_ok()); } }
                2 => { let mut c = w_client(key); let (mut e, _) = w_client(key).split();
                       for (_, s, o, refuse) in sc.iter() {
                           let (x, y) = if *refuse { (c.write_encrypted_client_header(&mut Refuse, *s as u16, *o), e.write_encrypted_client_header(&mut Refuse, *s as u16, *o)) }
                                        else { (c.write_encrypted_client_header(&mut wa, *s as u16, *o), e.write_encrypted_client_header(&mut wb, *s as u16, *o)) };
                           ra.push(x.is_ok()); rb.push(y.is_ok()); } }
                _ => { let mut c = w_server(key); let (mut e, _) = w_server(key).split();
                       for (_, s, o, refuse) in sc.iter() {
                           let (x, y) = if *refuse { (c.write_encrypted_server_header(&mut Refuse, *s, *o as u16), e.write_encrypted_server_header(&mut Refuse, *s, *o as u16)) }
                                        else { (c.write_encrypted_server_header(&mut wa, *s, *o as u16), e.write_encrypted_server_header(&mut wb, *s, *o as u16)) };
                           ra.push(x.is_ok()); rb.push(y.is_ok()); } }
            }
            (wa, wb, ra, rb)
        });
        ctx.oracle_runs += 1;
        let sj: Vec<String> = script.iter().map(|(srv, s, o, rf)| format!("{{\"{}\":[{},{}],\"writer_refuses\":{}}}", if *srv { "server_header" } else { "client_header" }, s, o, rf)).collect();
        let det = |what: &str| format!("{{\"what\":\"{}\",\"machine\":{},\"key\":\"{}\",\"script\":[{}]}}", what, machine, hex(&key), sj.join(","));
        match r {
            None => ctx.fail("panic", det("panic while writing headers to a writer that sometimes refuses")),
            Some((wa, wb, ra, rb)) => {
                if ra != rb { ctx.fail("split_failed_write", det("combined object and split half report different results for the same writes")); }
                else if wa != wb { ctx.fail("split_failed_write", det("after a refused write the combined object and a half split off an identical object put different bytes on the wire")); }
            }
        }
    }
    ctx.count("oracle:failed-write histories, combined vs split");
}

/// the receive direction over a transport that hands the bytes over in fragments: the Read-based header calls of
/// the combined object and of a half split off an identical object must return the same headers (or the same
/// error kind), consume the same bytes and stay in step
fn fragmented_read_histories(ctx: &mut Ctx) {
    use crate::c11::{fragments, ScriptedReader};
    let mut rng = ctx.rng("fragmented_reads");
    let n = if ctx.quick() { 200 } else { 4000 };
    for k in 0..n {
        let key: [u8; 40] = rng.arr();
        let machine = (k % 4) as u8;                    // 0 vanilla, 1 tbc, 2 wrath client (reads server headers), 3 wrath server (reads client headers)
        let items = 1 + rng.range(0, 8) as usize;
        let script: Vec<(bool, u32, u32)> = (0..items).map(|_| (rng.chance(1, 2), match rng.range(0, 4) { 0 => 0x7FFF, 1 => 0x8000, 2 => rng.range(0x8000, 0x7FFFFF) as u32, _ => crate::c11::edge_size(&mut rng, false) }, rng.next() as u32)).collect();
        let style = (k / 4) as u64 % 4;
        let truncate = k % 11 == 0;
        let sc = script.clone();
        let mut frag_rng = Rng::new(ctx.seed, &format!("C12FRAG/{}", k));
        let r = catch(move || {
            // the sender: the peer's encrypter
            let mut wire: Vec<u8> = Vec::new();
            match machine {
                0 => { let (mut e, _) = v_crypto(key).split(); for (srv, s, o) in sc.iter() { if *srv { wire.extend_from_slice(&e.encrypt_server_header(*s as u16, *o as u16)); } else { wire.extend_from_slice(&e.encrypt_client_header(*s as u16, *o)); } } }
                1 => { let (mut e, _) = t_crypto(key).split(); for (srv, s, o) in sc.iter() { if *srv { wire.extend_from_slice(&e.encrypt_server_header(*s as u16, *o as u16)); } else { wire.extend_from_slice(&e.encrypt_client_header(*s as u16, *o)); } } }
                2 => { let (mut e, _) = w_server(key).split(); for (_, s, o) in sc.iter() { wire.extend_from_slice(e.encrypt_server_header(*s, *o as u16)); } }
                _ => { let (mut e, _) = w_client(key).split(); for (_, s, o) in sc.iter() { wire.extend_from_slice(&e.encrypt_client_header(*s as u16, *o)); } }
            }
            if truncate && !wire.is_empty() { let cut = wire.len() - 1 - (wire.len() / 3); wire.truncate(cut); }
            let ev = fragments(&mut frag_rng, &wire, style);
            let (mut ra, mut rb) = (ScriptedReader::new(&ev), ScriptedReader::new(&ev));
            let (mut a, mut b): (Vec<String>, Vec<String>) = (Vec::new(), Vec::new());
            let show = |r: std::io::Result<(u32, u32)>| match r { Ok(h) => format!("{:?}", h), Err(e) => format!("error {:?}", e.kind()) };
            match machine {
                0 => { let mut c = v_crypto(key); let (_, mut d) = v_crypto(key).split();
                       for (srv, _, _) in sc.iter() { if *srv { a.push(show(c.read_and_decrypt_server_header(&mut ra).map(|h| (h.size as u32, h.opcode as u32)))); b.push(show(d.read_and_decrypt_server_header(&mut rb).map(|h| (h.size as u32, h.opcode as u32)))); }
                                                      else { a.push(show(c.read_and_decrypt_client_header(&mut ra).map(|h| (h.size as u32, h.opcode)))); b.push(show(d.read_and_decrypt_client_header(&mut rb).map(|h| (h.size as u32, h.opcode)))); } } }
                1 => { let mut c = t_crypto(key); let (_, mut d) = t_crypto(key).split();
                       for (srv, _, _) in sc.iter() { if *srv { a.push(show(c.read_and_decrypt_server_header(&mut ra).map(|h| (h.size as u32, h.opcode as u32)))); b.push(show(d.read_and_decrypt_server_header(&mut rb).map(|h| (h.size as u32, h.opcode as u32)))); }
                                                      else { a.push(show(c.read_and_decrypt_client_header(&mut ra).map(|h| (h.size as u32, h.opcode)))); b.push(show(d.read_and_decrypt_client_header(&mut rb).map(|h| (h.size as u32, h.opcode)))); } } }
                2 => { let mut c = w_client(key); let (_, mut d) = w_client(key).split();
                       for _ in sc.iter() { a.push(show(c.read_and_decrypt_server_header(&mut ra).map(|h| (h.size, h.opcode as u32)))); b.push(show(d.read_and_decrypt_server_header(&mut rb).map(|h| (h.size, h.opcode as u32)))); } }
                _ => { let mut c = w_server(key); let (_, mut d) = w_server(key).split();
                       for _ in sc.iter() { a.push(show(c.read_and_decrypt_client_header(&mut ra).map(|h| (h.size as u32, h.opcode)))); b.push(show(d.read_and_decrypt_client_header(&mut rb).map(|h| (h.size as u32, h.opcode)))); } }
            }
            (a, b, ra.left(), rb.left())
        });
        ctx.oracle_runs += 1;
        let sj: Vec<String> = script.iter().map(|(srv, s, o)| format!("{{\"{}\":[{},{}]}}", if *srv { "server_header" } else { "client_header" }, s, o)).collect();
        let det = |what: &str| format!("{{\"what\":\"{}\",\"machine\":{},\"key\":\"{}\",\"fragment_style\":{},\"stream_truncated\":{},\"script\":[{}]}}", what, machine, hex(&key), style, truncate, sj.join(","));
        match r {
            None => ctx.fail("panic", det("panic while reading headers from a fragmenting transport")),
            Some((a, b, la, lb)) => {
                if a != b { let at = a.iter().zip(b.iter()).position(|(x, y)| x != y).unwrap_or(0); ctx.fail("split_fragmented_read", det(&format!("header {} read through the combined object ({}) differs from the same read through a split half ({})", at, a[at], b[at]))); }
                else if la != lb { ctx.fail("split_fragmented_read", det(&format!("the combined object left {} bytes unread, the split half {}", la, lb))); }
            }
        }
    }
    ctx.count("oracle:fragmented-read histories, combined vs split");
}

pub fn run(ctx: &mut Ctx) {
    histories(ctx);
    failed_write_histories(ctx);
    fragmented_read_histories(ctx);
    // typed traffic through a receive buffer, split half and combined object side by side (c11::typed_traffic)
    { let n = if ctx.quick() { 200 } else { 2000 }; for m in 0..3 { crate::c11::typed_traffic(ctx, m, n); } }
    unsplit_cases(ctx);
    threads(ctx);
    ownership_precondition(ctx);
    let _ = (obs_tc as fn(&t::HeaderCrypto) -> Vec<u8>, obs_wcc as fn(&w::ClientCrypto) -> Vec<u8>, obs_wsc as fn(&w::ServerCrypto) -> Vec<u8>);
}
