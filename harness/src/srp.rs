//! Shared SRP helpers: tape-driven logins through the public API, class search through the hooks.
use crate::ctx::*;
use sha1::{Digest, Sha1};
use wow_srp::client::{SrpClient, SrpClientChallenge};
use wow_srp::normalized_string::NormalizedString;
use wow_srp::server::{SrpProof, SrpServer, SrpVerifier};
use wow_srp::verif_hooks::internals as hk;
use wow_srp::verif_hooks::rand as vr;
use wow_srp::{PublicKey, GENERATOR, LARGE_SAFE_PRIME_LITTLE_ENDIAN as NLE};

pub fn sha(parts: &[&[u8]]) -> [u8; 20] {
    let mut h = Sha1::new();
    for p in parts { h.update(p); }
    h.finalize().into()
}
pub fn ns(s: &str) -> NormalizedString { NormalizedString::new(s).unwrap() }

pub const PRINTABLE: &[u8] = b" !\"#$%&'()*+,-./0123456789:;<=>?@ABCDEFGHIJKLMNOPQRSTUVWXYZ[\\]^_`abcdefghijklmnopqrstuvwxyz{|}~";
pub fn rand_cred(rng: &mut Rng, len: usize) -> String {
    (0..len).map(|_| *rng.pick(PRINTABLE) as char).collect()
}
pub fn flip_case(rng: &mut Rng, s: &str) -> String {
    s.chars().map(|c| if rng.chance(1, 2) { if c.is_ascii_lowercase() { c.to_ascii_uppercase() } else { c.to_ascii_lowercase() } } else { c }).collect()
}

pub struct Login {
    pub u: String, pub p: String, pub tape: Vec<u8>,
    pub v: [u8; 32], pub salt: [u8; 32], pub b_pub: [u8; 32], pub a_pub: [u8; 32],
    pub m1: [u8; 20], pub m2: [u8; 20], pub ks: [u8; 40], pub kc: [u8; 40], pub chal: [u8; 16],
    pub server: SrpServer, pub client: SrpClient, pub unused_tape: usize,
}
#[derive(Debug)]
pub enum LoginFail { Panic(&'static str), ServerRefused, ClientRefused, BadOwnKey }

/// the whole exchange through the public API with the tape installed: registration (32 bytes),
/// export + re-import, into_proof (32), client (32), into_server (16).  `cu`, `cp` are what the
/// client types (case variants).
pub fn login(u: &str, p: &str, cu: &str, cp: &str, tape: &[u8]) -> Result<Login, LoginFail> {
    // the bytes the pinned implementation draws, followed by filler: an implementation that draws more (in other
    // portions, say) must still get through a login here - how much is drawn, and where, is C15's business
    const FILL: usize = 512;
    let mut full = tape.to_vec();
    full.extend((0..FILL).map(|i| (i as u8).wrapping_mul(167) ^ 0x5c ^ tape.get(i % tape.len().max(1)).copied().unwrap_or(0)));
    vr::install_tape(&full);
    let r = (|| {
        let acct = catch(|| SrpVerifier::from_username_and_password(ns(u), ns(p))).ok_or(LoginFail::Panic("register"))?;
        let (name, v, salt) = (acct.username().to_string(), *acct.password_verifier(), *acct.salt());
        let acct2 = SrpVerifier::from_database_values(ns(&name), v, salt);
        let proof = catch(|| acct2.into_proof()).ok_or(LoginFail::BadOwnKey)?;
        let b_pub = *proof.server_public_key();
        let psalt = *proof.salt();
        let spk = PublicKey::from_le_bytes(b_pub).map_err(|_| LoginFail::BadOwnKey)?;
        let cl = catch(|| SrpClientChallenge::new(ns(cu), ns(cp), GENERATOR, NLE, spk, psalt)).ok_or(LoginFail::Panic("client new"))?;
        let a_pub = *cl.client_public_key();
        let m1 = *cl.client_proof();
        let apk = PublicKey::from_le_bytes(a_pub).map_err(|_| LoginFail::ServerRefused)?;
        let (server, m2) = catch(|| proof.into_server(apk, m1)).ok_or(LoginFail::Panic("into_server"))?.map_err(|_| LoginFail::ServerRefused)?;
        let client = catch(|| cl.verify_server_proof(m2)).ok_or(LoginFail::Panic("verify_server_proof"))?.map_err(|_| LoginFail::ClientRefused)?;
        Ok((v, salt, b_pub, a_pub, m1, m2, server, client))
    })();
    let rest = vr::remove_tape();
    vr::take_log();
    let (v, salt, b_pub, a_pub, m1, m2, server, client) = r?;
    Ok(Login { u: u.to_string(), p: p.to_string(), tape: tape.to_vec(), v, salt, b_pub, a_pub, m1, m2,
               ks: *server.session_key(), kc: *client.session_key(), chal: *server.reconnect_challenge_data(), server, client, unused_tape: rest.len().saturating_sub(FILL) })
}

/// the server's secret S for a session, recomputed through the guarded internals
pub fn secret_of(l: &Login) -> Option<[u8; 32]> {
    let u = sha(&[&l.a_pub, &l.b_pub]);
    let mut b = [0u8; 32]; b.copy_from_slice(&l.tape[32..64]);
    hk::calculate_s(l.a_pub, l.v, u, b)
}

/// search tapes (salt, b and a varied) until `pred` holds on the session; None after `max` tries.
/// Every tried tape is an honest login, so any failure is reported into `fails`.
pub fn search_login(rng: &mut Rng, u: &str, p: &str, max: usize, fails: &mut Vec<String>, pred: impl Fn(&Login, &[u8; 32]) -> bool) -> Option<Login> {
    for _ in 0..max {
        let tape = rng.bytes(32 + 32 + 32 + 16);
        match login(u, p, u, p, &tape) {
            Ok(l) => {
                if l.ks != l.kc { fails.push(format!("{{\"user\":{},\"password\":{},\"tape\":\"{}\",\"error\":\"keys differ\"}}", jstr(u), jstr(p), hex(&tape))); }
                if let Some(s) = secret_of(&l) { if pred(&l, &s) { return Some(l); } }
            }
            Err(LoginFail::BadOwnKey) => {}
            Err(e) => { if fails.len() < 20 { fails.push(format!("{{\"user\":{},\"password\":{},\"tape\":\"{}\",\"error\":{}}}", jstr(u), jstr(p), hex(&tape), jstr(&format!("{:?}", e)))); } }
        }
    }
    None
}

pub fn le_lt(a: &[u8; 32], b: &[u8; 32]) -> bool {
    for i in (0..32).rev() { if a[i] != b[i] { return a[i] < b[i]; } }
    false
}

pub fn flip(v: &[u8], bit: usize) -> Vec<u8> { let mut o = v.to_vec(); o[bit / 8] ^= 1 << (bit % 8); o }

/// emit the op-1 correspondence case (full login through the model) for a session
pub fn emit_login_case(ctx: &mut Ctx, label: &str, l: &Login) {
    let un = ns(&l.u); let pn = ns(&l.p);
    ctx.case(1, label, &[un.as_ref().as_bytes(), pn.as_ref().as_bytes(), &l.tape[..112]],
             &[&[0], &l.v, &l.b_pub, &l.a_pub, &l.m1, &l.m2, &l.ks, &l.kc, &l.chal]);
}

pub fn primes_le() -> Vec<[u8; 32]> {
    let hexes = ["03", "05", "07", "fb", "010001", "7fffffff", "8bb7e39ad855d493", "c9840be091844cb2430e8ef89b97497b",
                 "57dafe2c4a23a2e2ca8e134ce4ca77196a1cd030255ae9e76cac13be2788aeb3",
                 "ffffffffffffffffffffffffffffffffffffffffffffffffffffffffffffff43"];
    let mut out = vec![NLE];
    for h in hexes {
        let mut be: Vec<u8> = (0..h.len() / 2).map(|i| u8::from_str_radix(&h[2 * i..2 * i + 2], 16).unwrap()).collect();
        be.reverse();
        let mut a = [0u8; 32]; a[..be.len()].copy_from_slice(&be);
        out.push(a);
    }
    out
}

/// run `f(thread index)` on `n` threads and concatenate the results
pub fn par<T: Send>(n: usize, f: impl Fn(usize) -> T + Sync) -> Vec<T> {
    std::thread::scope(|s| {
        let hs: Vec<_> = (0..n).map(|i| { let f = &f; s.spawn(move || f(i)) }).collect();
        hs.into_iter().map(|h| h.join().unwrap()).collect()
    })
}
pub fn proof_clone(p: &SrpProof) -> SrpProof { p.clone() }

/// independent HMAC-SHA1 (RFC 2104) on top of the sha1 crate
pub fn hmac_sha1(key: &[u8], msg: &[u8]) -> [u8; 20] {
    let mut k = [0u8; 64];
    if key.len() > 64 { k[..20].copy_from_slice(&sha(&[key])); } else { k[..key.len()].copy_from_slice(key); }
    let ipad: Vec<u8> = k.iter().map(|b| b ^ 0x36).collect();
    let opad: Vec<u8> = k.iter().map(|b| b ^ 0x5c).collect();
    let inner = sha(&[&ipad, msg]);
    sha(&[&opad, &inner])
}

// ------------------------------------------------------------------------------------------------
// Textbook WoW-SRP6 values computed independently of wow_srp's own formulas (num-bigint used
// directly + the sha1 crate).  Used only by implementation-level oracles to SEARCH for failing
// inputs on large samples; the deciding specification is the Coq one.
use num_bigint::{BigInt, Sign};
pub fn bi(le: &[u8]) -> BigInt { BigInt::from_bytes_le(Sign::Plus, le) }
pub fn le32b(x: &BigInt) -> [u8; 32] {
    let (_, b) = x.to_bytes_le();
    let mut o = [0u8; 32];
    let n = b.len().min(32);
    o[..n].copy_from_slice(&b[..n]);
    o
}
pub fn modp(x: &BigInt, n: &BigInt) -> BigInt { let r = x % n; if r.sign() == Sign::Minus { r + n } else { r } }
pub fn spec_x(u: &[u8], p: &[u8], salt: &[u8]) -> [u8; 20] { let h = sha(&[u, b":", p]); sha(&[salt, &h]) }
pub fn spec_interleave(s: &[u8; 32]) -> [u8; 40] {
    let mut t: &[u8] = &s[..];
    while !t.is_empty() && t[0] == 0 { t = &t[1..]; }
    if t.len() % 2 == 1 { t = &t[1..]; }
    let e: Vec<u8> = t.iter().step_by(2).copied().collect();
    let o: Vec<u8> = t.iter().skip(1).step_by(2).copied().collect();
    let (g, h) = (sha(&[&e]), sha(&[&o]));
    let mut k = [0u8; 40];
    for i in 0..20 { k[2 * i] = g[i]; k[2 * i + 1] = h[i]; }
    k
}
pub fn spec_m1(g: u8, n_le: &[u8; 32], u: &[u8], salt: &[u8], a: &[u8], b: &[u8], k: &[u8]) -> [u8; 20] {
    let hn = sha(&[n_le]); let hg = sha(&[&[g]]);
    let x: Vec<u8> = hn.iter().zip(hg.iter()).map(|(p, q)| p ^ q).collect();
    let hu = sha(&[u]);
    sha(&[&x, &hu, salt, a, b, k])
}
pub struct SpecSession { pub v: [u8; 32], pub b_pub: [u8; 32], pub a_pub: [u8; 32], pub s: [u8; 32], pub k: [u8; 40], pub m1: [u8; 20], pub m2: [u8; 20] }
/// all handshake values from (U, P, salt, b, a) under the group (g, n)
pub fn spec_session(u: &[u8], p: &[u8], salt: &[u8], b: &[u8], a: &[u8], g: u8, n_le: &[u8; 32]) -> SpecSession {
    let n = bi(n_le); let gz = BigInt::from(g); let k3 = BigInt::from(3);
    let x = bi(&spec_x(u, p, salt));
    let v = gz.modpow(&x, &n);
    let bz = modp(&(&k3 * &v + gz.modpow(&bi(b), &n)), &n);
    let az = gz.modpow(&bi(a), &n);
    let (a_pub, b_pub) = (le32b(&az), le32b(&bz));
    let uz = bi(&sha(&[&a_pub, &b_pub]));
    let s = modp(&(&bz - &k3 * &v), &n).modpow(&(bi(a) + &uz * &x), &n);
    let s = le32b(&s);
    let k = spec_interleave(&s);
    let m1 = spec_m1(g, n_le, u, salt, &a_pub, &b_pub, &k);
    let m2 = sha(&[&a_pub, &m1, &k]);
    SpecSession { v: le32b(&v), b_pub, a_pub, s, k, m1, m2 }
}

/// Search, with the textbook arithmetic only (independent of wow_srp), for a client private key `a`
/// such that the session secret S of (user, password, salt, b, a) satisfies `pred`; 16 threads.
/// Returns the 112-byte tape (salt | b | a | challenge) of the first hit.
pub fn search_secret_shape(seed: u64, tag: &str, u: &str, p: &str, tries_per_thread: usize, pred: impl Fn(&[u8; 32]) -> bool + Sync) -> Option<Vec<u8>> {
    let mut r0 = Rng::new(seed, &format!("{}/base", tag));
    let salt = r0.bytes(32); let b = r0.bytes(32); let chal = r0.bytes(16);
    let (un, pn) = (ns(u), ns(p));
    let n = bi(&NLE); let gz = BigInt::from(GENERATOR); let k3 = BigInt::from(3);
    let x = bi(&spec_x(un.as_ref().as_bytes(), pn.as_ref().as_bytes(), &salt));
    let v = gz.modpow(&x, &n);
    let bz = bi(&b);
    let b_pub = le32b(&modp(&(&k3 * &v + gz.modpow(&bz, &n)), &n));
    let stop = std::sync::atomic::AtomicBool::new(false);
    let hits = par(16, |t| {
        let mut r = Rng::new(seed, &format!("{}/{}", tag, t));
        for _ in 0..tries_per_thread {
            if stop.load(std::sync::atomic::Ordering::Relaxed) { return None; }
            let a = r.bytes(32);
            let az = gz.modpow(&bi(&a), &n);
            if az.sign() == Sign::NoSign { continue; }
            let a_pub = le32b(&az);
            let uz = bi(&sha(&[&a_pub, &b_pub]));
            let s = le32b(&(&az * v.modpow(&uz, &n) % &n).modpow(&bz, &n));
            if pred(&s) { stop.store(true, std::sync::atomic::Ordering::Relaxed); return Some(a); }
        }
        None
    });
    let a = hits.into_iter().flatten().next()?;
    let mut tape = salt.clone(); tape.extend_from_slice(&b); tape.extend_from_slice(&a); tape.extend_from_slice(&chal);
    Some(tape)
}
