//! C02: wrong credentials or any altered handshake value are rejected.
use crate::c03::client_api;
use crate::ctx::*;
use crate::srp::*;
use wow_srp::server::SrpVerifier;
use wow_srp::verif_hooks::rand as vr;
use wow_srp::{PublicKey, GENERATOR, LARGE_SAFE_PRIME_LITTLE_ENDIAN as NLE};

/// server with stored values: into_proof with injected b, then into_server for each presented proof
/// (fresh 16-byte tape each time).  Returns the op-4 output encoding.
pub fn server_api(u: &str, v: [u8; 32], salt: [u8; 32], b: &[u8], a_pub: [u8; 32], ms: &[[u8; 20]], chal: &[u8]) -> Vec<Vec<u8>> {
    vr::install_tape(b);
    let pr = catch(|| SrpVerifier::from_database_values(ns(u), v, salt).into_proof());
    vr::remove_tape(); vr::take_log();
    let pr = match pr { Some(p) => p, None => return vec![vec![2]] };
    let apk = match PublicKey::from_le_bytes(a_pub) { Ok(k) => k, Err(_) => return vec![vec![1, 9]] };
    let mut enc = Vec::new();
    for m in ms {
        vr::install_tape(chal);
        let r = catch(|| pr.clone().into_server(apk, *m));
        vr::remove_tape(); vr::take_log();
        match r {
            None => enc.push(2),
            Some(Ok((srv, m2))) => { enc.push(0); enc.extend_from_slice(&m2); enc.extend_from_slice(srv.session_key()); enc.extend_from_slice(srv.reconnect_challenge_data()); }
            Some(Err(e)) => { enc.push(1); enc.extend_from_slice(&e.client_proof); enc.extend_from_slice(&e.server_proof); }
        }
    }
    vec![vec![0], pr.server_public_key().to_vec(), enc]
}
fn emit_server(ctx: &mut Ctx, label: &str, u: &str, v: [u8; 32], salt: [u8; 32], b: &[u8], a_pub: [u8; 32], ms: &[[u8; 20]], chal: &[u8]) -> Vec<Vec<u8>> {
    let out = server_api(u, v, salt, b, a_pub, ms, chal);
    let un = ns(u);
    let msc: Vec<u8> = ms.iter().flat_map(|m| m.iter().copied()).collect();
    let o: Vec<&[u8]> = out.iter().map(|x| x.as_slice()).collect();
    ctx.case(4, label, &[un.as_ref().as_bytes(), &v, &salt, b, &a_pub, &msc, chal], &o);
    out
}
fn emit_client(ctx: &mut Ctx, label: &str, u: &str, p: &str, b_pub: [u8; 32], salt: [u8; 32], a: &[u8], m2s: &[[u8; 20]]) -> Option<Vec<Vec<u8>>> {
    let out = client_api(u, p, GENERATOR, NLE, b_pub, salt, a, m2s)?;
    let (un, pn) = (ns(u), ns(p));
    let msc: Vec<u8> = m2s.iter().flat_map(|m| m.iter().copied()).collect();
    let o: Vec<&[u8]> = out.iter().map(|x| x.as_slice()).collect();
    ctx.case(3, label, &[un.as_ref().as_bytes(), pn.as_ref().as_bytes(), &[GENERATOR], &NLE, &b_pub, &salt, a, &msc], &o);
    Some(out)
}
fn arr20(v: &[u8]) -> [u8; 20] { let mut a = [0u8; 20]; a.copy_from_slice(v); a }
fn arr32(v: &[u8]) -> [u8; 32] { let mut a = [0u8; 32]; a.copy_from_slice(v); a }

pub fn run(ctx: &mut Ctx) {
    let mut rng = ctx.rng("corr");
    let n_sessions = if ctx.quick() { 10 } else { 80 };
    for k in 0..n_sessions {
        let (u, p) = (rand_cred(&mut rng, 1 + (k * 5) % 16), rand_cred(&mut rng, 16 - (k * 3) % 16));
        let tape = rng.bytes(112);
        let l = match login(&u, &p, &u, &p, &tape) { Ok(l) => l, Err(_) => continue };
        let (b, a, chal) = (&tape[32..64], &tape[64..96], &tape[96..112]);
        // server: the accepted proof and its single-bit changes in ONE batched case (K computed once in the model)
        let nflip = if ctx.quick() { 40 } else { 160 };
        let mut ms = vec![l.m1];
        for j in 0..nflip { ms.push(arr20(&flip(&l.m1, if ctx.quick() { (j * 4 + k) % 160 } else { j }))); }
        ms.push([0u8; 20]); ms.push([0xff; 20]);
        let mut pre = l.m1; pre[19] ^= 0x80; ms.push(pre); // differs only in the very last bit
        for (w, _) in near_misses(&mut rng, &l.m1) { ms.push(arr20(&w)); }
        emit_server(ctx, "server: accepted M1 + bit flips (batch)", &u, l.v, l.salt, b, l.a_pub, &ms, chal);
        // client: the accepted M2 and its single-bit changes
        let mut m2s = vec![l.m2];
        for j in 0..nflip { m2s.push(arr20(&flip(&l.m2, if ctx.quick() { (j * 4 + k + 1) % 160 } else { j }))); }
        for (w, _) in near_misses(&mut rng, &l.m2) { m2s.push(arr20(&w)); }
        emit_client(ctx, "client: accepted M2 + bit flips (batch)", &u, &p, l.b_pub, l.salt, a, &m2s);
        // altered A: the server must refuse the honest M1
        let bit = rng.below(256) as usize;
        emit_server(ctx, "server: A with one bit changed", &u, l.v, l.salt, b, arr32(&flip(&l.a_pub, bit)), &[l.m1], chal);
        // non-canonical encodings: A + N and B + N are different 32-byte keys that are congruent to the
        // honest ones; the proofs bind the exchanged BYTES, so the honest M1 must be refused with A + N
        let nz = bi(&NLE);
        let a_plus = bi(&l.a_pub) + &nz;
        if a_plus < (num_bigint::BigInt::from(1) << 256) {
            let ap = le32b(&a_plus);
            let out = emit_server(ctx, "server: A + N (non-canonical) with the honest M1", &u, l.v, l.salt, b, ap, &[l.m1, rng.arr()], chal);
            if out.len() == 3 && out[2][0] == 0 { ctx.fail("rejection", format!("{{\"what\":\"server accepted the honest proof together with the altered public key A + N\",\"user\":{},\"password\":{},\"tape\":\"{}\",\"A_plus_N\":\"{}\"}}", jstr(&u), jstr(&p), hex(&tape), hex(&ap))); }
        }
        let b_plus = bi(&l.b_pub) + &nz;
        if b_plus < (num_bigint::BigInt::from(1) << 256) {
            let bp = le32b(&b_plus);
            if let Some(out) = emit_client(ctx, "client: B + N (non-canonical)", &u, &p, bp, l.salt, a, &[l.m2]) {
                if out.len() > 2 && out[2] == l.m1.to_vec() { ctx.fail("rejection", format!("{{\"what\":\"client proof does not depend on the exchanged bytes of B (B + N gives the same M1)\",\"user\":{},\"password\":{},\"tape\":\"{}\"}}", jstr(&u), jstr(&p), hex(&tape))); }
            }
        }
        let big_a: [u8; 32] = { let mut x: [u8; 32] = rng.arr(); x[31] |= 0xC0; x };   // certainly >= N
        emit_server(ctx, "server: random A >= N", &u, l.v, l.salt, b, big_a, &[rng.arr()], chal);
        // values of the exchange fed back where another value belongs: A = B (the server's own key mirrored),
        // A = the salt, A = the stored verifier; each must be refused with the proof determined by THESE inputs
        emit_server(ctx, "server: A = B (the server's own public key mirrored back)", &u, l.v, l.salt, b, l.b_pub, &[l.m1, rng.arr(), [0u8; 20]], chal);
        emit_server(ctx, "server: A = the salt", &u, l.v, l.salt, b, l.salt, &[l.m1], chal);
        emit_server(ctx, "server: A = the stored verifier", &u, l.v, l.salt, b, l.v, &[l.m1], chal);
        // altered salt / B / credentials on the client: its proof must be refused by the server
        let variants: Vec<(&str, String, String, [u8; 32], [u8; 32])> = vec![
            ("salt bit changed", u.clone(), p.clone(), l.b_pub, arr32(&flip(&l.salt, rng.below(256) as usize))),
            ("B bit changed", u.clone(), p.clone(), arr32(&flip(&l.b_pub, rng.below(255) as usize)), l.salt),
            ("other password", u.clone(), format!("{}!", &p[..p.len().min(15)]), l.b_pub, l.salt),
            ("other username", format!("{}_", &u[..u.len().min(15)]), p.clone(), l.b_pub, l.salt),
            ("case-only change (must still be accepted)", u.to_ascii_lowercase(), p.to_ascii_uppercase(), l.b_pub, l.salt),
        ];
        for (label, cu, cp, bp, cs) in variants {
            if let Some(out) = emit_client(ctx, &format!("client: {}", label), &cu, &cp, bp, cs, a, &[]) {
                if out.len() > 2 { emit_server(ctx, &format!("server: proof from client with {}", label), &u, l.v, l.salt, b, l.a_pub, &[arr20(&out[2])], chal); }
            }
        }
        if k == 0 { ctx.sample(format!("session user={:?} tape={} : M1 accepted, 40 single-bit flips of M1 and of M2, A/B/salt bit flips, other password/username, case-only change", u, hex(&tape))); }
    }

    // ---- credentials as typed (any case, letters next to the characters that surround the ASCII letter ranges):
    // "the real credentials" are the upper-cased TEXT, so every value of the exchange must be the textbook value
    // for Rust's own `to_ascii_uppercase` of what was typed - computed here without the crate's normalisation
    {
        let mut r3 = ctx.rng("typed-credentials");
        const EDGE: &[u8] = b"az{|}~`@[^_AZ09 !/:";
        let gen = |r: &mut Rng, len: usize| -> String { (0..len).map(|_| if r.chance(3, 4) { *r.pick(EDGE) as char } else { *r.pick(PRINTABLE) as char }).collect() };
        for k in 0..(if ctx.quick() { 60 } else { 600 }) {
            let (u, p) = (gen(&mut r3, 1 + (k * 7) % 16), gen(&mut r3, 1 + (k * 11) % 16));
            let tape = r3.bytes(112);
            ctx.oracle_runs += 1;
            let l = match login(&u, &p, &u, &p, &tape) { Ok(l) => l, Err(_) => continue };
            let (uu, pu) = (u.to_ascii_uppercase(), p.to_ascii_uppercase());
            let sp = spec_session(uu.as_bytes(), pu.as_bytes(), &l.salt, &tape[32..64], &tape[64..96], GENERATOR, &NLE);
            if sp.v != l.v || sp.m1 != l.m1 || sp.m2 != l.m2 || sp.k != l.ks || sp.k != l.kc {
                ctx.fail("typed_credentials", format!("{{\"what\":\"verifier / M1 / M2 / K of a completed login are not the values determined by the upper-cased text of the credentials\",\"user\":{},\"password\":{},\"tape\":\"{}\",\"differs\":{}}}",
                    jstr(&u), jstr(&p), hex(&tape), jstr(&format!("v:{} m1:{} m2:{} ks:{} kc:{}", sp.v != l.v, sp.m1 != l.m1, sp.m2 != l.m2, sp.k != l.ks, sp.k != l.kc))));
            }
            // and the server set up from the typed text accepts the textbook proof of the upper-cased text, nothing else
            let un = ns(&u);
            let out = server_api(un.as_ref(), l.v, l.salt, &tape[32..64], sp.a_pub, &[sp.m1], &tape[96..112]);
            if !(out.len() > 2 && out[2].first() == Some(&0u8)) {
                ctx.fail("typed_credentials", format!("{{\"what\":\"the server refuses the proof determined by the upper-cased text of the credentials\",\"user\":{},\"password\":{},\"tape\":\"{}\"}}", jstr(&u), jstr(&p), hex(&tape)));
            }
        }
    }

    // ---- sessions whose secret S has a rare byte shape (found with textbook arithmetic only): the proof
    // the server must accept is the textbook one, whatever the zero bytes of S do to the key derivation
    let shapes: Vec<(&str, usize, Box<dyn Fn(&[u8; 32]) -> bool + Sync>)> = vec![
        ("S = 00 xx ..", 1, Box::new(|s| s[0] == 0 && s[1] != 0)),
        ("S = .. 00 (high byte zero)", 1, Box::new(|s| s[31] == 0)),
        ("S = 00 xx 00 ..", if ctx.quick() { 1 } else { 4 }, Box::new(|s| s[0] == 0 && s[1] != 0 && s[2] == 0)),
        ("S = 00 00 xx ..", if ctx.quick() { 1 } else { 4 }, Box::new(|s| s[0] == 0 && s[1] == 0 && s[2] != 0)),
        ("S = .. 00 00 (two high bytes zero)", if ctx.quick() { 1 } else { 3 }, Box::new(|s| s[31] == 0 && s[30] == 0)),
    ];
    for (si, (label, reps, pred)) in shapes.iter().enumerate() {
        for rep in 0..*reps {
            let (u, p) = (rand_cred(&mut rng, 3 + si), rand_cred(&mut rng, 5 + rep));
            let Some(tape) = search_secret_shape(ctx.seed, &format!("C02/shape/{}/{}", si, rep), &u, &p, 40_000, pred) else { ctx.notes.push(format!("shape search exhausted: {}", label)); continue };
            let (un, pn) = (ns(&u), ns(&p));
            let sp = spec_session(un.as_ref().as_bytes(), pn.as_ref().as_bytes(), &tape[0..32], &tape[32..64], &tape[64..96], GENERATOR, &NLE);
            let (b, a, chal) = (&tape[32..64], &tape[64..96], &tape[96..112]);
            let salt = arr32(&tape[0..32]);
            ctx.count(&format!("shape:{}", label));
            let mut ms = vec![sp.m1];
            for (w, _) in near_misses(&mut rng, &sp.m1) { ms.push(arr20(&w)); }
            if let Ok(l) = login(&u, &p, &u, &p, &tape) { if l.m1 != sp.m1 { ms.push(l.m1); } }
            let out = emit_server(ctx, &format!("server: textbook M1 for a session with {}", label), &u, sp.v, salt, b, sp.a_pub, &ms, chal);
            ctx.oracle_runs += 1;
            let det = |what: &str| format!("{{\"what\":{},\"shape\":{},\"user\":{},\"password\":{},\"tape\":\"{}\",\"S\":\"{}\",\"textbook_M1\":\"{}\"}}", jstr(what), jstr(label), jstr(&u), jstr(&p), hex(&tape), hex(&sp.s), hex(&sp.m1));
            if out.len() == 3 {
                if out[2][0] != 0 { ctx.fail("determined_proof_refused", det("the server refused the proof determined by verifier, salt, username, A and B")); }
                else {
                    let mut pos = 1 + 20 + 40 + 16;
                    for j in 1..ms.len() { if pos < out[2].len() && out[2][pos] == 0 { ctx.fail("other_proof_accepted", det(&format!("the server accepted {} which is not the determined proof", hex(&ms[j])))); pos += 1 + 20 + 40 + 16; } else { pos += 41; } }
                }
            } else { ctx.fail("determined_proof_refused", det("server set-up failed or panicked")); }
            emit_client(ctx, &format!("client: textbook M2 for a session with {}", label), &u, &p, sp.b_pub, salt, a, &[sp.m2, arr20(&flip(&sp.m2, 7))]);
        }
    }

    // ---- process history: what the server expects is determined by (verifier, salt, username, A, B) - not by what
    //      else this process did before.  Between logins the process acts as a CLIENT towards other servers that
    //      announce other groups (other primes, generators 2 / 5 / 7 / ..); then a server step is checked against
    //      the textbook values.  Sequential on purpose: process-wide state is what this looks for
    {
        let mut rng = ctx.rng("process_history");
        let n = if ctx.quick() { 80 } else { 2500 };
        for k in 0..n {
            let (ul, pl) = (rng.range(1, 16) as usize, rng.range(1, 16) as usize);
            let (u, p) = (rand_cred(&mut rng, ul), rand_cred(&mut rng, pl));
            let (salt, b, a, chal): ([u8; 32], Vec<u8>, Vec<u8>, Vec<u8>) = (rng.arr(), rng.bytes(32), rng.bytes(32), rng.bytes(16));
            let sp = spec_session(ns(&u).as_ref().as_bytes(), ns(&p).as_ref().as_bytes(), &salt, &b, &a, GENERATOR, &NLE);
            let mut before: Vec<String> = Vec::new();
            for _ in 0..rng.below(4) {
                let g = *rng.pick(&[2u8, 7, 7, 7, 5, 255, 3]);
                let mut n2: [u8; 32] = if rng.chance(1, 4) { NLE } else { rng.arr() };
                n2[0] |= 1; if n2[31] == 0 { n2[31] = 0x80; }
                let mut bp: [u8; 32] = rng.arr(); bp[31] = 0;            // below any modulus with a non-zero top byte
                let (ou, op) = (rand_cred(&mut rng, 3), rand_cred(&mut rng, 3));
                let osalt: [u8; 32] = rng.arr(); let oa = rng.bytes(32);
                let _ = client_api(&ou, &op, g, n2, bp, osalt, &oa, &[]);
                before.push(format!("{{\"client_challenge_under\":{{\"g\":{},\"N\":\"{}\"}}}}", g, hex(&n2)));
            }
            let wrong = arr20(&flip(&sp.m1, (k * 7) % 160));
            let out = server_api(&u, sp.v, salt, &b, sp.a_pub, &[sp.m1, wrong], &chal);
            ctx.oracle_runs += 2;
            let det = |what: &str| format!("{{\"what\":\"{}\",\"user\":{},\"password\":{},\"salt\":\"{}\",\"b\":\"{}\",\"a\":\"{}\",\"activity_before\":[{}]}}", what, jstr(&u), jstr(&p), hex(&salt), hex(&b), hex(&a), before.join(","));
            if out.len() != 3 { ctx.count("process_history:degenerate keys skipped"); continue; }
            let enc = &out[2];
            if out[1] != sp.b_pub.to_vec() { ctx.fail("process_history", det("the server's public key is not 3v + g^b mod N")); continue; }
            if enc[0] != 0 { ctx.fail("process_history", det("the server refused the proof that verifier, salt, username, A and B determine")); continue; }
            if enc[1..21] != sp.m2[..] || enc[21..61] != sp.k[..] { ctx.fail("process_history", det("accepted, but the server's proof or session key is not the determined one")); continue; }
            let rest = &enc[77..];
            if rest[0] != 1 { ctx.fail("process_history", det("the server accepted a proof with one bit flipped")); }
            else if rest[1..21] != wrong[..] || rest[21..41] != sp.m1[..] { ctx.fail("process_history", det("the error does not carry (presented proof, determined proof)")); }
            ctx.count(&format!("process_history:client_challenges_before={}", before.len()));
        }
    }
    // ---- implementation-only oracle ----
    let per_thread = if ctx.quick() { 12 } else { 800 };
    let seed = ctx.seed;
    let res = par(16, |t| {
        let mut rng = Rng::new(seed, &format!("C02/oracle/{}", t));
        let mut fails = Vec::new(); let mut runs = 0u64;
        for _ in 0..per_thread {
            let (ul, pl) = (rng.range(1, 16) as usize, rng.range(1, 16) as usize);
            let (u, p) = (rand_cred(&mut rng, ul), rand_cred(&mut rng, pl));
            let tape = rng.bytes(112);
            let l = match login(&u, &p, &u, &p, &tape) { Ok(l) => l, Err(_) => continue };
            let (b, a, chal) = (&tape[32..64], &tape[64..96], &tape[96..112]);
            let det = |what: String| format!("{{\"what\":{},\"user\":{},\"password\":{},\"tape\":\"{}\"}}", jstr(&what), jstr(&u), jstr(&p), hex(&tape));
            // all 160 flips of M1 on the server, payload must be (presented, expected)
            let mut ms = vec![l.m1]; for j in 0..160 { ms.push(arr20(&flip(&l.m1, j))); }
            let mut why: Vec<String> = (0..161).map(|j: usize| if j == 0 { String::new() } else { format!("bit {} flipped", j - 1) }).collect();
            for (w, lab) in near_misses(&mut rng, &l.m1) { ms.push(arr20(&w)); why.push(format!("{} ({})", lab, hex(&w))); }
            let out = server_api(&u, l.v, l.salt, b, l.a_pub, &ms, chal);
            runs += ms.len() as u64;
            if out.len() == 3 {
                let enc = &out[2]; let mut pos = 0;
                for (j, m) in ms.iter().enumerate() {
                    if enc[pos] == 0 { if j != 0 { fails.push(det(format!("server accepted M1 with {}", why[j]))); } pos += 1 + 20 + 40 + 16; }
                    else if enc[pos] == 1 { if j == 0 { fails.push(det("server refused the honest M1".into())); } else if enc[pos + 1..pos + 21] != m[..] || enc[pos + 21..pos + 41] != l.m1[..] { fails.push(det(format!("error payload wrong for M1 with {}", why[j]))); } pos += 41; }
                    else { fails.push(det("server panicked".into())); pos += 1; }
                }
            } else { fails.push(det("server setup failed".into())); }
            // all 160 flips of M2 on the client
            let mut m2s = vec![l.m2]; for j in 0..160 { m2s.push(arr20(&flip(&l.m2, j))); }
            let mut why2: Vec<String> = (0..160).map(|j: usize| format!("bit {} flipped", j)).collect();
            for (w, lab) in near_misses(&mut rng, &l.m2) { m2s.push(arr20(&w)); why2.push(format!("{} ({})", lab, hex(&w))); }
            runs += m2s.len() as u64;
            if let Some(out) = client_api(&u, &p, GENERATOR, NLE, l.b_pub, l.salt, a, &m2s) {
                if out.len() == 6 {
                    if out[4][0] != 0 { fails.push(det("client refused the honest M2".into())); }
                    for j in 0..why2.len() { if out[4][j + 1] != 1 { fails.push(det(format!("client accepted M2 with {}", why2[j]))); } }
                } else { fails.push(det("client panicked".into())); }
            }
            // non-canonical A + N with the honest proof must be refused
            let a_plus = bi(&l.a_pub) + bi(&NLE);
            if a_plus < (num_bigint::BigInt::from(1) << 256) {
                runs += 1;
                let out = server_api(&u, l.v, l.salt, b, le32b(&a_plus), &[l.m1], chal);
                if out.len() == 3 && out[2][0] == 0 { fails.push(det("server accepted the honest M1 together with the altered public key A + N".into())); }
            }
            // altered A / salt / B / credentials: the resulting proof must be refused
            for _ in 0..6 {
                runs += 1;
                let which = rng.below(5);
                let (cu, cp, bp, cs, ap, what) = match which {
                    0 => (u.clone(), p.clone(), l.b_pub, arr32(&flip(&l.salt, rng.below(256) as usize)), l.a_pub, "salt bit"),
                    1 => (u.clone(), p.clone(), arr32(&flip(&l.b_pub, rng.below(256) as usize)), l.salt, l.a_pub, "B bit"),
                    2 => (u.clone(), rand_cred(&mut rng, pl), l.b_pub, l.salt, l.a_pub, "other password"),
                    3 => (rand_cred(&mut rng, ul), p.clone(), l.b_pub, l.salt, l.a_pub, "other username"),
                    _ => (u.clone(), p.clone(), l.b_pub, l.salt, arr32(&flip(&l.a_pub, rng.below(256) as usize)), "A bit"),
                };
                if (which == 2 && ns(&cp) == ns(&p)) || (which == 3 && ns(&cu) == ns(&u)) { continue; }
                let m1 = if which == 4 { Some(l.m1) } else { client_api(&cu, &cp, GENERATOR, NLE, bp, cs, a, &[]).and_then(|o| if o.len() > 2 { Some(arr20(&o[2])) } else { None }) };
                if let Some(m1) = m1 {
                    let out = server_api(&u, l.v, l.salt, b, ap, &[m1], chal);
                    if out.len() == 3 && out[2][0] == 0 { fails.push(det(format!("server accepted a proof computed with a changed {}", what))); }
                }
            }
        }
        (fails, runs)
    });
    for (f, r) in res { ctx.oracle_runs += r; for x in f { ctx.fail("rejection", x); } }
}
