//! C13: credential strings.
use crate::ctx::*;
use std::collections::hash_map::DefaultHasher;
use std::convert::TryFrom;
use std::hash::{Hash, Hasher};
use wow_srp::error::NormalizedStringError;
use wow_srp::normalized_string::NormalizedString;

fn scalars(s: &str) -> Vec<u8> {
    let mut v = Vec::new();
    for c in s.chars() { let x = c as u32; v.push(x as u8); v.push((x >> 8) as u8); v.push((x >> 16) as u8); }
    v
}
fn debug_fields(n: &NormalizedString) -> (Vec<u8>, u8) {
    // private fields, read through the derived Debug by FIELD NAME (independent of declaration order):
    // NormalizedString { s: [..16 numbers..], length: n }
    let d = format!("{:?}", n);
    let nums = |t: &str| -> Vec<u32> { t.split(|c: char| !c.is_ascii_digit()).filter(|x| !x.is_empty()).map(|x| x.parse().unwrap()).collect() };
    let arr = d.find("s: [").map(|i| { let r = &d[i + 4..]; nums(&r[..r.find(']').unwrap_or(r.len())]) }).unwrap_or_default();
    let len = d.find("length: ").map(|i| nums(&d[i + 8..]).first().copied().unwrap_or(0)).unwrap_or(0);
    (arr.iter().map(|x| *x as u8).collect(), len as u8)
}
fn out_new(r: Option<Result<NormalizedString, NormalizedStringError>>) -> Vec<Vec<u8>> {
    match r {
        None => vec![vec![2]],
        Some(Ok(n)) => { let (arr, len) = debug_fields(&n); vec![vec![0], n.as_ref().as_bytes().to_vec(), arr, vec![len]] }
        Some(Err(NormalizedStringError::StringTooLong)) => vec![vec![1, 0]],
        Some(Err(NormalizedStringError::CharacterNotAllowed(c))) => { let x = c as u32; vec![vec![1, 1], vec![x as u8, (x >> 8) as u8, (x >> 16) as u8]] }
    }
}
pub fn exec_str(op: u32, s: &str, s2: &str) -> Vec<Vec<u8>> {
    match op {
        1 => out_new(catch(|| NormalizedString::new(s))),
        3 => out_new(catch(|| NormalizedString::from_str(s))),
        4 => out_new(catch(|| NormalizedString::from_string(s.to_string()))),
        5 => out_new(catch(|| NormalizedString::try_from(s))),
        6 => out_new(catch(|| NormalizedString::try_from(s.to_string()))),
        _ => match catch(|| (NormalizedString::new(s), NormalizedString::new(s2))) {
            None => vec![vec![2]],
            Some((Ok(a), Ok(b))) => vec![vec![0], vec![(a == b) as u8], vec![match a.cmp(&b) { std::cmp::Ordering::Less => 0, std::cmp::Ordering::Equal => 1, _ => 2 }]],
            _ => vec![vec![1, 0]],
        },
    }
}
fn emit(ctx: &mut Ctx, op: u32, label: &str, s: &str, s2: &str) {
    let out = exec_str(op, s, s2);
    let o: Vec<&[u8]> = out.iter().map(|x| x.as_slice()).collect();
    let a = scalars(s); let b = scalars(s2);
    if op == 2 { ctx.case(op, label, &[&a, &b], &o); } else { ctx.case(op, label, &[&a], &o); }
}
fn rand_char(rng: &mut Rng, class: u64) -> char {
    loop {
        let x = match class {
            0 => rng.range(0x20, 0x7e) as u32,
            1 => rng.range(0, 0x7f) as u32,
            2 => rng.range(0x80, 0x7ff) as u32,
            3 => rng.range(0x800, 0xffff) as u32,
            _ => rng.range(0x10000, 0x10ffff) as u32,
        };
        if let Some(c) = char::from_u32(x) { return c; }
    }
}
fn spec(s: &str) -> Result<Vec<u8>, Option<char>> {
    if s.len() > 16 || s.is_empty() { return Err(None); }
    for c in s.chars() { let x = c as u32; if !(0x20..=0x7e).contains(&x) { return Err(Some(c)); } }
    Ok(s.bytes().map(|b| if (b'a'..=b'z').contains(&b) { b - 32 } else { b }).collect())
}
fn oracle_one(ctx: &mut Ctx, s: &str) {
    ctx.oracle_runs += 1;
    let got = catch(|| NormalizedString::new(s));
    // all constructors and conversions agree with `new` (same verdict, text, error and payload)
    let base = exec_str(1, s, "");
    for op in 3..=6u32 {
        let other = exec_str(op, s, "");
        if other != base {
            ctx.fail("constructors_agree", format!("{{\"what\":\"{} differs from new\",\"scalars\":\"{}\",\"string\":{},\"new\":{},\"other\":{}}}",
                ["from_str", "from_string", "TryFrom<&str>", "TryFrom<String>"][(op - 3) as usize], hex(&scalars(s)), jstr(s),
                jstr(&format!("{:?}", base.iter().map(|x| hex(x)).collect::<Vec<_>>())), jstr(&format!("{:?}", other.iter().map(|x| hex(x)).collect::<Vec<_>>()))));
        }
    }
    let bad = |ctx: &mut Ctx, what: &str| ctx.fail("accept_rule", format!("{{\"what\":\"{}\",\"scalars\":\"{}\",\"string\":{}}}", what, hex(&scalars(s)), jstr(s)));
    match (got, spec(s)) {
        (None, _) => ctx.fail("panic", format!("{{\"scalars\":\"{}\",\"string\":{}}}", hex(&scalars(s)), jstr(s))),
        (Some(Ok(n)), Ok(t)) => {
            if n.as_ref().as_bytes() != &t[..] || n.to_string().as_bytes() != &t[..] { bad(ctx, "text is not the upper-cased input"); }
            // idempotent, case-insensitive, hashing/equality follow the text
            let again = NormalizedString::new(n.as_ref()).ok();
            let lower = NormalizedString::new(s.to_ascii_lowercase()).ok();
            let h = |x: &NormalizedString| { let mut d = DefaultHasher::new(); x.hash(&mut d); d.finish() };
            if again.as_ref() != Some(&n) || lower.as_ref() != Some(&n) { bad(ctx, "not idempotent / not case-insensitive"); }
            else if h(again.as_ref().unwrap()) != h(&n) || h(lower.as_ref().unwrap()) != h(&n) { bad(ctx, "equal text, different hash"); }
        }
        (Some(Err(NormalizedStringError::StringTooLong)), Err(None)) => {}
        (Some(Err(NormalizedStringError::CharacterNotAllowed(c))), Err(Some(d))) if c == d => {}
        _ => bad(ctx, "verdict or error differs from: 1..16 bytes, all in 0x20..0x7E; length error first, else first offending char"),
    }
}

pub fn run(ctx: &mut Ctx) {
    let mut rng = ctx.rng("corr");
    // every ASCII byte at every position 0..15 of a 16-byte string (position dependence), through the model
    let step = if ctx.quick() { 3 } else { 1 };
    for pos in (0..16).step_by(step) {
        for b in 0u8..128 {
            let mut v = vec![b'q'; 16]; v[pos] = b;
            let s = String::from_utf8(v).unwrap();
            emit(ctx, 1, "ascii@pos", &s, "");
        }
    }
    for b in 0u8..128 { let s = (b as char).to_string(); emit(ctx, 1, "ascii-single", &s, ""); }
    // lengths 0..20
    for len in 0..=20 { let s: String = (0..len).map(|i| (b'a' + (i % 26) as u8) as char).collect(); emit(ctx, 1, if len == 0 { "trivial:empty" } else { "length" }, &s, ""); }
    // multi-byte mixes summing to 14..18 bytes
    let n_mix = if ctx.quick() { 300 } else { 3000 };
    for _ in 0..n_mix {
        let target = rng.range(13, 18) as usize;
        let mut s = String::new();
        while s.len() < target { let cls = rng.below(5); let c = rand_char(&mut rng, cls); if s.len() + c.len_utf8() <= target || rng.chance(1, 6) { s.push(c); } }
        emit(ctx, 1, &format!("multibyte:{}bytes", s.len().min(18)), &s, "");
        let op = [3u32, 4, 5, 6][s.len() % 4];
        emit(ctx, op, "multibyte:other-constructor", &s, "");
    }
    // characters whose Unicode case mappings are ASCII or change the byte length (sharp s, dotless i,
    // long s, Kelvin sign, ligatures, dotted capital I), alone and inside 15..17-byte strings
    for c in ['\u{df}', '\u{131}', '\u{17f}', '\u{212a}', '\u{fb00}', '\u{fb01}', '\u{fb02}', '\u{fb03}', '\u{fb04}', '\u{fb05}', '\u{fb06}', '\u{130}', '\u{e9}', '\u{ff}', '\u{1e9e}', '\u{149}', '\u{1f0}', '\u{390}'] {
        for op in [1u32, 3, 4, 5, 6] {
            emit(ctx, op, "case-mapping special", &c.to_string(), "");
            for pre in [13usize, 14, 15] { let s = format!("{}{}", &"sixteenbyteslong"[..pre], c); emit(ctx, op, "case-mapping special", &s, ""); }
            let s = format!("{}ixteenbyteslong", c); emit(ctx, op, "case-mapping special", &s, "");
        }
    }
    // long strings around the wrap-around points of narrower length types (u8: 256, u16: 65536): every
    // one must be refused as too long, whatever its first 16 characters are
    for len in [17usize, 20, 32, 255, 256, 257, 258, 264, 271, 272, 273, 300, 511, 512, 513, 520, 528, 529, 768, 1024] {
        for (vi, op) in [1u32, 3, 4, 5, 6].iter().enumerate() {
            let s: String = match vi % 3 { 0 => "a".repeat(len), 1 => (0..len).map(|i| (b'a' + (i % 26) as u8) as char).collect(), _ => { let mut t = "\u{e9}".repeat(len / 2); if len % 2 == 1 { t.push('z'); } t } };
            emit(ctx, *op, "long string (length-type wrap-around)", &s, "");
        }
    }
    // random strings, mostly valid
    let n_rand = if ctx.quick() { 400 } else { 4000 };
    for k in 0..n_rand {
        let len = rng.range(0, 18) as usize;
        let s: String = (0..len).map(|_| rand_char(&mut rng, if k % 7 == 0 { 1 } else { 0 })).collect();
        let op = [1u32, 1, 3, 4, 5, 6][k % 6];
        emit(ctx, op, if op == 1 { "random" } else { "random:other-constructor" }, &s, "");
    }
    // equality and ordering
    let n_cmp = if ctx.quick() { 300 } else { 3000 };
    for k in 0..n_cmp {
        let len = rng.range(1, 16) as usize;
        let a: String = (0..len).map(|_| rand_char(&mut rng, 0)).collect();
        let b: String = match k % 5 {
            0 => a.to_ascii_lowercase(),
            1 => a[..rng.range(1, len as u64) as usize].to_string(),
            2 => { let mut v: Vec<char> = a.chars().collect(); let i = rng.below(len as u64) as usize; v[i] = rand_char(&mut rng, 0); v.into_iter().collect() }
            3 => format!("{}{}", a, " ").chars().take(16).collect(),
            _ => { let l2 = rng.range(1, 16) as usize; (0..l2).map(|_| rand_char(&mut rng, 0)).collect() }
        };
        emit(ctx, 2, "compare", &a, &b);
    }
    ctx.sample("op=1 string=\"qqqqqqqqqqq\\u{7f}qqqq\" (16 bytes, DEL at position 11)".to_string());

    // ---- implementation-only oracle: every scalar value as a 1-char string; at the end of a 15-byte prefix ----
    let top: u32 = if ctx.quick() { 0x1_0000 } else { 0x11_0000 };
    for x in 0..top {
        if let Some(c) = char::from_u32(x) {
            oracle_one(ctx, &c.to_string());
            if x % 3 == 0 || x < 0x800 { let s = format!("{}{}", "abcdefghijklmno", c); oracle_one(ctx, &s); }
            if x % 16 == 0 { let s = format!("{}{}", "abcdefghijklmn", c); oracle_one(ctx, &s); }
        }
    }
    ctx.exhaustive.push(format!("every Unicode scalar value below U+{:X} as a one-character string (and after a 15-byte prefix for a third of them)", top));
    // every byte length up to 1100 and around 2^16 / 2^24 (implementation only; these are too long for the model's literals)
    for len in (17usize..1100).chain(65_520..65_560).chain(16_777_200..16_777_240) {
        if ctx.quick() && len > 70_000 && len % 8 != 0 { continue; }
        let s: String = "k".repeat(len);
        oracle_one(ctx, &s);
        if len < 1100 || len % 4 == 0 { let t: String = format!("{}{}", "Ab1 ".repeat(len / 4), &"xyz"[..len % 4]); oracle_one(ctx, &t); }
    }
    ctx.exhaustive.push("every byte length 17..1099, 65520..65559 and 16777200..16777239 of printable ASCII must be refused as too long by all five constructors".to_string());
    // ---- copies of a value are the value: clone(), clone_from() over a slot that held a longer / shorter / equal
    //      text, Vec::clone_from, mem::replace; afterwards text, equality, ordering and hash must be those of a
    //      freshly constructed string with the same text (a copy that keeps bytes of the overwritten value would
    //      compare, order and hash differently)
    {
        let mut rng = ctx.rng("copies");
        let h = |x: &NormalizedString| { let mut d = DefaultHasher::new(); x.hash(&mut d); d.finish() };
        let n = if ctx.quick() { 4000 } else { 200_000 };
        for k in 0..n {
            let (la, lb) = (rng.range(1, 16) as usize, rng.range(1, 16) as usize);
            let mk = |rng: &mut Rng, l: usize| -> String { (0..l).map(|_| if rng.chance(1, 6) { ' ' } else { rand_char(rng, 0) }).collect() };
            let (sa, sb) = (mk(&mut rng, la), mk(&mut rng, lb));
            let (a, b) = match (NormalizedString::new(&sa), NormalizedString::new(&sb)) { (Ok(a), Ok(b)) => (a, b), _ => continue };
            ctx.oracle_runs += 1;
            let r = catch(|| {
                let fresh_b = NormalizedString::new(b.as_ref()).unwrap();
                let c1 = b.clone();
                let mut c2 = a.clone(); c2.clone_from(&b);                       // slot held `a` (any length relation to b)
                let mut v = vec![a.clone(), a.clone(), a.clone()]; v.clone_from(&vec![b.clone(), b.clone()]);
                let mut c3 = a.clone(); let _old = std::mem::replace(&mut c3, b.clone());
                let mut o = Some(a.clone()); o.clone_from(&Some(b.clone()));
                let copies = vec![c1, c2, v[0].clone(), v[1].clone(), c3, o.unwrap()];
                let probe = NormalizedString::new(format!("{}A", b.as_ref()).chars().take(16).collect::<String>()).ok();
                copies.iter().enumerate().filter_map(|(i, c)| {
                    let mut what = Vec::new();
                    if c.as_ref() != fresh_b.as_ref() || c.to_string() != fresh_b.to_string() { what.push("text"); }
                    if *c != fresh_b || fresh_b != *c { what.push("equality"); }
                    if c.cmp(&fresh_b) != std::cmp::Ordering::Equal { what.push("ordering"); }
                    if h(c) != h(&fresh_b) { what.push("hash"); }
                    if let Some(p) = &probe { if c.cmp(p) != fresh_b.cmp(p) || a.cmp(c) != a.cmp(&fresh_b) { what.push("ordering against other values"); } }
                    if what.is_empty() { None } else { Some((i, what.join(", "))) }
                }).collect::<Vec<_>>()
            });
            let names = ["clone()", "clone_from() over a previous value", "Vec::clone_from element 0", "Vec::clone_from element 1", "mem::replace", "Option::clone_from"];
            match r {
                None => ctx.fail("panic", format!("{{\"what\":\"copying a value panicked\",\"previous\":{},\"source\":{}}}", jstr(&sa), jstr(&sb))),
                Some(bad) => for (i, what) in bad {
                    ctx.fail("copy_is_the_value", format!("{{\"what\":\"a copy made by {} differs from a freshly constructed string with the same text in: {}\",\"slot_held_before\":{},\"copied_value\":{}}}", names[i], what, jstr(&sa), jstr(&sb)));
                }
            }
            if k % 1000 == 0 { ctx.count("oracle_copies_batches"); }
        }
    }
    let mut rng = ctx.rng("oracle");
    let n = if ctx.quick() { 200_000 } else { 15_000_000 };
    for k in 0..n {
        let len = rng.range(0, 19) as usize;
        let s: String = (0..len).map(|_| { let cls = if k % 11 == 0 { rng.below(5) } else { 0 }; rand_char(&mut rng, cls) }).collect();
        oracle_one(ctx, &s);
    }
}
