//! C06: world-login proof, three expansion modules.
use crate::ctx::*;
use crate::srp::{flip, ns, rand_cred, sha};
use wow_srp::verif_hooks::rand as vr;

/// own seed comes from the tape (ProofSeed::new draws next_u32); returns (seed(), proof)
fn client(m: u8, tape: &[u8], u: &str, key: [u8; 40], server_seed: u32) -> Option<(u32, [u8; 20])> {
    vr::install_tape(tape);
    let un = ns(u);
    let r = catch(|| match m {
        0 => { let s = wow_srp::vanilla_header::ProofSeed::new(); let v = s.seed(); (v, s.into_client_header_crypto(&un, key, server_seed).0) }
        1 => { let s = wow_srp::tbc_header::ProofSeed::new(); let v = s.seed(); (v, s.into_client_header_crypto(&un, key, server_seed).0) }
        _ => { let s = wow_srp::wrath_header::ProofSeed::new(); let v = s.seed(); (v, s.into_client_header_crypto(&un, key, server_seed).0) }
    });
    vr::remove_tape(); vr::take_log();
    r
}
/// None = panic, Some(Ok) accepted, Some(Err(client_proof, server_proof))
fn server(m: u8, tape: &[u8], u: &str, key: [u8; 40], proof: [u8; 20], client_seed: u32) -> Option<Result<(), ([u8; 20], [u8; 20])>> {
    vr::install_tape(tape);
    let un = ns(u);
    let r = catch(|| match m {
        0 => wow_srp::vanilla_header::ProofSeed::new().into_server_header_crypto(&un, key, proof, client_seed).map(|_| ()).map_err(|e| (e.client_proof, e.server_proof)),
        1 => wow_srp::tbc_header::ProofSeed::new().into_server_header_crypto(&un, key, proof, client_seed).map(|_| ()).map_err(|e| (e.client_proof, e.server_proof)),
        _ => wow_srp::wrath_header::ProofSeed::new().into_server_header_crypto(&un, key, proof, client_seed).map(|_| ()).map_err(|e| (e.client_proof, e.server_proof)),
    });
    vr::remove_tape(); vr::take_log();
    r
}
fn spec(u: &str, key: &[u8; 40], client_seed: u32, server_seed: u32) -> [u8; 20] {
    sha(&[ns(u).as_ref().as_bytes(), &[0, 0, 0, 0], &client_seed.to_le_bytes(), &server_seed.to_le_bytes(), key])
}
fn emit_client(ctx: &mut Ctx, label: &str, m: u8, own: u32, u: &str, key: [u8; 40], other: u32) {
    let tape = own.to_le_bytes();
    let un = ns(u);
    match client(m, &tape, u, key, other) {
        Some((s, p)) => ctx.case(1, label, &[&[m], &tape, un.as_ref().as_bytes(), &key, &other.to_le_bytes()], &[&[0], &s.to_le_bytes(), &p]),
        None => { ctx.case(1, "panic", &[&[m], &tape, un.as_ref().as_bytes(), &key, &other.to_le_bytes()], &[&[2]]);
                  ctx.fail("panic", format!("{{\"module\":{},\"side\":\"client\",\"seed\":{},\"user\":{},\"key\":\"{}\",\"server_seed\":{}}}", m, own, jstr(u), hex(&key), other)); }
    }
}
fn emit_server(ctx: &mut Ctx, label: &str, m: u8, own: u32, u: &str, key: [u8; 40], proof: &[u8], other: u32) {
    let tape = own.to_le_bytes();
    let un = ns(u);
    let mut pf = [0u8; 20]; pf.copy_from_slice(proof);
    let ins: [&[u8]; 6] = [&[m], &tape, un.as_ref().as_bytes(), &key, &other.to_le_bytes(), proof];
    match server(m, &tape, u, key, pf, other) {
        Some(Ok(())) => ctx.case(2, label, &ins, &[&[0]]),
        Some(Err((c, s))) => ctx.case(2, label, &ins, &[&[1, 0], &c, &s]),
        None => { ctx.case(2, "panic", &ins, &[&[2]]);
                  ctx.fail("panic", format!("{{\"module\":{},\"side\":\"server\",\"seed\":{},\"user\":{},\"key\":\"{}\",\"client_seed\":{}}}", m, own, jstr(u), hex(&key), other)); }
    }
}

pub fn run(ctx: &mut Ctx) {
    let mut rng = ctx.rng("corr");
    let seeds = [0u32, 1, 0xFFFF_FFFF, 0x8000_0000, 0x1234_4321, 0xDEAD_BEEF, 0x0000_00FF, 0xFF00_0000];
    let n_sessions = if ctx.quick() { 6 } else { 40 };
    for k in 0..n_sessions {
        for m in 0u8..3 {
            let ul = 1 + (k * 3 + m as usize) % 16;
            let u = rand_cred(&mut rng, ul);
            let key: [u8; 40] = if k == 0 { [0u8; 40] } else { rng.arr() };
            let (cs, ss) = match k % 4 { 0 => (*rng.pick(&seeds), *rng.pick(&seeds)), 1 => { let a = rng.next() as u32; (a, a) } , _ => (rng.next() as u32, rng.next() as u32) };
            emit_client(ctx, "client proof", m, cs, &u, key, ss);
            emit_client(ctx, "client proof, seeds swapped", m, ss, &u, key, cs);
            let good = spec(&u, &key, cs, ss);
            emit_server(ctx, "server accepts", m, ss, &u, key, &good, cs);
            // perturbations, all on the refusing path
            let nflip = if ctx.quick() { 12 } else { 160 };
            for j in 0..nflip { let bit = if ctx.quick() { (j * 13 + k * 7 + m as usize) % 160 } else { j }; emit_server(ctx, "proof bit flipped", m, ss, &u, key, &flip(&good, bit), cs); }
            for (w, _) in near_misses(&mut rng, &good) { emit_server(ctx, "proof near miss (cancelling / confined differences)", m, ss, &u, key, &w, cs); }
            emit_server(ctx, "client seed differs", m, ss, &u, key, &good, cs ^ (1 << rng.below(32)));
            emit_server(ctx, "server seed differs", m, ss ^ (1 << rng.below(32)), &u, key, &good, cs);
            if cs != ss { emit_server(ctx, "seeds swapped", m, cs, &u, key, &good, ss); }
            let mut k2 = key; k2[rng.below(40) as usize] ^= 1 << rng.below(8);
            emit_server(ctx, "session key byte differs", m, ss, &u, k2, &good, cs);
            let u2 = format!("{}x", &u[..u.len().min(15)]);
            emit_server(ctx, "username differs", m, ss, &u2, key, &good, cs);
            emit_server(ctx, "username case differs (same normalised name)", m, ss, &u.to_ascii_lowercase(), key, &good, cs);
        }
    }
    ctx.sample("op=2 module=2 (wrath) server seed=0xDEADBEEF client seed=12589856 user=\"A\" with one proof bit flipped".to_string());

    // ---- implementation-only oracle ----
    let mut rng = ctx.rng("oracle");
    let n = if ctx.quick() { 1500 } else { 300000 };
    for k in 0..n {
        let m = (k % 3) as u8;
        let ul = rng.range(1, 16) as usize;
        let u = rand_cred(&mut rng, ul);
        let key: [u8; 40] = rng.arr();
        let (cs, ss) = if k % 5 == 0 { (*rng.pick(&seeds), *rng.pick(&seeds)) } else { (rng.next() as u32, rng.next() as u32) };
        ctx.oracle_runs += 1;
        let det = |what: &str| format!("{{\"what\":\"{}\",\"module\":{},\"user\":{},\"key\":\"{}\",\"client_seed\":{},\"server_seed\":{}}}", what, m, jstr(&u), hex(&key), cs, ss);
        let want = spec(&u, &key, cs, ss);
        match client(m, &cs.to_le_bytes(), &u, key, ss) {
            None => ctx.fail("panic", det("client panicked")),
            Some((s, p)) => {
                if s != cs { ctx.fail("seed_accessor", det("seed() is not the drawn value")); }
                if p != want { ctx.fail("proof_value", det("client proof is not SHA1(user|0000|client seed|server seed|key)")); }
                match server(m, &ss.to_le_bytes(), &u, key, p, cs) { Some(Ok(())) => {}, _ => ctx.fail("agree", det("server refuses the honest client's proof")) }
                let bit = rng.below(160) as usize;
                let mut bad = [0u8; 20]; bad.copy_from_slice(&flip(&p, bit));
                match server(m, &ss.to_le_bytes(), &u, key, bad, cs) {
                    Some(Err((c, s))) if c == bad && s == want => {}
                    _ => ctx.fail("bitflip", det(&format!("proof with bit {} flipped not refused with (presented, expected) payload", bit))),
                }
                if k % 4 == 0 { for (w, lab) in near_misses(&mut rng, &p) {
                    let mut bad = [0u8; 20]; bad.copy_from_slice(&w);
                    match server(m, &ss.to_le_bytes(), &u, key, bad, cs) {
                        Some(Err((c, s))) if c == bad && s == want => {}
                        _ => ctx.fail("near_miss", det(&format!("wrong proof {} ({}) not refused with (presented, expected) payload", hex(&bad), lab))),
                    }
                } }
                if cs != ss { if let Some(Ok(())) = server(m, &cs.to_le_bytes(), &u, key, p, ss) { ctx.fail("seed_order", det("proof accepted with the two seeds swapped")); } }
                let mut k2 = key; k2[rng.below(40) as usize] ^= 1 << rng.below(8);
                if let Some(Ok(())) = server(m, &ss.to_le_bytes(), &u, k2, p, cs) { ctx.fail("key_binding", det("proof accepted under a different session key")); }
                // histories on one thread: consecutive derivations that differ from the previous one in a single
                // input (one key bit, one name character, one seed bit) must each give the value determined by
                // THEIR inputs - a result remembered from the previous call would show here
                if k % 5 == 0 {
                    let (mut hk, mut hu, mut hcs, mut hss) = (key, u.clone(), cs, ss);
                    for step in 0..8 {
                        match step % 4 {
                            0 => { hk[rng.below(40) as usize] ^= 1 << rng.below(8); }
                            1 => { let mut b = hu.clone().into_bytes(); let i = rng.below(b.len() as u64) as usize; b[i] = if b[i] == b'Q' { b'R' } else { b'Q' }; hu = String::from_utf8(b).unwrap(); }
                            2 => { hss ^= 1 << rng.below(32); }
                            _ => { hcs ^= 1 << rng.below(32); }
                        }
                        let hwant = spec(&hu, &hk, hcs, hss);
                        ctx.oracle_runs += 1;
                        let hdet = |what: &str| format!("{{\"what\":\"{}\",\"module\":{},\"history_step\":{},\"first_call\":{{\"user\":{},\"key\":\"{}\",\"client_seed\":{},\"server_seed\":{}}},\"this_call\":{{\"user\":{},\"key\":\"{}\",\"client_seed\":{},\"server_seed\":{}}}}}",
                                                         what, m, step, jstr(&u), hex(&key), cs, ss, jstr(&hu), hex(&hk), hcs, hss);
                        match client(m, &hcs.to_le_bytes(), &hu, hk, hss) {
                            Some((_, hp)) if hp == hwant => {
                                match server(m, &hss.to_le_bytes(), &hu, hk, hp, hcs) { Some(Ok(())) => {}, _ => ctx.fail("history_agree", hdet("server refuses the honest client's proof after a near-identical earlier call on the same thread")) }
                            }
                            Some(_) => ctx.fail("history_proof_value", hdet("client proof after a near-identical earlier call on the same thread is not SHA1(user|0000|client seed|server seed|key) of ITS inputs")),
                            None => ctx.fail("panic", hdet("client panicked")),
                        }
                        // the previous call's proof must be refused under the changed inputs
                        match server(m, &hss.to_le_bytes(), &hu, hk, p, hcs) {
                            Some(Err((c, s))) if c == p && s == hwant => {}
                            _ => ctx.fail("history_stale_proof", hdet("a proof computed for the first call's inputs is not refused (with the expected payload) after the inputs changed")),
                        }
                    }
                }
            }
        }
    }
}
