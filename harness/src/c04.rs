//! C04: public keys are refused exactly when congruent to zero modulo N.
use crate::ctx::*;
use wow_srp::verif_hooks::internals as hk;
use wow_srp::{PublicKey, LARGE_SAFE_PRIME_LITTLE_ENDIAN as NLE};

fn enc(r: Option<Result<[u8; 32], u8>>) -> Vec<Vec<u8>> {
    match r {
        None => vec![vec![2]],
        Some(Ok(k)) => vec![vec![0], k.to_vec()],
        Some(Err(e)) => vec![vec![1, e]],
    }
}
fn from_le(key: [u8; 32]) -> Option<Result<[u8; 32], u8>> {
    catch(|| match PublicKey::from_le_bytes(key) {
        Ok(k) => Ok(*k.as_le_bytes()),
        Err(wow_srp::error::InvalidPublicKeyError::PublicKeyIsZero) => Err(0),
        Err(wow_srp::error::InvalidPublicKeyError::PublicKeyModLargeSafePrimeIsZero) => Err(1),
    })
}
fn add_at(base: &[u8; 32], i: usize, delta: i32) -> [u8; 32] {
    // base + delta * 256^i  (mod 2^256), delta = +1 / -1
    let mut v = *base;
    let mut k = i;
    if delta > 0 {
        while k < 32 { let (s, c) = v[k].overflowing_add(1); v[k] = s; if !c { break; } k += 1; }
    } else {
        while k < 32 { let (s, c) = v[k].overflowing_sub(1); v[k] = s; if !c { break; } k += 1; }
    }
    v
}
fn class_member(rng: &mut Rng, nonzero_max: usize) -> [u8; 32] {
    // every byte is 0 or N's byte at that position
    let mut v = [0u8; 32];
    if nonzero_max >= 32 { for i in 0..32 { if rng.chance(1, 2) { v[i] = NLE[i]; } } }
    else { for _ in 0..nonzero_max { let i = rng.below(32) as usize; v[i] = NLE[i]; } }
    v
}

pub fn exec(op: u32, ins: &[Vec<u8>]) -> Vec<Vec<u8>> {
    match op {
        1 => { let mut k = [0u8; 32]; k.copy_from_slice(&ins[0]); enc(from_le(k)) }
        2 => { let z = ins[0].clone(); enc(catch(|| hk::try_from_bigint(&z))) }
        _ => { let z = ins[0].clone(); let mut n = [0u8; 32]; n.copy_from_slice(&ins[1]); enc(catch(|| hk::client_try_from_bigint(&z, n))) }
    }
}

fn spec(key: &[u8; 32]) -> Result<[u8; 32], u8> {
    if *key == [0u8; 32] { Err(0) } else if *key == NLE { Err(1) } else { Ok(*key) }
}

pub fn run(ctx: &mut Ctx) {
    let mut rng = ctx.rng("corr");
    let zero = [0u8; 32];
    let mut keys: Vec<([u8; 32], &str)> = vec![(zero, "zero"), (NLE, "N")];
    for i in 0..32 {
        keys.push((add_at(&NLE, i, 1), "N+256^i")); keys.push((add_at(&NLE, i, -1), "N-256^i"));
        keys.push((add_at(&zero, i, 1), "256^i")); keys.push((add_at(&zero, i, -1), "-256^i"));
        let mut s = [0u8; 32]; s[i] = NLE[i]; keys.push((s, "class:single"));
        let mut t = NLE; t[i] = 0; keys.push((t, "class:N-with-one-zero"));
    }
    // 2N mod 2^256
    let mut two_n = [0u8; 32]; let mut c = 0u16;
    for i in 0..32 { let x = (NLE[i] as u16) * 2 + c; two_n[i] = x as u8; c = x >> 8; }
    keys.push((two_n, "2N mod 2^256"));
    keys.push(([0xff; 32], "2^256-1"));
    let n_class = if ctx.quick() { 400 } else { 4096 };
    for k in 0..n_class { keys.push((class_member(&mut rng, if k % 4 == 0 { 2 } else { 32 }), "class:random")); }
    let n_rand = if ctx.quick() { 300 } else { 6000 };
    for _ in 0..n_rand { keys.push((rng.arr(), "random")); }
    for (k, label) in &keys {
        let out = exec(1, &[k.to_vec()]);
        let o: Vec<&[u8]> = out.iter().map(|x| x.as_slice()).collect();
        ctx.case(1, label, &[k], &o);
    }
    ctx.sample(format!("from_le_bytes key={} ({})", hex(&keys[70].0), keys[70].1));
    // conversions from big integers: values of every byte length, relative to several moduli
    let moduli: Vec<[u8; 32]> = {
        let mut m = vec![NLE];
        for small in [1u8, 2, 3, 7, 251] { let mut x = [0u8; 32]; x[0] = small; m.push(x); }
        let mut x = [0u8; 32]; x[0] = 1; x[2] = 1; m.push(x); // 65537
        m.push([0xff; 32]);
        m
    };
    let n_conv = if ctx.quick() { 120 } else { 1500 };
    for i in 0..n_conv {
        let len = (i % 34) as usize; // lengths 0..33: 33 bytes does not fit
        let mut z = rng.bytes(len);
        if i % 5 == 0 && len > 0 { z[len - 1] = 0; }
        if len == 33 && z[32] == 0 { z[32] = 1; }
        let out = exec(2, &[z.clone()]);
        let o: Vec<&[u8]> = out.iter().map(|x| x.as_slice()).collect();
        ctx.case(2, if len == 33 { "outside-domain:try_from_bigint of a 33-byte value" } else { "try_from_bigint" }, &[&z], &o);
        if len <= 32 {
            let n = *rng.pick(&moduli);
            // make some values exact multiples of small moduli
            let out = exec(3, &[z.clone(), n.to_vec()]);
            let o: Vec<&[u8]> = out.iter().map(|x| x.as_slice()).collect();
            ctx.case(3, "client_try_from_bigint", &[&z, &n], &o);
        }
    }
    for (z, n, label) in [(NLE.to_vec(), NLE, "client:N mod N"), (vec![], NLE, "client:zero"), (vec![6], { let mut x = [0u8; 32]; x[0] = 3; x }, "client:6 mod 3"),
                          (vec![7], { let mut x = [0u8; 32]; x[0] = 3; x }, "client:7 mod 3"), (vec![5], [0u8; 32], "client:modulus zero")] {
        let out = exec(3, &[z.clone(), n.to_vec()]);
        let o: Vec<&[u8]> = out.iter().map(|x| x.as_slice()).collect();
        ctx.case(3, label, &[&z, &n], &o);
    }

    // ---- the client's own freshly generated key relative to WHATEVER modulus and generator the server announced
    //      (prime or not, dividing the generator or not): A = g^a mod N' computed independently; it is handed back as
    //      the 32 little-endian bytes of A exactly when A is not congruent to 0 modulo N', and refused otherwise
    {
        use crate::srp::{bi, le32b};
        use num_bigint::BigInt;
        let mut r4 = ctx.rng("client_own_key");
        let mut mods: Vec<[u8; 32]> = Vec::new();
        for small in [1u32, 2, 3, 4, 6, 7, 9, 36, 49, 64, 251, 256, 65537, 65536] { let mut x = [0u8; 32]; x[..4].copy_from_slice(&small.to_le_bytes()); mods.push(x); }
        { let mut x = [0u8; 32]; x[31] = 0x80; mods.push(x); }                       // 2^255
        mods.push(NLE);
        for _ in 0..6 { let mut x: [u8; 32] = r4.arr(); if r4.chance(1, 2) { x[0] &= 0xFE; } mods.push(x); }   // random 256-bit, some even
        let gens = [0u8, 1, 2, 3, 6, 7, 255];
        let reps = if ctx.quick() { 3 } else { 40 };
        for n in &mods {
            for g in gens {
                for _ in 0..reps {
                    let a: [u8; 32] = if r4.chance(1, 4) { let mut x = [0u8; 32]; x[0] = r4.byte(); x } else { r4.arr() };
                    ctx.oracle_runs += 1;
                    let nz = bi(n);
                    let want: Result<[u8; 32], u8> = { let az = BigInt::from(g).modpow(&bi(&a), &nz); if az == BigInt::from(0) { Err(0) } else { Ok(le32b(&az)) } };
                    let got = catch(|| hk::calculate_client_public_key(a, g, *n));
                    let same = match (&got, &want) { (Some(Ok(x)), Ok(y)) => x == y, (Some(Err(_)), Err(_)) => true, _ => false };
                    if !same {
                        ctx.fail("client_own_key", format!("{{\"what\":\"the client's own key under an announced group is not (g^a mod N' handed back iff it is not 0 mod N')\",\"a\":\"{}\",\"g\":{},\"modulus\":\"{}\",\"got\":{},\"want\":{}}}",
                            hex(&a), g, hex(n), jstr(&format!("{:?}", got.map(|r| r.map(|k| hex(&k))))), jstr(&format!("{:?}", want.map(|k| hex(&k))))));
                    }
                }
            }
        }
    }

    // ---- implementation-only oracle: the two-value predicate (16 threads) ----
    let n = if ctx.quick() { 1_000_000u64 } else { 1_600_000_000 };
    let seed = ctx.seed;
    let w = if ctx.quick() { 1u32 << 12 } else { 1 << 16 };
    let res = crate::srp::par(16, |t| {
        let mut rng = Rng::new(seed, &format!("C04/oracle/{}", t));
        let mut fails: Vec<String> = Vec::new(); let mut runs = 0u64;
        let mut check = |k: [u8; 32], cls: &str, fails: &mut Vec<String>| {
            let got = from_le(k);
            if got != Some(spec(&k)) && fails.len() < 20 {
                fails.push(format!("{{\"key\":\"{}\",\"class\":\"{}\",\"got\":{},\"want\":{}}}", hex(&k), cls, jstr(&format!("{:?}", got.map(|r| r.map(|k| hex(&k))))), jstr(&format!("{:?}", spec(&k).map(|k| hex(&k))))));
            }
        };
        let per = n / 16;
        for _ in 0..per / 2 { let k = rng.arr(); check(k, "random", &mut fails); runs += 1; }
        for i in 0..per / 4 { let k = class_member(&mut rng, if i % 3 == 0 { 3 } else { 32 }); check(k, "zero-or-N-byte class", &mut fails); runs += 1; }
        for _ in 0..per / 4 {
            let mut k = [0u8; 32];
            for _ in 0..rng.range(1, 3) { let i = rng.below(32) as usize; k[i] = if rng.chance(1, 2) { NLE[i] } else { rng.byte() }; }
            check(k, "sparse", &mut fails); runs += 1;
        }
        if t == 0 {
            for base in [[0u8; 32], NLE] {
                let mut up = base; let mut down = base;
                for _ in 0..w { check(up, "neighbourhood", &mut fails); check(down, "neighbourhood", &mut fails); up = add_at(&up, 0, 1); down = add_at(&down, 0, -1); runs += 2; }
            }
        }
        (fails, runs)
    });
    for (f, r) in res { ctx.oracle_runs += r; for x in f { ctx.fail("two_value_rule", x); } }
    ctx.count_n("oracle:keys", ctx.oracle_runs);
}
