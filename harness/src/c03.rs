//! C03: every handshake value is byte-exact WoW SRP6, for any announced group.
use crate::ctx::*;
use crate::srp::*;
use wow_srp::client::SrpClientChallenge;
use wow_srp::server::SrpVerifier;
use wow_srp::verif_hooks::internals as hk;
use wow_srp::verif_hooks::rand as vr;
use wow_srp::{PublicKey, GENERATOR, LARGE_SAFE_PRIME_LITTLE_ENDIAN as NLE};

fn pk_out(r: Option<Result<[u8; 32], u8>>) -> Vec<Vec<u8>> {
    match r { None => vec![vec![2]], Some(Ok(k)) => vec![vec![0], k.to_vec()], Some(Err(e)) => vec![vec![1, e]] }
}
fn push(ctx: &mut Ctx, op: u32, label: &str, ins: &[&[u8]], out: Vec<Vec<u8>>) {
    let o: Vec<&[u8]> = out.iter().map(|x| x.as_slice()).collect();
    ctx.case(op, label, ins, &o);
}
/// the client API under an announced group with an injected private key; None = panic
pub fn client_api(u: &str, p: &str, g: u8, n: [u8; 32], b_pub: [u8; 32], salt: [u8; 32], a: &[u8], m2s: &[[u8; 20]]) -> Option<Vec<Vec<u8>>> {
    let spk = PublicKey::from_le_bytes(b_pub).ok()?;
    vr::install_tape(a);
    let cl = catch(|| SrpClientChallenge::new(ns(u), ns(p), g, n, spk, salt));
    vr::remove_tape(); vr::take_log();
    let cl = match cl { Some(c) => c, None => return Some(vec![vec![2]]) };
    let (a_pub, m1) = (*cl.client_public_key(), *cl.client_proof());
    let mut verdicts = Vec::new();
    let mut key = None; let mut computed = None;
    for m in m2s {
        match catch(|| cl.clone().verify_server_proof(*m)) {
            None => verdicts.push(2),
            Some(Ok(c)) => { verdicts.push(0); key = Some(*c.session_key()); }
            Some(Err(e)) => { verdicts.push(1); computed = Some(e.client_proof); }
        }
    }
    // K and the computed M2 are observable through an accepted proof / the error payload
    let probe = match catch(|| cl.clone().verify_server_proof([0u8; 20])) { Some(Err(e)) => e.client_proof, _ => [0u8; 20] };
    let m2 = computed.unwrap_or(probe);
    let k = match key { Some(k) => k, None => match catch(|| cl.clone().verify_server_proof(m2)) { Some(Ok(c)) => *c.session_key(), _ => [0u8; 40] } };
    Some(vec![vec![0], a_pub.to_vec(), m1.to_vec(), k.to_vec(), verdicts, m2.to_vec()])
}

pub fn run(ctx: &mut Ctx) {
    let mut rng = ctx.rng("corr");
    // op 2: calculate_interleaved for every count 0..32 of low-order zero bytes (hook)
    for zeros in 0..=32usize {
        for rep in 0..(if ctx.quick() { 2 } else { 8 }) {
            let mut s: [u8; 32] = rng.arr();
            for b in s.iter_mut() { if *b == 0 { *b = 1; } }
            for i in 0..zeros { s[i] = 0; }
            if rep % 2 == 1 && zeros < 30 { s[zeros + 1] = 0; } // an interior zero must not be stripped
            let out = match catch(|| hk::calculate_interleaved(s)) { Some(k) => vec![vec![0], k.to_vec()], None => { ctx.fail("panic", format!("{{\"fn\":\"calculate_interleaved\",\"S\":\"{}\"}}", hex(&s))); vec![vec![2]] } };
            push(ctx, 2, &format!("interleave:{} low zero bytes", zeros), &[&s], out);
        }
    }
    // op 11 / 8 / 9: verifier (public API, tape salt), server public key and S (hooks)
    let n_big = if ctx.quick() { 24 } else { 200 };
    for k in 0..n_big {
        let (ul, pl) = (1 + k % 16, 16 - k % 16);
        let (u, p) = (rand_cred(&mut rng, ul), rand_cred(&mut rng, pl));
        let salt: [u8; 32] = rng.arr();
        vr::install_tape(&salt);
        let vf = catch(|| SrpVerifier::from_username_and_password(ns(&u), ns(&p)));
        vr::remove_tape(); vr::take_log();
        let (un, pn) = (ns(&u), ns(&p));
        let v = match vf {
            Some(vf) => { push(ctx, 11, "verifier via public API", &[un.as_ref().as_bytes(), pn.as_ref().as_bytes(), &salt],
                               vec![vec![0], vf.password_verifier().to_vec(), vf.salt().to_vec(), vf.username().as_bytes().to_vec()]); *vf.password_verifier() }
            None => { ctx.fail("panic", format!("{{\"fn\":\"from_username_and_password\",\"user\":{},\"password\":{}}}", jstr(&u), jstr(&p))); continue; }
        };
        let b: [u8; 32] = if k == 0 { let mut x = [0u8; 32]; x[0] = 1; x } else { rng.arr() };
        let vv: [u8; 32] = if k % 3 == 2 { rng.arr() } else { v }; // also unreduced "verifiers" from storage
        push(ctx, 8, "server public key", &[&vv, &b], pk_out(catch(|| hk::calculate_server_public_key(vv, b))));
        let a: [u8; 32] = rng.arr();
        if let Some(Ok(a_pub)) = catch(|| hk::calculate_client_public_key(a, GENERATOR, NLE)) {
            push(ctx, 12, "client public key, built-in group", &[&a, &[GENERATOR], &NLE], vec![vec![0], a_pub.to_vec()]);
            let uu: [u8; 20] = rng.arr();
            if let Some(Some(s)) = catch(|| hk::calculate_s(a_pub, vv, uu, b)) { push(ctx, 9, "server S", &[&a_pub, &vv, &uu, &b], vec![vec![0], s.to_vec()]); }
        }
    }
    // op 10 / 12 / 3: client under announced groups
    let gens = [2u8, 3, 5, 7, 11, 255];
    let primes = primes_le();
    let n_groups = if ctx.quick() { 4 } else { 24 };
    for (pi, n) in primes.iter().enumerate() {
        for r in 0..n_groups {
            let g = if r == 0 { 7 } else { *rng.pick(&gens) };
            let (bb, x, a, uu): ([u8; 32], [u8; 20], [u8; 32], [u8; 20]) = (rng.arr(), rng.arr(), rng.arr(), rng.arr());
            let out = match catch(|| hk::calculate_client_s(bb, x, a, uu, g, *n)) { Some(s) => vec![vec![0], s.to_vec()], None => vec![vec![2]] };
            push(ctx, 10, &format!("client S, announced modulus #{}", pi), &[&bb, &x, &a, &uu, &[g], n], out);
            push(ctx, 12, &format!("client public key, announced modulus #{}", pi), &[&a, &[g], n], pk_out(catch(|| hk::calculate_client_public_key(a, g, *n))));
        }
        // base B - k*g^x that is 0 or a NEGATIVE MULTIPLE of the modulus (B = 3v mod N' with 3v < N' / 3v >= N'):
        // the specified S is 0 for every exponent, odd or even
        for r in 0..(if ctx.quick() { 6 } else { 24 }) {
            let g = if r % 2 == 0 { 7 } else { *rng.pick(&gens) };
            let (x, a, uu): ([u8; 20], [u8; 32], [u8; 20]) = (rng.arr(), rng.arr(), rng.arr());
            let nz = bi(n);
            if nz <= num_bigint::BigInt::from(1) { continue; }
            let v = num_bigint::BigInt::from(g).modpow(&bi(&x), &nz);
            let kv = num_bigint::BigInt::from(3) * &v;
            let bb = le32b(&modp(&kv, &nz));
            let class = if kv >= nz { "negative multiple of the modulus" } else { "zero" };
            let out = match catch(|| hk::calculate_client_s(bb, x, a, uu, g, *n)) { Some(s) => vec![vec![0], s.to_vec()], None => vec![vec![2]] };
            push(ctx, 10, &format!("client S, base B - k*g^x is {}", class), &[&bb, &x, &a, &uu, &[g], n], out);
        }
        // through the public client API (B must be a valid key w.r.t. the built-in modulus)
        let g = if pi % 2 == 0 { 7 } else { *rng.pick(&gens) };
        let (u, p) = (rand_cred(&mut rng, 1 + pi % 16), rand_cred(&mut rng, 16 - pi % 16));
        let (b_pub, salt, a): ([u8; 32], [u8; 32], [u8; 32]) = (rng.arr(), rng.arr(), rng.arr());
        if let Some(out) = client_api(&u, &p, g, *n, b_pub, salt, &a, &[]) {
            let (un, pn) = (ns(&u), ns(&p));
            push(ctx, 3, &format!("client API, announced modulus #{}", pi), &[un.as_ref().as_bytes(), pn.as_ref().as_bytes(), &[g], n, &b_pub, &salt, &a, &[]], out);
        }
    }
    // the server side of the public API with stored values and arbitrary accepted client keys,
    // including non-canonical ones (A >= N): K, M2 and the expected-M1 payload are spec values too
    let n_srv = if ctx.quick() { 8 } else { 60 };
    for k in 0..n_srv {
        let u = rand_cred(&mut rng, 1 + k % 16);
        let (v, salt): ([u8; 32], [u8; 32]) = (rng.arr(), rng.arr());
        let (b, chal) = (rng.bytes(32), rng.bytes(16));
        let mut a_pub: [u8; 32] = rng.arr();
        if k % 2 == 0 { a_pub[31] |= 0xC0; } else { a_pub[31] &= 0x7f; }          // >= N  /  < N
        let ms = [rng.arr(), [0u8; 20]];
        let out = crate::c02::server_api(&u, v, salt, &b, a_pub, &ms, &chal);
        let un = ns(&u); let msc: Vec<u8> = ms.iter().flat_map(|m| m.iter().copied()).collect();
        push(ctx, 4, if k % 2 == 0 { "server API, non-canonical A >= N" } else { "server API, random A" }, &[un.as_ref().as_bytes(), &v, &salt, &b, &a_pub, &msc, &chal], out);
    }
    ctx.sample("op=10 calculate_client_S(B, x, a, u, g=7, N' = 2^31-1) and op=2 calculate_interleaved(S with 5 low-order zero bytes)".to_string());

    // ---- implementation-only oracle: textbook values recomputed independently on many sessions ----
    let per_thread = if ctx.quick() { 400 } else { 60_000 };
    let seed = ctx.seed;
    let res = par(16, |t| {
        let mut rng = Rng::new(seed, &format!("C03/oracle/{}", t));
        let mut fails = Vec::new();
        for _ in 0..per_thread {
            let (ul, pl) = (rng.range(1, 16) as usize, rng.range(1, 16) as usize);
            let (u, p) = (rand_cred(&mut rng, ul), rand_cred(&mut rng, pl));
            let tape = rng.bytes(112);
            let lg = login(&u, &p, &u, &p, &tape);
            if let Err(e) = &lg {
                if !matches!(e, LoginFail::BadOwnKey) {
                    // an exchange that textbook SRP6 completes was refused: one side's proof is not the specified value
                    fails.push(format!("{{\"user\":{},\"password\":{},\"tape\":\"{}\",\"what\":\"honest exchange refused, so a proof computed by one side differs from textbook WoW SRP6\",\"error\":{}}}", jstr(&u), jstr(&p), hex(&tape), jstr(&format!("{:?}", e))));
                }
            }
            if let Ok(l) = lg {
                let sp = spec_session(ns(&u).as_ref().as_bytes(), ns(&p).as_ref().as_bytes(), &tape[0..32], &tape[32..64], &tape[64..96], GENERATOR, &NLE);
                let ok = l.v == sp.v && l.b_pub == sp.b_pub && l.a_pub == sp.a_pub && l.ks == sp.k && l.kc == sp.k && l.m1 == sp.m1 && l.m2 == sp.m2;
                if !ok { fails.push(format!("{{\"user\":{},\"password\":{},\"tape\":\"{}\",\"what\":\"a value leaving the public API differs from textbook WoW SRP6\",\"impl\":{{\"v\":\"{}\",\"B\":\"{}\",\"A\":\"{}\",\"K\":\"{}\",\"M1\":\"{}\",\"M2\":\"{}\"}},\"spec\":{{\"v\":\"{}\",\"B\":\"{}\",\"A\":\"{}\",\"K\":\"{}\",\"M1\":\"{}\",\"M2\":\"{}\"}}}}",
                    jstr(&u), jstr(&p), hex(&tape), hex(&l.v), hex(&l.b_pub), hex(&l.a_pub), hex(&l.ks), hex(&l.m1), hex(&l.m2), hex(&sp.v), hex(&sp.b_pub), hex(&sp.a_pub), hex(&sp.k), hex(&sp.m1), hex(&sp.m2))); }
            }
            // interleave on secrets with forced zero prefixes
            let mut s: [u8; 32] = rng.arr(); let z = rng.below(33) as usize; for i in 0..z { s[i] = 0; }
            if catch(|| hk::calculate_interleaved(s)) != Some(spec_interleave(&s)) { fails.push(format!("{{\"fn\":\"calculate_interleaved\",\"S\":\"{}\"}}", hex(&s))); }
        }
        fails
    });
    for f in res { ctx.oracle_runs += 2 * per_thread as u64; for x in f { ctx.fail("spec_values", x); } }
    // announced groups against the textbook formulas
    let mut rng = ctx.rng("oracle-groups");
    let n = if ctx.quick() { 300 } else { 6000 };
    for _ in 0..n {
        let npr = *rng.pick(&primes); let g = *rng.pick(&gens);
        let (u, p) = (rand_cred(&mut rng, 5), rand_cred(&mut rng, 7));
        let (salt, a): ([u8; 32], [u8; 32]) = (rng.arr(), rng.arr());
        // a server-side B for this group computed textbook-style, then forced into the built-in key check
        let b: [u8; 32] = rng.arr();
        let sp = spec_session(ns(&u).as_ref().as_bytes(), ns(&p).as_ref().as_bytes(), &salt, &b, &a, g, &npr);
        ctx.oracle_runs += 1;
        if sp.b_pub == [0u8; 32] || sp.a_pub == [0u8; 32] { continue; }
        if let Some(out) = client_api(&u, &p, g, npr, sp.b_pub, salt, &a, &[sp.m2]) {
            if out.len() == 1 { continue; } // documented panic: own A invalid
            let ok = out[1] == sp.a_pub && out[2] == sp.m1 && out[3] == sp.k && out[4] == vec![0] && out[5] == sp.m2;
            if !ok { ctx.fail("spec_values_announced_group", format!("{{\"user\":{},\"password\":{},\"g\":{},\"N\":\"{}\",\"B\":\"{}\",\"salt\":\"{}\",\"a\":\"{}\",\"impl_A\":\"{}\",\"spec_A\":\"{}\",\"impl_M1\":\"{}\",\"spec_M1\":\"{}\",\"impl_K\":\"{}\",\"spec_K\":\"{}\"}}",
                jstr(&u), jstr(&p), g, hex(&npr), hex(&sp.b_pub), hex(&salt), hex(&a), hex(&out[1]), hex(&sp.a_pub), hex(&out[2]), hex(&sp.m1), hex(&out[3]), hex(&sp.k))); }
        }
    }
}
