//! C15: every ephemeral secret, salt, challenge and seed is freshly random per use.
//! (a) data flow with an injected tape: how many bytes each documented call draws, that they come
//!     out verbatim, in order, nothing cached;  (b) statistics over the real thread RNG (a test).
use crate::ctx::*;
use crate::srp::*;
use std::collections::HashSet;
use wow_srp::client::SrpClientChallenge;
use wow_srp::matrix_card::MatrixCard;
use wow_srp::server::SrpVerifier;
use wow_srp::verif_hooks::rand as vr;
use wow_srp::{PublicKey, GENERATOR, LARGE_SAFE_PRIME_LITTLE_ENDIAN as NLE};

/// run `f` with `tape` installed; returns (result, bytes consumed, log of draws)
fn with_tape<T>(tape: &[u8], f: impl FnOnce() -> T) -> (Option<T>, usize, Vec<(u8, Vec<u8>)>) {
    vr::take_log();
    vr::install_tape(tape);
    let r = catch(f);
    let left = vr::remove_tape().len();
    (r, tape.len() - left, vr::take_log())
}

struct Source { name: &'static str, width: usize, samples: Vec<Vec<u8>> }

fn stats(ctx: &mut Ctx, s: &Source, thorough: bool) {
    let n = s.samples.len();
    ctx.oracle_runs += n as u64;
    // repeats
    let set: HashSet<&Vec<u8>> = s.samples.iter().collect();
    let coinciding = n - set.len();
    let allowed = if s.width >= 8 { 0 } else if thorough { 14 } else { 3 };
    if coinciding > allowed {
        ctx.fail("repeat", format!("{{\"source\":\"{}\",\"draws\":{},\"coinciding\":{},\"allowed\":{},\"example\":\"{}\"}}", s.name, n, coinciding, allowed, hex(&s.samples[0])));
        return;
    }
    // every byte position varies and is uniform
    for pos in 0..s.width {
        let mut cnt = [0u64; 256];
        for v in &s.samples { cnt[v[pos] as usize] += 1; }
        let distinct = cnt.iter().filter(|c| **c > 0).count();
        let e = n as f64 / 256.0;
        let chi: f64 = cnt.iter().map(|c| { let d = *c as f64 - e; d * d / e }).sum();
        if distinct < 200 || chi > 460.0 {
            ctx.fail("byte_not_random", format!("{{\"source\":\"{}\",\"byte_position\":{},\"distinct_values\":{},\"chi2_255dof\":{:.1},\"draws\":{}}}", s.name, pos, distinct, chi, n));
            return;
        }
    }
    ctx.count_n(&format!("stat:{}:draws", s.name), n as u64);
}

pub fn run(ctx: &mut Ctx) {
    let mut rng = ctx.rng("corr");
    let un = ns("ALICE"); let pn = ns("PASSWORD1");
    let mut flow_fail = |ctx: &mut Ctx, what: &str, tape: &[u8]| ctx.fail("data_flow", format!("{{\"call\":\"{}\",\"tape\":\"{}\"}}", what, hex(&tape[..tape.len().min(64)])));
    // ---------------- (a) data flow with an injected tape ----------------
    let rounds = if ctx.quick() { 40 } else { 600 };
    for r in 0..rounds {
        // the first two rounds draw all-zero and all-ones bytes everywhere
        let tape = match r { 0 => vec![0u8; 256], 1 => vec![0xffu8; 256], _ => rng.bytes(256) };
        // registration: salt = next 32 bytes
        let (v, used, log) = with_tape(&tape, || SrpVerifier::from_username_and_password(un.clone(), pn.clone()));
        let acct = match v { Some(a) => a, None => { flow_fail(ctx, "from_username_and_password panicked", &tape); continue; } };
        if used != 32 || acct.salt()[..] != tape[..32] || log.len() != 1 { flow_fail(ctx, "from_username_and_password: salt is not exactly the next 32 drawn bytes", &tape); }
        // into_proof: b = next 32 (logged), B depends on it
        let (p, used, log) = with_tape(&tape[32..], || acct.clone().into_proof());
        let proof = match p { Some(p) => p, None => continue };
        if used != 32 || log.len() != 1 || log[0].1[..] != tape[32..64] { flow_fail(ctx, "into_proof: private key is not exactly the next 32 drawn bytes", &tape); }
        let b_pub = *proof.server_public_key();
        let mut bb = [0u8; 32]; bb.copy_from_slice(&tape[32..64]);
        if wow_srp::verif_hooks::internals::calculate_server_public_key(*acct.password_verifier(), bb) != Ok(b_pub) { flow_fail(ctx, "into_proof: B is not computed from the drawn private key", &tape); }
        // client: a = next 32
        let spk = PublicKey::from_le_bytes(b_pub).unwrap();
        let (c, used, log) = with_tape(&tape[64..], || SrpClientChallenge::new(un.clone(), pn.clone(), GENERATOR, NLE, spk, *proof.salt()));
        let cl = match c { Some(c) => c, None => { flow_fail(ctx, "SrpClientChallenge::new panicked", &tape); continue; } };
        let mut aa = [0u8; 32]; aa.copy_from_slice(&tape[64..96]);
        if used != 32 || log.len() != 1 || wow_srp::verif_hooks::internals::calculate_client_public_key(aa, GENERATOR, NLE) != Ok(*cl.client_public_key()) { flow_fail(ctx, "SrpClientChallenge::new: A is not g^a for the next 32 drawn bytes", &tape); }
        // into_server: refused proof draws nothing; accepted proof draws exactly 16 = the challenge
        let apk = PublicKey::from_le_bytes(*cl.client_public_key()).unwrap();
        let mut bad = *cl.client_proof(); bad[0] ^= 1;
        let (rr, used, _) = with_tape(&tape[96..], || proof.clone().into_server(apk, bad));
        if used != 0 || !matches!(rr, Some(Err(_))) { flow_fail(ctx, "into_server: a refused proof consumed randomness or was accepted", &tape); }
        let (rr, used, _) = with_tape(&tape[96..], || proof.clone().into_server(apk, *cl.client_proof()));
        let (mut server, m2) = match rr { Some(Ok(x)) => x, _ => { flow_fail(ctx, "into_server refused the honest proof", &tape); continue; } };
        if used != 16 || server.reconnect_challenge_data()[..] != tape[96..112] { flow_fail(ctx, "into_server: reconnect challenge is not exactly the next 16 drawn bytes", &tape); }
        let client = match cl.verify_server_proof(m2) { Ok(c) => c, Err(_) => continue };
        // reconnect: client challenge 16, server refresh 16 on every attempt (accepted or not)
        for k in 0..3 {
            let off = 112 + k * 32;
            let cur = *server.reconnect_challenge_data();
            let (rv, used, _) = with_tape(&tape[off..], || client.calculate_reconnect_values(cur));
            let rv = rv.unwrap();
            if used != 16 || rv.challenge_data[..] != tape[off..off + 16] { flow_fail(ctx, "calculate_reconnect_values: challenge is not exactly the next 16 drawn bytes", &tape); }
            let pf = if k == 1 { [0u8; 20] } else { rv.proof };
            let (vd, used, _) = with_tape(&tape[off + 16..], || server.verify_reconnection_attempt(rv.challenge_data, pf));
            if used != 16 || server.reconnect_challenge_data()[..] != tape[off + 16..off + 32] || vd != Some(k != 1) { flow_fail(ctx, "verify_reconnection_attempt: challenge not refreshed with exactly the next 16 drawn bytes (or wrong verdict)", &tape); }
        }
        ctx.oracle_runs += 12;
        // convenience generators, also through the Coq model
        let t4 = &tape[r % 50..r % 50 + 40];
        for m in 0..3u8 {
            let (s, used, _) = with_tape(t4, || match m { 0 => wow_srp::vanilla_header::ProofSeed::new().seed(), 1 => wow_srp::tbc_header::ProofSeed::new().seed(), _ => wow_srp::wrath_header::ProofSeed::new().seed() });
            let s = s.unwrap();
            ctx.case(1, &format!("ProofSeed::new module {}", m), &[t4], &[&[0], &s.to_le_bytes(), &(used as u32).to_le_bytes()]);
        }
        let (s, used, _) = with_tape(t4, wow_srp::pin::get_pin_grid_seed);
        ctx.case(2, "get_pin_grid_seed", &[t4], &[&[0], &s.unwrap().to_le_bytes(), &(used as u32).to_le_bytes()]);
        let (s, used, _) = with_tape(t4, wow_srp::pin::get_pin_salt);
        ctx.case(3, "get_pin_salt", &[t4], &[&[0], &s.unwrap(), &(used as u32).to_le_bytes()]);
        let (s, used, _) = with_tape(t4, wow_srp::matrix_card::get_matrix_card_seed);
        ctx.case(4, "get_matrix_card_seed", &[t4], &[&[0], &s.unwrap().to_le_bytes(), &(used as u32).to_le_bytes()]);
        let (s, used, _) = with_tape(t4, wow_srp::integrity::get_salt_value);
        ctx.case(5, "integrity get_salt_value", &[t4], &[&[0], &s.unwrap(), &(used as u32).to_le_bytes()]);
        // card digits: the rejection sampler (words close to 2^32 are rejected: force some)
        let n_digits = 1 + r % 12;
        let mut dt = rng.bytes(4 * n_digits + 24);
        if r % 3 == 0 { dt[0..4].copy_from_slice(&0xFFFF_FFFFu32.to_le_bytes()); dt[4..8].copy_from_slice(&0xFFFF_FFFAu32.to_le_bytes()); }
        if r % 3 == 1 { dt[0..4].copy_from_slice(&0xFFFF_FFF9u32.to_le_bytes()); }
        let (card, used, _) = with_tape(&dt, || MatrixCard::new(1, 1, n_digits as u8));
        match card {
            Some(c) => ctx.case(6, "MatrixCard::new digits", &[&dt, &(n_digits as u16).to_le_bytes()], &[&[0], c.data(), &(used as u32).to_le_bytes()]),
            None => ctx.case(6, "MatrixCard::new digits (tape exhausted)", &[&dt, &(n_digits as u16).to_le_bytes()], &[&[2]]),
        }
    }
    // boundary draws for the convenience generators: the value handed out must be the drawn bytes for EVERY
    // draw, also at the ends of the range (a clamp, a modulo or a rejection of the top values shows here)
    let mut specials: Vec<Vec<u8>> = vec![vec![0xff; 40], vec![0x00; 40], vec![0x80; 40], vec![0x7f; 40]];
    for w in [0xFFFF_FFFFu32, 0xFFFF_FFFE, 0xFFE0_00FF, 0xFFE0_0100, 0xFFE0_00FE, 0xFFFF_FFF9, 0xFFFF_FFFA, 0x8000_0000, 0x7FFF_FFFF, 1, 3_628_800, 3_628_799, 0xFFFF_0000, 0x0000_FFFF] {
        let mut t = w.to_le_bytes().to_vec(); t.extend(rng.bytes(36)); specials.push(t);
        let mut t = rng.bytes(4); t.extend(w.to_le_bytes()); t.extend(rng.bytes(32)); specials.push(t);   // high half of a u64 draw
    }
    for t4 in &specials {
        for m in 0..3u8 {
            let (s, used, _) = with_tape(t4, || match m { 0 => wow_srp::vanilla_header::ProofSeed::new().seed(), 1 => wow_srp::tbc_header::ProofSeed::new().seed(), _ => wow_srp::wrath_header::ProofSeed::new().seed() });
            if let Some(s) = s { ctx.case(1, &format!("ProofSeed::new module {}, boundary draw", m), &[t4], &[&[0], &s.to_le_bytes(), &(used as u32).to_le_bytes()]); }
        }
        let (s, used, _) = with_tape(t4, wow_srp::pin::get_pin_grid_seed);
        if let Some(s) = s { ctx.case(2, "get_pin_grid_seed, boundary draw", &[t4], &[&[0], &s.to_le_bytes(), &(used as u32).to_le_bytes()]); }
        let (s, used, _) = with_tape(t4, wow_srp::pin::get_pin_salt);
        if let Some(s) = s { ctx.case(3, "get_pin_salt, boundary draw", &[t4], &[&[0], &s, &(used as u32).to_le_bytes()]); }
        let (s, used, _) = with_tape(t4, wow_srp::matrix_card::get_matrix_card_seed);
        if let Some(s) = s { ctx.case(4, "get_matrix_card_seed, boundary draw", &[t4], &[&[0], &s.to_le_bytes(), &(used as u32).to_le_bytes()]); }
        let (s, used, _) = with_tape(t4, wow_srp::integrity::get_salt_value);
        if let Some(s) = s { ctx.case(5, "integrity get_salt_value, boundary draw", &[t4], &[&[0], &s, &(used as u32).to_le_bytes()]); }
        ctx.oracle_runs += 7;
    }
    ctx.sample("tape-injected: registration(32) into_proof(32) client(32) into_server(16 only if accepted) 3 x [client reconnect(16) + server refresh(16)]; seeds 4/4/8, salts 16, card digits via Uniform(0..=9) rejection sampling".to_string());

    // ---------------- (b) statistics over the real RNG (no tape) ----------------
    let n = if ctx.quick() { 4096usize } else { 65536 };
    let thorough = !ctx.quick();
    let per = n / 16;
    let acct = SrpVerifier::from_database_values(un.clone(), [7u8; 32], [9u8; 32]);
    let parts = par(16, |_t| {
        let mut out: Vec<(usize, Vec<u8>)> = Vec::new();
        for _ in 0..per {
            vr::take_log();
            out.push((0, SrpVerifier::from_username_and_password(ns("A"), ns("B")).salt().to_vec()));
            let pr = acct.clone().into_proof();
            let log = vr::take_log();
            out.push((1, log.last().map(|d| d.1.clone()).unwrap_or_default()));      // b itself (logged)
            out.push((2, pr.server_public_key().to_vec()));                            // B for a fixed verifier
            let spk = PublicKey::from_le_bytes(*pr.server_public_key()).unwrap();
            let cl = SrpClientChallenge::new(ns("A"), ns("B"), GENERATOR, NLE, spk, [9u8; 32]);
            let log = vr::take_log();
            out.push((3, log.last().map(|d| d.1.clone()).unwrap_or_default()));      // a itself (logged)
            out.push((4, cl.client_public_key().to_vec()));                            // A for fixed inputs
            out.push((5, wow_srp::vanilla_header::ProofSeed::new().seed().to_le_bytes().to_vec()));
            out.push((6, wow_srp::tbc_header::ProofSeed::new().seed().to_le_bytes().to_vec()));
            out.push((7, wow_srp::wrath_header::ProofSeed::new().seed().to_le_bytes().to_vec()));
            out.push((8, wow_srp::integrity::get_salt_value().to_vec()));
            out.push((9, wow_srp::pin::get_pin_salt().to_vec()));
            out.push((10, wow_srp::pin::get_pin_grid_seed().to_le_bytes().to_vec()));
            out.push((11, wow_srp::matrix_card::get_matrix_card_seed().to_le_bytes().to_vec()));
        }
        // reconnect challenges on one logged-in pair: login challenge, then refresh after every attempt, client challenges
        let mut l = login("Stat", "pw", "stat", "PW", &Rng::new(_t as u64, "c15").bytes(112)).unwrap();
        vr::take_log();
        for k in 0..per {
            let cur = *l.server.reconnect_challenge_data();
            let rv = l.client.calculate_reconnect_values(cur);
            out.push((12, rv.challenge_data.to_vec()));
            let _ = l.server.verify_reconnection_attempt(rv.challenge_data, if k % 2 == 0 { rv.proof } else { [0u8; 20] });
            out.push((13, l.server.reconnect_challenge_data().to_vec()));
        }
        vr::take_log();
        out
    });
    let names: [(&str, usize); 14] = [("registration salt", 32), ("server private key b (logged draw)", 32), ("B for a fixed verifier", 32), ("client private key a (logged draw)", 32), ("A for fixed inputs", 32),
        ("vanilla ProofSeed", 4), ("tbc ProofSeed", 4), ("wrath ProofSeed", 4), ("integrity salt", 16), ("pin salt", 16), ("pin grid seed", 4), ("matrix card seed", 8), ("client reconnect challenge", 16), ("server reconnect challenge after each attempt", 16)];
    let mut sources: Vec<Source> = names.iter().map(|(n, w)| Source { name: n, width: *w, samples: Vec::new() }).collect();
    for part in parts { for (i, v) in part { sources[i].samples.push(v); } }
    for s in &sources {
        if s.samples.iter().any(|v| v.len() != s.width) { ctx.fail("data_flow", format!("{{\"call\":\"{}\",\"what\":\"draw has the wrong width\"}}", s.name)); continue; }
        // B and A are reduced mod N: the top byte is not uniform over 0..255; test only repeats + lower bytes
        if s.name.starts_with("B for") || s.name.starts_with("A for") { let t = Source { name: s.name, width: 31, samples: s.samples.iter().map(|v| v[..31].to_vec()).collect() }; stats(ctx, &t, thorough); }
        else { stats(ctx, s, thorough); }
    }
    // login challenge of fresh servers (real RNG): distinct per login
    let m = if ctx.quick() { 512 } else { 8192 };
    let chals: Vec<Vec<u8>> = par(16, |_| { let mut v = Vec::new(); for _ in 0..m / 16 {
            let a = SrpVerifier::from_username_and_password(ns("A"), ns("B")); let salt = *a.salt(); let pr = a.into_proof();
            let spk = PublicKey::from_le_bytes(*pr.server_public_key()).unwrap();
            let cl = SrpClientChallenge::new(ns("A"), ns("B"), GENERATOR, NLE, spk, salt);
            let apk = PublicKey::from_le_bytes(*cl.client_public_key()).unwrap();
            if let Ok((s, _)) = pr.into_server(apk, *cl.client_proof()) { v.push(s.reconnect_challenge_data().to_vec()); } }
        vr::take_log(); v }).into_iter().flatten().collect();
    let set: HashSet<&Vec<u8>> = chals.iter().collect();
    ctx.oracle_runs += chals.len() as u64;
    if set.len() != chals.len() || chals.len() < m / 2 { ctx.fail("repeat", format!("{{\"source\":\"login reconnect challenge\",\"draws\":{},\"distinct\":{}}}", chals.len(), set.len())); }
    // card digits
    let cards = if ctx.quick() { 200 } else { 4000 };
    let mut cnt = [0u64; 10]; let mut total = 0u64; let mut seen: HashSet<Vec<u8>> = HashSet::new(); let mut dup = 0;
    for _ in 0..cards {
        let c = MatrixCard::new(2, 10, 8);
        for d in c.data() { if *d > 9 { ctx.fail("digit_out_of_range", format!("{{\"digit\":{}}}", d)); } else { cnt[*d as usize] += 1; } total += 1; }
        if !seen.insert(c.data().to_vec()) { dup += 1; }
    }
    vr::take_log();
    ctx.oracle_runs += total;
    let e = total as f64 / 10.0;
    let chi: f64 = cnt.iter().map(|c| { let d = *c as f64 - e; d * d / e }).sum();
    if cnt.iter().any(|c| *c == 0) || chi > 80.0 || dup > 0 { ctx.fail("digits_not_random", format!("{{\"counts\":{:?},\"chi2_9dof\":{:.1},\"identical_cards\":{}}}", cnt, chi, dup)); }
    ctx.count_n("stat:card digits", total);
}
