//! C01: honest client and server authenticate and agree on K.
use crate::ctx::*;
use crate::srp::*;

pub fn run(ctx: &mut Ctx) {
    let mut rng = ctx.rng("corr");
    // ---- sessions through the Coq model (each costs ~13 s of in-Coq big-integer arithmetic) ----
    let n_plain = if ctx.quick() { 40 } else { 400 };
    for k in 0..n_plain {
        let ul = 1 + (k % 16); let pl = 16 - (k % 16);
        let u = rand_cred(&mut rng, ul); let p = rand_cred(&mut rng, pl);
        let (cu, cp) = (flip_case(&mut rng, &u), flip_case(&mut rng, &p));
        let tape = rng.bytes(112);
        match login(&u, &p, &cu, &cp, &tape) {
            Ok(l) => { emit_login_case(ctx, "random credentials, case-flipped client input", &l);
                       if k == 1 { ctx.sample(format!("login user={:?} password={:?} typed as {:?}/{:?} tape={}", u, p, cu, cp, hex(&tape))); } }
            Err(e) => ctx.fail("honest_login", format!("{{\"user\":{},\"password\":{},\"client_user\":{},\"client_password\":{},\"tape\":\"{}\",\"error\":{}}}", jstr(&u), jstr(&p), jstr(&cu), jstr(&cp), hex(&tape), jstr(&format!("{:?}", e)))),
        }
    }
    let classes: Vec<(&str, usize, Box<dyn Fn(&Login, &[u8; 32]) -> bool>)> = vec![
        ("S with 1 low-order zero byte", if ctx.quick() { 16 } else { 120 }, Box::new(|_, s| s[0] == 0 && s[1] != 0)),
        ("S with a high-order zero byte", 6, Box::new(|_, s| s[31] == 0)),
        ("A with a high-order zero byte", 6, Box::new(|l, _| l.a_pub[31] == 0)),
        ("B with a high-order zero byte", 6, Box::new(|l, _| l.b_pub[31] == 0)),
        ("v with a high-order zero byte", 4, Box::new(|l, _| l.v[31] == 0)),
        ("B < v (so B - k*v negative)", 6, Box::new(|l, _| le_lt(&l.b_pub, &l.v))),
        ("B >= 3v, difference certainly not negative (v with small top byte)", 1, Box::new(|l, _| l.v[31] < 0x10 && l.b_pub[31] > 0x40)),
    ];
    for (label, n, pred) in classes {
        for _ in 0..n {
            let ul = rng.range(1, 16) as usize; let pl = rng.range(1, 16) as usize;
            let u = rand_cred(&mut rng, ul); let p = rand_cred(&mut rng, pl);
            let mut fails = Vec::new();
            match search_login(&mut rng, &u, &p, 20_000, &mut fails, &pred) {
                Some(l) => emit_login_case(ctx, label, &l),
                None => ctx.notes.push(format!("class search exhausted: {}", label)),
            }
            for f in fails { ctx.fail("honest_login", f); }
        }
    }
    if !ctx.quick() {
        // two low-order zero bytes: 1 in 65536, searched on all threads
        let seed = ctx.seed;
        let found = par(16, |t| { let mut r = Rng::new(seed, &format!("C01/two-zero/{}", t)); let mut f = Vec::new(); let l = search_login(&mut r, "Bob", "pw", 40_000, &mut f, |_, s| s[0] == 0 && s[1] == 0); (l, f) });
        let mut n2 = 0;
        for (l, f) in found { for x in f { ctx.fail("honest_login", x); } if let Some(l) = l { if n2 < 2 { emit_login_case(ctx, "S with 2 low-order zero bytes", &l); n2 += 1; } } }
    }

    // ---- histories on ONE thread: the honest exchange must not depend on what the same thread did
    // before (a mistyped password on the same record, another account under the same salt, the same
    // account under a new salt).  The last login of each history also goes through the model.
    let n_hist = if ctx.quick() { 24 } else { 400 };
    for k in 0..n_hist {
        let (ul, pl) = (rng.range(1, 16) as usize, rng.range(1, 16) as usize);
        let (u, p) = (rand_cred(&mut rng, ul), rand_cred(&mut rng, pl));
        let tape = rng.bytes(112);
        let ln = rng.range(1, 16) as usize;
        let other = loop { let o = rand_cred(&mut rng, ln); if o.to_uppercase() != p.to_uppercase() && o.to_uppercase() != u.to_uppercase() { break o; } };
        let kind = k % 6;
        let label = ["after a mistyped password on the same record", "after the same account registered with another password under the same salt",
                     "after another account under the same salt and password", "after the same credentials under another salt",
                     "after the same record with other session keys", "after the identical login"][kind];
        // the step before (its own verdict is not judged here, only that it leaves no trace)
        let before = match kind {
            0 => login(&u, &p, &u, &other, &tape).is_ok(),
            1 => login(&u, &other, &u, &other, &tape).is_ok(),
            2 => login(&other, &p, &other, &p, &tape).is_ok(),
            3 => { let mut t2 = tape.clone(); let s2 = rng.bytes(32); t2[..32].copy_from_slice(&s2); login(&u, &p, &u, &p, &t2).is_ok() }
            4 => { let mut t2 = tape.clone(); let s2 = rng.bytes(80); t2[32..].copy_from_slice(&s2); login(&u, &p, &u, &p, &t2).is_ok() }
            _ => login(&u, &p, &u, &p, &tape).is_ok(),
        };
        if kind == 0 && before { ctx.notes.push("history: a mistyped password was accepted (C02 judges that)".to_string()); }
        let (cu, cp) = (flip_case(&mut rng, &u), flip_case(&mut rng, &p));
        ctx.oracle_runs += 1;
        ctx.count(&format!("oracle:history, honest login {}", label));
        match login(&u, &p, &cu, &cp, &tape) {
            Ok(l) => { if l.ks != l.kc { ctx.fail("honest_login", format!("{{\"history\":{},\"user\":{},\"password\":{},\"earlier_input\":{},\"tape\":\"{}\",\"error\":\"keys differ\"}}", jstr(label), jstr(&u), jstr(&p), jstr(&other), hex(&tape))); }
                       if k < 12 || !ctx.quick() && k % 8 < 6 { emit_login_case(ctx, &format!("honest login {}", label), &l); } }
            Err(LoginFail::BadOwnKey) => {}
            Err(e) => ctx.fail("honest_login", format!("{{\"history\":{},\"user\":{},\"password\":{},\"client_user\":{},\"client_password\":{},\"earlier_input\":{},\"tape\":\"{}\",\"error\":{}}}", jstr(label), jstr(&u), jstr(&p), jstr(&cu), jstr(&cp), jstr(&other), hex(&tape), jstr(&format!("{:?}", e)))),
        }
    }

    // ---- overlapping logins on one thread: a server answers several clients at once.  All challenges are issued
    //      first (into_proof for every session), then the clients answer, then the server finishes the sessions in
    //      FIFO, LIFO or a random order.  Every session is an honest exchange and must authenticate with equal
    //      keys - a value parked between into_proof and into_server by one session must not leak into another.
    {
        use wow_srp::client::SrpClientChallenge;
        use wow_srp::server::SrpVerifier;
        use wow_srp::{PublicKey, GENERATOR, LARGE_SAFE_PRIME_LITTLE_ENDIAN as NLE};
        let mut rng = ctx.rng("overlap");
        let n = if ctx.quick() { 60 } else { 3000 };
        for k in 0..n {
            let sessions = 2 + rng.range(0, 3) as usize;
            let creds: Vec<(String, String)> = (0..sessions).map(|_| { let (a, b) = (rng.range(1, 16) as usize, rng.range(1, 16) as usize); (rand_cred(&mut rng, a), rand_cred(&mut rng, b)) }).collect();
            let mut order: Vec<usize> = (0..sessions).collect();
            match k % 3 { 0 => {}, 1 => order.reverse(), _ => { for i in (1..sessions).rev() { let j = rng.below(i as u64 + 1) as usize; order.swap(i, j); } } }
            let (cr, ord) = (creds.clone(), order.clone());
            let r = catch(move || {
                let proofs: Vec<_> = cr.iter().map(|(u, p)| {
                    let acct = SrpVerifier::from_username_and_password(ns(u), ns(p));
                    SrpVerifier::from_database_values(ns(acct.username()), *acct.password_verifier(), *acct.salt()).into_proof()
                }).collect();
                let clients: Vec<_> = cr.iter().zip(proofs.iter()).map(|((u, p), pr)| {
                    SrpClientChallenge::new(ns(&u.to_ascii_lowercase()), ns(&p.to_ascii_uppercase()), GENERATOR, NLE, PublicKey::from_le_bytes(*pr.server_public_key()).unwrap(), *pr.salt())
                }).collect();
                let mut proofs: Vec<Option<_>> = proofs.into_iter().map(Some).collect();
                let mut clients: Vec<Option<_>> = clients.into_iter().map(Some).collect();
                let mut out: Vec<(usize, &'static str)> = Vec::new();
                for i in ord {
                    let (pr, cl) = (proofs[i].take().unwrap(), clients[i].take().unwrap());
                    let a = PublicKey::from_le_bytes(*cl.client_public_key()).unwrap();
                    match pr.into_server(a, *cl.client_proof()) {
                        Err(_) => out.push((i, "the server rejected the honest client's proof")),
                        Ok((srv, m2)) => match cl.verify_server_proof(m2) {
                            Err(_) => out.push((i, "the client rejected the server's proof")),
                            Ok(c) => if c.session_key() != srv.session_key() { out.push((i, "session keys differ")); },
                        },
                    }
                }
                out
            });
            ctx.oracle_runs += sessions as u64;
            let cj: Vec<String> = creds.iter().map(|(u, p)| format!("[{},{}]", jstr(u), jstr(p))).collect();
            let det = |what: &str| format!("{{\"what\":\"{}\",\"sessions\":[{}],\"into_server_order\":{:?}}}", what, cj.join(","), order);
            match r {
                None => ctx.fail("panic", det("panic in overlapping logins")),
                Some(bad) => for (i, what) in bad { ctx.fail("honest_login", det(&format!("overlapping logins on one thread, session {}: {}", i, what))); },
            }
            ctx.count("oracle:overlapping logins (batches)");
        }
    }

    // ---- implementation-only oracle: many honest logins, all must succeed with equal keys ----
    let per_thread = if ctx.quick() { 2_000 } else { 500_000 };
    let seed = ctx.seed;
    let res = par(16, |t| {
        let mut rng = Rng::new(seed, &format!("C01/oracle/{}", t));
        let mut fails = Vec::new(); let mut cls = [0u64; 4];
        for k in 0..per_thread {
            let (ul, pl) = (rng.range(1, 16) as usize, rng.range(1, 16) as usize);
            let u = rand_cred(&mut rng, ul); let p = rand_cred(&mut rng, pl);
            let (cu, cp) = (flip_case(&mut rng, &u), flip_case(&mut rng, &p));
            let tape = rng.bytes(112);
            match login(&u, &p, &cu, &cp, &tape) {
                Ok(l) => {
                    if l.ks != l.kc { fails.push(format!("{{\"user\":{},\"password\":{},\"tape\":\"{}\",\"error\":\"keys differ\"}}", jstr(&u), jstr(&p), hex(&tape))); }
                    if k % 8 == 0 { if let Some(s) = secret_of(&l) { if s[0] == 0 { cls[0] += 1; } if s[31] == 0 { cls[1] += 1; } } if le_lt(&l.b_pub, &l.v) { cls[2] += 1; } cls[3] += 1; }
                }
                Err(LoginFail::BadOwnKey) => {}
                Err(e) => fails.push(format!("{{\"user\":{},\"password\":{},\"client_user\":{},\"client_password\":{},\"tape\":\"{}\",\"error\":{}}}", jstr(&u), jstr(&p), jstr(&cu), jstr(&cp), hex(&tape), jstr(&format!("{:?}", e)))),
            }
        }
        (fails, cls)
    });
    for (fails, cls) in res {
        ctx.oracle_runs += per_thread as u64;
        for f in fails { ctx.fail("honest_login", f); }
        ctx.count_n("oracle:sampled S low zero byte", cls[0]); ctx.count_n("oracle:sampled S high zero byte", cls[1]);
        ctx.count_n("oracle:sampled B < v", cls[2]); ctx.count_n("oracle:class-sampled sessions", cls[3]);
    }
    // directed: sessions whose S has a low-order zero byte (the 0.1.1 bug class), found by search
    let n_dir = if ctx.quick() { 40 } else { 2000 };
    let res = par(16, |t| {
        let mut rng = Rng::new(seed, &format!("C01/directed/{}", t));
        let mut n = 0u64; let mut f = Vec::new();
        for _ in 0..n_dir / 16 + 1 { if search_login(&mut rng, "Alice", "secret", 20_000, &mut f, |_, s| s[0] == 0).is_some() { n += 1; } }
        (n, f)
    });
    let tot: u64 = res.iter().map(|x| x.0).sum();
    for (_, f) in res { for x in f { ctx.fail("honest_login", x); } }
    ctx.count_n("oracle:directed sessions with S = 0 mod 256 (all authenticated)", tot);
    ctx.oracle_runs += tot;
}
