//! C16: PIN hashes (src/pin.rs).
//!
//! Correspondence cases (evaluated by corr/C16.v : run_C16):
//!   op 1  remap_pin_grid through the guarded hook      in: seed (4 LE)                  out: [0], grid (10)
//!   op 2  calculate_hash                               in: pin, seed, server salt, client salt
//!                                                      out: [0],[0] | [0],[1],hash (20)
//!   op 3  verify_client_pin_hash                       in: pin, seed, server salt, client salt, presented hash
//!                                                      out: [0],[0|1]
//! Implementation-only oracle: an independent specification written here (decimal digits most
//! significant first, factorial-base decoding of seed mod 10!, position lookup, two nested SHA-1).
use crate::ctx::*;
use sha1::{Digest, Sha1};
use wow_srp::pin::{calculate_hash, verify_client_pin_hash};
use wow_srp::verif_hooks::internals as hk;

const FACT10: u64 = 3_628_800;

// ---------------------------------------------------------------- independent specification
fn spec_digits(pin: u32) -> Vec<u8> {
    // decimal expansion, most significant digit first, nothing for 0
    let mut p = pin as u64;
    let mut place = 1u64;
    while place * 10 <= p { place *= 10; }
    let mut out = Vec::new();
    if p == 0 { return out; }
    while place > 0 { out.push((p / place) as u8); p %= place; place /= 10; }
    out
}
fn spec_grid(seed: u64) -> [u8; 10] {
    // Lehmer / factorial-base decoding of seed mod 10! applied to [0..9]
    let mut r = seed % FACT10;
    let mut pool: Vec<u8> = (0..10).collect();
    let mut out = [0u8; 10];
    for (k, radix) in (1..=10u64).rev().enumerate() {
        let idx = (r % radix) as usize;
        r /= radix;
        out[k] = pool.remove(idx);
    }
    out
}
fn sha(parts: &[&[u8]]) -> [u8; 20] {
    let mut h = Sha1::new();
    for p in parts { h.update(p); }
    h.finalize().into()
}
fn spec_hash(pin: u32, seed: u32, ss: &[u8; 16], cs: &[u8; 16]) -> Option<[u8; 20]> {
    let ds = spec_digits(pin);
    if ds.len() < 4 || ds.len() > 10 { return None; }
    let grid = spec_grid(seed as u64);
    let ascii: Vec<u8> = ds.iter().map(|d| 0x30 + grid.iter().position(|g| g == d).unwrap() as u8).collect();
    let inner = sha(&[ss, &ascii]);
    Some(sha(&[cs, &inner]))
}
fn is_perm(g: &[u8; 10]) -> bool {
    let mut seen = [false; 10];
    for x in g { if *x > 9 || seen[*x as usize] { return false; } seen[*x as usize] = true; }
    true
}
fn flip(h: &[u8; 20], bit: usize) -> [u8; 20] {
    let mut o = *h;
    o[bit / 8] ^= 1 << (bit % 8);
    o
}

// ---------------------------------------------------------------- case emitters
fn le4(x: u32) -> [u8; 4] { x.to_le_bytes() }

fn emit_grid(ctx: &mut Ctx, label: &str, seed: u32) {
    let s = le4(seed);
    match catch(|| hk::remap_pin_grid(seed)) {
        Some(g) => ctx.case(1, label, &[&s], &[&[0], &g]),
        None => {
            ctx.case(1, "panic", &[&s], &[&[2]]);
            ctx.fail("panic", format!("{{\"call\":\"remap_pin_grid\",\"seed\":{}}}", seed));
        }
    }
}
fn emit_hash(ctx: &mut Ctx, label: &str, pin: u32, seed: u32, ss: &[u8; 16], cs: &[u8; 16]) -> Option<[u8; 20]> {
    let (p, s) = (le4(pin), le4(seed));
    match catch(|| calculate_hash(pin, seed, ss, cs)) {
        Some(None) => { ctx.case(2, label, &[&p, &s, ss, cs], &[&[0], &[0]]); None }
        Some(Some(h)) => { ctx.case(2, label, &[&p, &s, ss, cs], &[&[0], &[1], &h]); Some(h) }
        None => {
            ctx.case(2, "panic", &[&p, &s, ss, cs], &[&[2]]);
            ctx.fail("panic", format!("{{\"call\":\"calculate_hash\",\"pin\":{},\"seed\":{},\"server_salt\":\"{}\",\"client_salt\":\"{}\"}}", pin, seed, hex(ss), hex(cs)));
            None
        }
    }
}
fn emit_verify(ctx: &mut Ctx, label: &str, pin: u32, seed: u32, ss: &[u8; 16], cs: &[u8; 16], h: &[u8; 20]) -> Option<bool> {
    let (p, s) = (le4(pin), le4(seed));
    match catch(|| verify_client_pin_hash(pin, seed, ss, cs, h)) {
        Some(b) => { ctx.case(3, label, &[&p, &s, ss, cs, h], &[&[0], &[b as u8]]); Some(b) }
        None => {
            ctx.case(3, "panic", &[&p, &s, ss, cs, h], &[&[2]]);
            ctx.fail("panic", format!("{{\"call\":\"verify_client_pin_hash\",\"pin\":{},\"seed\":{},\"server_salt\":\"{}\",\"client_salt\":\"{}\",\"hash\":\"{}\"}}", pin, seed, hex(ss), hex(cs), hex(h)));
            None
        }
    }
}
fn pin_of_length(rng: &mut Rng, len: u32) -> u32 {
    let lo = 10u64.pow(len - 1);
    let hi = (10u64.pow(len) - 1).min(u32::MAX as u64);
    rng.range(lo, hi) as u32
}
fn salt(rng: &mut Rng, k: usize) -> [u8; 16] {
    match k % 9 { 0 => [0u8; 16], 1 => [0xff; 16], _ => rng.arr() }
}

// ---------------------------------------------------------------- implementation-only oracle
fn detail(pin: u32, seed: u32, ss: &[u8; 16], cs: &[u8; 16]) -> String {
    format!("\"pin\":{},\"seed\":{},\"server_salt\":\"{}\",\"client_salt\":\"{}\"", pin, seed, hex(ss), hex(cs))
}
fn oracle_hash(ctx: &mut Ctx, rng: &mut Rng, pin: u32, seed: u32, ss: &[u8; 16], cs: &[u8; 16]) {
    ctx.oracle_runs += 1;
    let want = spec_hash(pin, seed, ss, cs);
    let bit = rng.below(160) as usize;
    let other: [u8; 20] = rng.arr();
    let near: [u8; 20] = { let base = want.unwrap_or(other); let nm = near_misses(rng, &base); let mut x = base; x.copy_from_slice(&nm[rng.below(nm.len() as u64) as usize].0); x };
    let r = catch(|| {
        let got = calculate_hash(pin, seed, ss, cs);
        let probe = want.unwrap_or(other);
        let v_right = verify_client_pin_hash(pin, seed, ss, cs, &probe);
        let v_flip = verify_client_pin_hash(pin, seed, ss, cs, &flip(&probe, bit));
        let v_other = verify_client_pin_hash(pin, seed, ss, cs, &other);
        let v_flip = v_flip || verify_client_pin_hash(pin, seed, ss, cs, &near);
        (got, v_right, v_flip, v_other)
    });
    match r {
        None => ctx.fail("panic", format!("{{\"call\":\"calculate_hash/verify_client_pin_hash\",{}}}", detail(pin, seed, ss, cs))),
        Some((got, v_right, v_flip, v_other)) => {
            if got != want {
                ctx.fail("hash_value", format!("{{{},\"impl\":{},\"spec\":{}}}", detail(pin, seed, ss, cs),
                    got.map_or("null".to_string(), |h| format!("\"{}\"", hex(&h))), want.map_or("null".to_string(), |h| format!("\"{}\"", hex(&h)))));
            }
            if (pin < 1000) != got.is_none() {
                ctx.fail("short_pin_gate", format!("{{{},\"hash_exists\":{}}}", detail(pin, seed, ss, cs), got.is_some()));
            }
            // true exactly when a hash exists and equals the presented one
            if v_right != want.is_some() {
                ctx.fail("verify_iff", format!("{{{},\"presented\":\"spec hash\",\"verify\":{},\"hash_exists\":{}}}", detail(pin, seed, ss, cs), v_right, want.is_some()));
            }
            if v_flip {
                ctx.fail("verify_iff", format!("{{{},\"presented\":\"spec hash with bit {} flipped, or the near miss {}\",\"verify\":true}}", detail(pin, seed, ss, cs), bit, hex(&near)));
            }
            if v_other != (want == Some(other)) {
                ctx.fail("verify_iff", format!("{{{},\"presented\":\"{}\",\"verify\":{}}}", detail(pin, seed, ss, cs), hex(&other), v_other));
            }
        }
    }
}
fn oracle_grid(ctx: &mut Ctx, residue: u32) {
    ctx.oracle_runs += 1;
    let r = catch(|| {
        let g0 = hk::remap_pin_grid(residue);
        let g1 = hk::remap_pin_grid(residue + FACT10 as u32);
        let g2 = hk::remap_pin_grid(residue + 2 * FACT10 as u32);
        // the largest representable seed of this residue class
        let top = residue as u64 + ((u32::MAX as u64 - residue as u64) / FACT10) * FACT10;
        let g3 = hk::remap_pin_grid(top as u32);
        (g0, g1, g2, g3)
    });
    match r {
        None => ctx.fail("panic", format!("{{\"call\":\"remap_pin_grid\",\"residue\":{}}}", residue)),
        Some((g0, g1, g2, g3)) => {
            if !is_perm(&g0) { ctx.fail("grid_not_permutation", format!("{{\"seed\":{},\"grid\":{:?}}}", residue, g0)); }
            if g0 != spec_grid(residue as u64) { ctx.fail("grid_value", format!("{{\"seed\":{},\"grid\":{:?},\"spec\":{:?}}}", residue, g0, spec_grid(residue as u64))); }
            if g1 != g0 || g2 != g0 || g3 != g0 {
                ctx.fail("grid_mod_factorial", format!("{{\"seed\":{},\"grid\":{:?},\"plus_10!\":{:?},\"plus_2*10!\":{:?},\"top_of_class\":{:?}}}", residue, g0, g1, g2, g3));
            }
        }
    }
}

pub fn run(ctx: &mut Ctx) {
    let quick = ctx.quick();
    // the module's own generators (also judged by C15): with the random source replaced by a known tape they hand
    // out exactly its next bytes - the value this property's functions are then fed with
    {
        use wow_srp::verif_hooks::rand as vr;
        let mut r2 = ctx.rng("generators");
        for k in 0..(if ctx.quick() { 200 } else { 5000 }) {
            let tape = if k == 0 { vec![0xffu8; 32] } else if k == 1 { vec![0u8; 32] } else { r2.bytes(32) };
            ctx.oracle_runs += 1;
            vr::take_log(); vr::install_tape(&tape);
            let r = catch(|| (wow_srp::pin::get_pin_grid_seed(), wow_srp::pin::get_pin_salt()));
            let left = vr::remove_tape().len(); vr::take_log();
            match r {
                Some((seed, salt)) if seed.to_le_bytes() == tape[0..4] && salt[..] == tape[4..20] && left == 12 => {}
                other => ctx.fail("generators", format!("{{\"what\":\"get_pin_grid_seed / get_pin_salt do not hand out the next 4 / 16 bytes of the random source\",\"tape\":\"{}\",\"got\":{}}}", hex(&tape), jstr(&format!("{:?}", other)))),
            }
        }
    }

    let mut rng = ctx.rng("corr");
    let f = FACT10 as u32;

    // ---- op 1: grids ----
    let fixed_seeds: [u32; 6] = [0, 1, f - 1, f, f + 1, u32::MAX];
    for s in fixed_seeds { emit_grid(ctx, "grid:fixed-seed", s); }
    for s in [2 * f - 1, 2 * f, 1183 * f - 1, 1183 * f, 362_880, 362_879, 40_320, 3_265_920] { emit_grid(ctx, "grid:radix-boundary", s); }
    for _ in 0..(if quick { 30 } else { 300 }) { let s = rng.next() as u32; emit_grid(ctx, "grid:random-seed", s); }

    // ---- op 2: hashes ----
    let mut pins: Vec<(u32, &'static str)> = [0u32, 999, 1000, 1001, 9999, 10000, 99999, 999_999_999, 1_000_000_000, u32::MAX]
        .iter().map(|p| (*p, "hash:fixed-pin")).collect();
    pins.push((1, "hash:fixed-pin")); pins.push((9, "hash:fixed-pin")); pins.push((100, "hash:fixed-pin"));
    pins.push((1234, "hash:fixed-pin")); pins.push((1_023_456_789, "hash:fixed-pin")); pins.push((4_000_000_000, "hash:fixed-pin"));
    for len in 1..=10u32 {
        for _ in 0..(if quick { 1 } else { 8 }) { pins.push((pin_of_length(&mut rng, len), "hash:random-pin")); }
    }
    let mut k = 0usize;
    for (pin, label) in pins.clone() {
        let mut seeds: Vec<u32> = fixed_seeds.to_vec();
        for _ in 0..(if quick { 1 } else { 4 }) { seeds.push(rng.next() as u32); }
        for seed in seeds {
            let (ss, cs) = (salt(&mut rng, k), salt(&mut rng, k + 4));
            k += 1;
            let lab = if pin < 1000 { "hash:short-pin" } else { label };
            emit_hash(ctx, lab, pin, seed, &ss, &cs);
            ctx.count(&format!("pin_digits:{}", spec_digits(pin).len()));
        }
    }
    // same (pin, seed), salts swapped / equal
    for _ in 0..(if quick { 6 } else { 60 }) {
        let len = rng.range(4, 10) as u32;
        let pin = pin_of_length(&mut rng, len);
        let seed = rng.next() as u32;
        let (ss, cs): ([u8; 16], [u8; 16]) = (rng.arr(), rng.arr());
        emit_hash(ctx, "hash:salts", pin, seed, &ss, &cs);
        emit_hash(ctx, "hash:salts-swapped", pin, seed, &cs, &ss);
        emit_hash(ctx, "hash:salts-equal", pin, seed, &ss, &ss);
    }

    // ---- op 3: verify ----
    let n_base = if quick { 22 } else { 24 };
    for b in 0..n_base {
        let pin = match b { 0 => 1000, 1 => u32::MAX, 2 => 9999, 3 => 1_000_000_000, _ => pin_of_length(&mut rng, 4 + (b as u32 % 7)) };
        let seed = match b % 5 { 0 => *rng.pick(&fixed_seeds), _ => rng.next() as u32 };
        let (ss, mut cs) = (salt(&mut rng, b + 2), salt(&mut rng, b + 5));
        if b % 4 == 1 { cs = ss; }                       // the client answers with the salt it was sent
        let h = match catch(|| calculate_hash(pin, seed, &ss, &cs)) { Some(Some(h)) => h, _ => continue };
        emit_verify(ctx, "verify:right-hash", pin, seed, &ss, &cs, &h);
        if quick {
            let mut bits: Vec<usize> = vec![0, 7, 8, 159];
            for _ in 0..8 { bits.push(rng.below(160) as usize); }
            for bit in bits { emit_verify(ctx, "verify:bit-flip", pin, seed, &ss, &cs, &flip(&h, bit)); }
        } else {
            for bit in 0..160 { emit_verify(ctx, "verify:bit-flip", pin, seed, &ss, &cs, &flip(&h, bit)); }
        }
        for (wv, _) in near_misses(&mut rng, &h) { let mut h3 = h; h3.copy_from_slice(&wv); emit_verify(ctx, "verify:near-miss", pin, seed, &ss, &cs, &h3); }
        // a hash made for another pin / seed / salt, presented for this one
        let pin2 = if pin == u32::MAX { pin - 1 } else { pin + 1 };
        if let Some(Some(h2)) = catch(|| calculate_hash(pin2, seed, &ss, &cs)) { emit_verify(ctx, "verify:hash-of-other-pin", pin, seed, &ss, &cs, &h2); }
        // seed + 1 changes the residue, hence (for almost every pin) the hash; seed + 10! does not
        if let Some(Some(h3)) = catch(|| calculate_hash(pin, seed.wrapping_add(1), &ss, &cs)) { emit_verify(ctx, "verify:hash-of-other-seed", pin, seed, &ss, &cs, &h3); }
        if let Some(s10) = seed.checked_add(f) {
            if let Some(Some(h4)) = catch(|| calculate_hash(pin, s10, &ss, &cs)) { emit_verify(ctx, "verify:hash-of-seed+10!", pin, seed, &ss, &cs, &h4); }
        }
        let mut ss2 = ss; ss2[b % 16] ^= 1 << (b % 8);
        if let Some(Some(h5)) = catch(|| calculate_hash(pin, seed, &ss2, &cs)) { emit_verify(ctx, "verify:hash-of-other-salt", pin, seed, &ss, &cs, &h5); }
        if let Some(Some(h6)) = catch(|| calculate_hash(pin, seed, &cs, &ss)) { emit_verify(ctx, "verify:hash-of-swapped-salts", pin, seed, &ss, &cs, &h6); }
        emit_verify(ctx, "verify:zero-hash", pin, seed, &ss, &cs, &[0u8; 20]);
        if b == 4 { ctx.sample(format!("op=3 pin={} seed={} server_salt={} client_salt={} hash={} and its 160 single-bit flips", pin, seed, hex(&ss), hex(&cs), hex(&h))); }
    }
    // PINs below 1000 have no hash: whatever is presented is refused
    for pin in [0u32, 1, 12, 123, 999] {
        let seed = rng.next() as u32;
        let (ss, cs): ([u8; 16], [u8; 16]) = (rng.arr(), rng.arr());
        let would_be = spec_hash(1000 + pin, seed, &ss, &cs).unwrap();
        emit_verify(ctx, "verify:short-pin", pin, seed, &ss, &cs, &would_be);
        emit_verify(ctx, "verify:short-pin", pin, seed, &ss, &cs, &[0u8; 20]);
    }

    // ---- implementation-only oracle ----
    let mut rng = ctx.rng("oracle");
    // (a) grids: every residue modulo 10! (thorough) or a stride through them (quick)
    let stride: u32 = if quick { 61 } else { 1 };
    let mut r = 0u32;
    while (r as u64) < FACT10 { oracle_grid(ctx, r); r += stride; }
    for r in [0u32, 1, f - 1, 362_879, 362_880, 3_265_919, 3_265_920] { oracle_grid(ctx, r); }
    // radix boundaries of the mixed-radix decoding, whichever end it starts from: the falling products 10, 10*9, 10*9*8, ..
    // and the factorials 2!, 3!, .. 9!, every small multiple of each, and the residues on either side (a digit that has
    // just become 1 with nothing below it, or the largest digit string below it)
    {
        let mut prods: Vec<u64> = Vec::new();
        let mut pdown = 1u64; for i in (2..=10u64).rev() { pdown *= i; prods.push(pdown); }
        let mut pup = 1u64; for i in 2..=9u64 { pup *= i; prods.push(pup); }
        for pr in prods {
            for m in 1..=9u64 {
                for d in [-1i64, 0, 1] {
                    let r = (m * pr) as i64 + d;
                    if r >= 0 && (r as u64) < FACT10 { oracle_grid(ctx, r as u32); }
                }
            }
        }
    }
    if quick {
        ctx.exhaustive.push(format!("remap_pin_grid through the hook on every {}st residue modulo 10! (permutation, equals the factorial-base specification, equals the grid of seed+10!, seed+2*10! and of the largest u32 in the class)", stride));
    } else {
        ctx.exhaustive.push("remap_pin_grid through the hook on EVERY residue 0..3,628,800 modulo 10! (permutation of 0..9, equals the factorial-base specification, equals the grid of seed+10!, seed+2*10! and of the largest u32 in the class)".to_string());
    }
    // (b) every 4-digit PIN on one seed, and the gate around 1000
    let (ss, cs): ([u8; 16], [u8; 16]) = (rng.arr(), rng.arr());
    let seed = rng.next() as u32;
    let top = if quick { 2_000 } else { 10_000 };
    for pin in 0..top { oracle_hash(ctx, &mut rng, pin, seed, &ss, &cs); }
    ctx.exhaustive.push(format!("every PIN 0..{} on one seed and salt pair against the independent specification (hash value, no hash below 1000, verify iff)", top));
    // (c) random (pin, seed, salts)
    let n = if quick { 200_000 } else { 5_000_000 };
    for k in 0..n {
        let pin = match k % 8 { 0 => pin_of_length(&mut rng, 1 + (k / 8 % 10) as u32), 1 => rng.below(2000) as u32, _ => rng.next() as u32 };
        let seed = match k % 16 { 0 => *rng.pick(&fixed_seeds), 1 => (rng.below(1184) * FACT10).min(u32::MAX as u64) as u32, _ => rng.next() as u32 };
        let (ss, mut cs): ([u8; 16], [u8; 16]) = (rng.arr(), rng.arr());
        match k % 64 { 5 => cs = ss, 6 => { cs = ss; cs.reverse(); } 7 => { cs = ss; cs[(k / 64) % 16] ^= 1; } _ => {} }      // related salts
        oracle_hash(ctx, &mut rng, pin, seed, &ss, &cs);
    }
    ctx.notes.push("oracle specification is independent of src/pin.rs: digits by place value, pool.remove(idx) Lehmer decoding, position lookup, sha-1 crate".to_string());
}
