//! C18: matrix card (src/matrix_card.rs, feature `matrix-card`).
//!
//! Correspondence cases (evaluated by corr/C18.v : run_C18):
//!   op 1  from_data, get_number_at_coordinates(x, y), to_printer()
//!         in: [d], [h], [w], data, [x], [y]
//!         out: [1,0] from_data = None | [0], cell, printed string at y*w+x, number of printed cells (4 LE) | [2]
//!   op 2  MatrixCardVerifier::new(count, h, seed, w, _), get_matrix_coordinates(round) for round 0..=255
//!         in: [w], [h], [count], seed (8 LE)         out: [0], 256 x (0,0,0 | 1,x,y) | [2]
//!   op 3  MatrixCardVerifier::new(count, h, seed, w, K), enter_value(d) per digit, into_proof()
//!         in: [count], [h], seed (8 LE), [w], K (40), digits          out: [0], proof (20) | [2]
//!   op 4  from_data then verify_matrix_card_hash(card, count, seed, K, proof)
//!         in: [d], [h], [w], data, [count], seed (8 LE), K (40), proof (20)
//!         out: [1,0] from_data = None | [0], [0|1] | [2]
//! Implementation-only oracle: lookup against the printer on every coordinate, coordinates distinct
//! and on the card, rounds outside 0..count-1 give None without a panic, honest client accepted, any
//! single wrong digit rejected, MatrixCard::new yields decimal digits.
//! Known finding F5 (digit_count = 0: to_printer panics) is probed and reported as kind
//! "digit_count_zero" only.
use crate::ctx::*;
use wow_srp::matrix_card::{verify_matrix_card_hash, MatrixCard, MatrixCardVerifier};

type Key = [u8; 40];

fn geoms_small() -> Vec<(u8, u8)> {
    let mut v = Vec::new();
    for w in 1..=16u32 { for h in 1..=16u32 { if w * h <= 255 { v.push((w as u8, h as u8)); } } }
    v
}
fn geoms_beyond() -> Vec<(u8, u8)> {
    vec![(255, 1), (1, 255), (17, 15), (15, 17), (51, 5), (5, 51), (85, 3), (3, 85), (127, 2), (2, 127),
         (17, 1), (1, 17), (25, 10), (10, 25), (21, 12), (12, 21), (31, 8), (8, 31), (63, 4), (4, 63), (254, 1), (1, 254)]
}
fn cells_of(w: u8, h: u8) -> usize { w as usize * h as usize }
fn rand_digits(rng: &mut Rng, n: usize) -> Vec<u8> { (0..n).map(|_| rng.below(10) as u8).collect() }
fn parse_item(s: &str) -> Option<Vec<u8>> {
    s.bytes().map(|b| if b.is_ascii_digit() { Some(b - b'0') } else { None }).collect()
}
fn counts_for(cells: usize) -> Vec<u8> {
    let mut v: Vec<u8> = Vec::new();
    for c in [1usize, 2, cells.saturating_sub(1), cells] {
        if c >= 1 && c <= cells && c <= 255 && !v.contains(&(c as u8)) { v.push(c as u8); }
    }
    v
}
fn pick_seed(rng: &mut Rng, k: usize) -> u64 {
    match k % 4 { 0 => 0, 1 => 1, 2 => u64::MAX, _ => rng.next() }
}
fn pick_key(rng: &mut Rng, k: usize) -> Key {
    match k % 7 { 0 => [0u8; 40], 1 => [0xff; 40], _ => rng.arr() }
}

// ---------------------------------------------------------------- case emitters
fn emit_lookup(ctx: &mut Ctx, label: &str, d: u8, h: u8, w: u8, data: &[u8], x: u8, y: u8) {
    let r = catch(|| {
        MatrixCard::from_data(d, h, w, data.to_vec()).map(|c| {
            let cell = c.get_number_at_coordinates(x, y).to_vec();
            let items: Vec<String> = c.to_printer().collect();
            (cell, items)
        })
    });
    let ins: [&[u8]; 6] = [&[d], &[h], &[w], data, &[x], &[y]];
    match r {
        None => ctx.case(1, label, &ins, &[&[2]]),
        Some(None) => ctx.case(1, label, &ins, &[&[1, 0]]),
        Some(Some((cell, items))) => {
            let idx = y as usize * w as usize + x as usize;
            let s: Vec<u8> = items.get(idx).map(|s| s.as_bytes().to_vec()).unwrap_or_default();
            let n = (items.len() as u32).to_le_bytes();
            ctx.case(1, label, &ins, &[&[0], &cell, &s, &n]);
        }
    }
}
fn all_rounds(count: u8, h: u8, seed: u64, w: u8) -> Option<Vec<Option<(u8, u8)>>> {
    catch(|| {
        let mut v = MatrixCardVerifier::new(count, h, seed, w, &[0u8; 40]);
        (0..=255u8).map(|round| v.get_matrix_coordinates(round)).collect()
    })
}
/// the answer for a round does not depend on which rounds were asked before, how often, or in which order
fn rounds_in_order(count: u8, h: u8, seed: u64, w: u8, order: &[u8]) -> Option<Vec<(u8, Option<(u8, u8)>)>> {
    let order = order.to_vec();
    catch(move || {
        let mut v = MatrixCardVerifier::new(count, h, seed, w, &[0u8; 40]);
        order.iter().map(|round| (*round, v.get_matrix_coordinates(*round))).collect()
    })
}
fn emit_rounds(ctx: &mut Ctx, label: &str, w: u8, h: u8, count: u8, seed: u64) {
    let s = seed.to_le_bytes();
    let ins: [&[u8]; 4] = [&[w], &[h], &[count], &s];
    match all_rounds(count, h, seed, w) {
        None => ctx.case(2, label, &ins, &[&[2]]),
        Some(rs) => {
            let mut o = Vec::with_capacity(768);
            for r in rs { match r { None => o.extend_from_slice(&[0, 0, 0]), Some((x, y)) => o.extend_from_slice(&[1, x, y]) } }
            ctx.case(2, label, &ins, &[&[0], &o]);
        }
    }
}
fn client_proof(count: u8, h: u8, seed: u64, w: u8, key: &Key, digits: &[u8]) -> Option<[u8; 20]> {
    catch(|| {
        let mut v = MatrixCardVerifier::new(count, h, seed, w, key);
        for d in digits { v.enter_value(*d); }
        v.into_proof()
    })
}
fn emit_proof(ctx: &mut Ctx, label: &str, count: u8, h: u8, seed: u64, w: u8, key: &Key, digits: &[u8]) -> Option<[u8; 20]> {
    let s = seed.to_le_bytes();
    let ins: [&[u8]; 6] = [&[count], &[h], &s, &[w], key, digits];
    let r = client_proof(count, h, seed, w, key, digits);
    match &r {
        None => ctx.case(3, label, &ins, &[&[2]]),
        Some(p) => ctx.case(3, label, &ins, &[&[0], p]),
    }
    r
}
fn server_verify(d: u8, h: u8, w: u8, data: &[u8], count: u8, seed: u64, key: &Key, proof: &[u8; 20]) -> Option<Option<bool>> {
    catch(|| MatrixCard::from_data(d, h, w, data.to_vec()).map(|c| verify_matrix_card_hash(&c, count, seed, key, proof)))
}
fn emit_verify(ctx: &mut Ctx, label: &str, d: u8, h: u8, w: u8, data: &[u8], count: u8, seed: u64, key: &Key, proof: &[u8; 20]) -> Option<bool> {
    let s = seed.to_le_bytes();
    let ins: [&[u8]; 8] = [&[d], &[h], &[w], data, &[count], &s, key, proof];
    match server_verify(d, h, w, data, count, seed, key, proof) {
        None => { ctx.case(4, label, &ins, &[&[2]]); None }
        Some(None) => { ctx.case(4, label, &ins, &[&[1, 0]]); None }
        Some(Some(b)) => { ctx.case(4, label, &ins, &[&[0], &[b as u8]]); Some(b) }
    }
}

/// the digits an honest client enters: for every round, the cell PRINTED at the coordinates asked for
fn honest_digits(d: u8, h: u8, w: u8, data: &[u8], count: u8, seed: u64, key: &Key) -> Option<Vec<u8>> {
    catch(|| {
        let card = MatrixCard::from_data(d, h, w, data.to_vec())?;
        let items: Vec<String> = card.to_printer().collect();
        let mut v = MatrixCardVerifier::new(count, h, seed, w, key);
        let mut out = Vec::new();
        for round in 0..count {
            let (x, y) = v.get_matrix_coordinates(round)?;
            out.extend(parse_item(items.get(y as usize * w as usize + x as usize)?)?);
        }
        Some(out)
    }).flatten()
}
fn card_json(d: u8, h: u8, w: u8, data: &[u8]) -> String {
    format!("\"digit_count\":{},\"height\":{},\"width\":{},\"data\":\"{}\"", d, h, w, hex(data))
}
fn chal_json(count: u8, seed: u64, key: &Key) -> String {
    format!("\"challenge_count\":{},\"seed\":\"{}\",\"session_key\":\"{}\"", count, seed, hex(key))
}
fn wrong_digit(rng: &mut Rng, digits: &[u8], pos: usize) -> Vec<u8> {
    let mut v = digits.to_vec();
    v[pos] = (v[pos] + rng.range(1, 9) as u8) % 10;
    v
}

// ---------------------------------------------------------------- correspondence scenario for ops 3 and 4
fn scenario(ctx: &mut Ctx, rng: &mut Rng, k: usize, d: u8, h: u8, w: u8, count: u8, max_wrong: usize) {
    let cells = cells_of(w, h);
    let data = rand_digits(rng, cells * d as usize);
    let seed = pick_seed(rng, k);
    let key = pick_key(rng, k / 4);
    let digits = match honest_digits(d, h, w, &data, count, seed, &key) {
        Some(v) => v,
        None => { ctx.fail("panic", format!("{{\"call\":\"client walk\",{},{}}}", card_json(d, h, w, &data), chal_json(count, seed, &key))); return; }
    };
    ctx.count_n("entered_digits", digits.len() as u64);
    let bad = |ctx: &mut Ctx, kind: &str, what: &str, entered: &[u8]| {
        ctx.fail(kind, format!("{{\"what\":\"{}\",{},{},\"entered\":\"{}\"}}", what, card_json(d, h, w, &data), chal_json(count, seed, &key), hex(entered)));
    };
    let p = match emit_proof(ctx, "proof:honest-client", count, h, seed, w, &key, &digits) { Some(p) => p, None => { bad(ctx, "panic", "client proof", &digits); return; } };
    if emit_verify(ctx, "verify:honest-client", d, h, w, &data, count, seed, &key, &p) != Some(true) { bad(ctx, "honest_rejected", "server refused the proof of the printed digits", &digits); }
    if k == 3 { ctx.sample(format!("ops 3+4: card {}x{} d={} count={} seed={} key={} honest digits={} proof={}", w, h, d, count, seed, hex(&key), hex(&digits), hex(&p))); }
    // a wrong digit at a position
    let mut positions: Vec<usize> = (0..digits.len()).collect();
    if positions.len() > max_wrong {
        let mut sel = vec![0, digits.len() - 1];
        while sel.len() < max_wrong { let q = rng.below(digits.len() as u64) as usize; if !sel.contains(&q) { sel.push(q); } }
        positions = sel;
    }
    for pos in positions {
        let wrong = wrong_digit(rng, &digits, pos);
        if let Some(p2) = emit_proof(ctx, "proof:one-wrong-digit", count, h, seed, w, &key, &wrong) {
            if emit_verify(ctx, "verify:one-wrong-digit", d, h, w, &data, count, seed, &key, &p2) != Some(false) { bad(ctx, "wrong_accepted", "one wrong digit accepted", &wrong); }
        }
    }
    // a digit too few / too many, two cells swapped
    let mut variants: Vec<(&str, Vec<u8>)> = Vec::new();
    variants.push(("verify:digit-missing", digits[..digits.len() - 1].to_vec()));
    let mut more = digits.clone(); more.push(rng.below(10) as u8); variants.push(("verify:digit-extra", more));
    if count >= 2 {
        let dd = d as usize;
        let mut sw = digits.clone();
        let (a, b) = sw.split_at_mut(dd);
        a.swap_with_slice(&mut b[..dd]);
        if sw != digits { variants.push(("verify:cells-swapped", sw)); }
    }
    for (label, v) in variants {
        if let Some(p2) = emit_proof(ctx, "proof:other-sequence", count, h, seed, w, &key, &v) {
            if emit_verify(ctx, label, d, h, w, &data, count, seed, &key, &p2) != Some(false) { bad(ctx, "wrong_accepted", label, &v); }
        }
    }
    // the right proof against another count / seed / key, and a flipped proof
    let count2 = if (count as usize) < cells { count + 1 } else { count - 1 };
    if count2 >= 1 && emit_verify(ctx, "verify:wrong-count", d, h, w, &data, count2, seed, &key, &p) != Some(false) { bad(ctx, "wrong_accepted", "proof accepted under another challenge count", &digits); }
    let seed2 = seed ^ (1u64 << rng.below(64));
    if emit_verify(ctx, "verify:wrong-seed", d, h, w, &data, count, seed2, &key, &p) != Some(false) { bad(ctx, "wrong_accepted", "proof accepted under another seed", &digits); }
    let mut key2 = key; key2[rng.below(40) as usize] ^= 1 << rng.below(8);
    if emit_verify(ctx, "verify:wrong-key", d, h, w, &data, count, seed, &key2, &p) != Some(false) { bad(ctx, "wrong_accepted", "proof accepted under another session key", &digits); }
    let mut p3 = p; p3[rng.below(20) as usize] ^= 1 << rng.below(8);
    if emit_verify(ctx, "verify:proof-bit-flip", d, h, w, &data, count, seed, &key, &p3) != Some(false) { bad(ctx, "wrong_accepted", "flipped proof accepted", &digits); }
    let nm = near_misses(rng, &p);
    let (wv, _) = &nm[rng.below(nm.len() as u64) as usize];
    let mut p4 = p; p4.copy_from_slice(wv);
    if emit_verify(ctx, "verify:proof-near-miss", d, h, w, &data, count, seed, &key, &p4) != Some(false) { bad(ctx, "wrong_accepted", "near-miss proof (cancelling / confined differences) accepted", &digits); }
}

// ---------------------------------------------------------------- implementation-only oracle
fn oracle_card(ctx: &mut Ctx, rng: &mut Rng, k: usize, d: u8, h: u8, w: u8, max_wrong: usize) {
    let cells = cells_of(w, h);
    let dd = d as usize;
    let data = rand_digits(rng, cells * dd);
    // (1) lookup = printed cell, on every coordinate
    let r = catch(|| {
        let card = MatrixCard::from_data(d, h, w, data.clone())?;
        let items: Vec<String> = card.to_printer().collect();
        let mut got = Vec::with_capacity(cells);
        for y in 0..h { for x in 0..w { got.push(card.get_number_at_coordinates(x, y).to_vec()); } }
        Some((items, got))
    });
    match r {
        None => { ctx.fail("panic", format!("{{\"call\":\"from_data/to_printer/get_number_at_coordinates\",{}}}", card_json(d, h, w, &data))); return; }
        Some(None) => { ctx.fail("from_data", format!("{{\"what\":\"from_data refused data of the right length\",{}}}", card_json(d, h, w, &data))); return; }
        Some(Some((items, got))) => {
            if items.len() != cells { ctx.fail("printer", format!("{{\"what\":\"printer yields {} cells, card has {}\",{}}}", items.len(), cells, card_json(d, h, w, &data))); }
            for y in 0..h as usize { for x in 0..w as usize {
                ctx.oracle_runs += 1;
                let j = y * w as usize + x;
                let printed = items.get(j).and_then(|s| parse_item(s));
                let spec = data[j * dd..(j + 1) * dd].to_vec();
                if printed.as_ref() != Some(&got[j]) || got[j] != spec {
                    ctx.fail("lookup", format!("{{\"x\":{},\"y\":{},\"returned\":\"{}\",\"printed_at_row_y_column_x\":\"{}\",{}}}", x, y, hex(&got[j]),
                        items.get(j).cloned().unwrap_or_default(), card_json(d, h, w, &data)));
                }
            } }
        }
    }
    // (2) coordinates: distinct, on the card; rounds outside 0..count-1 give None; no panic for any round 0..=255
    let mut counts = counts_for(cells);
    let extra = rng.range(1, cells as u64) as u8;
    if !counts.contains(&extra) { counts.push(extra); }
    for (ci, count) in counts.iter().enumerate() {
        for si in 0..4 {
            let seed = pick_seed(rng, si);
            ctx.oracle_runs += 1;
            match all_rounds(*count, h, seed, w) {
                None => ctx.fail("panic", format!("{{\"call\":\"MatrixCardVerifier::new/get_matrix_coordinates\",\"width\":{},\"height\":{},\"challenge_count\":{},\"seed\":\"{}\"}}", w, h, count, seed)),
                Some(rs) => {
                    // order independence: descending, a random permutation with repeats, and "last round first"
                    let upto = (*count as usize + 2).min(256);
                    let mut orders: Vec<Vec<u8>> = vec![(0..upto).rev().map(|r| r as u8).collect()];
                    let mut perm: Vec<u8> = (0..upto).map(|r| r as u8).collect();
                    for i in (1..perm.len()).rev() { let j = rng.below(i as u64 + 1) as usize; perm.swap(i, j); }
                    let mut with_repeats = perm.clone(); with_repeats.extend(perm.iter().take(3)); orders.push(with_repeats);
                    if *count > 0 { orders.push(vec![*count - 1, 0, *count - 1]); }
                    for ord in orders {
                        ctx.oracle_runs += 1;
                        match rounds_in_order(*count, h, seed, w, &ord) {
                            None => ctx.fail("panic", format!("{{\"call\":\"get_matrix_coordinates out of order\",\"width\":{},\"height\":{},\"challenge_count\":{},\"seed\":\"{}\",\"order\":{:?}}}", w, h, count, seed, ord)),
                            Some(got) => if let Some((round, r)) = got.iter().find(|(round, r)| rs[*round as usize] != *r) {
                                ctx.fail("round_order", format!("{{\"what\":\"the coordinates of a round depend on the order in which rounds are asked\",\"width\":{},\"height\":{},\"challenge_count\":{},\"seed\":\"{}\",\"order\":{:?},\"round\":{},\"returned\":\"{:?}\",\"asked_in_ascending_order\":\"{:?}\"}}", w, h, count, seed, ord, round, r, rs[*round as usize]));
                            },
                        }
                    }
                    let mut seen = vec![false; cells];
                    for (round, r) in rs.iter().enumerate() {
                        let inside = round < *count as usize;
                        let ok = match r {
                            None => !inside,
                            Some((x, y)) => inside && x < &w && y < &h && !std::mem::replace(&mut seen[*y as usize * w as usize + *x as usize], true),
                        };
                        if !ok {
                            ctx.fail(if inside { "coordinates" } else { "round_bound" },
                                format!("{{\"width\":{},\"height\":{},\"challenge_count\":{},\"seed\":\"{}\",\"round\":{},\"returned\":\"{:?}\"}}", w, h, count, seed, round, r));
                            break;
                        }
                    }
                }
            }
            // (3) honest client accepted, single wrong digit rejected
            if si == ci % 4 || si == 3 {
                let key = pick_key(rng, k + si);
                ctx.oracle_runs += 1;
                let digits = match honest_digits(d, h, w, &data, *count, seed, &key) { Some(v) => v, None => { ctx.fail("panic", format!("{{\"call\":\"client walk\",{},{}}}", card_json(d, h, w, &data), chal_json(*count, seed, &key))); continue; } };
                let accepted = |ds: &[u8]| client_proof(*count, h, seed, w, &key, ds).and_then(|p| server_verify(d, h, w, &data, *count, seed, &key, &p)).flatten();
                match accepted(&digits) {
                    Some(true) => {}
                    None => ctx.fail("panic", format!("{{\"call\":\"verify_matrix_card_hash\",{},{}}}", card_json(d, h, w, &data), chal_json(*count, seed, &key))),
                    Some(false) => ctx.fail("honest_rejected", format!("{{{},{},\"entered\":\"{}\"}}", card_json(d, h, w, &data), chal_json(*count, seed, &key), hex(&digits))),
                }
                let n = digits.len();
                let positions: Vec<usize> = if n <= max_wrong { (0..n).collect() } else { (0..max_wrong).map(|i| if i == 0 { 0 } else if i == 1 { n - 1 } else { rng.below(n as u64) as usize }).collect() };
                for pos in positions {
                    ctx.oracle_runs += 1;
                    let wrong = wrong_digit(rng, &digits, pos);
                    if accepted(&wrong) != Some(false) {
                        ctx.fail("wrong_accepted", format!("{{\"position\":{},{},{},\"entered\":\"{}\",\"printed\":\"{}\"}}", pos, card_json(d, h, w, &data), chal_json(*count, seed, &key), hex(&wrong), hex(&digits)));
                    }
                }
            }
        }
    }
    // (4) MatrixCard::new: the right amount of decimal digits
    ctx.oracle_runs += 1;
    match catch(|| MatrixCard::new(d, h, w).data().to_vec()) {
        None => ctx.fail("panic", format!("{{\"call\":\"MatrixCard::new\",\"digit_count\":{},\"height\":{},\"width\":{}}}", d, h, w)),
        Some(v) => if v.len() != cells * dd || v.iter().any(|b| *b > 9) {
            ctx.fail("new_digits", format!("{{\"digit_count\":{},\"height\":{},\"width\":{},\"data\":\"{}\"}}", d, h, w, hex(&v)));
        },
    }
}

pub fn run(ctx: &mut Ctx) {
    let quick = ctx.quick();
    // the module's own generators (also judged by C15): with the random source replaced by a known tape they hand
    // out exactly its next bytes - the value this property's functions are then fed with
    {
        use wow_srp::verif_hooks::rand as vr;
        let mut r2 = ctx.rng("generators");
        for k in 0..(if ctx.quick() { 200 } else { 5000 }) {
            let tape = if k == 0 { vec![0xffu8; 32] } else if k == 1 { vec![0u8; 32] } else { r2.bytes(32) };
            ctx.oracle_runs += 1;
            vr::take_log(); vr::install_tape(&tape);
            let r = catch(wow_srp::matrix_card::get_matrix_card_seed);
            let left = vr::remove_tape().len(); vr::take_log();
            match r {
                Some(seed) if seed.to_le_bytes() == tape[0..8] && left == 24 => {}
                other => ctx.fail("generators", format!("{{\"what\":\"get_matrix_card_seed does not hand out the next 8 bytes of the random source\",\"tape\":\"{}\",\"got\":{}}}", hex(&tape), jstr(&format!("{:?}", other)))),
            }
        }
    }

    // the public size function: digit_count * height * width for every triple of u8 values (all 2^24 in thorough),
    // and from_data accepts exactly that many bytes
    {
        let mut r2 = ctx.rng("size");
        let n = if quick { 200_000u64 } else { 1u64 << 24 };
        let mut bad = 0u64;
        for k in 0..n {
            let (d, h, w) = if quick { (r2.below(256) as u8, r2.below(256) as u8, r2.below(256) as u8) } else { ((k >> 16) as u8, (k >> 8) as u8, k as u8) };
            let got = catch(|| MatrixCard::get_matrix_card_size(d, h, w));
            if got != Some(d as usize * h as usize * w as usize) {
                bad += 1;
                if bad < 5 { ctx.fail("card_size", format!("{{\"what\":\"get_matrix_card_size is not digit_count * height * width\",\"digit_count\":{},\"height\":{},\"width\":{},\"got\":{:?}}}", d, h, w, got)); }
            }
        }
        ctx.oracle_runs += n;
        for (d, h, w) in [(1u8, 1u8, 1u8), (2, 10, 8), (3, 4, 5), (0, 3, 3), (1, 0, 7)] {
            let size = d as usize * h as usize * w as usize;
            for len in [size, size + 1, size.saturating_sub(1)] {
                let r = catch(|| MatrixCard::from_data(d, h, w, vec![0u8; len]).is_some());
                if r != Some(len == size) { ctx.fail("from_data_size", format!("{{\"what\":\"from_data accepts a buffer of the wrong size or refuses the right one\",\"digit_count\":{},\"height\":{},\"width\":{},\"len\":{}}}", d, h, w, len)); }
            }
        }
    }
    let mut rng = ctx.rng("corr");
    let small = geoms_small();
    let beyond = geoms_beyond();
    // geometries that go through the model
    let mut geoms: Vec<(u8, u8, &'static str)> = Vec::new();
    if quick {
        for g in [(1u8, 1u8), (1, 2), (2, 1), (4, 3), (3, 4), (8, 10), (10, 8), (16, 15), (15, 16), (16, 1), (1, 16), (15, 15)] { geoms.push((g.0, g.1, "small")); }
        for _ in 0..24 { let g = *rng.pick(&small); geoms.push((g.0, g.1, "small")); }
        for g in [(255u8, 1u8), (1, 255), (51, 5), (17, 15)] { geoms.push((g.0, g.1, "beyond16")); }
    } else {
        for g in &small { geoms.push((g.0, g.1, "small")); }
        for g in &beyond { geoms.push((g.0, g.1, "beyond16")); }
    }

    // ---- op 1 ----
    for (gi, (w, h, class)) in geoms.clone().into_iter().enumerate() {
        let cells = cells_of(w, h);
        let ds: Vec<u8> = if quick { vec![1 + (gi % 4) as u8, 1 + ((gi + 2) % 4) as u8] } else { vec![1, 2, 3, 4] };
        for d in ds {
            let raw = gi % 5 == 4;
            let data = if raw { rng.bytes(cells * d as usize) } else { rand_digits(&mut rng, cells * d as usize) };
            let mut coords: Vec<(u8, u8)> = vec![(w - 1, h - 1)];
            if quick { coords.push((rng.below(w as u64) as u8, rng.below(h as u64) as u8)); }
            else { coords.push((0, h - 1)); coords.push((rng.below(w as u64) as u8, rng.below(h as u64) as u8)); }
            if d == 1 + (gi % 4) as u8 { coords.push((w - 1, 0)); coords.push((0, 0)); }
            coords.dedup();
            for (x, y) in coords {
                let label = format!("{}:{}", if raw { "lookup:raw-bytes" } else if x == 0 && y == 0 && cells == 1 { "trivial:lookup-1x1" } else { "lookup" }, class);
                emit_lookup(ctx, &label, d, h, w, &data, x, y);
            }
            ctx.count(&format!("digit_count:{}", d));
        }
    }
    // every coordinate of a few cards, through the model
    for (w, h, d) in if quick { vec![(4u8, 3u8, 2u8), (3, 5, 1)] } else { vec![(4u8, 3u8, 2u8), (3, 5, 1), (16, 15, 1), (8, 10, 2), (5, 7, 4), (2, 9, 3)] } {
        let data = rand_digits(&mut rng, cells_of(w, h) * d as usize);
        for y in 0..h { for x in 0..w { emit_lookup(ctx, "lookup:every-coordinate", d, h, w, &data, x, y); } }
    }
    ctx.sample("op=1: 4x3 card, d=2, every coordinate; the pinned defect start = x*y returned cell 0 for (1,0) and (0,1)".to_string());
    // from_data refuses a wrong length; coordinates outside the card (outside the property's domain: both sides must still agree)
    for (d, h, w, len) in [(2u8, 3u8, 4u8, 23usize), (2, 3, 4, 25), (1, 1, 1, 0), (3, 5, 5, 74), (0, 3, 4, 1)] {
        let data = rand_digits(&mut rng, len);
        emit_lookup(ctx, "lookup:from_data-none", d, h, w, &data, 0, 0);
    }
    for (d, h, w, x, y) in [(2u8, 3u8, 4u8, 4u8, 0u8), (2, 3, 4, 0, 3), (2, 3, 4, 3, 3), (1, 2, 2, 255, 255), (2, 3, 4, 4, 2)] {
        let data = rand_digits(&mut rng, cells_of(w, h) * d as usize);
        emit_lookup(ctx, "outside:coordinates-off-card", d, h, w, &data, x, y);
    }

    // ---- op 2 ----
    for (gi, (w, h, class)) in geoms.clone().into_iter().enumerate() {
        let cells = cells_of(w, h);
        let counts = counts_for(cells);
        let mut combos: Vec<(u8, usize)> = Vec::new();
        for (ci, c) in counts.iter().enumerate() { for si in 0..4 { if quick { if (ci + si + gi) % 4 == 0 { combos.push((*c, si)); } } else if (ci + si + gi) % 2 == 0 || cells <= 16 { combos.push((*c, si)); } } }
        for (count, si) in combos {
            let seed = pick_seed(&mut rng, si);
            let label = format!("rounds:{}:count={}", class, if count as usize == cells { "cells" } else if count == 1 { "1" } else if count == 2 { "2" } else { "cells-1" });
            emit_rounds(ctx, &label, w, h, count, seed);
        }
    }
    for (w, h, count, seed) in [(8u8, 10u8, 1u8, 0u64), (8, 10, 3, 14574472801782155463), (4, 3, 2, 0)] { emit_rounds(ctx, "rounds:test-vector", w, h, count, seed); }
    // outside the domain (more challenges than cells: remainder by zero; no challenge at all): both sides must agree
    for (w, h, count) in [(3u8, 2u8, 7u8), (1, 1, 2), (4, 4, 17)] { let s = rng.next(); emit_rounds(ctx, "outside:count>cells", w, h, count, s); }
    for (w, h) in [(3u8, 2u8), (8, 10)] { let s = rng.next(); emit_rounds(ctx, "outside:count=0", w, h, 0, s); }

    // ---- ops 3 and 4 ----
    let n_scen = if quick { 22 } else { 160 };
    let max_wrong = if quick { 3 } else { 10 };
    for k in 0..n_scen {
        let (w, h) = match k { 0 => (8u8, 10u8), 1 => (1, 1), 2 => (16, 15), 3 => (4, 3), 4 => (255, 1), 5 => (1, 255), _ => if k % 9 == 8 { *rng.pick(&beyond) } else { *rng.pick(&small) } };
        let cells = cells_of(w, h);
        let d = 1 + (k % 4) as u8;
        let counts = counts_for(cells);
        let count = match k % 6 { 0 => 1, 1 => *counts.last().unwrap(), 2 => counts[counts.len().saturating_sub(2)], 3 => counts[counts.len().min(2) - 1], _ => rng.range(1, (cells as u64).min(12)) as u8 };
        ctx.count(&format!("scenario_count:{}", if count as usize == cells { "cells" } else if count == 1 { "1" } else { "between" }));
        scenario(ctx, &mut rng, k, d, h, w, count, max_wrong);
    }
    // the two vectors of the tests in src/matrix_card.rs
    {
        let k1: Key = [46, 167, 52, 11, 179, 156, 220, 26, 87, 175, 253, 222, 115, 66, 233, 19, 167, 238, 19, 84, 138, 175, 136, 247, 241, 239, 119, 140, 15, 202, 125, 85, 137, 178, 159, 127, 134, 58, 46, 126];
        let k2: Key = [102, 94, 221, 27, 188, 90, 39, 16, 200, 68, 41, 48, 224, 105, 1, 102, 18, 212, 59, 119, 207, 76, 237, 37, 240, 225, 148, 192, 63, 31, 65, 98, 142, 197, 217, 88, 34, 85, 72, 158];
        emit_proof(ctx, "proof:test-vector", 1, 10, 0, 8, &k1, &[0, 0]);
        if let Some(p) = emit_proof(ctx, "proof:test-vector", 3, 10, 14574472801782155463, 8, &k2, &[0; 6]) {
            emit_verify(ctx, "verify:test-vector", 2, 10, 8, &[0u8; 160], 3, 14574472801782155463, &k2, &p);
        }
        emit_proof(ctx, "trivial:proof-no-digits", 1, 10, 0, 8, &k1, &[]);
    }
    // from_data = None in front of verify; more challenges than cells (outside the domain)
    emit_verify(ctx, "verify:from_data-none", 2, 3, 4, &[0u8; 23], 1, 5, &[7u8; 40], &[0u8; 20]);
    emit_verify(ctx, "outside:count>cells", 1, 2, 2, &[1, 2, 3, 4], 5, 99, &[7u8; 40], &[0u8; 20]);

    // ---- known finding F5: digit_count = 0 makes to_printer() panic (chunks(0)) ----
    let probe = catch(|| { MatrixCard::from_data(0, 3, 4, vec![]).map(|c| c.to_printer().count()) });
    if probe.is_none() {
        ctx.fail("digit_count_zero", "{\"digit_count\":0,\"call\":\"to_printer\"}".to_string());
    }
    ctx.count(if probe.is_none() { "probe:digit_count_zero:panics" } else { "probe:digit_count_zero:returns" });

    // ---- implementation-only oracle ----
    let mut rng = ctx.rng("oracle");
    let mut cards: Vec<(u8, u8, u8)> = Vec::new();
    if quick {
        for (w, h) in [(1u8, 1u8), (4, 3), (8, 10), (16, 15), (15, 17), (255, 1), (1, 255), (51, 5)] { for d in 1..=4u8 { cards.push((d, h, w)); } }
        for _ in 0..360 { let g = *rng.pick(&small); cards.push((1 + rng.below(4) as u8, g.1, g.0)); }
        for _ in 0..40 { let g = *rng.pick(&beyond); cards.push((1 + rng.below(4) as u8, g.1, g.0)); }
    } else {
        for d in 1..=4u8 { for g in small.iter().chain(beyond.iter()) { cards.push((d, g.1, g.0)); } }
        for d in [5u8, 8, 255] { for g in [(4u8, 3u8), (16, 15), (255, 1)] { cards.push((d, g.1, g.0)); } }
        // every geometry with w * h <= 255, one digit count each
        for w in 1..=255u32 { for h in 1..=255u32 { if w * h <= 255 && (w > 16 || h > 16) { cards.push((1 + ((w + h) % 4) as u8, h as u8, w as u8)); } } }
    }
    let oracle_wrong = if quick { 6 } else { 24 };
    for (k, (d, h, w)) in cards.iter().enumerate() { oracle_card(ctx, &mut rng, k, *d, *h, *w, oracle_wrong); }
    ctx.count_n("oracle_cards", cards.len() as u64);
    if quick {
        ctx.exhaustive.push(format!("every coordinate of {} sampled cards against the printer; every round 0..=255 of each (card, count, seed) combination", cards.len()));
    } else {
        ctx.exhaustive.push(format!("every geometry with 1 <= width*height <= 255 (all {} cards, digit counts 1..4 for width, height <= 16): every coordinate against the printer, every round 0..=255 for counts {{1, 2, cells-1, cells, random}} x seeds {{0, 1, 2^64-1, random}}", cards.len()));
    }
    ctx.notes.push("digit_count = 0 is probed separately (known finding F5) and is outside the theorems' guard 1 <= digit_count".to_string());
}
