//! C11: every header entry point (typed helper, Read/Write wrapper, combined object, split half)
//! against the raw call on the wire layout; scripted readers and writers with fragmentation,
//! interruptions and a failure injected at every byte offset for every error kind.
//!
//! Case layout: see the comment at the top of coq/corr/C11.v.
use crate::ctx::*;
use std::collections::VecDeque;
use std::io::{self, ErrorKind, Read, Write};
use wow_srp::normalized_string::NormalizedString;
use wow_srp::verif_hooks::internals as hk;
use wow_srp::{tbc_header as t, vanilla_header as v, wrath_header as w};

// ---------------------------------------------------------------------------------- error kinds
/// code 0 Interrupted, 1 UnexpectedEof, 2 WriteZero, 3 + i = OTHER_KINDS[i]
pub const OTHER_KINDS: [ErrorKind; 8] = [
    ErrorKind::ConnectionReset, ErrorKind::BrokenPipe, ErrorKind::TimedOut, ErrorKind::WouldBlock,
    ErrorKind::Other, ErrorKind::ConnectionAborted, ErrorKind::NotConnected, ErrorKind::InvalidData,
];
pub fn kind_of(code: u8) -> ErrorKind {
    match code { 0 => ErrorKind::Interrupted, 1 => ErrorKind::UnexpectedEof, 2 => ErrorKind::WriteZero, c => OTHER_KINDS[(c - 3) as usize] }
}
pub fn code_of(k: ErrorKind) -> u8 {
    match k {
        ErrorKind::Interrupted => 0, ErrorKind::UnexpectedEof => 1, ErrorKind::WriteZero => 2,
        k => OTHER_KINDS.iter().position(|x| *x == k).map(|i| 3 + i as u8).unwrap_or(255),
    }
}
/// every kind a failing script can inject (Interrupted is not a failure: it is retried)
pub fn failing_codes() -> Vec<u8> { let mut c = vec![1u8, 2]; c.extend(3..3 + OTHER_KINDS.len() as u8); c }

// ---------------------------------------------------------------------------------- scripts
#[derive(Clone, Debug)]
pub enum REv { Data(Vec<u8>), Fail(u8) }
pub struct ScriptedReader { pub ev: VecDeque<REv>, pub calls: usize }
impl ScriptedReader {
    pub fn new(ev: &[REv]) -> Self { ScriptedReader { ev: ev.iter().cloned().collect(), calls: 0 } }
    pub fn left(&self) -> usize { self.ev.iter().map(|e| match e { REv::Data(d) => d.len(), _ => 0 }).sum() }
}
impl Read for ScriptedReader {
    fn read(&mut self, buf: &mut [u8]) -> io::Result<usize> {
        if buf.is_empty() { return Ok(0); }
        self.calls += 1;
        match self.ev.pop_front() {
            None => Ok(0),
            Some(REv::Fail(c)) => Err(io::Error::new(kind_of(c), "scripted")),
            Some(REv::Data(d)) => {
                if d.len() <= buf.len() { buf[..d.len()].copy_from_slice(&d); Ok(d.len()) }
                else { let n = buf.len(); buf.copy_from_slice(&d[..n]); self.ev.push_front(REv::Data(d[n..].to_vec())); Ok(n) }
            }
        }
    }
}
pub fn enc_rscript(ev: &[REv]) -> Vec<u8> {
    let mut o = Vec::new();
    for e in ev { match e { REv::Data(d) => { assert!(d.len() < 256); o.push(0); o.push(d.len() as u8); o.extend_from_slice(d); } REv::Fail(c) => { o.push(1); o.push(*c); } } }
    o
}
#[derive(Clone, Debug)]
pub enum WEv { Accept(u8), Fail(u8) }
pub struct ScriptedWriter { pub ev: VecDeque<WEv>, pub got: Vec<u8>, pub flushed: bool }
impl ScriptedWriter { pub fn new(ev: &[WEv]) -> Self { ScriptedWriter { ev: ev.iter().cloned().collect(), got: Vec::new(), flushed: false } } }
impl Write for ScriptedWriter {
    fn write(&mut self, buf: &[u8]) -> io::Result<usize> {
        if buf.is_empty() { return Ok(0); }
        match self.ev.pop_front() {
            None => { self.got.extend_from_slice(buf); Ok(buf.len()) }
            Some(WEv::Fail(c)) => Err(io::Error::new(kind_of(c), "scripted")),
            Some(WEv::Accept(n)) => { let k = (n as usize).min(buf.len()); self.got.extend_from_slice(&buf[..k]); Ok(k) }
        }
    }
    fn flush(&mut self) -> io::Result<()> { self.flushed = true; Ok(()) }
}
pub fn enc_wscript(ev: &[WEv]) -> Vec<u8> {
    let mut o = Vec::new();
    for e in ev { match e { WEv::Accept(n) => { o.push(0); o.push(*n); } WEv::Fail(c) => { o.push(1); o.push(*c); } } }
    o
}

// ---------------------------------------------------------------------------------- objects
fn user() -> NormalizedString { NormalizedString::new("A").unwrap() }
pub fn v_crypto(key: [u8; 40]) -> v::HeaderCrypto { v::ProofSeed::new().into_client_header_crypto(&user(), key, 0).1 }
pub fn t_crypto(key: [u8; 40]) -> t::HeaderCrypto { t::ProofSeed::new().into_client_header_crypto(&user(), key, 0).1 }
pub fn w_client(key: [u8; 40]) -> w::ClientCrypto { w::ProofSeed::new().into_client_header_crypto(&user(), key, 0).1 }
pub fn w_server(key: [u8; 40]) -> w::ServerCrypto {
    let s = w::ProofSeed::new(); let ss = s.seed();
    let c = w::ProofSeed::new(); let cs = c.seed();
    let (proof, _) = c.into_client_header_crypto(&user(), key, ss);
    s.into_server_header_crypto(&user(), key, proof, cs).expect("own proof accepted")
}

#[derive(Clone, Copy, PartialEq, Debug)]
pub struct Sel { pub m: u8, pub kind: u8, pub facade: u8 }
impl Sel {
    pub fn bytes(&self) -> [u8; 3] { [self.m, self.kind, self.facade] }
    pub fn all() -> Vec<Sel> { let mut o = Vec::new(); for m in 0..3 { for kind in 0..2 { for facade in 0..2 { o.push(Sel { m, kind, facade }); } } } o }
    pub fn json(&self) -> String { format!("{{\"module\":{},\"kind\":{},\"facade\":{}}}", self.m, self.kind, self.facade) }
    /// header length on the wire (Wrath server headers: 4, or 5 when size > 0x7FFF)
    pub fn fixed_len(&self) -> usize { if self.kind == 0 { 4 } else { 6 } }
}

#[derive(Clone, PartialEq, Eq, Debug)]
pub enum EncObj { VH(v::EncrypterHalf), VC(v::HeaderCrypto), TH(t::EncrypterHalf), TC(t::HeaderCrypto),
                  WSE(w::ServerEncrypterHalf), WCE(w::ClientEncrypterHalf), WSC(w::ServerCrypto), WCC(w::ClientCrypto) }
#[derive(Clone, PartialEq, Eq, Debug)]
pub enum DecObj { VH(v::DecrypterHalf), VC(v::HeaderCrypto), TH(t::DecrypterHalf), TC(t::HeaderCrypto),
                  WCD(w::ClientDecrypterHalf), WSD(w::ServerDecrypterHalf), WCC(w::ClientCrypto), WSC(w::ServerCrypto) }

fn v_e(h: &v::EncrypterHalf) -> Vec<u8> { let s = hk::vanilla_encrypter_state(h); vec![s.0, s.1] }
fn v_d(h: &v::DecrypterHalf) -> Vec<u8> { let s = hk::vanilla_decrypter_state(h); vec![s.0, s.1] }
fn t_e(h: &t::EncrypterHalf) -> Vec<u8> { let s = hk::tbc_encrypter_state(h); let mut o = s.0.to_vec(); o.push(s.1); o.push(s.2); o }
fn t_d(h: &t::DecrypterHalf) -> Vec<u8> { let s = hk::tbc_decrypter_state(h); let mut o = s.0.to_vec(); o.push(s.1); o.push(s.2); o }
pub fn obs_vc(c: &v::HeaderCrypto) -> Vec<u8> { let (e, d) = c.clone().split(); let mut o = v_e(&e); o.extend(v_d(&d)); o }
pub fn obs_tc(c: &t::HeaderCrypto) -> Vec<u8> { let (e, d) = c.clone().split(); let mut o = t_e(&e); o.extend(t_d(&d)); o }
pub fn obs_wcc(c: &w::ClientCrypto) -> Vec<u8> { let mut c = c.clone(); let mut a = [0u8; 8]; c.encrypt(&mut a); let mut b = [0u8; 8]; c.decrypt(&mut b); let mut o = a.to_vec(); o.extend(b); o }
pub fn obs_wsc(c: &w::ServerCrypto) -> Vec<u8> { let mut c = c.clone(); let mut a = [0u8; 8]; c.encrypt(&mut a); let mut b = [0u8; 8]; c.decrypt(&mut b); let mut o = a.to_vec(); o.extend(b); o }

pub fn make_enc(s: Sel, key: [u8; 40]) -> EncObj {
    match (s.m, s.kind, s.facade) {
        (0, _, 0) => EncObj::VH(v_crypto(key).split().0), (0, _, _) => EncObj::VC(v_crypto(key)),
        (1, _, 0) => EncObj::TH(t_crypto(key).split().0), (1, _, _) => EncObj::TC(t_crypto(key)),
        (_, 0, 0) => EncObj::WSE(w_server(key).split().0), (_, 0, _) => EncObj::WSC(w_server(key)),
        (_, _, 0) => EncObj::WCE(w_client(key).split().0), (_, _, _) => EncObj::WCC(w_client(key)),
    }
}
pub fn make_dec(s: Sel, key: [u8; 40]) -> DecObj {
    match (s.m, s.kind, s.facade) {
        (0, _, 0) => DecObj::VH(v_crypto(key).split().1), (0, _, _) => DecObj::VC(v_crypto(key)),
        (1, _, 0) => DecObj::TH(t_crypto(key).split().1), (1, _, _) => DecObj::TC(t_crypto(key)),
        (_, 0, 0) => DecObj::WCD(w_client(key).split().1), (_, 0, _) => DecObj::WCC(w_client(key)),
        (_, _, 0) => DecObj::WSD(w_server(key).split().1), (_, _, _) => DecObj::WSC(w_server(key)),
    }
}

impl EncObj {
    pub fn raw(&mut self, d: &mut [u8]) {
        match self { EncObj::VH(h) => h.encrypt(d), EncObj::VC(c) => c.encrypt(d), EncObj::TH(h) => h.encrypt(d), EncObj::TC(c) => c.encrypt(d),
                     EncObj::WSE(h) => h.encrypt(d), EncObj::WCE(h) => h.encrypt(d), EncObj::WSC(c) => c.encrypt(d), EncObj::WCC(c) => c.encrypt(d) }
    }
    pub fn hdr(&mut self, kind: u8, size: u32, opcode: u32) -> Vec<u8> {
        match self {
            EncObj::VH(h) => if kind == 0 { h.encrypt_server_header(size as u16, opcode as u16).to_vec() } else { h.encrypt_client_header(size as u16, opcode).to_vec() },
            EncObj::VC(h) => if kind == 0 { h.encrypt_server_header(size as u16, opcode as u16).to_vec() } else { h.encrypt_client_header(size as u16, opcode).to_vec() },
            EncObj::TH(h) => if kind == 0 { h.encrypt_server_header(size as u16, opcode as u16).to_vec() } else { h.encrypt_client_header(size as u16, opcode).to_vec() },
            EncObj::TC(h) => if kind == 0 { h.encrypt_server_header(size as u16, opcode as u16).to_vec() } else { h.encrypt_client_header(size as u16, opcode).to_vec() },
            EncObj::WSE(h) => h.encrypt_server_header(size, opcode as u16).to_vec(),
            EncObj::WSC(h) => h.encrypt_server_header(size, opcode as u16).to_vec(),
            EncObj::WCE(h) => h.encrypt_client_header(size as u16, opcode).to_vec(),
            EncObj::WCC(h) => h.encrypt_client_header(size as u16, opcode).to_vec(),
        }
    }
    pub fn write<W: Write>(&mut self, kind: u8, wr: W, size: u32, opcode: u32) -> io::Result<()> {
        match self {
            EncObj::VH(h) => if kind == 0 { h.write_encrypted_server_header(wr, size as u16, opcode as u16) } else { h.write_encrypted_client_header(wr, size as u16, opcode) },
            EncObj::VC(h) => if kind == 0 { h.write_encrypted_server_header(wr, size as u16, opcode as u16) } else { h.write_encrypted_client_header(wr, size as u16, opcode) },
            EncObj::TH(h) => if kind == 0 { h.write_encrypted_server_header(wr, size as u16, opcode as u16) } else { h.write_encrypted_client_header(wr, size as u16, opcode) },
            EncObj::TC(h) => if kind == 0 { h.write_encrypted_server_header(wr, size as u16, opcode as u16) } else { h.write_encrypted_client_header(wr, size as u16, opcode) },
            EncObj::WSE(h) => h.write_encrypted_server_header(wr, size, opcode as u16),
            EncObj::WSC(h) => h.write_encrypted_server_header(wr, size, opcode as u16),
            EncObj::WCE(h) => h.write_encrypted_client_header(wr, size as u16, opcode),
            EncObj::WCC(h) => h.write_encrypted_client_header(wr, size as u16, opcode),
        }
    }
    pub fn obs(&self) -> Vec<u8> {
        match self {
            EncObj::VH(h) => v_e(h), EncObj::VC(c) => obs_vc(c), EncObj::TH(h) => t_e(h), EncObj::TC(c) => obs_tc(c),
            EncObj::WSE(h) => { let mut h = h.clone(); let mut a = [0u8; 8]; h.encrypt(&mut a); a.to_vec() }
            EncObj::WCE(h) => { let mut h = h.clone(); let mut a = [0u8; 8]; h.encrypt(&mut a); a.to_vec() }
            EncObj::WSC(c) => obs_wsc(c), EncObj::WCC(c) => obs_wcc(c),
        }
    }
    /// `==` is meaningful for comparing "typed helper" with "raw call" except on the Wrath server
    /// encrypter, whose private scratch buffer (part of the derived PartialEq) keeps the last header
    pub fn has_scratch(&self) -> bool { matches!(self, EncObj::WSE(_) | EncObj::WSC(_)) }
}

pub fn hrec(size: u32, opcode: u32) -> Vec<u8> { let mut o = vec![0u8]; o.extend(size.to_le_bytes()); o.extend(opcode.to_le_bytes()); o }
fn arr4(d: &[u8]) -> [u8; 4] { let mut a = [0u8; 4]; a.copy_from_slice(&d[..4]); a }
fn arr6(d: &[u8]) -> [u8; 6] { let mut a = [0u8; 6]; a.copy_from_slice(&d[..6]); a }

impl DecObj {
    pub fn raw(&mut self, d: &mut [u8]) {
        match self { DecObj::VH(h) => h.decrypt(d), DecObj::VC(c) => c.decrypt(d), DecObj::TH(h) => h.decrypt(d), DecObj::TC(c) => c.decrypt(d),
                     DecObj::WCD(h) => h.decrypt(d), DecObj::WSD(h) => h.decrypt(d), DecObj::WCC(c) => c.decrypt(d), DecObj::WSC(c) => c.decrypt(d) }
    }
    /// typed array helper; Wrath server header: attempt on 4 bytes, then the fifth if asked for and present
    pub fn hdr(&mut self, kind: u8, d: &[u8]) -> Vec<u8> {
        macro_rules! two { ($h:expr) => {{ match $h.attempt_decrypt_server_header(arr4(d)) {
            w::WrathServerAttempt::Header(x) => hrec(x.size, x.opcode as u32),
            w::WrathServerAttempt::AdditionalByteRequired => if d.len() > 4 { let x = $h.decrypt_large_server_header(d[4]); hrec(x.size, x.opcode as u32) } else { vec![1u8] } } }} }
        macro_rules! vt { ($h:expr) => {{ if kind == 0 { let x = $h.decrypt_server_header(arr4(d)); hrec(x.size as u32, x.opcode as u32) } else { let x = $h.decrypt_client_header(arr6(d)); hrec(x.size as u32, x.opcode) } }} }
        match self {
            DecObj::VH(h) => vt!(h), DecObj::VC(h) => vt!(h), DecObj::TH(h) => vt!(h), DecObj::TC(h) => vt!(h),
            DecObj::WCD(h) => two!(h), DecObj::WCC(h) => two!(h),
            DecObj::WSD(h) => { let x = h.decrypt_client_header(arr6(d)); hrec(x.size as u32, x.opcode) }
            DecObj::WSC(h) => { let x = h.decrypt_client_header(arr6(d)); hrec(x.size as u32, x.opcode) }
        }
    }
    pub fn read<R: Read>(&mut self, kind: u8, r: R) -> io::Result<(u32, u32)> {
        macro_rules! vt { ($h:expr) => {{ if kind == 0 { $h.read_and_decrypt_server_header(r).map(|x| (x.size as u32, x.opcode as u32)) } else { $h.read_and_decrypt_client_header(r).map(|x| (x.size as u32, x.opcode)) } }} }
        match self {
            DecObj::VH(h) => vt!(h), DecObj::VC(h) => vt!(h), DecObj::TH(h) => vt!(h), DecObj::TC(h) => vt!(h),
            DecObj::WCD(h) => h.read_and_decrypt_server_header(r).map(|x| (x.size, x.opcode as u32)),
            DecObj::WCC(h) => h.read_and_decrypt_server_header(r).map(|x| (x.size, x.opcode as u32)),
            DecObj::WSD(h) => h.read_and_decrypt_client_header(r).map(|x| (x.size as u32, x.opcode)),
            DecObj::WSC(h) => h.read_and_decrypt_client_header(r).map(|x| (x.size as u32, x.opcode)),
        }
    }
    pub fn resume(&mut self, b: u8) -> Option<Vec<u8>> {
        match self {
            DecObj::WCD(h) => { let x = h.decrypt_large_server_header(b); Some(hrec(x.size, x.opcode as u32)) }
            DecObj::WCC(h) => { let x = h.decrypt_large_server_header(b); Some(hrec(x.size, x.opcode as u32)) }
            _ => None,
        }
    }
    pub fn obs(&self) -> Vec<u8> {
        match self {
            DecObj::VH(h) => v_d(h), DecObj::VC(c) => obs_vc(c), DecObj::TH(h) => t_d(h), DecObj::TC(c) => obs_tc(c),
            DecObj::WCD(h) => { let mut h = h.clone(); let mut a = [0u8; 8]; h.decrypt(&mut a); a.to_vec() }
            DecObj::WSD(h) => { let mut h = h.clone(); let mut a = [0u8; 8]; h.decrypt(&mut a); a.to_vec() }
            DecObj::WCC(c) => obs_wcc(c), DecObj::WSC(c) => obs_wsc(c),
        }
    }
}

/// the documented wire layout of a header of this selector
pub fn layout(s: Sel, size: u32, opcode: u32) -> Vec<u8> {
    let mut o = Vec::new();
    if s.kind == 1 { o.extend((size as u16).to_be_bytes()); o.extend(opcode.to_le_bytes()); }
    else if s.m == 2 && size > 0x7FFF { o.push(0x80 | (size >> 16) as u8); o.push((size >> 8) as u8); o.push(size as u8); o.extend((opcode as u16).to_le_bytes()); }
    else { o.extend((size as u16).to_be_bytes()); o.extend((opcode as u16).to_le_bytes()); }
    o
}
/// sizes / opcodes a selector accepts, truncated to the parameter types of its API
fn norm(s: Sel, size: u32, opcode: u32) -> (u32, u32) {
    let size = if s.m == 2 && s.kind == 0 { size } else { size & 0xFFFF };
    let opcode = if s.kind == 0 { opcode & 0xFFFF } else { opcode };
    (size, opcode)
}
fn so_bytes(size: u32, opcode: u32) -> Vec<u8> { let mut o = size.to_le_bytes().to_vec(); o.extend(opcode.to_le_bytes()); o }
fn iores(r: &io::Result<()>) -> Vec<u8> { match r { Ok(()) => vec![0], Err(e) => vec![1, code_of(e.kind())] } }

const SIZES: [u32; 7] = [0, 1, 0xFF, 0x100, 0x7FFF, 0x8000, 0xFFFF];
const SIZES_W: [u32; 6] = [0x10000, 0x012345, 0x7FFF00, 0x7FFFFF, 0x800000, 0xFFFF_FFFF];
const OPCODES: [u32; 6] = [0, 1, 0xFF, 0x100, 0x1EE, 0xFFFF];
const OPCODES32: [u32; 4] = [0x10000, 0x0100_0000, 0x1234_5678, 0xFFFF_FFFF];

fn pre_of(rng: &mut Rng, k: usize) -> Vec<u8> { match k % 4 { 0 => Vec::new(), 1 => rng.bytes(1), 2 => rng.bytes(37), _ => { let n = rng.range(0, 90) as usize; rng.bytes(n) } } }
fn key_of(rng: &mut Rng, k: usize) -> [u8; 40] { match k % 11 { 0 => [0u8; 40], 1 => [0xFF; 40], _ => rng.arr() } }

// ---------------------------------------------------------------------------------- typed helpers
fn helpers(ctx: &mut Ctx) {
    let mut rng = ctx.rng("helpers");
    let mut k = 0usize;
    for s in Sel::all() {
        let mut sizes: Vec<u32> = SIZES.to_vec();
        if s.m == 2 && s.kind == 0 { sizes.extend(SIZES_W); }
        let mut ops: Vec<u32> = OPCODES.to_vec();
        if s.kind == 1 { ops.extend(OPCODES32); }
        let extra = if ctx.quick() { 6 } else { 400 };
        let mut pairs: Vec<(u32, u32)> = Vec::new();
        for a in &sizes { for b in &ops { pairs.push((*a, *b)); } }
        for _ in 0..extra { pairs.push((rng.next() as u32 >> rng.below(24), rng.next() as u32 >> rng.below(24))); }
        for (size, opcode) in pairs {
            k += 1;
            let (size, opcode) = norm(s, size, opcode);
            let key = key_of(&mut rng, k); let pre = pre_of(&mut rng, k);
            let det = |what: &str| format!("{{\"what\":\"{}\",\"sel\":{},\"key\":\"{}\",\"pre\":\"{}\",\"size\":{},\"opcode\":{}}}", what, s.json(), hex(&key), hex(&pre), size, opcode);
            // ---- encrypt helper: implementation, correspondence case, oracle against the raw call
            let r = catch(|| {
                let mut e = make_enc(s, key); let mut p = pre.clone(); e.raw(&mut p);
                let mut raw = e.clone();
                let bytes = e.hdr(s.kind, size, opcode);
                let mut lay = layout(s, size, opcode); raw.raw(&mut lay);
                (bytes, e.obs(), lay, raw.obs(), e.has_scratch() || e == raw, p)
            });
            ctx.oracle_runs += 1;
            let so = so_bytes(size, opcode);
            match r {
                None => { ctx.case(1, "panic", &[&s.bytes(), &key, &pre, &so], &[&[2]]); ctx.fail("panic", det("typed encrypt helper panicked")); }
                Some((bytes, obs, lay, raw_obs, eq, pre_ct)) => {
                    let oversize = s.m == 2 && s.kind == 0 && size > 0x7FFFFF;
                    ctx.case(1, if oversize { "outside-domain:typed encrypt helper, Wrath size > 0x7FFFFF" } else { "typed encrypt helper" }, &[&s.bytes(), &key, &pre, &so], &[&[0], &bytes, &obs]);
                    if oversize { /* no wire layout is defined beyond 0x7FFFFF: compared with the model only */ } else
                    if bytes != lay { ctx.fail("helper_vs_raw", det("typed encrypt helper differs from raw encrypt of the wire layout (big-endian size, little-endian opcode)")); }
                    else if obs != raw_obs || !eq { ctx.fail("helper_state", det("cipher state after the typed encrypt helper differs from the state after the raw call")); }
                    // ---- decrypt helper on exactly these bytes (a decrypter in step): header comes back
                    let in_range = !(s.m == 2 && s.kind == 0 && size > 0x7FFFFF);
                    let r2 = catch(|| {
                        let mut d = make_dec(s, key); let mut p = pre_ct.clone(); d.raw(&mut p);
                        let mut raw = d.clone();
                        let rec = d.hdr(s.kind, &bytes);
                        let mut plain = bytes.clone(); raw.raw(&mut plain);
                        (rec, d.obs(), plain, raw.obs(), p)
                    });
                    ctx.oracle_runs += 1;
                    match r2 {
                        None => { ctx.case(2, "panic", &[&s.bytes(), &key, &pre_ct, &bytes], &[&[2]]); ctx.fail("panic", det("typed decrypt helper panicked")); }
                        Some((rec, dobs, plain, raw_dobs, p)) => {
                            ctx.case(2, "typed decrypt helper", &[&s.bytes(), &key, &pre_ct, &bytes], &[&[0], &rec, &dobs]);
                            if p != pre { ctx.fail("roundtrip", det("raw decrypt does not invert raw encrypt")); }
                            if plain != layout(s, size, opcode) { ctx.fail("roundtrip", det("raw decrypt of the typed helper's bytes is not the wire layout")); }
                            if in_range && rec != hrec(size, opcode) { ctx.fail("helper_decode", det("typed decrypt helper does not return the (size, opcode) the typed encrypt helper was given")); }
                            if dobs != raw_dobs { ctx.fail("helper_state", det("cipher state after the typed decrypt helper differs from the state after the raw call")); }
                        }
                    }
                    if s.m == 2 && s.kind == 0 && size > 0x7FFF {
                        // the four-byte attempt alone: AdditionalByteRequired
                        let r3 = catch(|| { let mut d = make_dec(s, key); let mut p = pre_ct.clone(); d.raw(&mut p); let rec = d.hdr(0, &bytes[..4]); (rec, d.obs()) });
                        if let Some((rec, dobs)) = r3 { ctx.case(2, "attempt only", &[&s.bytes(), &key, &pre_ct, &bytes[..4]], &[&[0], &rec, &dobs]);
                            if rec != vec![1u8] { ctx.fail("helper_decode", det("attempt on a long header did not answer AdditionalByteRequired")); } }
                    }
                }
            }
            ctx.count(&format!("helpers:m{}k{}f{}", s.m, s.kind, s.facade));
        }
        // typed decrypt helper on arbitrary arrays (not produced by an encrypter)
        let n = if ctx.quick() { 10 } else { 400 };
        for _ in 0..n {
            k += 1;
            let key = key_of(&mut rng, k); let pre = pre_of(&mut rng, k);
            let len = if s.kind == 1 { 6 } else if s.m == 2 { 5 } else { 4 };
            let data = rng.bytes(len);
            let r = catch(|| { let mut d = make_dec(s, key); let mut p = pre.clone(); d.raw(&mut p); let rec = d.hdr(s.kind, &data); (rec, d.obs()) });
            match r {
                Some((rec, obs)) => ctx.case(2, "typed decrypt helper, arbitrary bytes", &[&s.bytes(), &key, &pre, &data], &[&[0], &rec, &obs]),
                None => { ctx.case(2, "panic", &[&s.bytes(), &key, &pre, &data], &[&[2]]);
                          ctx.fail("panic", format!("{{\"what\":\"typed decrypt helper panicked\",\"sel\":{},\"key\":\"{}\",\"data\":\"{}\"}}", s.json(), hex(&key), hex(&data))); }
            }
        }
    }
    ctx.exhaustive.push("typed helpers: sizes {0,1,0xFF,0x100,0x7FFF,0x8000,0xFFFF} (+ Wrath server 0x10000..0x7FFFFF, 0x800000, 0xFFFFFFFF) x opcodes {0,1,0xFF,0x100,0x1EE,0xFFFF} (+ u32 0x10000, 0x01000000, 0x12345678, 0xFFFFFFFF) for all 12 (module, header kind, half/combined) selectors".to_string());
}

// ---------------------------------------------------------------------------------- readers
/// the wire bytes of one header for this selector, produced by the matching real encrypter
fn wire_for(s: Sel, key: [u8; 40], pre: &[u8], size: u32, opcode: u32) -> (Vec<u8>, Vec<u8>) {
    let mut e = make_enc(Sel { m: s.m, kind: s.kind, facade: 0 }, key);
    let mut p = pre.to_vec(); e.raw(&mut p);
    (p, e.hdr(s.kind, size, opcode))
}
/// cut `bytes` into Data events in one of several styles, with interruptions
pub fn fragments(rng: &mut Rng, bytes: &[u8], style: u64) -> Vec<REv> {
    let mut ev = Vec::new();
    let mut pos = 0;
    if style == 3 { ev.push(REv::Fail(0)); }
    while pos < bytes.len() {
        let n = match style { 0 => bytes.len(), 1 => 1, 2 => rng.range(1, 3) as usize, _ => rng.range(1, bytes.len() as u64) as usize }.min(bytes.len() - pos);
        ev.push(REv::Data(bytes[pos..pos + n].to_vec())); pos += n;
        if style >= 2 { for _ in 0..rng.below(3) { ev.push(REv::Fail(0)); } }
    }
    ev
}

struct ReadOut { res: io::Result<(u32, u32)>, left: usize, obs: Vec<u8>, after: DecObj, calls: usize }
fn do_read(s: Sel, key: [u8; 40], pre_ct: &[u8], ev: &[REv]) -> Option<(DecObj, ReadOut)> {
    catch(|| {
        let mut d = make_dec(s, key); let mut p = pre_ct.to_vec(); d.raw(&mut p);
        let before = d.clone();
        let mut r = ScriptedReader::new(ev);
        let res = d.read(s.kind, &mut r);
        (before, ReadOut { res, left: r.left(), obs: d.obs(), after: d, calls: r.calls })
    })
}
fn emit_read(ctx: &mut Ctx, label: &str, s: Sel, key: [u8; 40], pre_ct: &[u8], ev: &[REv], resume: Option<u8>, out: &ReadOut, resumed: Option<(Vec<u8>, Vec<u8>)>) {
    let script = enc_rscript(ev);
    let rb: Vec<u8> = resume.map(|b| vec![b]).unwrap_or_default();
    let ins: [&[u8]; 5] = [&s.bytes(), &key, pre_ct, &script, &rb];
    match &out.res {
        Ok((size, opcode)) => { let h = hrec(*size, *opcode); let l = (out.left as u16).to_le_bytes(); ctx.case(4, label, &ins, &[&[0], &[0], &h, &l, &out.obs]); }
        Err(e) => {
            let io = [1u8, code_of(e.kind())];
            match resumed { Some((h2, o2)) => ctx.case(4, label, &ins, &[&[0], &io, &[], &[], &out.obs, &h2, &o2]),
                            None => ctx.case(4, label, &ins, &[&[0], &io, &[], &[], &out.obs]) }
        }
    }
}

fn read_failures(ctx: &mut Ctx) {
    let mut rng = ctx.rng("read_fail");
    let mut k = 0usize;
    let mut scripts = 0u64;
    for s in Sel::all() {
        // header variants: fixed length n; Wrath server headers come short (4) and long (5)
        let mut variants: Vec<(u32, u32)> = if s.m == 2 && s.kind == 0 { vec![(0x1234, 0x1EE), (0x012345, 0x3B)] } else { vec![(0x1234, if s.kind == 1 { 0x1234_5678 } else { 0x1EE })] };
        if !ctx.quick() { for _ in 0..2 { let sz = if s.m == 2 && s.kind == 0 { *rng.pick(&[0x8000u32, 0x7FFFFF, 0x40_0000, 7]) } else { rng.below(0x10000) as u32 }; let v = norm(s, sz, rng.next() as u32); variants.push(v); } }
        for (size, opcode) in variants {
            k += 1;
            let key = key_of(&mut rng, k + 2); let pre = pre_of(&mut rng, k);
            let (pre_ct, wire) = wire_for(s, key, &pre, size, opcode);
            let n = wire.len();
            for off in 0..n {
                // failure modes at this offset: every error kind, end of file by exhaustion, a zero-length read
                let mut modes: Vec<(Vec<REv>, u8, &str)> = Vec::new();
                for c in failing_codes() { modes.push((vec![REv::Fail(c)], c, "error")); }
                modes.push((vec![], 1, "eof")); modes.push((vec![REv::Data(vec![])], 1, "zero-length read"));
                for (tail, want, mode) in modes {
                    for style in 0..3u64 {
                        if off == 0 && style > 0 && mode != "error" { continue; }
                        let mut ev = fragments(&mut rng, &wire[..off], style);
                        if style == 2 { ev.insert(0, REv::Fail(0)); }
                        ev.extend(tail.clone());
                        // whatever follows the failure must not matter
                        if mode != "eof" { ev.push(REv::Data(wire[off..].to_vec())); }
                        scripts += 1; ctx.oracle_runs += 1;
                        let det = |what: &str| format!("{{\"what\":\"{}\",\"sel\":{},\"key\":\"{}\",\"pre\":\"{}\",\"wire\":\"{}\",\"offset\":{},\"mode\":\"{}\",\"kind_code\":{},\"script\":\"{}\"}}",
                                                       what, s.json(), hex(&key), hex(&pre_ct), hex(&wire), off, mode, want, hex(&enc_rscript(&ev)));
                        let Some((before, out)) = do_read(s, key, &pre_ct, &ev) else { ctx.case(4, "panic", &[&s.bytes(), &key, &pre_ct, &enc_rscript(&ev), &[]], &[&[2]]); ctx.fail("panic", det("read wrapper panicked")); continue; };
                        let fifth = s.m == 2 && s.kind == 0 && n == 5 && off == 4;
                        match &out.res {
                            Ok(_) => { ctx.fail("read_error_swallowed", det("reader failed before the header was complete but the wrapper returned Ok")); emit_read(ctx, "failed read", s, key, &pre_ct, &ev, None, &out, None); continue; }
                            Err(e) => if code_of(e.kind()) != want { ctx.fail("read_error_kind", det(&format!("wrapper returned error kind code {} instead of the reader's", code_of(e.kind())))); }
                        }
                        if !fifth {
                            if out.after != before || out.obs != before.obs() { ctx.fail("read_failure_state", det("decrypter changed although the read failed before the header was complete")); }
                            emit_read(ctx, "failed read", s, key, &pre_ct, &ev, None, &out, None);
                        } else {
                            // state must be exactly the state after the 4-byte attempt; the true fifth byte completes the header
                            let mut reference = before.clone(); let rec = reference.hdr(0, &wire[..4]);
                            if rec != vec![1u8] || out.after != reference || out.obs != reference.obs() { ctx.fail("fifth_byte_state", det("after a failure at the fifth byte the decrypter is not the state after attempt_decrypt_server_header on the first four")); }
                            let mut resumed = out.after.clone();
                            let h2 = resumed.resume(wire[4]).unwrap();
                            let mut whole = before.clone(); let h3 = whole.hdr(0, &wire);
                            if h2 != hrec(size, opcode) || h2 != h3 || resumed != whole { ctx.fail("fifth_byte_resume", det("supplying the fifth byte later does not complete the header / does not reach the state of an uninterrupted read")); }
                            let o2 = resumed.obs();
                            emit_read(ctx, "failed read at the fifth byte, then resumed", s, key, &pre_ct, &ev, Some(wire[4]), &out, Some((h2, o2)));
                            ctx.count("fifth_byte_failures");
                        }
                        ctx.count(&format!("read_failure_mode:{}", mode));
                    }
                }
            }
        }
    }
    ctx.count_n("read_failure_scripts", scripts);
    ctx.exhaustive.push(format!("read failures: every offset 0..n-1 of every header kind (vanilla/tbc server 4 + client 6, wrath client 6, wrath server short 4 and long 5) x every error kind ({} kinds) + end of file + zero-length read x half/combined x 3 fragmentations of the delivered prefix: {} scripts", failing_codes().len(), scripts));
}

fn read_fragmented(ctx: &mut Ctx) {
    let mut rng = ctx.rng("read_frag");
    let per = if ctx.quick() { 30 } else { 1500 };
    let mut k = 0usize;
    for s in Sel::all() {
        for j in 0..per {
            k += 1;
            let key = key_of(&mut rng, k + 2); let pre = pre_of(&mut rng, k);
            let size = if j % 2 == 0 { edge_size(&mut rng, s.m == 2 && s.kind == 0) } else if s.m == 2 && s.kind == 0 { *rng.pick(&[0u32, 9, 0x7FFF, 0x8000, 0x012345, 0x7FFFFF]) } else { rng.below(0x10000) as u32 };
            let (size, opcode) = norm(s, size, rng.next() as u32);
            let (pre_ct, wire) = wire_for(s, key, &pre, size, opcode);
            let surplus = if j % 3 == 0 { 0 } else { rng.range(0, 9) as usize };
            let mut stream = wire.clone(); stream.extend(rng.bytes(surplus));
            let ev = fragments(&mut rng, &stream, 2 + (j as u64 % 3).min(2));
            ctx.oracle_runs += 1;
            let det = |what: &str| format!("{{\"what\":\"{}\",\"sel\":{},\"key\":\"{}\",\"pre\":\"{}\",\"script\":\"{}\",\"size\":{},\"opcode\":{}}}", what, s.json(), hex(&key), hex(&pre_ct), hex(&enc_rscript(&ev)), size, opcode);
            let Some((before, out)) = do_read(s, key, &pre_ct, &ev) else { ctx.case(4, "panic", &[&s.bytes(), &key, &pre_ct, &enc_rscript(&ev), &[]], &[&[2]]); ctx.fail("panic", det("read wrapper panicked")); continue; };
            let mut reference = before.clone(); let rec = reference.hdr(s.kind, &wire);
            match &out.res {
                Ok((sz, op)) => {
                    if hrec(*sz, *op) != rec || (size <= 0x7FFFFF && (*sz, *op) != (size, opcode)) { ctx.fail("read_fragmented_value", det("fragmented read returned another header than the array call")); }
                    if out.after != reference || out.obs != reference.obs() { ctx.fail("read_fragmented_state", det("fragmented read left another cipher state than the array call")); }
                    if out.left != surplus { ctx.fail("read_consumed", det(&format!("the wrapper consumed {} bytes beyond the header", surplus as i64 - out.left as i64))); }
                }
                Err(_) => ctx.fail("read_fragmented_error", det("a reader that only fragments and interrupts made the wrapper fail")),
            }
            emit_read(ctx, "fragmented read", s, key, &pre_ct, &ev, None, &out, None);
            ctx.count_n("reader_calls", out.calls as u64);
            ctx.count_n("reader_events_interrupted", ev.iter().filter(|e| matches!(e, REv::Fail(0))).count() as u64);
        }
    }
}

// ---------------------------------------------------------------------------------- writers
fn write_cases(ctx: &mut Ctx) {
    let mut rng = ctx.rng("write");
    let mut k = 0usize;
    let mut scripts = 0u64;
    for s in Sel::all() {
        let mut variants: Vec<(u32, u32)> = if s.m == 2 && s.kind == 0 { vec![(0x1234, 0x1EE), (0x012345, 0x3B)] } else { vec![(0xFEDC, if s.kind == 1 { 0x89AB_CDEF } else { 0x1EE })] };
        if !ctx.quick() { for _ in 0..2 { let sz = if s.m == 2 && s.kind == 0 { *rng.pick(&[0x8000u32, 0x7FFFFF, 0x40_0000, 7]) } else { rng.below(0x10000) as u32 }; let v = norm(s, sz, rng.next() as u32); variants.push(v); } }
        let n_full = variants.len();
        // boundary sizes (both sides of the Wrath long/short threshold, the type limits) with succeeding
        // writers only: what reaches the writer must be exactly the typed helper's header
        let bsz: &[u32] = if s.m == 2 && s.kind == 0 { &[0, 0x7FFE, 0x7FFF, 0x8000, 0x8001, 0xFFFF, 0x10000, 0x7FFFFF] } else { &[0, 0x7FFF, 0x8000, 0xFFFF] };
        for z in bsz { variants.push(norm(s, *z, rng.next() as u32)); }
        for (vi, (size, opcode)) in variants.into_iter().enumerate() {
            k += 1;
            let key = key_of(&mut rng, k + 2); let pre = pre_of(&mut rng, k);
            let n = layout(s, size, opcode).len();
            let mut scr: Vec<(Vec<WEv>, &str)> = Vec::new();
            for off in 0..(if vi < n_full { n } else { 0 }) {
                let mut fails: Vec<WEv> = failing_codes().into_iter().map(WEv::Fail).collect();
                fails.push(WEv::Accept(0));
                for f in fails {
                    for style in 0..3 {
                        if off == 0 && style > 0 { continue; }
                        let mut ev = Vec::new();
                        match style { 0 => if off > 0 { ev.push(WEv::Accept(off as u8)); },
                                      1 => for _ in 0..off { ev.push(WEv::Accept(1)); },
                                      _ => { ev.push(WEv::Fail(0)); let mut left = off; while left > 0 { let c = rng.range(1, left as u64) as usize; ev.push(WEv::Accept(c as u8)); left -= c; if rng.chance(1, 2) { ev.push(WEv::Fail(0)); } } } }
                        ev.push(f.clone()); ev.push(WEv::Accept(200));
                        scr.push((ev, "failing writer"));
                    }
                }
            }
            // succeeding writers
            scr.push((vec![], "writer takes all"));
            scr.push(((0..n).map(|_| WEv::Accept(1)).collect(), "writer takes one byte per call"));
            for _ in 0..(if ctx.quick() { 4 } else { 40 }) {
                let mut ev = Vec::new(); let mut left = n;
                while left > 0 { if rng.chance(1, 3) { ev.push(WEv::Fail(0)); } let c = rng.range(1, 7) as usize; ev.push(WEv::Accept(c as u8)); left = left.saturating_sub(c); }
                scr.push((ev, "writer takes random amounts with interruptions"));
            }
            for (ev, label) in scr {
                scripts += 1; ctx.oracle_runs += 1;
                let script = enc_wscript(&ev);
                let so = so_bytes(size, opcode);
                let det = |what: &str| format!("{{\"what\":\"{}\",\"sel\":{},\"key\":\"{}\",\"pre\":\"{}\",\"size\":{},\"opcode\":{},\"script\":\"{}\"}}", what, s.json(), hex(&key), hex(&pre), size, opcode, hex(&script));
                let r = catch(|| {
                    let mut e = make_enc(s, key); let mut p = pre.clone(); e.raw(&mut p);
                    let mut reference = e.clone(); let want = reference.hdr(s.kind, size, opcode);
                    let mut wr = ScriptedWriter::new(&ev);
                    let res = e.write(s.kind, &mut wr, size, opcode);
                    (res, wr.got, e.obs(), e == reference, reference.obs(), want)
                });
                let Some((res, got, obs, same, ref_obs, want)) = r else { ctx.case(3, "panic", &[&s.bytes(), &key, &pre, &so, &script], &[&[2]]); ctx.fail("panic", det("write wrapper panicked")); continue; };
                ctx.case(3, label, &[&s.bytes(), &key, &pre, &so, &script], &[&[0], &iores(&res), &got, &obs]);
                // what a std::io::Write::write_all over this script must give
                let fail_at = ev.iter().position(|e| matches!(e, WEv::Fail(c) if *c != 0) || matches!(e, WEv::Accept(0)));
                let accepted_before: usize = ev.iter().take(fail_at.unwrap_or(ev.len())).map(|e| match e { WEv::Accept(c) => *c as usize, _ => 0 }).sum();
                let must_fail = fail_at.is_some() && accepted_before < n;
                match (&res, must_fail) {
                    (Ok(()), true) => ctx.fail("write_error_swallowed", det("the writer failed before the header was written but the wrapper returned Ok")),
                    (Err(_), false) => ctx.fail("write_spurious_error", det("the writer accepted the whole header but the wrapper returned an error")),
                    (Err(e), true) => {
                        let want_code = match &ev[fail_at.unwrap()] { WEv::Fail(c) => *c, _ => 2 };
                        if code_of(e.kind()) != want_code { ctx.fail("write_error_kind", det(&format!("wrapper returned error kind code {} instead of the writer's {}", code_of(e.kind()), want_code))); }
                        if got != want[..accepted_before.min(n)] { ctx.fail("write_bytes", det("bytes handed to the writer before the failure are not a prefix of the encrypted header")); }
                    }
                    (Ok(()), false) => if got != want { ctx.fail("write_bytes", det("the writer did not receive exactly the encrypted header")); }
                }
                if !same || obs != ref_obs { ctx.fail("write_state", det("state after write_encrypted_X differs from the state after the typed encrypt helper (failed writes included: the cipher advances)")); }
            }
        }
    }
    ctx.count_n("write_scripts", scripts);
    ctx.exhaustive.push(format!("write failures: every offset 0..n-1 of every header kind x every error kind ({} kinds) + a zero-length write (WriteZero) x half/combined x 3 ways of accepting the prefix", failing_codes().len()));
}

pub fn run(ctx: &mut Ctx) {
    helpers(ctx);
    read_failures(ctx);
    read_fragmented(ctx);
    write_cases(ctx);
    // one direction of typed traffic through a receive buffer, all three modules (see typed_traffic below)
    { let n = if ctx.quick() { 150 } else { 2000 }; for m in 0..3 { typed_traffic(ctx, m, n); } }
    ctx.sample("op=4 sel=[2,0,0] (wrath ClientDecrypterHalf) long header, reader delivers 4 bytes in fragments then fails with ConnectionReset; afterwards decrypt_large_server_header(fifth byte)".to_string());
}

// ---------------------------------------------------------------------------------- shared traffic oracles
/// header sizes with the values around every boundary a header codec could care about (nothing, the opcode
/// lengths 2 / 4, the header lengths 4 / 6, one byte, the Wrath long-header switch, the type limits)
pub fn edge_size(rng: &mut Rng, wrath_server: bool) -> u32 {
    match rng.below(10) {
        0 | 1 | 2 => *rng.pick(&[0u32, 1, 2, 3, 4, 5, 6, 7, 8]),
        3 => *rng.pick(&[0xFFu32, 0x100, 0x101, 0x7FFE, 0x7FFF, 0x8000, 0x8001, 0xFFFE, 0xFFFF]),
        4 if wrath_server => *rng.pick(&[0x10000u32, 0x10001, 0x012345, 0x7FFF00, 0x7FFFFE, 0x7FFFFF]),
        5 if wrath_server => rng.range(0x8000, 0x7FFFFF) as u32,
        _ => rng.range(0, 0xFFFF) as u32,
    }
}
/// K2 related to K1 in a structured way (same bytes in another order, same word sums / xors, near-identical, ...)
pub fn related_key(rng: &mut Rng, k1: &[u8; 40]) -> ([u8; 40], &'static str) {
    let mut k = *k1;
    let what = match rng.below(12) {
        0 => { let (a, b) = (rng.below(5) as usize, rng.below(5) as usize); for n in 0..8 { k.swap(8 * a + n, 8 * b + n); } "two 8-byte words exchanged" }
        1 => { let (a, b) = (rng.below(10) as usize, rng.below(10) as usize); for n in 0..4 { k.swap(4 * a + n, 4 * b + n); } "two 4-byte words exchanged" }
        2 => { let (a, b) = (rng.below(40) as usize, rng.below(40) as usize); k.swap(a, b); "two bytes exchanged" }
        3 => { let r = *rng.pick(&[1usize, 4, 8, 16, 20, 32]); k.rotate_left(r); "bytes rotated" }
        4 => { k.reverse(); "bytes reversed" }
        5 => { let (a, d, x) = (rng.below(40) as usize, 8 * (1 + rng.below(4) as usize), rng.byte() | 1); k[a] ^= x; k[(a + d) % 40] ^= x; "the same value xored into two bytes 8n apart" }
        6 => { let (a, b) = (rng.below(40) as usize, rng.below(40) as usize); if a != b { k[a] = k[a].wrapping_add(1); k[b] = k[b].wrapping_sub(1); } "one byte incremented, another decremented" }
        7 => { let a = rng.below(40) as usize; k[a] ^= 1 << rng.below(8); "one bit flipped" }
        8 => { for x in k.iter_mut() { *x = !*x; } "complemented" }
        9 => { let t: [u8; 40] = rng.arr(); let cut = *rng.pick(&[8usize, 16, 20, 32, 39]); k[cut..].copy_from_slice(&t[cut..]); "same prefix, other tail" }
        10 => { let t: [u8; 40] = rng.arr(); let cut = *rng.pick(&[1usize, 8, 20, 24, 32]); k[..cut].copy_from_slice(&t[..cut]); "same tail, other prefix" }
        _ => { let (a, b) = (rng.below(40) as usize, rng.below(40) as usize); k.swap(a, b); k.rotate_left(8); "two bytes exchanged, then rotated by 8" }
    };
    (k, what)
}

#[derive(Clone, Debug, PartialEq)]
pub enum Item { Hdr(u8, u32, u32), Payload(Vec<u8>) }
fn items_json(s: &[Item]) -> String {
    let v: Vec<String> = s.iter().map(|i| match i { Item::Hdr(0, s, o) => format!("{{\"server_header\":[{},{}]}}", s, o), Item::Hdr(_, s, o) => format!("{{\"client_header\":[{},{}]}}", s, o), Item::Payload(p) => format!("{{\"payload\":\"{}\"}}", hex(p)) }).collect();
    format!("[{}]", v.join(","))
}
/// One direction of typed traffic of module `m` (0 vanilla, 1 tbc, 2 wrath), as a program uses the API: headers
/// with sizes around every boundary and raw payload chunks are sent by the real sender; the wire bytes arrive in
/// pieces; the receiver keeps a receive buffer and parses what is buffered -- through the Read-based call on the
/// buffered bytes, retried from the same place when it reports an error because the header is not complete yet,
/// or through the array call once a whole header is there -- and must recover every item, stay in step with the
/// sender afterwards, and do so identically as a split half and as a combined object.
pub fn typed_traffic(ctx: &mut Ctx, m: u8, n: usize) {
    let mut rng = ctx.rng(&format!("typed_traffic/{}", m));
    for k in 0..n {
        let key: [u8; 40] = key_of(&mut rng, k + 2);
        let dir = if m == 2 { (k % 2) as u8 } else { 2 };                 // wrath: one header kind per direction
        let nitems = 1 + rng.below(10) as usize;
        let mut script: Vec<Item> = Vec::new();
        for _ in 0..nitems {
            if rng.chance(1, 5) { let l = rng.range(0, 50) as usize; script.push(Item::Payload(rng.bytes(l))); continue; }
            let kind = if dir == 2 { rng.below(2) as u8 } else { dir };
            let s = Sel { m, kind, facade: 0 };
            let (size, opcode) = norm(s, edge_size(&mut rng, m == 2 && kind == 0), if rng.chance(1, 4) { *rng.pick(&[0u32, 1, 0xFF, 0x100, 0xFFFF, 0x10000, 0xFFFF_FFFF]) } else { rng.next() as u32 });
            script.push(Item::Hdr(kind, size, opcode));
        }
        let sel_kind = if dir == 2 { 0 } else { dir };
        let send_facade = (k % 2) as u8;
        let sc = script.clone();
        let sent = catch(move || {
            let mut e = make_enc(Sel { m, kind: sel_kind, facade: send_facade }, key);
            let mut wire: Vec<u8> = Vec::new();
            let mut lens: Vec<usize> = Vec::new();
            for (i, it) in sc.iter().enumerate() {
                let before = wire.len();
                match it {
                    Item::Hdr(kind, s, o) => if i % 2 == 0 { wire.extend(e.hdr(*kind, *s, *o)); } else { e.write(*kind, &mut wire, *s, *o).unwrap(); },
                    Item::Payload(p) => { let mut b = p.clone(); e.raw(&mut b); wire.extend(b); }
                }
                lens.push(wire.len() - before);
            }
            let mut probe = [0x5Au8; 16]; e.raw(&mut probe);
            (wire, lens, probe)
        });
        ctx.oracle_runs += 1;
        let det0 = |what: &str, extra: String| format!("{{\"what\":\"{}\",\"module\":{},\"key\":\"{}\",\"sender_is_combined_object\":{},\"script\":{}{}}}", what, m, hex(&key), send_facade, items_json(&script), extra);
        let (wire, lens, probe) = match sent { Some(x) => x, None => { ctx.fail("panic", det0("panic while sending typed traffic", String::new())); continue; } };
        // the sender's wire lengths are the documented ones
        let want_lens: Vec<usize> = script.iter().map(|it| match it { Item::Hdr(kind, s, o) => layout(Sel { m, kind: *kind, facade: 0 }, *s, *o).len(), Item::Payload(p) => p.len() }).collect();
        if lens != want_lens { ctx.fail("typed_traffic_wire_length", det0("a typed send call put another number of bytes on the wire than the header layout has", format!(",\"wire_lengths\":{:?}", lens))); continue; }
        // arrivals: cumulative number of wire bytes present after each delivery
        let mut arrivals: Vec<usize> = Vec::new();
        { let mut pos = 0usize; let style = k % 4;
          while pos < wire.len() { let step = match style { 0 => wire.len(), 1 => 1, 2 => rng.range(1, 3) as usize, _ => rng.range(1, 9) as usize }; pos = (pos + step).min(wire.len()); arrivals.push(pos); }
          if arrivals.is_empty() { arrivals.push(0); } }
        let mut results: Vec<(u8, u8, Vec<Item>, [u8; 16])> = Vec::new();
        // facade 2 (vanilla only): a combined object that also SENDS between the items and is split and re-joined
        // (EncrypterHalf::unsplit) each time - the receive direction must not notice
        for facade in 0..(if m == 0 { 3u8 } else { 2u8 }) {
            for mode in 0..2u8 {                                                  // 0 Read-based call with retry, 1 array call on complete headers
                let (sc, wr, arr, ln) = (script.clone(), wire.clone(), arrivals.clone(), lens.clone());
                let r = catch(move || {
                    let mut d = make_dec(Sel { m, kind: sel_kind, facade: facade.min(1) }, key);
                    let rejoin = |d: &mut DecObj, n: usize| { if facade == 2 { if let DecObj::VC(c) = d { let mut junk = vec![0x33u8; (n * 7 + 3) % 11]; c.encrypt(&mut junk); let (e, dd) = c.clone().split(); *c = e.unsplit(dd).expect("own halves"); } } };
                    let mut got: Vec<Item> = Vec::new();
                    let (mut pos, mut idx, mut pay_done) = (0usize, 0usize, 0usize);
                    let mut pay: Vec<u8> = Vec::new();
                    for avail in arr {
                        while idx < sc.len() {
                            match &sc[idx] {
                                Item::Payload(p) => {
                                    let take = (p.len() - pay_done).min(avail - pos);
                                    let mut b = wr[pos..pos + take].to_vec(); d.raw(&mut b); pay.extend(b); pos += take; pay_done += take;
                                    if pay_done == p.len() { got.push(Item::Payload(std::mem::take(&mut pay))); pay_done = 0; idx += 1; rejoin(&mut d, idx); } else { break; }
                                }
                                Item::Hdr(kind, _, _) => {
                                    let complete = avail - pos >= ln[idx];
                                    // a Wrath server header longer than four bytes is not restartable once its first four bytes are consumed
                                    let try_early = !(m == 2 && *kind == 0);
                                    if mode == 1 || !try_early {
                                        if !complete { break; }
                                        if mode == 1 { let h = d.hdr(*kind, &wr[pos..pos + ln[idx]]); got.push(Item::Hdr(*kind, u32::from_le_bytes([h[1], h[2], h[3], h[4]]), u32::from_le_bytes([h[5], h[6], h[7], h[8]]))); pos += ln[idx]; idx += 1; rejoin(&mut d, idx); continue; }
                                    }
                                    let mut rd: &[u8] = &wr[pos..avail];
                                    let had = rd.len();
                                    match d.read(*kind, &mut rd) {
                                        Ok((s, o)) => { got.push(Item::Hdr(*kind, s, o)); pos += had - rd.len(); idx += 1; rejoin(&mut d, idx); }
                                        Err(_) if !complete => break,                      // wait for more bytes, retry from the same place
                                        Err(_) => { got.push(Item::Hdr(*kind, u32::MAX, u32::MAX)); pos += ln[idx]; idx += 1; }
                                    }
                                }
                            }
                        }
                    }
                    let mut pb = probe; d.raw(&mut pb);
                    (got, pb)
                });
                ctx.oracle_runs += 1;
                match r { None => { ctx.fail("panic", det0("panic while receiving typed traffic", format!(",\"receiver_is_combined_object\":{},\"receive_call\":\"{}\",\"arrivals\":{:?}", facade, if mode == 0 { "read_and_decrypt_*" } else { "array" }, arrivals))); }
                          Some((got, pb)) => results.push((facade, mode, got, pb)) }
            }
        }
        for (facade, mode, got, pb) in &results {
            let extra = format!(",\"receiver_is_combined_object\":{},\"receiver_sends_and_is_split_and_rejoined_between_items\":{},\"receive_call\":\"{}\",\"arrivals\":{:?}", (*facade).min(1), *facade == 2, if *mode == 0 { "read_and_decrypt_* on the buffered bytes, retried while incomplete" } else { "array call on complete headers" }, arrivals);
            if *got != script {
                let at = got.iter().zip(script.iter()).position(|(a, b)| a != b).unwrap_or(got.len().min(script.len()));
                ctx.fail("typed_traffic", det0(&format!("the receiver does not recover item {} of the traffic: got {}", at, got.get(at).map(|g| items_json(std::slice::from_ref(g))).unwrap_or_else(|| "nothing".into()).replace('"', "'")), extra));
                break;
            } else if *pb != [0x5Au8; 16] {
                ctx.fail("typed_traffic_out_of_step", det0("every item was recovered but receiver and sender are out of step afterwards (the next 16 bytes do not decrypt)", extra));
                break;
            }
        }
        ctx.count(&format!("typed_traffic:m{}:arrival_style{}", m, k % 4));
        for it in &script { match it { Item::Hdr(_, s, _) => ctx.count(if *s < 8 { "typed_traffic:size<8" } else if *s > 0x7FFF { "typed_traffic:size>0x7FFF" } else { "typed_traffic:size other" }), Item::Payload(_) => ctx.count("typed_traffic:payload") } }
    }
}
