//! C07: Vanilla header cipher.
use crate::ctx::*;
use wow_srp::normalized_string::NormalizedString;
use wow_srp::vanilla_header::{DecrypterHalf, EncrypterHalf, HeaderCrypto, ProofSeed};
use wow_srp::verif_hooks::internals as hk;

pub fn new_crypto(key: [u8; 40]) -> HeaderCrypto {
    let u = NormalizedString::new("A").unwrap();
    let (_, c) = ProofSeed::new().into_client_header_crypto(&u, key, 0);
    c
}
pub fn halves(key: [u8; 40]) -> (EncrypterHalf, DecrypterHalf) { new_crypto(key).split() }

fn spec_enc(key: &[u8], xs: &[u8]) -> Vec<u8> {
    let mut c = 0u8;
    xs.iter().enumerate().map(|(n, x)| { c = (x ^ key[n % key.len()]).wrapping_add(c); c }).collect()
}

fn enc_chunked(e: &mut EncrypterHalf, data: &[u8], sizes: &[usize], typed: bool) -> Vec<u8> {
    // `typed`: every 4-byte call goes through encrypt_server_header and every 6-byte call through
    // encrypt_client_header (size big-endian, opcode little-endian) instead of the raw call
    let mut out = data.to_vec();
    let mut pos = 0;
    for s in sizes {
        let b = &mut out[pos..pos + s];
        if typed && *s == 4 { let r = e.encrypt_server_header(u16::from_be_bytes([b[0], b[1]]), u16::from_le_bytes([b[2], b[3]])); b.copy_from_slice(&r); }
        else if typed && *s == 6 { let r = e.encrypt_client_header(u16::from_be_bytes([b[0], b[1]]), u32::from_le_bytes([b[2], b[3], b[4], b[5]])); b.copy_from_slice(&r); }
        else { e.encrypt(b); }
        pos += s;
    }
    out
}
fn dec_chunked(d: &mut DecrypterHalf, data: &[u8], sizes: &[usize], typed: bool) -> Vec<u8> {
    let mut out = data.to_vec();
    let mut pos = 0;
    for s in sizes {
        let b = &mut out[pos..pos + s];
        if typed && *s == 4 { let h = d.decrypt_server_header([b[0], b[1], b[2], b[3]]); b[..2].copy_from_slice(&h.size.to_be_bytes()); b[2..].copy_from_slice(&h.opcode.to_le_bytes()); }
        else if typed && *s == 6 { let h = d.decrypt_client_header([b[0], b[1], b[2], b[3], b[4], b[5]]); b[..2].copy_from_slice(&h.size.to_be_bytes()); b[2..].copy_from_slice(&h.opcode.to_le_bytes()); }
        else { d.decrypt(b); }
        pos += s;
    }
    out
}

pub fn run(ctx: &mut Ctx) {
    let mut rng = ctx.rng("corr");
    // ---- correspondence cases (through the Coq model) ----
    let lens_fixed = [0usize, 1, 2, 39, 40, 41, 79, 80, 81, 255, 256, 257];
    let n_random = if ctx.quick() { 60 } else { 600 };
    let maxlen = if ctx.quick() { 700 } else { 4096 };
    let mut lens: Vec<usize> = lens_fixed.to_vec();
    for _ in 0..n_random { lens.push(rng.range(0, maxlen) as usize); }
    for (ci, len) in lens.iter().enumerate() {
        let key: [u8; 40] = match ci % 5 { 0 => [0u8; 40], 1 => [0xff; 40], _ => rng.arr() };
        let data = match ci % 7 { 0 => vec![0u8; *len], 1 => vec![0xff; *len], _ => rng.bytes(*len) };
        let typed = ci % 3 != 0;
        let sizes = if ci % 3 == 1 { rng.header_partition(*len) } else { rng.partition(*len) };
        for op in [1u32, 2] {
            let (mut e, mut d) = halves(key);
            let r = catch(|| {
                if op == 1 { let o = enc_chunked(&mut e, &data, &sizes, typed); let s = hk::vanilla_encrypter_state(&e); (o, s) }
                else { let o = dec_chunked(&mut d, &data, &sizes, typed); let s = hk::vanilla_decrypter_state(&d); (o, s) }
            });
            let sz = le16s(&sizes);
            match r {
                Some((o, (i, p))) => ctx.case(op, if op == 1 { if typed { "enc_calls, typed helpers for 4/6-byte calls" } else { "enc_calls" } } else if typed { "dec_calls, typed helpers for 4/6-byte calls" } else { "dec_calls" }, &[&key, &data, &sz], &[&[0], &o, &[i], &[p]]),
                None => {
                    ctx.case(op, "panic", &[&key, &data, &sz], &[&[2]]);
                    ctx.fail("panic", format!("{{\"op\":{},\"key\":\"{}\",\"data\":\"{}\",\"sizes\":{:?}}}", op, hex(&key), hex(&data), sizes));
                }
            }
            if ci == 20 { ctx.sample(format!("op={} key={} len={} chunks={:?}", op, hex(&key), len, sizes)); }
        }
        ctx.count(&format!("len_class:{}", if *len == 0 { "0" } else if *len < 40 { "1..39" } else if *len < 256 { "40..255" } else { ">=256" }));
        ctx.count_n("chunks_total", sizes.len() as u64);
        ctx.count_n("chunks_empty", sizes.iter().filter(|s| **s == 0).count() as u64);
    }

    // ---- implementation-level oracle 1: spec recurrence + round trip with independent chunkings ----
    let mut rng = ctx.rng("oracle");
    let n = if ctx.quick() { 3000 } else { 250000 };
    for k in 0..n {
        let key: [u8; 40] = rng.arr();
        let len = if k % 50 == 7 { rng.range(65_530, 140_000) } else if k % 10 == 0 { rng.range(0, 20000) } else { rng.range(0, 600) } as usize;
        let data = rng.bytes(len);
        let typed = k % 2 == 1;
        // calls longer than 2^16 bytes in one piece (a length held in a u16 would wrap)
        let s1 = if k % 50 == 7 { let cut = rng.range(0, 3) as usize; if cut == 0 { vec![len] } else { vec![cut, len - cut] } } else if k % 4 == 1 { rng.header_partition(len) } else { rng.partition(len) };
        let s2 = if k % 8 == 3 { rng.header_partition(len) } else { rng.partition(len) };
        let use_facade = k % 3 == 0;
        let r = catch(|| {
            if use_facade {
                let mut a = new_crypto(key); let mut b = new_crypto(key);
                let mut ct = data.clone(); let mut pos = 0;
                for s in &s1 { a.encrypt(&mut ct[pos..pos + s]); pos += s; }
                let mut pt = ct.clone(); pos = 0;
                for s in &s2 { b.decrypt(&mut pt[pos..pos + s]); pos += s; }
                let (e, _) = a.split(); let (_, d) = b.split();
                (ct, pt, hk::vanilla_encrypter_state(&e), hk::vanilla_decrypter_state(&d))
            } else {
                let (mut e, _) = halves(key); let (_, mut d) = halves(key);
                let ct = enc_chunked(&mut e, &data, &s1, typed);
                let pt = dec_chunked(&mut d, &ct, &s2, typed);
                (ct, pt, hk::vanilla_encrypter_state(&e), hk::vanilla_decrypter_state(&d))
            }
        });
        ctx.oracle_runs += 1;
        let det = |what: &str| format!("{{\"what\":\"{}\",\"key\":\"{}\",\"data\":\"{}\",\"enc_sizes\":{:?},\"dec_sizes\":{:?},\"facade\":{},\"typed_helpers_for_4_and_6_byte_calls\":{}}}", what, hex(&key), hex(&data), s1, s2, use_facade, typed);
        match r {
            None => ctx.fail("panic", det("panic")),
            Some((ct, pt, se, sd)) => {
                let spec = spec_enc(&key, &data);
                if ct != spec { ctx.fail("recurrence", det("ciphertext differs from c_n = ((x_n ^ key[n%40]) + c_(n-1)) mod 256")); }
                else if pt != data { ctx.fail("roundtrip", det("decrypt(encrypt(x)) != x")); }
                else if se != sd || se != ((len % 40) as u8, *spec.last().unwrap_or(&0)) { ctx.fail("state", det("halves not in step / state not (len mod 40, last ciphertext)")); }
            }
        }
    }

    // ---- oracle 2: exhaustive step table (position 0..39, previous 0..255, input 0..255) ----
    let nkeys = if ctx.quick() { 1 } else { 8 };
    for _ in 0..nkeys {
        let key: [u8; 40] = rng.arr();
        let mut bad = 0u64;
        for idx in 0..40usize {
            for p in 0..=255u8 {
                // drive an encrypter to (idx, p): 40+idx-1 arbitrary bytes then one crafted byte
                let (mut e, mut d) = halves(key);
                let pre = 40 + idx - 1;
                let mut buf = rng.bytes(pre);
                e.encrypt(&mut buf);
                let prev = *buf.last().unwrap();
                let kb = key[(pre) % 40];
                let mut crafted = [(p.wrapping_sub(prev)) ^ kb];
                e.encrypt(&mut crafted);
                let mut buf2 = rng.bytes(pre); buf2.push(p);
                d.decrypt(&mut buf2);
                if hk::vanilla_encrypter_state(&e) != (idx as u8, p) || hk::vanilla_decrypter_state(&d) != (idx as u8, p) {
                    bad += 1;
                    ctx.fail("step_table_setup", format!("{{\"key\":\"{}\",\"idx\":{},\"prev\":{}}}", hex(&key), idx, p));
                    continue;
                }
                for x in 0..=255u8 {
                    let mut e2 = e.clone(); let mut d2 = d.clone();
                    let mut b = [x]; e2.encrypt(&mut b);
                    let want = (x ^ key[idx]).wrapping_add(p);
                    let mut c = [x]; d2.decrypt(&mut c);
                    let wantd = x.wrapping_sub(p) ^ key[idx];
                    let ok = b[0] == want && hk::vanilla_encrypter_state(&e2) == (((idx + 1) % 40) as u8, want)
                        && c[0] == wantd && hk::vanilla_decrypter_state(&d2) == (((idx + 1) % 40) as u8, x);
                    if !ok {
                        bad += 1;
                        ctx.fail("step_table", format!("{{\"key\":\"{}\",\"idx\":{},\"prev\":{},\"x\":{},\"enc_out\":{},\"dec_out\":{}}}", hex(&key), idx, p, x, b[0], c[0]));
                    }
                }
            }
        }
        ctx.oracle_runs += 40 * 256 * 256;
        ctx.count_n("step_table_steps", 40 * 256 * 256 * 2);
        let _ = bad;
    }
    // ---- oracle 3: the receiver recovers the sender's headers whatever way the TRANSPORT hands the bytes over:
    //      a mixed sequence of server / client headers and raw payload, sent through the typed calls (array or
    //      Write-based), received through the Read-based calls from a reader that delivers arbitrary fragments
    //      with interruptions; compared item by item, and with the recurrence over the plaintext wire layout
    {
        use crate::c11::{fragments, ScriptedReader};
        let mut rng = ctx.rng("oracle3");
        let n = if ctx.quick() { 300 } else { 3000 };
        for k in 0..n {
            let key: [u8; 40] = rng.arr();
            let items = 1 + rng.range(0, 10) as usize;
            let mut script: Vec<(u8, u32, u32, Vec<u8>)> = Vec::new();          // kind 0 server header, 1 client header, 2 payload
            let mut plain: Vec<u8> = Vec::new();
            for _ in 0..items {
                match rng.range(0, 3) {
                    0 => { let (s, o) = (crate::c11::edge_size(&mut rng, false), rng.range(0, 0xFFFF) as u32); plain.extend_from_slice(&[(s >> 8) as u8, s as u8, o as u8, (o >> 8) as u8]); script.push((0, s, o, Vec::new())); }
                    1 => { let (s, o) = (crate::c11::edge_size(&mut rng, false), rng.next() as u32); plain.extend_from_slice(&[(s >> 8) as u8, s as u8]); plain.extend_from_slice(&o.to_le_bytes()); script.push((1, s, o, Vec::new())); }
                    _ => { let len = rng.range(0, 50) as usize; let p = rng.bytes(len); plain.extend_from_slice(&p); script.push((2, 0, 0, p)); }
                }
            }
            let style = k as u64 % 4;
            let sc = script.clone();
            let mut frag_rng = Rng::new(ctx.seed, &format!("FRAG/{}", k));
            let r = catch(move || {
                let (mut e, mut d) = halves(key);
                let mut wire: Vec<u8> = Vec::new();
                for (i, (kind, s, o, p)) in sc.iter().enumerate() {
                    match kind {
                        0 => if i % 2 == 0 { wire.extend_from_slice(&e.encrypt_server_header(*s as u16, *o as u16)); } else { e.write_encrypted_server_header(&mut wire, *s as u16, *o as u16).unwrap(); },
                        1 => if i % 2 == 0 { wire.extend_from_slice(&e.encrypt_client_header(*s as u16, *o)); } else { e.write_encrypted_client_header(&mut wire, *s as u16, *o).unwrap(); },
                        _ => { let mut b = p.clone(); e.encrypt(&mut b); wire.extend_from_slice(&b); }
                    }
                }
                let ev = fragments(&mut frag_rng, &wire, style);
                let mut rd = ScriptedReader::new(&ev);
                let mut got: Vec<(u8, u32, u32, Vec<u8>)> = Vec::new();
                for (kind, _, _, p) in sc.iter() {
                    match kind {
                        0 => match d.read_and_decrypt_server_header(&mut rd) { Ok(h) => got.push((0, h.size as u32, h.opcode as u32, Vec::new())), Err(_) => { got.push((0, u32::MAX, u32::MAX, Vec::new())); break; } },
                        1 => match d.read_and_decrypt_client_header(&mut rd) { Ok(h) => got.push((1, h.size as u32, h.opcode, Vec::new())), Err(_) => { got.push((1, u32::MAX, u32::MAX, Vec::new())); break; } },
                        _ => { let mut b = vec![0u8; p.len()]; if std::io::Read::read_exact(&mut rd, &mut b).is_err() { break; } d.decrypt(&mut b); got.push((2, 0, 0, b)); }
                    }
                }
                (wire, got, rd.left())
            });
            ctx.oracle_runs += 1;
            let sj: Vec<String> = script.iter().map(|(kd, s, o, p)| match kd { 0 => format!("{{\"server_header\":[{},{}]}}", s, o), 1 => format!("{{\"client_header\":[{},{}]}}", s, o), _ => format!("{{\"payload\":\"{}\"}}", hex(p)) }).collect();
            let det = |what: &str| format!("{{\"what\":\"{}\",\"key\":\"{}\",\"fragment_style\":{},\"script\":[{}]}}", what, hex(&key), style, sj.join(","));
            match r {
                None => ctx.fail("panic", det("panic in mixed header / payload traffic through the typed calls")),
                Some((wire, got, left)) => {
                    if wire != spec_enc(&(|k: &[u8; 40]| k.to_vec())(&key), &plain) { ctx.fail("typed_wire_bytes", det("wire of the typed calls differs from the recurrence over the headers' wire layout (size big-endian, opcode little-endian)")); }
                    else if got != script {
                        let at = got.iter().zip(script.iter()).position(|(a, b)| a != b).unwrap_or(got.len().min(script.len()));
                        ctx.fail("fragmented_transport", det(&format!("the receiver, reading from a transport that delivers fragments, does not recover item {}", at)));
                    } else if left != 0 { ctx.fail("fragmented_transport_consumed", det(&format!("{} wire bytes were left unread", left))); }
                }
            }
            ctx.count(&format!("oracle3_fragment_style:{}", style));
        }
    }
    // ---- oracle 4: a failed write does not bend the stream.  Headers are sent through the Write-based calls;
    //      now and then the writer refuses (an error at the first byte, nothing reaches the wire).  The bytes the
    //      encrypter hands out before and after such a failure must still be the recurrence over EVERYTHING it was
    //      asked to encrypt, the refused header included (the documented behaviour: the cipher has advanced), and
    //      every failure must be reported
    {
        struct Refuse;
        impl std::io::Write for Refuse {
            fn write(&mut self, _b: &[u8]) -> std::io::Result<usize> { Err(std::io::Error::new(std::io::ErrorKind::BrokenPipe, "refused")) }
            fn flush(&mut self) -> std::io::Result<()> { Ok(()) }
        }
        let mut rng = ctx.rng("oracle4");
        let n = if ctx.quick() { 300 } else { 3000 };
        for k in 0..n {
            let key: [u8; 40] = rng.arr();
            let items = 2 + rng.range(0, 10) as usize;
            let mut script: Vec<(u8, u32, u32, bool)> = Vec::new();          // kind 0 server header / 1 client header, size, opcode, refused?
            let mut plain: Vec<u8> = Vec::new();
            let mut keep: Vec<(usize, usize)> = Vec::new();
            for i in 0..items {
                let refused = i > 0 && rng.chance(1, 4) || (k % 7 == 0 && i == 0);
                let start = plain.len();
                if rng.chance(1, 2) { let (s, o) = (crate::c11::edge_size(&mut rng, false), rng.range(0, 0xFFFF) as u32); plain.extend_from_slice(&[(s >> 8) as u8, s as u8, o as u8, (o >> 8) as u8]); script.push((0, s, o, refused)); }
                else { let (s, o) = (crate::c11::edge_size(&mut rng, false), rng.next() as u32); plain.extend_from_slice(&[(s >> 8) as u8, s as u8]); plain.extend_from_slice(&o.to_le_bytes()); script.push((1, s, o, refused)); }
                if !refused { keep.push((start, plain.len())); }
            }
            let facade = k % 2 == 0;
            let sc = script.clone();
            let r = catch(move || {
                let mut wire: Vec<u8> = Vec::new();
                let mut unreported = 0usize;
                let mut c = new_crypto(key);
                let (mut e, _) = halves(key);
                for (kind, s, o, refused) in sc.iter() {
                    let res = match (kind, refused, facade) {
                        (0, false, false) => e.write_encrypted_server_header(&mut wire, *s as u16, *o as u16),
                        (0, true, false) => e.write_encrypted_server_header(&mut Refuse, *s as u16, *o as u16),
                        (0, false, true) => c.write_encrypted_server_header(&mut wire, *s as u16, *o as u16),
                        (0, true, true) => c.write_encrypted_server_header(&mut Refuse, *s as u16, *o as u16),
                        (_, false, false) => e.write_encrypted_client_header(&mut wire, *s as u16, *o),
                        (_, true, false) => e.write_encrypted_client_header(&mut Refuse, *s as u16, *o),
                        (_, false, true) => c.write_encrypted_client_header(&mut wire, *s as u16, *o),
                        (_, true, true) => c.write_encrypted_client_header(&mut Refuse, *s as u16, *o),
                    };
                    if res.is_ok() == *refused { unreported += 1; }
                }
                (wire, unreported)
            });
            ctx.oracle_runs += 1;
            let sj: Vec<String> = script.iter().map(|(kd, s, o, rf)| format!("{{\"{}\":[{},{}],\"writer_refuses\":{}}}", if *kd == 0 { "server_header" } else { "client_header" }, s, o, rf)).collect();
            let det = |what: &str| format!("{{\"what\":\"{}\",\"key\":\"{}\",\"combined_object\":{},\"script\":[{}]}}", what, hex(&key), facade, sj.join(","));
            match r {
                None => ctx.fail("panic", det("panic while writing headers to a writer that sometimes refuses")),
                Some((wire, unreported)) => {
                    let full = spec_enc(&key.to_vec(), &plain);
                    let want: Vec<u8> = keep.iter().flat_map(|(a, b)| full[*a..*b].to_vec()).collect();
                    if unreported != 0 { ctx.fail("write_error_swallowed", det("a write result does not say whether the writer accepted the header")); }
                    else if wire != want {
                        let at = wire.iter().zip(want.iter()).position(|(a, b)| a != b).unwrap_or(wire.len().min(want.len()));
                        ctx.fail("stream_after_failed_write", det(&format!("after a refused write the bytes handed out are not the recurrence over everything the encrypter was asked to send, first at wire offset {}", at)));
                    }
                }
            }
            ctx.count("oracle4_failed_write_histories");
        }
    }
    // ---- oracle 5: typed traffic through a receive buffer (see c11::typed_traffic)
    { let n = if ctx.quick() { 300 } else { 3000 }; crate::c11::typed_traffic(ctx, 0, n); }
    // ---- oracle 6: what an object does depends on ITS session key only, not on which objects were built or used
    //      before it: a pair for K1 is built and used, then objects for a structurally related K2; K2's stream is
    //      compared with the recurrence under K2's key
    {
        let mut rng = ctx.rng("oracle6");
        let n = if ctx.quick() { 400 } else { 6000 };
        for k in 0..n {
            let k1: [u8; 40] = match k % 5 { 0 => { let mut x = [0u8; 40]; x[rng.below(40) as usize] = 1 << rng.below(8); x } _ => rng.arr() };
            let (k2, rel) = crate::c11::related_key(&mut rng, &k1);
            let used = rng.range(0, 60) as usize;
            let data = rng.bytes(64);
            let d2 = data.clone();
            let r = catch(move || {
                let (mut e1, mut d1) = halves(k1);
                let mut w = vec![0u8; used]; e1.encrypt(&mut w); d1.decrypt(&mut w);
                let (mut e2, mut dd2) = halves(k2);
                let mut c = new_crypto(k2);
                let (mut a, mut b) = (d2.clone(), d2.clone());
                e2.encrypt(&mut a); c.encrypt(&mut b);
                let (mut pa, mut pb) = (a.clone(), a.clone());
                dd2.decrypt(&mut pa); c.decrypt(&mut pb);
                (a, b, pa, pb)
            });
            ctx.oracle_runs += 1;
            let det = |what: &str| format!("{{\"what\":\"{}\",\"first_key\":\"{}\",\"second_key\":\"{}\",\"relation\":\"{}\",\"bytes_through_first_pair\":{},\"data\":\"{}\"}}", what, hex(&k1), hex(&k2), rel, used, hex(&data));
            match r {
                None => ctx.fail("panic", det("panic while building objects for a second key")),
                Some((a, b, pa, pb)) => {
                    let want = spec_enc(&k2.to_vec(), &data);
                    if a != want || b != want { ctx.fail("construction_history", det("the stream of the SECOND key's objects, built after objects for the first key, is not the recurrence under the second key")); }
                    else if pa != data || pb != data { ctx.fail("construction_history", det("the SECOND key's decrypter, built after objects for the first key, does not invert its encrypter")); }
                }
            }
            ctx.count(&format!("oracle6_relation:{}", rel));
        }
    }
    ctx.exhaustive.push(format!("step table: all 40 x 256 x 256 (position, previous, input) combinations, both directions, for {} key(s)", nkeys));
}
