//! C09: Wrath header streams = RC4-drop1024 under HMAC-SHA1(direction constant, session key).
use crate::ctx::*;
use wow_srp::wrath_header::WrathServerAttempt;
use sha1::{Digest, Sha1};
use wow_srp::normalized_string::NormalizedString;
use wow_srp::verif_hooks::internals as hk;
use wow_srp::wrath_header::{
    ClientCrypto, ClientDecrypterHalf, ClientEncrypterHalf, ProofSeed, ServerCrypto, ServerDecrypterHalf,
    ServerEncrypterHalf,
};

// ------------------------------------------------------------------ the real objects

/// ClientCrypto and ServerCrypto for one session key, through the public handshake calls.
pub fn pair(key: [u8; 40]) -> (ClientCrypto, ServerCrypto) {
    let u = NormalizedString::new("A").unwrap();
    let cs = ProofSeed::new();
    let cseed = cs.seed();
    let ss = ProofSeed::new();
    let (proof, client) = cs.into_client_header_crypto(&u, key, ss.seed());
    let server = ss.into_server_header_crypto(&u, key, proof, cseed).expect("server rejected the client's own proof");
    (client, server)
}
pub fn client_crypto(key: [u8; 40]) -> ClientCrypto {
    let u = NormalizedString::new("A").unwrap();
    ProofSeed::new().into_client_header_crypto(&u, key, 0).1
}
pub fn client_halves(key: [u8; 40]) -> (ClientEncrypterHalf, ClientDecrypterHalf) { client_crypto(key).split() }
pub fn server_halves(key: [u8; 40]) -> (ServerEncrypterHalf, ServerDecrypterHalf) { pair(key).1.split() }

// ------------------------------------------------------------------ independent reference

/// The two direction constants, copied from the property's definition (not from the crate).
pub const C2S: [u8; 16] = [0xC2, 0xB3, 0x72, 0x3C, 0xC6, 0xAE, 0xD9, 0xB5, 0x34, 0x3C, 0x53, 0xEE, 0x2F, 0x43, 0x67, 0xCE];
pub const S2C: [u8; 16] = [0xCC, 0x98, 0xAE, 0x04, 0xE8, 0x97, 0xEA, 0xCA, 0x12, 0xDD, 0xC0, 0x93, 0x42, 0x91, 0x53, 0x57];
pub const DROP: usize = 1024;

fn sha1_of(parts: &[&[u8]]) -> [u8; 20] {
    let mut h = Sha1::new();
    for p in parts { h.update(p); }
    let d = h.finalize();
    let mut o = [0u8; 20];
    o.copy_from_slice(&d);
    o
}

/// RFC 2104 HMAC over SHA-1, written out by hand (block size 64).
pub fn hmac_sha1(key: &[u8], msg: &[u8]) -> [u8; 20] {
    let mut k = [0u8; 64];
    if key.len() > 64 { k[..20].copy_from_slice(&sha1_of(&[key])); } else { k[..key.len()].copy_from_slice(key); }
    let mut ipad = [0x36u8; 64];
    let mut opad = [0x5cu8; 64];
    for n in 0..64 { ipad[n] ^= k[n]; opad[n] ^= k[n]; }
    let inner = sha1_of(&[&ipad, msg]);
    sha1_of(&[&opad, &inner])
}

/// Textbook RC4 (KSA + PRGA as in the literature; usize indices, explicit mod 256).
#[derive(Clone)]
pub struct RefRc4 { s: [usize; 256], i: usize, j: usize }
impl RefRc4 {
    pub fn new(key: &[u8]) -> Self {
        assert!(!key.is_empty());
        let mut s = [0usize; 256];
        for n in 0..256 { s[n] = n; }
        let mut j = 0usize;
        for i in 0..256 {
            j = (j + s[i] + key[i % key.len()] as usize) % 256;
            s.swap(i, j);
        }
        RefRc4 { s, i: 0, j: 0 }
    }
    pub fn next(&mut self) -> u8 {
        self.i = (self.i + 1) % 256;
        self.j = (self.j + self.s[self.i]) % 256;
        self.s.swap(self.i, self.j);
        self.s[(self.s[self.i] + self.s[self.j]) % 256] as u8
    }
    pub fn xor(&mut self, data: &[u8]) -> Vec<u8> { data.iter().map(|x| x ^ self.next()).collect() }
    /// the stream cipher of one Wrath direction: keyed by HMAC-SHA1(dir, K), first 1024 bytes discarded
    pub fn wrath(dir: &[u8; 16], session_key: &[u8; 40]) -> Self {
        let mut r = RefRc4::new(&hmac_sha1(dir, session_key));
        for _ in 0..DROP { r.next(); }
        r
    }
}

fn unhex(s: &str) -> Vec<u8> {
    (0..s.len() / 2).map(|i| u8::from_str_radix(&s[2 * i..2 * i + 2], 16).unwrap()).collect()
}

/// Known answers for the reference itself (RFC 6229 offsets 0 and 16, RFC 2202 cases 1 and 2) and
/// for the crate's Rc4 through the hook.
fn known_answers(ctx: &mut Ctx) {
    let rc4_vecs: [(&str, &str); 2] = [
        ("0102030405", "b2396305f03dc027ccc3524a0a1118a86982944f18fc82d589c403a47a0d0919"),
        ("0102030405060708090a0b0c0d0e0f101112131415161718191a1b1c1d1e1f20",
         "eaa6bd25880bf93d3f5d1e4ca2611d91cfa45c9f7e714b54bdfa80027cb14380"),
    ];
    for (k, want) in rc4_vecs {
        let key = unhex(k);
        let want = unhex(want);
        let got = RefRc4::new(&key).xor(&vec![0u8; 32]);
        ctx.oracle_runs += 1;
        if got != want { ctx.fail("oracle_selfcheck", format!("{{\"what\":\"reference RC4 misses RFC 6229\",\"key\":\"{}\",\"got\":\"{}\"}}", k, hex(&got))); }
        let r = catch(|| { let mut c = hk::Rc4::new(&key); let mut d = vec![0u8; 32]; c.apply_keystream(&mut d); d });
        ctx.oracle_runs += 1;
        match r {
            None => ctx.fail("panic", format!("{{\"what\":\"Rc4 on RFC 6229 key\",\"key\":\"{}\"}}", k)),
            Some(d) => if d != want { ctx.fail("rfc6229", format!("{{\"key\":\"{}\",\"data\":\"{}\",\"got\":\"{}\",\"want\":\"{}\"}}", k, hex(&vec![0u8; 32]), hex(&d), hex(&want))); }
        }
    }
    let h1 = hmac_sha1(&[0x0b; 20], b"Hi There");
    let h2 = hmac_sha1(b"Jefe", b"what do ya want for nothing?");
    let h3 = hmac_sha1(&[0xaa; 80], b"Test Using Larger Than Block-Size Key - Hash Key First");
    ctx.oracle_runs += 3;
    if hex(&h1) != "b617318655057264e28bc0b6fb378c8ef146be00" || hex(&h2) != "effcdf6ae5eb2fa2d27416d5f184df9c259a7c79"
        || hex(&h3) != "aa4ae5e15272d00e95705637ce8a3b55ed402112" {
        ctx.fail("oracle_selfcheck", format!("{{\"what\":\"reference HMAC-SHA1 misses RFC 2202\",\"got\":[\"{}\",\"{}\",\"{}\"]}}", hex(&h1), hex(&h2), hex(&h3)));
    }
}

// ------------------------------------------------------------------ chunked drivers

pub fn chunked(data: &[u8], sizes: &[usize], mut f: impl FnMut(&mut [u8])) -> Vec<u8> {
    let mut out = data.to_vec();
    let mut pos = 0;
    for s in sizes { f(&mut out[pos..pos + s]); pos += s; }
    out
}

/// chunk sizes are shipped as 16-bit numbers: cut larger chunks
fn cap_sizes(sizes: Vec<usize>) -> Vec<usize> {
    let mut o = Vec::new();
    for mut s in sizes {
        while s > 60000 { o.push(60000); s -= 60000; }
        o.push(s);
    }
    o
}

/// coqc overflows its C stack on string literals beyond ~12,000 bytes under the usual 8 MB limit
/// (about 600 bytes of stack per literal byte).  The shards are evaluated by coqc processes started by
/// the same driver that started this process, so they inherit this process's limit: the soft limit
/// in bytes, None = unlimited.
fn stack_limit() -> Option<u64> {
    let txt = std::fs::read_to_string("/proc/self/limits").unwrap_or_default();
    for l in txt.lines() {
        if l.starts_with("Max stack size") {
            let soft = l["Max stack size".len()..].split_whitespace().next().unwrap_or("0");
            return if soft == "unlimited" { None } else { Some(soft.parse().unwrap_or(8 << 20)) };
        }
    }
    Some(8 << 20)
}
/// the longest stream that can be shipped to Coq as one literal
fn max_literal() -> usize {
    match stack_limit() { None => usize::MAX, Some(b) => ((b / 700) as usize).max(1000) }
}

fn sizes_json(s: &[usize]) -> String { format!("{:?}", s) }
fn data_json(d: &[u8]) -> String { format!("\"{}\"", hex(d)) }

fn gen_key(rng: &mut Rng, n: usize) -> [u8; 40] {
    match n % 9 { 0 => [0u8; 40], 1 => [0xff; 40], 2 => { let mut k = [0u8; 40]; k[rng.below(40) as usize] = 1; k } _ => rng.arr() }
}
fn gen_data(rng: &mut Rng, n: usize, len: usize) -> Vec<u8> {
    match n % 7 { 0 => vec![0u8; len], 1 => vec![0xff; len], _ => rng.bytes(len) }
}
fn len_class(len: usize) -> &'static str {
    if len == 0 { "0" } else if len < 256 { "1..255" } else if len < 1024 { "256..1023" } else if len < 65536 { "1024..65535" } else { ">=65536" }
}

/// one half of the four, by op number of corr/C09.v
fn run_half(op: u32, key: [u8; 40], data: &[u8], sizes: &[usize]) -> Option<Vec<u8>> {
    catch(|| match op {
        2 => { let (mut e, _) = client_halves(key); chunked(data, sizes, |b| e.encrypt(b)) }
        3 => { let (_, mut d) = server_halves(key); chunked(data, sizes, |b| d.decrypt(b)) }
        4 => { let (mut e, _) = server_halves(key); chunked(data, sizes, |b| e.encrypt(b)) }
        _ => { let (_, mut d) = client_halves(key); chunked(data, sizes, |b| d.decrypt(b)) }
    })
}
const HALF_NAME: [&str; 6] = ["", "rc4", "client_enc", "server_dec", "server_enc", "client_dec"];

pub fn run(ctx: &mut Ctx) {
    known_answers(ctx);
    let quick = ctx.quick();

    // =================================================== correspondence cases (through the Coq model)
    let mut rng = ctx.rng("corr");
    let maxlit = max_literal();
    let long_len = |want: usize| want.min(maxlit);

    // ---- op 1: raw Rc4 through the hook
    let mut rc4_cases: Vec<(Vec<u8>, usize, &str)> = Vec::new();
    for n in [5usize, 7, 8, 10, 16, 24, 32] {
        let key: Vec<u8> = (1..=n as u8).collect();
        rc4_cases.push((key, if quick { 272 } else { 1040 }, "rc4_rfc6229_key"));
    }
    rc4_cases.push((Vec::new(), 40, "outside-domain:rc4_empty_key"));
    for n in 1..=64usize { rc4_cases.push((rng.bytes(n), rng.range(0, 80) as usize, "rc4_keylen_1_64")); }
    for len in [0usize, 1, 255, 256, 257, 1023, 1024, 1025] { let n = rng.range(1, 64) as usize; rc4_cases.push((rng.bytes(n), len, "rc4_random")); }
    rc4_cases.push((rng.bytes(20), long_len(if quick { 3000 } else { 70000 }), "rc4_long"));
    for _ in 0..(if quick { 10 } else { 150 }) {
        let n = match rng.below(4) { 0 => 20, 1 => 16, _ => rng.range(1, 64) as usize };
        let key = match rng.below(6) { 0 => vec![0u8; n], 1 => vec![0xff; n], _ => rng.bytes(n) };
        rc4_cases.push((key, rng.range(0, if quick { 700 } else { 3000 }) as usize, "rc4_random"));
    }
    for (ci, (key, len, label)) in rc4_cases.iter().enumerate() {
        let data = if label.starts_with("rc4_rfc") { vec![0u8; *len] } else { gen_data(&mut rng, ci, *len) };
        let sizes = cap_sizes(rng.partition(*len));
        let r = catch(|| { let mut c = hk::Rc4::new(key); chunked(&data, &sizes, |b| c.apply_keystream(b)) });
        let sz = le16s(&sizes);
        match r {
            Some(o) => ctx.case(1, label, &[key, &data, &sz], &[&[0], &o]),
            None => {
                ctx.case(1, "panic", &[key, &data, &sz], &[&[2]]);
                ctx.fail("panic", format!("{{\"op\":1,\"what\":\"Rc4::new / apply_keystream\",\"key\":\"{}\",\"data\":{},\"sizes\":{}}}", hex(key), data_json(&data), sizes_json(&sizes)));
            }
        }
        ctx.count(&format!("rc4_keylen:{}", match key.len() { 0 => "0", 1..=15 => "1..15", 16..=20 => "16..20", 21..=40 => "21..40", _ => "41..64" }));
        ctx.count(&format!("len_class:{}", len_class(*len)));
    }

    // ---- ops 2..5: the four halves
    let fixed = [0usize, 1, 255, 256, 257, 1023, 1024, 1025];
    let n_random = if quick { 28 } else { 150 };
    let maxlen = if quick { 900 } else { 4000 };
    for op in 2u32..=5 {
        let mut lens: Vec<usize> = fixed.to_vec();
        lens.push(long_len(if quick { 3000 + op as usize } else { 9000 + op as usize }));
        if !quick && (op == 2 || op == 4 || op == 5) { lens.push(long_len(65536 + 256 + 17 * op as usize)); }
        for _ in 0..n_random { lens.push(rng.range(0, maxlen) as usize); }
        for (ci, len) in lens.iter().enumerate() {
            let key = gen_key(&mut rng, ci + op as usize);
            let data = gen_data(&mut rng, ci + 2 * op as usize, *len);
            let sizes = cap_sizes(rng.partition(*len));
            let sz = le16s(&sizes);
            let label = if *len == 0 { "trivial_empty_stream".to_string() } else { format!("{}_calls", HALF_NAME[op as usize]) };
            match run_half(op, key, &data, &sizes) {
                Some(o) => ctx.case(op, &label, &[&key, &data, &sz], &[&[0], &o]),
                None => {
                    ctx.case(op, "panic", &[&key, &data, &sz], &[&[2]]);
                    ctx.fail("panic", format!("{{\"op\":{},\"half\":\"{}\",\"key\":\"{}\",\"data\":{},\"sizes\":{}}}", op, HALF_NAME[op as usize], hex(&key), data_json(&data), sizes_json(&sizes)));
                }
            }
            if ci == 9 { ctx.sample(format!("op={} ({}) key={} len={} chunks={}", op, HALF_NAME[op as usize], hex(&key), len, sizes.len())); }
            ctx.count(&format!("len_class:{}", len_class(*len)));
            ctx.count_n("chunks_total", sizes.len() as u64);
            ctx.count_n("chunks_empty", sizes.iter().filter(|s| **s == 0).count() as u64);
        }
    }
    if !quick && maxlit < 66000 {
        ctx.notes.push(format!("correspondence streams are capped at {} bytes in this run: the stack limit inherited by the coqc processes ({:?} bytes) does not allow longer literals; streams beyond 65,536 bytes are then exercised only by the implementation-level oracle (run the driver under `ulimit -s unlimited` to ship them through the model as well)", maxlit, stack_limit()));
    }
    let shipped: usize = ctx.cases.iter().map(|c| c.ins.iter().chain(c.outs.iter()).map(|x| x.len()).sum::<usize>()).sum();
    ctx.count_n("shipped_bytes", shipped as u64);

    // =================================================== implementation-only oracles
    let mut rng = ctx.rng("oracle");

    // ---- oracle 1: both directions against the independent RC4/HMAC, round trip with independent
    //      chunkings, halves vs facades, distinct keystreams
    let n = if quick { 3000 } else { 30000 };
    for k in 0..n {
        let key = gen_key(&mut rng, k);
        let len = match k % 50 {
            0 => if quick { rng.range(65000, 70000) } else { rng.range(60000, 200000) },
            1 | 2 => rng.range(0, 20000),
            3 => *rng.pick(&[0u64, 1, 255, 256, 257, 1023, 1024, 1025, 65535, 65536, 65537]),
            _ => rng.range(0, 700),
        } as usize;
        let data = gen_data(&mut rng, k / 3, len);
        let (s1, s2) = (rng.partition(len), rng.partition(len));
        let facade = k % 3 == 0;
        for dir in 0..2 {
            // dir 0: client -> server, dir 1: server -> client
            let r = catch(|| {
                let (mut c, mut s) = pair(key);
                if facade {
                    if dir == 0 {
                        let ct = chunked(&data, &s1, |b| c.encrypt(b));
                        let pt = chunked(&ct, &s2, |b| s.decrypt(b));
                        (ct, pt)
                    } else {
                        let ct = chunked(&data, &s1, |b| s.encrypt(b));
                        let pt = chunked(&ct, &s2, |b| c.decrypt(b));
                        (ct, pt)
                    }
                } else {
                    let (mut ce, mut cd) = c.split();
                    let (mut se, mut sd) = s.split();
                    if dir == 0 {
                        let ct = chunked(&data, &s1, |b| ce.encrypt(b));
                        let pt = chunked(&ct, &s2, |b| sd.decrypt(b));
                        (ct, pt)
                    } else {
                        let ct = chunked(&data, &s1, |b| se.encrypt(b));
                        let pt = chunked(&ct, &s2, |b| cd.decrypt(b));
                        (ct, pt)
                    }
                }
            });
            ctx.oracle_runs += 1;
            let dname = if dir == 0 { "client_to_server" } else { "server_to_client" };
            let det = |what: &str| format!("{{\"what\":\"{}\",\"direction\":\"{}\",\"key\":\"{}\",\"data\":{},\"enc_sizes\":{},\"dec_sizes\":{},\"facade\":{}}}",
                                           what, dname, hex(&key), data_json(&data), sizes_json(&s1), sizes_json(&s2), facade);
            match r {
                None => ctx.fail("panic", det("panic")),
                Some((ct, pt)) => {
                    let want = RefRc4::wrath(if dir == 0 { &C2S } else { &S2C }, &key).xor(&data);
                    if ct != want {
                        let at = ct.iter().zip(want.iter()).position(|(a, b)| a != b).unwrap_or(0);
                        ctx.fail("wire_bytes", det(&format!("wire differs from data xor RC4-drop1024(HMAC-SHA1(direction constant, K)) first at offset {}", at)));
                    } else if pt != data {
                        let at = pt.iter().zip(data.iter()).position(|(a, b)| a != b).unwrap_or(0);
                        ctx.fail("roundtrip", det(&format!("peer decrypter does not return the plaintext, first at offset {}", at)));
                    }
                }
            }
        }
        ctx.count(&format!("oracle_len_class:{}", len_class(len)));

        // keystreams of the two directions (the ciphertext of zeros), from fresh halves
        let r = catch(|| {
            let (c, s) = pair(key);
            let (mut ce, mut cd) = c.split();
            let (mut se, mut sd) = s.split();
            let mut z = [[0u8; 64]; 4];
            ce.encrypt(&mut z[0]); sd.decrypt(&mut z[1]); se.encrypt(&mut z[2]); cd.decrypt(&mut z[3]);
            z
        });
        ctx.oracle_runs += 1;
        match r {
            None => ctx.fail("panic", format!("{{\"what\":\"keystream of fresh halves\",\"key\":\"{}\"}}", hex(&key))),
            Some(z) => {
                if z[0] == z[2] { ctx.fail("shared_keystream", format!("{{\"what\":\"client encrypter and server encrypter produce the same first 64 keystream bytes\",\"key\":\"{}\",\"keystream\":\"{}\"}}", hex(&key), hex(&z[0]))); }
                if z[0] != z[1] || z[2] != z[3] { ctx.fail("pairing", format!("{{\"what\":\"an encrypter and its peer decrypter start with different keystreams\",\"key\":\"{}\",\"client_enc\":\"{}\",\"server_dec\":\"{}\",\"server_enc\":\"{}\",\"client_dec\":\"{}\"}}", hex(&key), hex(&z[0]), hex(&z[1]), hex(&z[2]), hex(&z[3]))); }
            }
        }
    }

    // ---- oracle 2: facade objects equal their halves call by call (both objects driven with the same chunking)
    let n = if quick { 600 } else { 6000 };
    for k in 0..n {
        let key = gen_key(&mut rng, k + 4);
        let len = if k % 20 == 0 { rng.range(0, 70000) } else { rng.range(0, 600) } as usize;
        let d1 = rng.bytes(len);
        let d2 = rng.bytes(len);
        let (s1, s2) = (rng.partition(len), rng.partition(len));
        let r = catch(|| {
            let (mut c, mut s) = pair(key);
            let (c2, s2c) = pair(key);
            let (mut ce, mut cd) = c2.split();
            let (mut se, mut sd) = s2c.split();
            let a = [chunked(&d1, &s1, |b| c.encrypt(b)), chunked(&d2, &s2, |b| c.decrypt(b)),
                     chunked(&d1, &s2, |b| s.encrypt(b)), chunked(&d2, &s1, |b| s.decrypt(b))];
            let b = [chunked(&d1, &s1, |b| ce.encrypt(b)), chunked(&d2, &s2, |b| cd.decrypt(b)),
                     chunked(&d1, &s2, |b| se.encrypt(b)), chunked(&d2, &s1, |b| sd.decrypt(b))];
            // direct access to the inner halves of a third pair
            let (mut c3, mut s3) = pair(key);
            let e = [chunked(&d1, &s1, |b| c3.encrypter().encrypt(b)), chunked(&d2, &s2, |b| c3.decrypter().decrypt(b)),
                     chunked(&d1, &s2, |b| s3.encrypter().encrypt(b)), chunked(&d2, &s1, |b| s3.decrypter().decrypt(b))];
            (a, b, e)
        });
        ctx.oracle_runs += 1;
        let det = |what: &str| format!("{{\"what\":\"{}\",\"key\":\"{}\",\"data_enc\":{},\"data_dec\":{},\"sizes_a\":{},\"sizes_b\":{}}}",
                                       what, hex(&key), data_json(&d1), data_json(&d2), sizes_json(&s1), sizes_json(&s2));
        match r {
            None => ctx.fail("panic", det("panic in facade/halves comparison")),
            Some((a, b, e)) => {
                let names = ["ClientCrypto::encrypt", "ClientCrypto::decrypt", "ServerCrypto::encrypt", "ServerCrypto::decrypt"];
                for i in 0..4 {
                    if a[i] != b[i] { ctx.fail("facade", det(&format!("{} differs from its half after split", names[i]))); }
                    if e[i] != b[i] { ctx.fail("facade", det(&format!("{} through encrypter()/decrypter() differs from the split half", names[i]))); }
                }
            }
        }
    }
    // ---- oracle 3: traffic that goes through the typed header entry points is traffic too.  Per direction a
    //      mixed sequence of headers and raw payload chunks; the wire must be plaintext xor the independent
    //      RC4-drop1024 stream, and the peer - decoding headers through the Read-based call, the array call or
    //      (server -> client) the two-step calls, payload through raw decrypt - must recover everything and
    //      stay in step to the end.
    let n = if quick { 400 } else { 4000 };
    for k in 0..n {
        let key = gen_key(&mut rng, k + 9);
        let items = 1 + rng.range(0, 12) as usize;
        let mode = k % 3;                 // how the receiver decodes headers: 0 Read-based, 1 array / two-step, 2 alternate
        for dir in 0..2 {
            // the script: (is_header, size, opcode, payload)
            let mut script: Vec<(bool, u32, u32, Vec<u8>)> = Vec::new();
            for i in 0..items {
                if rng.range(0, 3) != 0 {
                    let size = if dir == 1 { match rng.range(0, 6) { 0 => 0x7FFF, 1 => 0x8000, 2 => rng.range(0x8000, 0x7FFFFF) as u32, 3 => 0x7FFFFF, _ => crate::c11::edge_size(&mut rng, true) } }
                               else { crate::c11::edge_size(&mut rng, false) };
                    let opcode = if dir == 1 { rng.range(0, 0xFFFF) as u32 } else { rng.next() as u32 };
                    script.push((true, size, opcode, Vec::new()));
                } else {
                    let len = if i % 5 == 0 { rng.range(0, 600) } else { rng.range(0, 40) } as usize;
                    script.push((false, 0, 0, rng.bytes(len)));
                }
            }
            // plaintext of the whole direction, as the property describes the headers
            let mut plain: Vec<u8> = Vec::new();
            for (is_h, size, opcode, payload) in &script {
                if *is_h {
                    if dir == 1 {
                        if *size <= 0x7FFF { plain.extend_from_slice(&[(*size >> 8) as u8, *size as u8, *opcode as u8, (*opcode >> 8) as u8]); }
                        else { plain.extend_from_slice(&[0x80 | (*size >> 16) as u8, (*size >> 8) as u8, *size as u8, *opcode as u8, (*opcode >> 8) as u8]); }
                    } else {
                        plain.extend_from_slice(&[(*size >> 8) as u8, *size as u8]); plain.extend_from_slice(&opcode.to_le_bytes());
                    }
                } else { plain.extend_from_slice(payload); }
            }
            let sc = script.clone();
            let r = catch(move || {
                let (c, s) = pair(key);
                let (mut ce, mut cd) = c.split();
                let (mut se, mut sd) = s.split();
                // sender
                let mut wire: Vec<u8> = Vec::new();
                for (is_h, size, opcode, payload) in &sc {
                    if *is_h {
                        if dir == 1 { wire.extend_from_slice(se.encrypt_server_header(*size, *opcode as u16)); }
                        else { wire.extend_from_slice(&ce.encrypt_client_header(*size as u16, *opcode)); }
                    } else {
                        let mut b = payload.clone();
                        if dir == 1 { se.encrypt(&mut b); } else { ce.encrypt(&mut b); }
                        wire.extend_from_slice(&b);
                    }
                }
                // receiver
                let mut pos = 0usize;
                let mut got: Vec<(bool, u32, u32, Vec<u8>)> = Vec::new();
                let mut hcount = 0usize;
                for (is_h, _, _, payload) in &sc {
                    if *is_h {
                        let read_based = mode == 0 || (mode == 2 && hcount % 2 == 0);
                        hcount += 1;
                        if dir == 1 {
                            if read_based {
                                let mut rd = std::io::Cursor::new(&wire[pos..]);
                                match cd.read_and_decrypt_server_header(&mut rd) {
                                    Ok(h) => { pos += rd.position() as usize; got.push((true, h.size, h.opcode as u32, Vec::new())); }
                                    Err(_) => { got.push((true, u32::MAX, u32::MAX, Vec::new())); break; }
                                }
                            } else {
                                if pos + 4 > wire.len() { break; }
                                let buf = [wire[pos], wire[pos + 1], wire[pos + 2], wire[pos + 3]];
                                match cd.attempt_decrypt_server_header(buf) {
                                    WrathServerAttempt::Header(h) => { pos += 4; got.push((true, h.size, h.opcode as u32, Vec::new())); }
                                    WrathServerAttempt::AdditionalByteRequired => {
                                        if pos + 5 > wire.len() { break; }
                                        let h = cd.decrypt_large_server_header(wire[pos + 4]); pos += 5;
                                        got.push((true, h.size, h.opcode as u32, Vec::new()));
                                    }
                                }
                            }
                        } else if read_based {
                            let mut rd = std::io::Cursor::new(&wire[pos..]);
                            match sd.read_and_decrypt_client_header(&mut rd) {
                                Ok(h) => { pos += rd.position() as usize; got.push((true, h.size as u32, h.opcode, Vec::new())); }
                                Err(_) => { got.push((true, u32::MAX, u32::MAX, Vec::new())); break; }
                            }
                        } else {
                            if pos + 6 > wire.len() { break; }
                            let mut buf = [0u8; 6]; buf.copy_from_slice(&wire[pos..pos + 6]);
                            let h = sd.decrypt_client_header(buf); pos += 6;
                            got.push((true, h.size as u32, h.opcode, Vec::new()));
                        }
                    } else {
                        if pos + payload.len() > wire.len() { break; }
                        let mut b = wire[pos..pos + payload.len()].to_vec();
                        if dir == 1 { cd.decrypt(&mut b); } else { sd.decrypt(&mut b); }
                        pos += payload.len();
                        got.push((false, 0, 0, b));
                    }
                }
                (wire, got, pos)
            });
            ctx.oracle_runs += 1;
            let dname = if dir == 0 { "client_to_server" } else { "server_to_client" };
            let sj: Vec<String> = script.iter().map(|(h, s, o, p)| if *h { format!("{{\"header\":[{},{}]}}", s, o) } else { format!("{{\"payload\":\"{}\"}}", hex(p)) }).collect();
            let det = |what: &str| format!("{{\"what\":\"{}\",\"direction\":\"{}\",\"key\":\"{}\",\"receiver_mode\":{},\"script\":[{}]}}", what, dname, hex(&key), mode, sj.join(","));
            match r {
                None => ctx.fail("panic", det("panic in mixed header / payload traffic")),
                Some((wire, got, pos)) => {
                    let want = RefRc4::wrath(if dir == 0 { &C2S } else { &S2C }, &key).xor(&plain);
                    if wire != want {
                        let at = wire.iter().zip(want.iter()).position(|(a, b)| a != b).unwrap_or(wire.len().min(want.len()));
                        ctx.fail("mixed_wire_bytes", det(&format!("wire of mixed header/payload traffic differs from plaintext xor the independent RC4-drop1024 stream, first at offset {}", at)));
                    } else if got != script {
                        let at = got.iter().zip(script.iter()).position(|(a, b)| a != b).unwrap_or(got.len().min(script.len()));
                        ctx.fail("mixed_roundtrip", det(&format!("the peer does not recover item {} of the mixed traffic (headers through the typed calls, payload through raw decrypt)", at)));
                    } else if pos != wire.len() {
                        ctx.fail("mixed_consumed", det(&format!("the peer consumed {} of {} wire bytes", pos, wire.len())));
                    }
                }
            }
        }
        ctx.count("oracle_mixed_traffic");
    }
    // ---- oracle 4: a failed write does not bend the stream (Write-based header calls, a writer that now and then
    //      refuses at the first byte): what reaches the wire before and after a refusal is the independent
    //      RC4-drop1024 stream over EVERYTHING the encrypter was asked to send, the refused header included
    {
        struct Refuse;
        impl std::io::Write for Refuse {
            fn write(&mut self, _b: &[u8]) -> std::io::Result<usize> { Err(std::io::Error::new(std::io::ErrorKind::BrokenPipe, "refused")) }
            fn flush(&mut self) -> std::io::Result<()> { Ok(()) }
        }
        let n = if quick { 300 } else { 3000 };
        for k in 0..n {
            let key = gen_key(&mut rng, k + 21);
            let dir = k % 2;                                   // 0 client -> server, 1 server -> client
            let facade = (k / 2) % 2 == 0;
            let items = 2 + rng.range(0, 10) as usize;
            let mut script: Vec<(u32, u32, bool)> = Vec::new();
            let mut plain: Vec<u8> = Vec::new();
            let mut keep: Vec<(usize, usize)> = Vec::new();
            for i in 0..items {
                let refused = (i > 0 && rng.chance(1, 4)) || (k % 7 == 0 && i == 0);
                let start = plain.len();
                if dir == 1 {
                    let size = match rng.range(0, 4) { 0 => 0x7FFF, 1 => 0x8000, 2 => rng.range(0x8000, 0x7FFFFF) as u32, _ => rng.range(0, 0x7FFF) as u32 };
                    let opcode = rng.range(0, 0xFFFF) as u32;
                    if size <= 0x7FFF { plain.extend_from_slice(&[(size >> 8) as u8, size as u8, opcode as u8, (opcode >> 8) as u8]); }
                    else { plain.extend_from_slice(&[0x80 | (size >> 16) as u8, (size >> 8) as u8, size as u8, opcode as u8, (opcode >> 8) as u8]); }
                    script.push((size, opcode, refused));
                } else {
                    let (size, opcode) = (crate::c11::edge_size(&mut rng, false), rng.next() as u32);
                    plain.extend_from_slice(&[(size >> 8) as u8, size as u8]); plain.extend_from_slice(&opcode.to_le_bytes());
                    script.push((size, opcode, refused));
                }
                if !refused { keep.push((start, plain.len())); }
            }
            let sc = script.clone();
            let r = catch(move || {
                let (mut c, mut s) = pair(key);
                let (c2, s2) = pair(key);
                let (mut ce, _) = c2.split();
                let (mut se, _) = s2.split();
                let mut wire: Vec<u8> = Vec::new();
                let mut unreported = 0usize;
                for (size, opcode, refused) in sc.iter() {
                    let res = match (dir, refused, facade) {
                        (1, false, false) => se.write_encrypted_server_header(&mut wire, *size, *opcode as u16),
                        (1, true, false) => se.write_encrypted_server_header(&mut Refuse, *size, *opcode as u16),
                        (1, false, true) => s.write_encrypted_server_header(&mut wire, *size, *opcode as u16),
                        (1, true, true) => s.write_encrypted_server_header(&mut Refuse, *size, *opcode as u16),
                        (_, false, false) => ce.write_encrypted_client_header(&mut wire, *size as u16, *opcode),
                        (_, true, false) => ce.write_encrypted_client_header(&mut Refuse, *size as u16, *opcode),
                        (_, false, true) => c.write_encrypted_client_header(&mut wire, *size as u16, *opcode),
                        (_, true, true) => c.write_encrypted_client_header(&mut Refuse, *size as u16, *opcode),
                    };
                    if res.is_ok() == *refused { unreported += 1; }
                }
                (wire, unreported)
            });
            ctx.oracle_runs += 1;
            let dname = if dir == 0 { "client_to_server" } else { "server_to_client" };
            let sj: Vec<String> = script.iter().map(|(s, o, rf)| format!("{{\"header\":[{},{}],\"writer_refuses\":{}}}", s, o, rf)).collect();
            let det = |what: &str| format!("{{\"what\":\"{}\",\"direction\":\"{}\",\"key\":\"{}\",\"combined_object\":{},\"script\":[{}]}}", what, dname, hex(&key), facade, sj.join(","));
            match r {
                None => ctx.fail("panic", det("panic while writing headers to a writer that sometimes refuses")),
                Some((wire, unreported)) => {
                    let full = RefRc4::wrath(if dir == 0 { &C2S } else { &S2C }, &key).xor(&plain);
                    let want: Vec<u8> = keep.iter().flat_map(|(a, b)| full[*a..*b].to_vec()).collect();
                    if unreported != 0 { ctx.fail("write_error_swallowed", det("a write result does not say whether the writer accepted the header")); }
                    else if wire != want {
                        let at = wire.iter().zip(want.iter()).position(|(a, b)| a != b).unwrap_or(wire.len().min(want.len()));
                        ctx.fail("stream_after_failed_write", det(&format!("after a refused write the bytes on the wire are not the independent stream over everything the encrypter was asked to send, first at wire offset {}", at)));
                    }
                }
            }
            ctx.count("oracle_failed_write_histories");
        }
    }
    // ---- oracle 5: typed traffic through a receive buffer (see c11::typed_traffic)
    { let n = if ctx.quick() { 300 } else { 3000 }; crate::c11::typed_traffic(ctx, 2, n); }
    // ---- oracle 6: what an object does depends on ITS session key only, not on which objects were built or used
    //      before it (in this thread or process).  A first pair is built for K1 and used; then a pair for a key K2
    //      that is related to K1 in a structured way; K2's two directions are compared with the independent stream
    {
        let mut rng = ctx.rng("oracle6");
        let n = if ctx.quick() { 400 } else { 6000 };
        for k in 0..n {
            let k1: [u8; 40] = match k % 5 { 0 => { let mut x = [0u8; 40]; x[rng.below(40) as usize] = 1 << rng.below(8); x } _ => rng.arr() };
            let (k2, rel) = if k % 5 == 0 && k % 2 == 0 { let mut x = [0u8; 40]; x[rng.below(40) as usize] = 1 << rng.below(8); (x, "another one-hot key") } else { crate::c11::related_key(&mut rng, &k1) };
            let used = rng.range(0, 40) as usize;
            let r = catch(|| {
                let (mut c1, mut s1) = pair(k1);
                let mut w = vec![0u8; used]; c1.encrypt(&mut w); s1.decrypt(&mut w); s1.encrypt(&mut w); c1.decrypt(&mut w);
                let (mut c2, mut s2) = pair(k2);
                let mut z = [[0u8; 48]; 4];
                c2.encrypt(&mut z[0]); s2.decrypt(&mut z[1]); s2.encrypt(&mut z[2]); c2.decrypt(&mut z[3]);
                z
            });
            ctx.oracle_runs += 1;
            let det = |what: &str| format!("{{\"what\":\"{}\",\"first_key\":\"{}\",\"second_key\":\"{}\",\"relation\":\"{}\",\"bytes_through_first_pair\":{}}}", what, hex(&k1), hex(&k2), rel, used);
            match r {
                None => ctx.fail("panic", det("panic while building a second pair of objects")),
                Some(z) => {
                    let c2s = RefRc4::wrath(&C2S, &k2).xor(&[0u8; 48]);
                    let s2c = RefRc4::wrath(&S2C, &k2).xor(&[0u8; 48]);
                    if z[0].to_vec() != c2s || z[1].to_vec() != c2s { ctx.fail("construction_history", det("client-to-server stream of the SECOND key's objects, built after objects for the first key, is not RC4-drop1024(HMAC-SHA1(constant, second key))")); }
                    else if z[2].to_vec() != s2c || z[3].to_vec() != s2c { ctx.fail("construction_history", det("server-to-client stream of the SECOND key's objects, built after objects for the first key, is not RC4-drop1024(HMAC-SHA1(constant, second key))")); }
                }
            }
            ctx.count(&format!("oracle6_relation:{}", rel));
        }
    }
    ctx.notes.push("independent oracle: textbook RC4 + hand-written HMAC over the sha-1 crate, direction constants copied from the property text; validated on RFC 6229 (2 keys, 32 bytes) and RFC 2202 (cases 1, 2, 6) at the start of every run".to_string());
}
