//! C05: reconnect proofs verify only against the current, single-use challenge.
use crate::ctx::*;
use crate::srp::*;
use wow_srp::verif_hooks::rand as vr;

struct Hist { verdicts: Vec<u8>, chals: Vec<u8>, attempts: Vec<u8>, tape: Vec<u8>, kinds: Vec<&'static str> }

/// drive a random history of attempts against a logged-in server; server challenges are injected
fn history(rng: &mut Rng, l: &mut Login, n: usize, fails: &mut Vec<String>, inject: bool) -> Hist { history_plan(rng, l, n, fails, inject, None) }
/// `plan`: per attempt, whether it is a correct one (true) or one of the wrong kinds (false); None = random mix
fn history_plan(rng: &mut Rng, l: &mut Login, n: usize, fails: &mut Vec<String>, inject: bool, plan: Option<&[bool]>) -> Hist {
    let un = ns(&l.u);
    let ub = un.as_ref().as_bytes().to_vec();
    let mut h = Hist { verdicts: vec![], chals: vec![], attempts: vec![], tape: vec![], kinds: vec![] };
    let mut past: Vec<([u8; 16], [u8; 20], bool)> = Vec::new();
    let mut stale: Vec<[u8; 16]> = Vec::new();
    for step_ in 0..n {
        let cur = *l.server.reconnect_challenge_data();
        let kind = match plan { Some(p) => if p[step_] { 0 } else { 3 + rng.below(5) }, None => rng.below(9) };
        // the client's own challenge: usually fresh, but the property does not ask for that - a client (or a peer
        // speaking the protocol without this library) may present the same client data again, directly after an
        // attempt that carried it or later, and a correct proof over it for the challenge now on offer is still correct
        let reuse = !past.is_empty() && rng.chance(1, 4);
        let cc: [u8; 16] = if reuse { if rng.chance(2, 3) { past[past.len() - 1].0 } else { rng.pick(&past).0 } } else { rng.arr() };
        vr::install_tape(&cc);
        let honest = l.client.calculate_reconnect_values(cur);
        vr::remove_tape(); vr::take_log();
        if honest.challenge_data != cc || honest.proof != sha(&[&ub, &cc, &cur, &l.ks]) {
            fails.push(format!("{{\"what\":\"client reconnect values are not (drawn challenge, H(U|cd|sd|K))\",\"user\":{},\"K\":\"{}\",\"server_challenge\":\"{}\"}}", jstr(&l.u), hex(&l.ks), hex(&cur)));
        }
        let (cd, pf, label): ([u8; 16], [u8; 20], &'static str) = match kind {
            0 | 1 | 2 => (honest.challenge_data, honest.proof, if reuse { "correct, client data repeated from an earlier attempt" } else { "correct" }),
            3 if !past.is_empty() => { let p = *rng.pick(&past); (p.0, p.1, "replay of an earlier pair") }
            4 if !stale.is_empty() => { let s = *rng.pick(&stale); (cc, sha(&[&ub, &cc, &s, &l.ks]), "proof for a stale challenge") }
            5 => { let mut k2 = l.ks; k2[rng.below(40) as usize] ^= 1; (cc, sha(&[&ub, &cc, &cur, &k2]), "wrong session key") }
            6 => { let mut u2 = ub.clone(); u2[0] ^= 1; (cc, sha(&[&u2, &cc, &cur, &l.ks]), "wrong username") }
            8 => { if rng.chance(1, 2) { (cur, sha(&[&ub, &cur, &cur, &l.ks]), "client data mirrors the challenge on offer, proof correct for it") }
                   else { (cur, [0u8; 20], "client data mirrors the challenge on offer, zero proof") } }
            _ => { if rng.chance(1, 3) { let nm = near_misses(rng, &honest.proof); let (w, _) = &nm[rng.below(nm.len() as u64) as usize]; let mut p = [0u8; 20]; p.copy_from_slice(w); (cc, p, "proof near miss (cancelling / confined differences)") }
                   else if rng.chance(1, 2) { let mut p = honest.proof; p[rng.below(20) as usize] ^= 1 << rng.below(8); (cc, p, "proof bit flipped") }
                   else { let mut c = cc; c[rng.below(16) as usize] ^= 1 << rng.below(8); (c, honest.proof, "client data bit flipped") } }
        };
        let next: [u8; 16] = rng.arr();
        if inject { vr::install_tape(&next); }
        let v = catch(|| l.server.verify_reconnection_attempt(cd, pf));
        if inject { vr::remove_tape(); }
        vr::take_log();
        let after = *l.server.reconnect_challenge_data();
        let expect = pf == sha(&[&ub, &cd, &cur, &l.ks]);
        let det = |what: &str| format!("{{\"what\":\"{}\",\"kind\":\"{}\",\"step\":{},\"user\":{},\"K\":\"{}\",\"challenge_on_offer\":\"{}\",\"client_data\":\"{}\",\"proof\":\"{}\"}}", what, label, h.verdicts.len(), jstr(&l.u), hex(&l.ks), hex(&cur), hex(&cd), hex(&pf));
        match v {
            None => fails.push(det("panic")),
            Some(b) => {
                if b != expect { fails.push(det("verdict differs from (proof == H(U|cd|current challenge|K))")); }
                if inject && after != next { fails.push(det("challenge after the attempt is not the freshly drawn one")); }
                if !inject && after == cur { fails.push(det("challenge not replaced after the attempt")); }
                if label == "replay of an earlier pair" && b { fails.push(det("a captured pair was accepted a second time")); }
                if label.starts_with("correct") && !b { fails.push(det("legitimate client refused")); }
                h.verdicts.push(b as u8);
                past.push((cd, pf, b));
            }
        }
        stale.push(cur);
        h.chals.extend_from_slice(&after);
        h.attempts.extend_from_slice(&cd); h.attempts.extend_from_slice(&pf);
        h.tape.extend_from_slice(&next);
        h.kinds.push(label);
    }
    h
}

pub fn run(ctx: &mut Ctx) {
    let mut rng = ctx.rng("corr");
    let n_hist = if ctx.quick() { 24 } else { 200 };
    let maxlen = if ctx.quick() { 40 } else { 400 };
    let mut fails = Vec::new();
    let mut base = login("Reconnector", "pass word", "reconnector", "PASS WORD", &rng.bytes(112)).expect("login");
    for k in 0..n_hist {
        if k % 6 == 0 { let ul = rng.range(1, 16) as usize; let u = rand_cred(&mut rng, ul); base = login(&u, "pw", &u, "pw", &rng.bytes(112)).expect("login"); }
        let un = ns(&base.u);
        let chal0 = *base.server.reconnect_challenge_data();
        let n = rng.range(1, maxlen) as usize;
        let h = history(&mut rng, &mut base, n, &mut fails, true);
        ctx.case(6, "history", &[un.as_ref().as_bytes(), &base.ks, &chal0, &h.tape, &h.attempts], &[&[0], &h.verdicts, &h.chals]);
        for kd in &h.kinds { ctx.count(&format!("attempt:{}", kd)); }
        ctx.count_n("attempts_accepted", h.verdicts.iter().filter(|v| **v == 1).count() as u64);
        if k == 1 { ctx.sample(format!("history of {} attempts: {:?} -> verdicts {:?}", n, &h.kinds[..n.min(12)], &h.verdicts[..n.min(12)])); }
        // op 7: client values
        let sd: [u8; 16] = match k % 4 { 0 => [0u8; 16], 1 => [0xff; 16], _ => rng.arr() }; let cc: [u8; 16] = rng.arr();
        vr::install_tape(&cc);
        let r = base.client.calculate_reconnect_values(sd);
        vr::remove_tape(); vr::take_log();
        ctx.case(7, "client reconnect values", &[un.as_ref().as_bytes(), &base.kc, &sd, &cc], &[&[0], &r.challenge_data, &r.proof]);
        if r.challenge_data != cc || r.proof != sha(&[un.as_ref().as_bytes(), &cc, &sd, &base.kc]) { fails.push(format!("{{\"what\":\"client reconnect values are not (drawn challenge, H(U|cd|sd|K))\",\"user\":{},\"K\":\"{}\",\"server_challenge\":\"{}\",\"drawn\":\"{}\"}}", jstr(&base.u), hex(&base.kc), hex(&sd), hex(&cc))); }
    }
    // ---- implementation-only oracle: long histories, with injected and with real randomness ----
    let mut rng = ctx.rng("oracle");
    let n = if ctx.quick() { 60 } else { 6000 };
    for k in 0..n {
        let ul = rng.range(1, 16) as usize;
        let u = rand_cred(&mut rng, ul);
        let mut l = match login(&u, "x", &u, "X", &rng.bytes(112)) { Ok(l) => l, Err(_) => continue };
        let len = rng.range(1, 300) as usize;
        let _ = history(&mut rng, &mut l, len, &mut fails, k % 2 == 0);
        ctx.oracle_runs += len as u64;
    }
    // ---- long runs of one verdict: R rejected attempts in a row and then a correct one (the legitimate client can
    //      always reconnect, whatever was thrown at the session before), A accepted in a row and then a wrong one;
    //      R and A around every power of two up to 1024 (and 65536 in the thorough tier)
    let mut rng = ctx.rng("runs");
    let mut lens: Vec<usize> = vec![1, 2, 3, 7, 8, 9, 15, 16, 17, 31, 32, 33, 63, 64, 65, 127, 128, 129, 254, 255, 256, 257, 258, 300, 511, 512, 513, 1023, 1024, 1025];
    if !ctx.quick() { lens.extend([4095, 4096, 4097, 65534, 65535, 65536, 65537, 70000]); }
    for (k, len) in lens.iter().enumerate() {
        for accepted_run in [false, true] {
            let u = rand_cred(&mut rng, 1 + k % 16);
            let mut l = match login(&u, "x", &u, "X", &rng.bytes(112)) { Ok(l) => l, Err(_) => continue };
            let mut plan = vec![accepted_run; *len];
            plan.extend([!accepted_run, accepted_run, !accepted_run, !accepted_run]);
            let before = fails.len();
            let _ = history_plan(&mut rng, &mut l, plan.len(), &mut fails, k % 2 == 0, Some(&plan));
            // one report per run is enough: keep the first failure and say where the run stood
            if fails.len() > before { let first = fails[before].clone(); fails.truncate(before); fails.push(first.replacen("{", &format!("{{\"run\":\"{} {} attempts in a row, then the opposite\",", len, if accepted_run { "accepted" } else { "rejected" }), 1)); }
            ctx.oracle_runs += plan.len() as u64;
            ctx.count(if accepted_run { "runs:accepted-then-wrong" } else { "runs:rejected-then-correct" });
        }
    }
    for f in fails { ctx.fail("reconnect", f); }
}
