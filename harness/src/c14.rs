//! C14: peer-controlled bytes never crash the server or the client (run in release AND debug builds).
use crate::c02::server_api;
use crate::c03::client_api;
use crate::ctx::*;
use crate::srp::*;
use num_bigint::BigInt;
use wow_srp::verif_hooks::rand as vr;
use wow_srp::{PublicKey, GENERATOR, LARGE_SAFE_PRIME_LITTLE_ENDIAN as NLE};

fn from_int(x: &BigInt) -> [u8; 32] { le32b(&modp(x, &(BigInt::from(1) << 256))) }
fn adversarial_keys(rng: &mut Rng, v: &[u8; 32]) -> Vec<([u8; 32], &'static str)> {
    let n = bi(&NLE); let vz = bi(v); let one = BigInt::from(1);
    let mut out = vec![
        (from_int(&one), "1"), (from_int(&BigInt::from(2)), "2"), (from_int(&(&n - &one)), "N-1"), (from_int(&(&n + &one)), "N+1"),
        (from_int(&(BigInt::from(1) << 255)), "2^255"), ([0xff; 32], "2^256-1"),
        (from_int(&modp(&(BigInt::from(3) * &vz), &n)), "3v mod N (client secret 0)"),
        (from_int(&modp(&(BigInt::from(3) * &vz + &one), &n)), "3v+1 mod N (base 1)"),
        (from_int(&modp(&(BigInt::from(3) * &vz - &one), &n)), "3v-1 mod N (base N-1)"),
        (from_int(&(&n + BigInt::from(3) * &vz % &n)), "N + 3v mod N (unreduced)"),
    ];
    let mut sparse = [0u8; 32]; sparse[rng.below(32) as usize] = rng.range(1, 255) as u8; out.push((sparse, "one non-zero byte"));
    let mut hi = [0u8; 32]; hi[31] = 0x80; out.push((hi, "only the top bit"));
    out.push((rng.arr(), "random"));
    out.retain(|(k, _)| *k != [0u8; 32] && *k != NLE);
    out
}

pub fn run(ctx: &mut Ctx) {
    let debug = cfg!(debug_assertions);
    let mut rng = ctx.rng("corr");
    let n = bi(&NLE);
    // ---------------- server: stored verifiers x adversarial A x presented proofs ----------------
    let honest = login("Victim", "password", "victim", "PASSWORD", &rng.bytes(1024)).expect("login"); // a generous tape: an implementation that draws more than the pinned one must still get through the set-up
    let verifiers: Vec<([u8; 32], &str)> = vec![
        (honest.v, "honest verifier"), ([0u8; 32], "verifier 0"), (NLE, "verifier N"),
        (from_int(&(BigInt::from(2) * &n)), "verifier 2N mod 2^256"), ([0xff; 32], "verifier 2^256-1"),
        (from_int(&BigInt::from(1)), "verifier 1"), (rng.arr(), "random verifier"),
    ];
    let mut model_cases = 0;
    let model_budget = if ctx.quick() { 60 } else { 400 };
    for (v, vlabel) in &verifiers {
        let keys = adversarial_keys(&mut rng, v);
        for (a_pub, alabel) in &keys {
            let b = rng.bytes(32); let chal = rng.bytes(16); let salt: [u8; 32] = rng.arr();
            let ms = [[0u8; 20], [0xff; 20], rng.arr()];
            let out = server_api("Victim", *v, salt, &b, *a_pub, &ms, &chal);
            ctx.oracle_runs += 3;
            let panicked = out.len() == 1 && out[0] == vec![2] || (out.len() == 3 && { let mut p = false; let e = &out[2]; let mut pos = 0; while pos < e.len() { match e[pos] { 0 => pos += 77, 1 => pos += 41, _ => { p = true; break; } } } p });
            // a panic in into_proof is the documented one only if the server's own B is 0 mod N; report everything else
            // the property quantifies over accounts whose stored verifier is NOT a multiple of N;
            // verifiers 0 and N are exercised (the repaired code returns for them too) but a panic
            // there is outside the property and only counted
            let outside = *v == [0u8; 32] || *v == NLE;
            if panicked && outside { ctx.count("outside-property: panic with a stored verifier that is a multiple of N"); }
            if panicked && !outside {
                ctx.fail("server_panic", format!("{{\"stored_verifier\":\"{}\",\"verifier_class\":\"{}\",\"A\":\"{}\",\"A_class\":\"{}\",\"b\":\"{}\",\"salt\":\"{}\",\"debug_build\":{}}}", hex(v), vlabel, hex(a_pub), alabel, hex(&b), hex(&salt), debug));
            }
            if !debug && !outside && model_cases < model_budget && rng.chance(1, 3) {
                model_cases += 1;
                let un = ns("Victim"); let msc: Vec<u8> = ms.iter().flat_map(|m| m.iter().copied()).collect();
                let o: Vec<&[u8]> = out.iter().map(|x| x.as_slice()).collect();
                ctx.case(4, &format!("server: {} / A = {}", vlabel, alabel), &[un.as_ref().as_bytes(), v, &salt, &b, a_pub, &msc, &chal], &o);
            }
        }
    }
    // reconnect with arbitrary bytes
    let mut srv = honest.server.clone();
    for attempt in 1..=(if ctx.quick() { 2000u32 } else { 1_000_000 }) {
        let cd: [u8; 16] = match rng.below(3) { 0 => [0; 16], 1 => [0xff; 16], _ => rng.arr() };
        let pf: [u8; 20] = match rng.below(3) { 0 => [0; 20], 1 => [0xff; 20], _ => rng.arr() };
        ctx.oracle_runs += 1;
        if catch(|| srv.verify_reconnection_attempt(cd, pf)).is_none() { ctx.fail("server_panic", format!("{{\"fn\":\"verify_reconnection_attempt\",\"attempt_number_on_this_session\":{},\"client_data\":\"{}\",\"proof\":\"{}\"}}", attempt, hex(&cd), hex(&pf))); }
    }
    // ---------------- client, built-in group: adversarial B, salt, M2 ----------------
    let mut cmodel = 0;
    for round in 0..(if ctx.quick() { 3 } else { 30 }) {
        let (u, p) = (rand_cred(&mut rng, 1 + round % 16), rand_cred(&mut rng, 16 - round % 16));
        let salt: [u8; 32] = match round % 3 { 0 => [0; 32], 1 => [0xff; 32], _ => rng.arr() };
        // the verifier a hostile server would know for these credentials and this salt
        let x = bi(&spec_x(ns(&u).as_ref().as_bytes(), ns(&p).as_ref().as_bytes(), &salt));
        let v = le32b(&BigInt::from(GENERATOR).modpow(&x, &n));
        for (b_pub, blabel) in adversarial_keys(&mut rng, &v) {
            let a = rng.bytes(32);
            let m2s = [[0u8; 20], [0xff; 20], rng.arr()];
            ctx.oracle_runs += 1;
            match client_api(&u, &p, GENERATOR, NLE, b_pub, salt, &a, &m2s) {
                None => {}
                Some(out) => {
                    if out.len() == 1 || out[4].contains(&2) {
                        ctx.fail("client_panic", format!("{{\"user\":{},\"password\":{},\"B\":\"{}\",\"B_class\":\"{}\",\"salt\":\"{}\",\"a\":\"{}\",\"debug_build\":{}}}", jstr(&u), jstr(&p), hex(&b_pub), blabel, hex(&salt), hex(&a), debug));
                    }
                    if !debug && cmodel < model_budget && (blabel.starts_with("3v") || rng.chance(1, 4)) {
                        cmodel += 1;
                        let (un, pn) = (ns(&u), ns(&p)); let msc: Vec<u8> = m2s.iter().flat_map(|m| m.iter().copied()).collect();
                        let o: Vec<&[u8]> = out.iter().map(|x| x.as_slice()).collect();
                        ctx.case(3, &format!("client: B = {}", blabel), &[un.as_ref().as_bytes(), pn.as_ref().as_bytes(), &[GENERATOR], &NLE, &b_pub, &salt, &a, &msc], &o);
                    }
                }
            }
        }
    }
    ctx.sample("client_new with B = 3v mod N (forces S = 0) and verify_server_proof(00..00 / ff..ff / random); into_server with stored verifier 0 and A = N+1".to_string());
    // ---------------- world login: the client seed and proof are the PEER's values, and the peer has seen the server's
    //                  seed before it answers: echoes and near-echoes of it, extremes, and proofs of every kind ----------------
    {
        let n = if ctx.quick() { 120 } else { 20_000 };
        for k in 0..n {
            let key: [u8; 40] = match k % 4 { 0 => [0; 40], 1 => [0xff; 40], _ => rng.arr() };
            let un = ns(if k % 3 == 0 { "A" } else { "SIXTEENBYTESNAME" });
            let proofs: [[u8; 20]; 3] = [[0; 20], [0xff; 20], rng.arr()];
            for module in 0..3u8 {
                for class in 0..6u8 {
                    let pf = proofs[(k + class as usize) % 3];
                    let r = catch(|| {
                        macro_rules! go { ($m:ident) => {{ let s = wow_srp::$m::ProofSeed::new(); let ss = s.seed();
                            let cs = match class { 0 => ss, 1 => ss.wrapping_add(1), 2 => !ss, 3 => 0, 4 => u32::MAX, _ => ss.swap_bytes() };
                            (ss, cs, s.into_server_header_crypto(&un, key, pf, cs).is_ok()) }} }
                        match module { 0 => go!(vanilla_header), 1 => go!(tbc_header), _ => go!(wrath_header) }
                    });
                    ctx.oracle_runs += 1;
                    if r.is_none() {
                        ctx.fail("server_panic", format!("{{\"fn\":\"ProofSeed::into_server_header_crypto\",\"module\":{},\"client_seed_class\":\"{}\",\"proof\":\"{}\",\"key\":\"{}\"}}", module,
                            ["the server's own seed echoed", "server seed + 1", "complement of the server seed", "0", "0xFFFFFFFF", "server seed byte-swapped"][class as usize], hex(&pf), hex(&key)));
                    }
                }
            }
        }
    }
    // ---------------- world login + header byte storms, all three expansions ----------------
    let storms = if ctx.quick() { 300 } else { 100_000 };
    for k in 0..storms {
        let key: [u8; 40] = match k % 4 { 0 => [0; 40], 1 => [0xff; 40], _ => rng.arr() };
        let un = ns("A");
        let (pf, cs): ([u8; 20], u32) = (rng.arr(), rng.next() as u32);
        ctx.oracle_runs += 1;
        let r = catch(|| {
            let _ = wow_srp::vanilla_header::ProofSeed::new().into_server_header_crypto(&un, key, pf, cs);
            let _ = wow_srp::tbc_header::ProofSeed::new().into_server_header_crypto(&un, key, pf, cs);
            let _ = wow_srp::wrath_header::ProofSeed::new().into_server_header_crypto(&un, key, pf, cs);
            // objects obtained the honest way, then fed arbitrary bytes in arbitrary order and amount
            let mut v = crate::c07::new_crypto(key);
            let mut t = crate::c08::new_crypto(key);
            let cseed = wow_srp::wrath_header::ProofSeed::new(); let csv = cseed.seed();
            let sseed = wow_srp::wrath_header::ProofSeed::new();
            let (proof, mut wc) = cseed.into_client_header_crypto(&un, key, sseed.seed());
            let mut ws = sseed.into_server_header_crypto(&un, key, proof, csv).unwrap();
            let mut local = Rng(k as u64 * 7919 + 13);
            for _ in 0..40 {
                let len = match local.below(6) { 0 => 0, 1 => 1, 2 => 4, 3 => 5, 4 => 6, _ => local.below(300) as usize };
                let mut buf = local.bytes(len);
                match local.below(14) {
                    0 => v.encrypt(&mut buf), 1 => v.decrypt(&mut buf), 2 => t.encrypt(&mut buf), 3 => t.decrypt(&mut buf),
                    4 => wc.encrypt(&mut buf), 5 => wc.decrypt(&mut buf), 6 => ws.encrypt(&mut buf), 7 => ws.decrypt(&mut buf),
                    8 => { let _ = wc.attempt_decrypt_server_header(local.arr()); }
                    9 => { let _ = wc.decrypt_large_server_header(local.byte()); }
                    10 => { let _ = ws.decrypt_client_header(local.arr()); let _ = v.decrypt_client_header(local.arr()); let _ = t.decrypt_client_header(local.arr()); }
                    11 => { let _ = v.decrypt_server_header(local.arr()); let _ = t.decrypt_server_header(local.arr()); }
                    12 => { let bl = local.below(8) as usize; let b = local.bytes(bl); let _ = wc.read_and_decrypt_server_header(&b[..]); let _ = ws.read_and_decrypt_client_header(&b[..]); let _ = v.read_and_decrypt_server_header(&b[..]); let _ = t.read_and_decrypt_client_header(&b[..]); }
                    _ => { let _ = ws.encrypt_server_header(local.next() as u32, local.next() as u16); let _ = wc.encrypt_client_header(local.next() as u16, local.next() as u32); }
                }
            }
        });
        vr::take_log();
        if r.is_none() { ctx.fail("header_panic", format!("{{\"key\":\"{}\",\"storm_seed\":{},\"proof\":\"{}\",\"seed\":{},\"debug_build\":{}}}", hex(&key), k as u64 * 7919 + 13, hex(&pf), cs, debug)); }
    }
    let _ = PublicKey::from_le_bytes([1u8; 32]);
}
