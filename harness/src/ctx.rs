//! Shared machinery: PRNG, case sink, oracle failure sink, counters, JSON output.
use std::collections::BTreeMap;
use std::fmt::Write as _;
use std::fs;
use std::io::Write as _;
use std::path::PathBuf;

#[derive(Clone)]
pub struct Rng(pub u64);
impl Rng {
    pub fn new(seed: u64, stream: &str) -> Self {
        let mut h = 0xcbf29ce484222325u64;
        for b in stream.bytes() {
            h ^= b as u64;
            h = h.wrapping_mul(0x100000001b3);
        }
        Rng(seed.wrapping_mul(0x9E3779B97F4A7C15) ^ h)
    }
    pub fn next(&mut self) -> u64 {
        self.0 = self.0.wrapping_add(0x9E3779B97F4A7C15);
        let mut z = self.0;
        z = (z ^ (z >> 30)).wrapping_mul(0xBF58476D1CE4E5B9);
        z = (z ^ (z >> 27)).wrapping_mul(0x94D049BB133111EB);
        z ^ (z >> 31)
    }
    pub fn below(&mut self, n: u64) -> u64 {
        if n == 0 { 0 } else { self.next() % n }
    }
    pub fn range(&mut self, lo: u64, hi: u64) -> u64 {
        lo + self.below(hi - lo + 1)
    }
    pub fn byte(&mut self) -> u8 {
        self.next() as u8
    }
    pub fn bytes(&mut self, n: usize) -> Vec<u8> {
        (0..n).map(|_| self.byte()).collect()
    }
    pub fn arr<const N: usize>(&mut self) -> [u8; N] {
        let mut a = [0u8; N];
        for x in a.iter_mut() { *x = self.byte(); }
        a
    }
    pub fn pick<'a, T>(&mut self, xs: &'a [T]) -> &'a T {
        &xs[self.below(xs.len() as u64) as usize]
    }
    pub fn chance(&mut self, num: u64, den: u64) -> bool {
        self.below(den) < num
    }
    /// partition shaped like header traffic: mostly 4- and 6-byte calls, with odd-length and empty
    /// calls in between so that headers land on every key position (also across the key wrap)
    pub fn header_partition(&mut self, len: usize) -> Vec<usize> {
        const SH: [usize; 16] = [4, 6, 4, 4, 6, 4, 6, 1, 2, 3, 5, 7, 0, 4, 6, 4];
        let mut out = Vec::new();
        let mut left = len;
        while left > 0 {
            let s = (*self.pick(&SH)).min(left);
            out.push(s); left -= s;
        }
        out
    }
    /// random partition of `len` into chunk sizes (empty chunks included now and then)
    pub fn partition(&mut self, len: usize) -> Vec<usize> {
        let mut out = Vec::new();
        let mut left = len;
        let style = self.below(5);
        const EDGE: [usize; 15] = [39, 40, 41, 255, 256, 257, 511, 512, 513, 1023, 1024, 1025, 4095, 4096, 4097];
        while left > 0 {
            if self.chance(1, 8) { out.push(0); }
            let max = match style { 0 => 3, 1 => 64, 2 => 7, _ => left.max(1) as u64 };
            // style 4: call sizes at the boundaries where 8-bit casts, key wraps and page buffers bite
            let n = if style == 4 { *self.pick(&EDGE) } else { self.range(1, max.max(1)) as usize };
            let n = n.min(left);
            out.push(n);
            left -= n;
        }
        if self.chance(1, 4) { out.push(0); }
        out
    }
}

pub fn hex(b: &[u8]) -> String {
    let mut s = String::with_capacity(b.len() * 2);
    for x in b { write!(s, "{:02x}", x).unwrap(); }
    s
}
pub fn le16s(sizes: &[usize]) -> Vec<u8> {
    let mut v = Vec::new();
    for s in sizes { assert!(*s < 65536); v.push(*s as u8); v.push((*s >> 8) as u8); }
    v
}
pub fn jstr(s: &str) -> String {
    let mut o = String::from("\"");
    for c in s.chars() {
        match c {
            '"' => o.push_str("\\\""),
            '\\' => o.push_str("\\\\"),
            '\n' => o.push_str("\\n"),
            c if (c as u32) < 0x20 => { write!(o, "\\u{:04x}", c as u32).unwrap(); }
            c => o.push(c),
        }
    }
    o.push('"');
    o
}

pub struct Case { pub op: u32, pub ins: Vec<Vec<u8>>, pub outs: Vec<Vec<u8>>, pub label: String }

#[derive(PartialEq, Clone, Copy)]
pub enum Tier { Quick, Thorough }

pub struct Ctx {
    pub prop: String,
    pub tier: Tier,
    pub seed: u64,
    pub out: PathBuf,
    pub shards: usize,
    pub cases: Vec<Case>,
    pub counters: BTreeMap<String, u64>,
    /// oracle failures: (kind, json object text describing the failing input)
    pub failures: Vec<(String, String)>,
    pub oracle_runs: u64,
    pub samples: Vec<String>,
    pub notes: Vec<String>,
    pub exhaustive: Vec<String>,
}

impl Ctx {
    pub fn quick(&self) -> bool { self.tier == Tier::Quick }
    pub fn rng(&self, stream: &str) -> Rng { Rng::new(self.seed, &format!("{}/{}", self.prop, stream)) }
    pub fn count(&mut self, k: &str) { *self.counters.entry(k.to_string()).or_insert(0) += 1; }
    pub fn count_n(&mut self, k: &str, n: u64) { *self.counters.entry(k.to_string()).or_insert(0) += n; }
    pub fn case(&mut self, op: u32, label: &str, ins: &[&[u8]], outs: &[&[u8]]) {
        self.count(&format!("case:{}", label));
        self.cases.push(Case { op, ins: ins.iter().map(|x| x.to_vec()).collect(),
                               outs: outs.iter().map(|x| x.to_vec()).collect(), label: label.to_string() });
    }
    /// record an oracle failure (keeps at most 20 per kind)
    pub fn fail(&mut self, kind: &str, detail_json: String) {
        let n = self.failures.iter().filter(|f| f.0 == kind).count();
        self.count(&format!("fail:{}", kind));
        if n < 20 { self.failures.push((kind.to_string(), detail_json)); }
    }
    pub fn sample(&mut self, s: String) { if self.samples.len() < 6 { self.samples.push(s); } }

    pub fn finish(&self, coq_import: &str, runner: &str) {
        fs::create_dir_all(&self.out).unwrap();
        let shards = self.shards.max(1);
        // distribute cases round-robin, balancing bytes
        let mut buckets: Vec<Vec<usize>> = vec![Vec::new(); shards];
        let mut load = vec![0usize; shards];
        let mut order: Vec<usize> = (0..self.cases.len()).collect();
        let weight = |c: &Case| 40 + c.ins.iter().chain(c.outs.iter()).map(|x| x.len()).sum::<usize>();
        order.sort_by_key(|i| std::cmp::Reverse(weight(&self.cases[*i])));
        for i in order {
            let (k, _) = load.iter().enumerate().min_by_key(|(_, l)| **l).unwrap();
            load[k] += weight(&self.cases[i]);
            buckets[k].push(i);
        }
        for (k, b) in buckets.iter_mut().enumerate() {
            b.sort();
            if b.is_empty() { continue; }
            let mut v = String::new();
            writeln!(v, "From WS Require Import lib.Bytes corr.Generic {}.", coq_import).unwrap();
            writeln!(v, "Local Open Scope N_scope.\nLocal Open Scope hex_scope.").unwrap();
            writeln!(v, "Definition cases : list case := [").unwrap();
            let mut j = String::new();
            for (n, i) in b.iter().enumerate() {
                let c = &self.cases[*i];
                let f = |xs: &Vec<Vec<u8>>| xs.iter().map(|x| format!("\"{}\"", hex(x))).collect::<Vec<_>>().join("; ");
                writeln!(v, "{}K {} [{}] [{}]", if n == 0 { " " } else { ";" }, c.op, f(&c.ins), f(&c.outs)).unwrap();
                let g = |xs: &Vec<Vec<u8>>| xs.iter().map(|x| format!("\"{}\"", hex(x))).collect::<Vec<_>>().join(",");
                writeln!(j, "{{\"op\":{},\"label\":{},\"in\":[{}],\"out\":[{}]}}", c.op, jstr(&c.label), g(&c.ins), g(&c.outs)).unwrap();
            }
            writeln!(v, "].\nEval vm_compute in failing {} cases.", runner).unwrap();
            fs::write(self.out.join(format!("cases_{:02}.v", k)), v).unwrap();
            fs::write(self.out.join(format!("cases_{:02}.jsonl", k)), j).unwrap();
        }
        let mut s = String::new();
        write!(s, "{{\"property\":{},\"seed\":{},\"tier\":{},\"cases\":{},\"oracle_runs\":{},",
               jstr(&self.prop), self.seed, jstr(if self.quick() { "quick" } else { "thorough" }),
               self.cases.len(), self.oracle_runs).unwrap();
        write!(s, "\"counters\":{{{}}},", self.counters.iter().map(|(k, v)| format!("{}:{}", jstr(k), v)).collect::<Vec<_>>().join(",")).unwrap();
        write!(s, "\"failures\":[{}],", self.failures.iter().map(|(k, d)| format!("{{\"kind\":{},\"detail\":{}}}", jstr(k), d)).collect::<Vec<_>>().join(",")).unwrap();
        write!(s, "\"samples\":[{}],", self.samples.iter().map(|x| jstr(x)).collect::<Vec<_>>().join(",")).unwrap();
        write!(s, "\"exhaustive\":[{}],", self.exhaustive.iter().map(|x| jstr(x)).collect::<Vec<_>>().join(",")).unwrap();
        write!(s, "\"notes\":[{}]}}", self.notes.iter().map(|x| jstr(x)).collect::<Vec<_>>().join(",")).unwrap();
        let mut f = fs::File::create(self.out.join("summary.json")).unwrap();
        f.write_all(s.as_bytes()).unwrap();
    }
}

/// run a closure catching panics; None = panicked
pub fn catch<T>(f: impl FnOnce() -> T) -> Option<T> {
    std::panic::catch_unwind(std::panic::AssertUnwindSafe(f)).ok()
}

/// Structured wrong variants of a value (each differs from `v`): differences that cancel under an
/// XOR fold, under an additive fold, byte permutations, differences confined to the last bytes (lost
/// by a chunked comparison) or to the first byte.  Comparisons written by hand fail exactly on these.
pub fn near_misses(rng: &mut Rng, v: &[u8]) -> Vec<(Vec<u8>, &'static str)> {
    let n = v.len();
    let mut out: Vec<(Vec<u8>, &'static str)> = Vec::new();
    if n < 2 { return out; }
    let (i, j) = { let i = rng.below(n as u64) as usize; let mut j = rng.below(n as u64 - 1) as usize; if j >= i { j += 1; } (i, j) };
    let mask = 1 + rng.below(255) as u8;
    let mut a = v.to_vec(); a[i] ^= mask; a[j] ^= mask; out.push((a, "two bytes changed by the same XOR mask"));
    let mut a = v.to_vec(); a[i] = a[i].wrapping_add(mask); a[j] = a[j].wrapping_sub(mask); out.push((a, "two bytes changed by +d and -d"));
    let mut a = v.to_vec(); a[n - 1] ^= mask; a[n - 2] ^= mask; out.push((a, "last two bytes changed by the same XOR mask"));
    if let Some((p, q)) = (0..n).flat_map(|p| (p + 1..n).map(move |q| (p, q))).find(|(p, q)| v[*p] != v[*q]) {
        let mut a = v.to_vec(); a.swap(p, q); out.push((a, "two unequal bytes swapped"));
    }
    let mut a = v.to_vec(); a[n - 1] ^= mask; out.push((a, "only the last byte differs"));
    let mut a = v.to_vec(); for k in n - (n % 8).max(1).min(n)..n { a[k] ^= 1 + rng.below(255) as u8; } out.push((a, "only the bytes after the last multiple of 8 differ"));
    let mut a = v.to_vec(); a[0] ^= mask; out.push((a, "only the first byte differs"));
    let mut a = v.to_vec(); for b in a.iter_mut() { *b ^= mask; } if n % 2 == 0 { out.push((a, "every byte changed by the same XOR mask (even length)")); } else { out.push((a, "every byte changed by the same XOR mask")); }
    let mut a = v.to_vec(); a.reverse(); if a != v { out.push((a, "bytes reversed")); }
    out.retain(|(a, _)| a != v);
    out
}
