//! C17: integrity hashes.
use crate::ctx::*;
use crate::srp::{hmac_sha1, sha};
use wow_srp::integrity::*;

fn cut(rng: &mut Rng, data: &[u8]) -> [Vec<u8>; 5] {
    let mut pts: Vec<usize> = (0..4).map(|_| rng.range(0, data.len() as u64) as usize).collect();
    if rng.chance(1, 4) { pts[0] = 0; }
    if rng.chance(1, 4) { pts[3] = data.len(); }
    pts.sort();
    [data[..pts[0]].to_vec(), data[pts[0]..pts[1]].to_vec(), data[pts[1]..pts[2]].to_vec(), data[pts[2]..pts[3]].to_vec(), data[pts[3]..].to_vec()]
}
/// salts and keys with history: all-zero, all-ones, the previous value again, the previous value with
/// one bit changed, otherwise random (a result must depend on the arguments of THIS call only)
fn next_salt(rng: &mut Rng, k: usize, prev: &[u8; 16]) -> [u8; 16] {
    match k % 9 { 0 => [0u8; 16], 3 => [0xff; 16], 5 => *prev, 7 => { let mut s = *prev; s[rng.below(16) as usize] ^= 1 << rng.below(8); s } _ => rng.arr() }
}
fn next_key(rng: &mut Rng, k: usize, prev: &[u8; 32]) -> [u8; 32] {
    match k % 11 { 0 => [0u8; 32], 4 => [0xff; 32], 6 => *prev, _ => rng.arr() }
}
fn spec(files: &[u8], salt: &[u8; 16], key: &[u8; 32]) -> [u8; 20] { sha(&[key, &hmac_sha1(salt, files)]) }

pub fn run(ctx: &mut Ctx) {
    // a buffer patched in place between two calls (same address, same length, same salt, same key): the second
    // result must be the hash of the NEW contents - for the one-buffer function and, with the same bytes cut into
    // five pieces, for the Windows and Mac functions
    {
        let mut r3 = ctx.rng("in_place");
        for k in 0..(if ctx.quick() { 300 } else { 6000 }) {
            let len = 1 + r3.range(0, 300) as usize;
            let mut buf = r3.bytes(len);
            let salt: [u8; 16] = r3.arr(); let key: [u8; 32] = r3.arr();
            let reference = |b: &[u8]| sha(&[&key, &hmac_sha1(&salt, b)]);
            ctx.oracle_runs += 1;
            let first = catch(|| login_integrity_check_generic(&buf, &salt, &key));
            let at = r3.below(len as u64) as usize; buf[at] ^= 1 << r3.below(8);
            let second = catch(|| login_integrity_check_generic(&buf, &salt, &key));
            let cuts = { let mut c: Vec<usize> = (0..4).map(|_| r3.below(len as u64 + 1) as usize).collect(); c.sort(); c };
            let win = catch(|| login_integrity_check_windows(&buf[..cuts[0]], &buf[cuts[0]..cuts[1]], &buf[cuts[1]..cuts[2]], &buf[cuts[2]..cuts[3]], &buf[cuts[3]..], &salt, &key));
            let want2 = reference(&buf);
            if second != Some(want2) || win != Some(want2) || first == second {
                ctx.fail("in_place_change", format!("{{\"what\":\"after a byte of the buffer was changed in place the result is not the hash of the new contents\",\"history\":\"generic(buf), flip one bit of buf[{}], generic(buf), windows(buf cut in five)\",\"len\":{},\"salt\":\"{}\",\"key\":\"{}\",\"buf_after\":\"{}\",\"call\":{}}}", at, len, hex(&salt), hex(&key), hex(&buf), k));
            }
        }
    }
    // the module's own generators (also judged by C15): with the random source replaced by a known tape they hand
    // out exactly its next bytes - the value this property's functions are then fed with
    {
        use wow_srp::verif_hooks::rand as vr;
        let mut r2 = ctx.rng("generators");
        for k in 0..(if ctx.quick() { 200 } else { 5000 }) {
            let tape = if k == 0 { vec![0xffu8; 32] } else if k == 1 { vec![0u8; 32] } else { r2.bytes(32) };
            ctx.oracle_runs += 1;
            vr::take_log(); vr::install_tape(&tape);
            let r = catch(get_salt_value);
            let left = vr::remove_tape().len(); vr::take_log();
            match r {
                Some(salt) if salt[..] == tape[0..16] && left == 16 => {}
                other => ctx.fail("generators", format!("{{\"what\":\"get_salt_value does not hand out the next 16 bytes of the random source\",\"tape\":\"{}\",\"got\":{}}}", hex(&tape), jstr(&format!("{:?}", other)))),
            }
        }
    }

    let mut rng = ctx.rng("corr");
    // SHA-1 / HMAC block boundaries, and page-like sizes (4096 and 8192: an implementation that feeds the
    // hasher in pages has its boundary cases there)
    let mut lens: Vec<usize> = vec![0, 1, 54, 55, 56, 57, 63, 64, 65, 118, 119, 120, 121, 127, 128, 129, 183, 184, 500, 700, 4096, 8192];
    for _ in 0..(if ctx.quick() { 30 } else { 400 }) { lens.push(rng.range(0, 700) as usize); }
    let (mut psalt, mut pkey) = ([0x55u8; 16], [0xaau8; 32]);
    for (i, len) in lens.iter().enumerate() {
        let data = rng.bytes(*len);
        let salt = next_salt(&mut rng, i + 1, &psalt); let key = next_key(&mut rng, i + 1, &pkey);
        psalt = salt; pkey = key;
        let f = cut(&mut rng, &data);
        let label = if *len == 0 { "trivial:empty files" } else { "files" };
        let w = catch(|| login_integrity_check_windows(&f[0], &f[1], &f[2], &f[3], &f[4], &salt, &key));
        let m = catch(|| login_integrity_check_mac(&f[0], &f[1], &f[2], &f[3], &f[4], &salt, &key));
        let g = catch(|| login_integrity_check_generic(&data, &salt, &key));
        for (op, r) in [(1u32, w), (2, m)] {
            match r { Some(h) => ctx.case(op, label, &[&f[0], &f[1], &f[2], &f[3], &f[4], &salt, &key], &[&[0], &h]),
                      None => { ctx.case(op, "panic", &[&f[0], &f[1], &f[2], &f[3], &f[4], &salt, &key], &[&[2]]); ctx.fail("panic", format!("{{\"op\":{},\"len\":{}}}", op, len)); } }
        }
        match g { Some(h) => ctx.case(3, label, &[&data, &salt, &key], &[&[0], &h]), None => ctx.fail("panic", format!("{{\"op\":3,\"len\":{}}}", len)) }
        if i % 4 == 0 { let s: [u8; 16] = if i == 0 { [0; 16] } else { rng.arr() }; let r = reconnect_integrity_check(&s); ctx.case(4, "reconnect", &[&s], &[&[0], &r]); }
        if i == 8 { ctx.sample(format!("{} bytes cut as {:?} over the five file arguments, windows/mac/generic", len, f.iter().map(|x| x.len()).collect::<Vec<_>>())); }
    }
    // ---- implementation-only oracle ----
    let mut rng = ctx.rng("oracle");
    let n = if ctx.quick() { 4000 } else { 600_000 };
    for k in 0..n {
        const EDGE: [usize; 16] = [511, 512, 513, 1023, 1024, 1025, 4095, 4096, 4097, 8191, 8192, 12288, 16384, 32768, 65535, 65536];
        let len = if k % 50 == 0 { rng.range(0, 20000) as usize } else if k % 50 == 1 { EDGE[(k / 50) % 16] } else { rng.range(0, 400) as usize };
        let data = rng.bytes(len);
        let salt = next_salt(&mut rng, k + 1, &psalt); let key = next_key(&mut rng, k + 1, &pkey);
        psalt = salt; pkey = key;
        let (f, g) = (cut(&mut rng, &data), cut(&mut rng, &data));
        ctx.oracle_runs += 1;
        let want = spec(&data, &salt, &key);
        let det = |what: &str| format!("{{\"what\":\"{}\",\"files\":\"{}\",\"cut1\":{:?},\"cut2\":{:?},\"salt\":\"{}\",\"key\":\"{}\"}}", what, hex(&data), f.iter().map(|x| x.len()).collect::<Vec<_>>(), g.iter().map(|x| x.len()).collect::<Vec<_>>(), hex(&salt), hex(&key));
        let r = catch(|| (login_integrity_check_windows(&f[0], &f[1], &f[2], &f[3], &f[4], &salt, &key), login_integrity_check_mac(&g[0], &g[1], &g[2], &g[3], &g[4], &salt, &key),
                          login_integrity_check_generic(&data, &salt, &key), login_integrity_check_windows(&g[0], &g[1], &g[2], &g[3], &g[4], &salt, &key)));
        match r {
            None => ctx.fail("panic", det("panic")),
            Some((w, m, gen, w2)) => {
                if w != want || m != want || gen != want || w2 != want { ctx.fail("value", det("result differs from SHA1(key | HMAC-SHA1(salt, files in order)) or depends on the split")); }
                else if len > 0 {
                    let mut d2 = data.clone(); d2[rng.below(len as u64) as usize] ^= 1 << rng.below(8);
                    let mut s2 = salt; s2[rng.below(16) as usize] ^= 1; let mut k2 = key; k2[rng.below(32) as usize] ^= 1;
                    if login_integrity_check_generic(&d2, &salt, &key) == want || login_integrity_check_generic(&data, &s2, &key) == want || login_integrity_check_generic(&data, &salt, &k2) == want { ctx.fail("binding", det("a changed file byte / salt / key gave the same hash")); }
                }
            }
        }
        if k % 16 == 0 { let s: [u8; 16] = rng.arr(); if reconnect_integrity_check(&s) != sha(&[&s, &[0u8; 20]]) { ctx.fail("reconnect_value", format!("{{\"salt\":\"{}\"}}", hex(&s))); } }
    }
}
