//! C10: Wrath server headers (4 or 5 bytes) round-trip in sequence through both client decoding paths.
use crate::c09::{client_halves, pair, server_halves, RefRc4, S2C};
use crate::ctx::*;

/// a reader that hands out at most `step` bytes per call
struct Frag<'a> { data: &'a [u8], pos: usize, step: usize }
impl<'a> Frag<'a> { fn len(&self) -> usize { self.data.len() - self.pos } }
impl<'a> std::io::Read for Frag<'a> {
    fn read(&mut self, buf: &mut [u8]) -> std::io::Result<usize> {
        let n = buf.len().min(self.step).min(self.data.len() - self.pos);
        buf[..n].copy_from_slice(&self.data[self.pos..self.pos + n]);
        self.pos += n;
        Ok(n)
    }
}
use wow_srp::wrath_header::{ClientDecrypterHalf, ServerEncrypterHalf, WrathServerAttempt};

const SIZES: [u32; 13] = [0, 1, 8, 0x7FFE, 0x7FFF, 0x8000, 0x8001, 0xFFFF, 0x10000, 0x3FFFFF, 0x400000, 0x7FFFFE, 0x7FFFFF];
const OPCODES: [u16; 5] = [0, 1, 0xFF, 0x100, 0xFFFF];
const MAX_SIZE: u32 = 0x7FFFFF;

type H = (u32, u16);

fn rec(h: H) -> [u8; 6] {
    let s = h.0.to_le_bytes();
    let o = h.1.to_le_bytes();
    [s[0], s[1], s[2], s[3], o[0], o[1]]
}
fn recs(hs: &[H]) -> Vec<u8> { hs.iter().flat_map(|h| rec(*h)).collect() }
fn hs_json(hs: &[H]) -> String {
    format!("[{}]", hs.iter().map(|h| format!("[{},{}]", h.0, h.1)).collect::<Vec<_>>().join(","))
}

/// style: 0 = only short, 1 = only long, 2 = mixed with the edge values, 3 = uniformly random in range
fn gen_header(rng: &mut Rng, style: u64) -> H {
    let size = match style {
        0 => if rng.chance(1, 3) { *rng.pick(&[0u32, 1, 8, 0x7FFE, 0x7FFF]) } else { rng.range(0, 0x7FFF) as u32 },
        1 => if rng.chance(1, 3) { *rng.pick(&[0x8000u32, 0x8001, 0xFFFF, 0x10000, 0x3FFFFF, 0x400000, 0x7FFFFE, 0x7FFFFF]) } else { rng.range(0x8000, MAX_SIZE as u64) as u32 },
        2 => match rng.below(4) { 0 | 1 => *rng.pick(&SIZES), 2 => rng.range(0, 0xFFFF) as u32, _ => rng.range(0, MAX_SIZE as u64) as u32 },
        _ => rng.range(0, MAX_SIZE as u64) as u32,
    };
    let opcode = if rng.chance(1, 2) { *rng.pick(&OPCODES) } else { rng.next() as u16 };
    (size, opcode)
}
fn gen_seq(rng: &mut Rng, n: usize) -> Vec<H> {
    let style = match rng.below(8) { 0 => 0, 1 => 1, 2 => 3, _ => 2 };
    (0..n).map(|_| gen_header(rng, style)).collect()
}
fn gen_key(rng: &mut Rng, n: usize) -> [u8; 40] {
    match n % 11 { 0 => [0u8; 40], 1 => [0xff; 40], _ => rng.arr() }
}

/// op 1 of corr/C10.v on the implementation: one fresh ServerEncrypterHalf, every record in order
fn impl_encode(key: [u8; 40], hs: &[H]) -> Option<Vec<u8>> {
    catch(|| {
        let (mut e, _) = server_halves(key);
        let mut wire = Vec::new();
        for (s, o) in hs { wire.extend_from_slice(e.encrypt_server_header(*s, *o)); }
        wire
    })
}

enum Dec { Ok(Vec<H>, usize), WireRanOut, Panicked }
/// op 2 of corr/C10.v on the implementation (decode_two_step): per header read 4 bytes, attempt; on
/// AdditionalByteRequired read one more byte and call decrypt_large_server_header
fn impl_two_step(key: [u8; 40], wire: &[u8], count: usize) -> Dec {
    let r = catch(|| {
        let (_, mut d) = client_halves(key);
        let mut pos = 0usize;
        let mut out = Vec::new();
        for _ in 0..count {
            if wire.len() - pos < 4 { return None; }
            let buf = [wire[pos], wire[pos + 1], wire[pos + 2], wire[pos + 3]];
            pos += 4;
            match d.attempt_decrypt_server_header(buf) {
                WrathServerAttempt::Header(h) => out.push((h.size, h.opcode)),
                WrathServerAttempt::AdditionalByteRequired => {
                    if wire.len() - pos < 1 { return None; }
                    let h = d.decrypt_large_server_header(wire[pos]);
                    pos += 1;
                    out.push((h.size, h.opcode));
                }
            }
        }
        Some((out, wire.len() - pos))
    });
    match r { None => Dec::Panicked, Some(None) => Dec::WireRanOut, Some(Some((o, rest))) => Dec::Ok(o, rest) }
}

/// op 3 of corr/C10.v on the implementation (run_script)
fn impl_script(key: [u8; 40], script: &[u8]) -> Option<Vec<u8>> {
    catch(|| {
        let (_, mut d) = client_halves(key);
        let mut out = Vec::new();
        let mut s = script;
        loop {
            match s {
                [0, a, b, c, e, rest @ ..] => {
                    match d.attempt_decrypt_server_header([*a, *b, *c, *e]) {
                        WrathServerAttempt::Header(h) => { out.push(0); out.extend_from_slice(&rec((h.size, h.opcode))); }
                        WrathServerAttempt::AdditionalByteRequired => out.push(1),
                    }
                    s = rest;
                }
                [1, b, rest @ ..] => {
                    let h = d.decrypt_large_server_header(*b);
                    out.push(2);
                    out.extend_from_slice(&rec((h.size, h.opcode)));
                    s = rest;
                }
                _ => break,
            }
        }
        out
    })
}

/// the script a well-behaved client runs on this wire for these headers
fn proper_script(wire: &[u8], hs: &[H]) -> Vec<u8> {
    let mut s = Vec::new();
    let mut pos = 0;
    for (size, _) in hs {
        if pos + 4 > wire.len() { break; }
        s.push(0);
        s.extend_from_slice(&wire[pos..pos + 4]);
        pos += 4;
        if *size > 0x7FFF && pos < wire.len() { s.push(1); s.push(wire[pos]); pos += 1; }
    }
    s
}

fn correspondence(ctx: &mut Ctx) {
    let quick = ctx.quick();
    let mut rng = ctx.rng("corr");
    let n_seq = if quick { 100 } else { 600 };
    for k in 0..n_seq {
        let key = gen_key(&mut rng, k);
        let n = match k { 0 => 0, 1 => 1, 2 => 200, 3 => 13, _ => match rng.below(5) { 0 => rng.range(100, 200), 1 => rng.range(20, 100), _ => rng.range(1, 20) } } as usize;
        let mut hs: Vec<H> = if k == 3 { SIZES.iter().enumerate().map(|(i, s)| (*s, OPCODES[i % 5])).collect() } else { gen_seq(&mut rng, n) };
        let oversize = k % 17 == 16;
        if oversize {
            // outside the documented range; the model covers it (C10_oversize_wraps)
            let at = rng.below(hs.len() as u64 + 1) as usize;
            hs.insert(at.min(hs.len()), (*rng.pick(&[0x800000u32, 0x800005, 0xFFFFFF, 0x1000000, 0xFFFFFFFF]), rng.next() as u16));
        }
        let rs = recs(&hs);
        // ---- op 1
        let wire = impl_encode(key, &hs);
        let label = if hs.is_empty() { "trivial_no_headers" } else if oversize { "outside-domain:encode_seq_with_oversize (size > 0x7FFFFF)" } else { "encode_seq" };
        match &wire {
            Some(w) => ctx.case(1, label, &[&key, &rs], &[&[0], w]),
            None => {
                ctx.case(1, "panic", &[&key, &rs], &[&[2]]);
                ctx.fail("panic", format!("{{\"op\":1,\"what\":\"encrypt_server_header\",\"key\":\"{}\",\"headers\":{}}}", hex(&key), hs_json(&hs)));
            }
        }
        ctx.count_n("headers_encoded", hs.len() as u64);
        ctx.count_n("headers_long", hs.iter().filter(|h| h.0 > 0x7FFF).count() as u64);
        if k == 5 { ctx.sample(format!("key={} headers={}", hex(&key), hs_json(&hs))); }
        let wire = match wire { Some(w) => w, None => continue };

        // ---- op 2: the wire as emitted and variations of it
        let mut variants: Vec<(Vec<u8>, usize, &str)> = vec![(wire.clone(), hs.len(), "two_step_exact")];
        match k % 4 {
            0 => { let mut w = wire.clone(); let extra = rng.range(1, 9) as usize; w.extend(rng.bytes(extra)); variants.push((w, hs.len(), "two_step_trailing_bytes")); }
            1 => if !wire.is_empty() { let cut = rng.below(wire.len() as u64) as usize; variants.push((wire[..cut].to_vec(), hs.len(), "two_step_truncated_wire")); },
            2 => if !hs.is_empty() { variants.push((wire.clone(), rng.below(hs.len() as u64) as usize, "two_step_smaller_count")); },
            _ => { let n = rng.range(0, 60) as usize; let w = rng.bytes(n); variants.push((w, rng.range(0, 14) as usize, "two_step_random_bytes")); }
        }
        if k % 9 == 0 && !wire.is_empty() {
            // the wire with its last byte missing (a long last header then lacks its fifth byte)
            variants.push((wire[..wire.len() - 1].to_vec(), hs.len(), "two_step_last_byte_missing"));
        }
        for (w, count, label) in variants {
            let cnt = (count as u32).to_le_bytes();
            let label = if count == 0 { "trivial_count_0" } else { label };
            match impl_two_step(key, &w, count) {
                Dec::Ok(o, rest) => {
                    ctx.case(2, label, &[&key, &w, &cnt], &[&[0], &recs(&o), &(rest as u32).to_le_bytes()]);
                    if label == "two_step_exact" && !oversize && (o != hs || rest != 0) {
                        ctx.fail("sequence", format!("{{\"what\":\"two-step decoding of the emitted wire does not return the headers / leaves bytes\",\"key\":\"{}\",\"headers\":{},\"wire\":\"{}\",\"decoded\":{},\"unread\":{}}}", hex(&key), hs_json(&hs), hex(&w), hs_json(&o), rest));
                    }
                }
                Dec::WireRanOut => ctx.case(2, label, &[&key, &w, &cnt], &[&[1, 1]]),
                Dec::Panicked => {
                    ctx.case(2, "panic", &[&key, &w, &cnt], &[&[2]]);
                    ctx.fail("panic", format!("{{\"op\":2,\"what\":\"attempt_decrypt_server_header / decrypt_large_server_header\",\"key\":\"{}\",\"wire\":\"{}\",\"count\":{}}}", hex(&key), hex(&w), count));
                }
            }
        }

        // ---- op 3: scripts
        let mut scripts: Vec<(Vec<u8>, &str)> = Vec::new();
        match k % 5 {
            0 => scripts.push((proper_script(&wire, &hs), "script_proper")),
            1 => { // decrypt_large_server_header without any attempt, then the proper script
                let mut s = vec![1u8, rng.byte()];
                if rng.chance(1, 2) { s.push(1); s.push(rng.byte()); }
                s.extend(proper_script(&wire, &hs));
                scripts.push((s, "script_large_without_attempt"));
            }
            2 => { // attempts on arbitrary bytes, never followed by the large call
                let n = rng.range(1, 40);
                let mut s = Vec::new();
                for _ in 0..n { s.push(0); s.extend(rng.bytes(4)); }
                scripts.push((s, "script_attempts_on_arbitrary_bytes"));
            }
            3 => { // arbitrary interleaving
                let n = rng.range(1, 60);
                let mut s = Vec::new();
                for _ in 0..n { if rng.chance(1, 2) { s.push(0); s.extend(rng.bytes(4)); } else { s.push(1); s.push(rng.byte()); } }
                scripts.push((s, "script_random_interleaving"));
            }
            _ => { // the proper script with a large call doubled or dropped somewhere
                let p = proper_script(&wire, &hs);
                let mut s = Vec::new();
                let mut i = 0;
                while i < p.len() {
                    if p[i] == 0 { s.extend_from_slice(&p[i..(i + 5).min(p.len())]); i += 5; }
                    else { match rng.below(4) { 0 => {}, 1 => { s.extend_from_slice(&p[i..i + 2]); s.extend_from_slice(&p[i..i + 2]); } _ => s.extend_from_slice(&p[i..i + 2]) } i += 2; }
                }
                scripts.push((s, "script_large_doubled_or_dropped"));
            }
        }
        if k % 13 == 0 { scripts.push((vec![0, 1, 2, 3, 4, 1, 9, 7, 0, 0, 0, 0], "script_ends_at_unknown_tag")); }
        if k % 13 == 1 { scripts.push((vec![1, 0x55, 0, 1, 2, 3], "script_ends_at_truncated_record")); }
        for (s, label) in scripts {
            let label = if s.is_empty() { "trivial_empty_script" } else { label };
            match impl_script(key, &s) {
                Some(o) => ctx.case(3, label, &[&key, &s], &[&[0], &o]),
                None => {
                    ctx.case(3, "panic", &[&key, &s], &[&[2]]);
                    ctx.fail("panic", format!("{{\"op\":3,\"what\":\"client decrypter script (0 xx xx xx xx = attempt, 1 xx = decrypt_large)\",\"key\":\"{}\",\"script\":\"{}\"}}", hex(&key), hex(&s)));
                }
            }
        }
    }
    let shipped: usize = ctx.cases.iter().map(|c| c.ins.iter().chain(c.outs.iter()).map(|x| x.len()).sum::<usize>()).sum();
    ctx.count_n("shipped_bytes", shipped as u64);
}

// ------------------------------------------------------------------ implementation-only oracles

/// what the property says the plaintext header is
fn expected_plain(size: u32, opcode: u16) -> ([u8; 5], usize) {
    if size <= 0x7FFF {
        ([(size >> 8) as u8, size as u8, opcode as u8, (opcode >> 8) as u8, 0], 4)
    } else {
        ([0x80 | (size >> 16) as u8, (size >> 8) as u8, size as u8, opcode as u8, (opcode >> 8) as u8], 5)
    }
}

/// One connection: the real server encrypter, two real client decrypters (one per decoding path)
/// and the independent keystream of the server-to-client direction.
struct Conn { key: [u8; 40], enc: ServerEncrypterHalf, rd: ClientDecrypterHalf, two: ClientDecrypterHalf, ks: RefRc4, emitted: u64 }
impl Conn {
    fn new(key: [u8; 40]) -> Option<Conn> {
        catch(|| {
            let (c1, s) = pair(key);
            let (enc, _) = s.split();
            let (_, rd) = c1.split();
            let (_, two) = client_halves(key);
            Conn { key, enc, rd, two, ks: RefRc4::wrath(&S2C, &key), emitted: 0 }
        })
    }
    /// encode one header and decode it through both paths; Err = (kind, description)
    fn step(&mut self, size: u32, opcode: u16) -> Result<(), (&'static str, String)> {
        let (enc, rd, two) = (&mut self.enc, &mut self.rd, &mut self.two);
        let r = catch(|| {
            let w = enc.encrypt_server_header(size, opcode);
            let mut wire = [0u8; 8];
            let n = w.len().min(8);
            wire[..n].copy_from_slice(&w[..n]);
            let wlen = w.len();
            // path A: read-based call on a reader holding the header followed by three more bytes
            let mut buf = [0xA5u8; 11];
            buf[..n].copy_from_slice(&wire[..n]);
            let total = n + 3;
            let mut reader: &[u8] = &buf[..total];
            let a = rd.read_and_decrypt_server_header(&mut reader).map(|h| (h.size, h.opcode)).map_err(|e| e.to_string());
            let consumed_a = total - reader.len();
            // path B: attempt on the first four bytes, one more byte on request
            let (b, consumed_b) = match two.attempt_decrypt_server_header([wire[0], wire[1], wire[2], wire[3]]) {
                WrathServerAttempt::Header(h) => ((h.size, h.opcode), 4usize),
                WrathServerAttempt::AdditionalByteRequired => { let h = two.decrypt_large_server_header(wire[4]); ((h.size, h.opcode), 5usize) }
            };
            (wire, wlen, a, consumed_a, b, consumed_b)
        });
        let (wire, wlen, a, consumed_a, b, consumed_b) = match r { Some(x) => x, None => return Err(("panic", "panic in encrypt_server_header or a client decoding call".to_string())) };
        let (plain, plen) = expected_plain(size, opcode);
        let long = size > 0x7FFF;
        if wlen != plen { return Err(("header_length", format!("emitted {} bytes, expected {}", wlen, plen))); }
        let mut got = [0u8; 5];
        for i in 0..wlen { got[i] = wire[i] ^ self.ks.next(); }
        self.emitted += wlen as u64;
        if (got[0] & 0x80 != 0) != long { return Err(("marker", format!("first plaintext byte {:02x}: 0x80 marker must be set iff the header is long; wire {}", got[0], hex(&wire[..wlen])))); }
        if got[..wlen] != plain[..plen] { return Err(("layout", format!("wire {} xor independent keystream = {}, expected plaintext {}", hex(&wire[..wlen]), hex(&got[..wlen]), hex(&plain[..plen])))); }
        match a {
            Err(e) => return Err(("read_path", format!("read_and_decrypt_server_header failed: {}", e))),
            Ok(h) => {
                if h != (size, opcode) { return Err(("read_path", format!("read_and_decrypt_server_header returned size {} opcode {}", h.0, h.1))); }
                if consumed_a != wlen { return Err(("read_path_consumed", format!("read_and_decrypt_server_header consumed {} bytes of a {}-byte header", consumed_a, wlen))); }
            }
        }
        if b != (size, opcode) { return Err(("two_step_path", format!("attempt/decrypt_large returned size {} opcode {}", b.0, b.1))); }
        if consumed_b != wlen { return Err(("two_step_consumed", format!("two-step decoding consumed {} bytes of a {}-byte header", consumed_b, wlen))); }
        Ok(())
    }
}

/// the three opcodes used for a size in the sweeps: a function of the size alone so that a block can be replayed
fn sweep_opcodes(size: u32) -> [u16; 3] {
    let x = (size as u64).wrapping_mul(0x9E3779B97F4A7C15);
    [OPCODES[(size % 5) as usize], (x >> 40) as u16, !((x >> 20) as u16)]
}
const OPC_RULE: &str = "x = size*0x9E3779B97F4A7C15 mod 2^64; opcodes = [ [0,1,0xFF,0x100,0xFFFF][size%5], (x>>40) as u16, !((x>>20) as u16) ], in this order";

/// does the failure reproduce on a fresh connection with this single header?
fn fresh_reproduces(key: [u8; 40], size: u32, opcode: u16) -> bool {
    match Conn::new(key) { Some(mut c) => c.step(size, opcode).is_err(), None => true }
}

fn sweep_block(ctx: &mut Ctx, rng: &mut Rng, sizes: &[u32], what: &str) {
    let key: [u8; 40] = rng.arr();
    let mut conn = match Conn::new(key) {
        Some(c) => c,
        None => { ctx.fail("panic", format!("{{\"what\":\"creating the connection objects\",\"key\":\"{}\"}}", hex(&key))); return; }
    };
    let mut done = 0u64;
    'outer: for (i, size) in sizes.iter().enumerate() {
        for opcode in sweep_opcodes(*size) {
            done += 1;
            if let Err((kind, msg)) = conn.step(*size, opcode) {
                let before = if sizes.len() > 1 && sizes.windows(2).all(|w| w[1] == w[0] + 1) {
                    format!("{{\"sizes_from\":{},\"sizes_to\":{},\"opcode_rule\":{}}}", sizes[0], size, jstr(OPC_RULE))
                } else {
                    format!("{{\"sizes\":{:?},\"opcode_rule\":{}}}", &sizes[..=i], jstr(OPC_RULE))
                };
                ctx.fail(kind, format!("{{\"what\":{},\"part\":\"{}\",\"key\":\"{}\",\"size\":{},\"opcode\":{},\"wire_bytes_emitted_before\":{},\"connection_history\":{},\"reproduces_on_fresh_connection_with_this_header_alone\":{}}}",
                                       jstr(&msg), what, hex(&key), size, opcode, conn.emitted, before, fresh_reproduces(key, *size, opcode)));
                // the three objects may be out of step now: leave this connection
                break 'outer;
            }
        }
    }
    ctx.oracle_runs += done;
    ctx.count_n(&format!("sweep_headers:{}", what), done);
}

fn sweeps(ctx: &mut Ctx) {
    let quick = ctx.quick();
    let mut rng = ctx.rng("sweep");
    const BLOCK: u32 = 4096;
    let ranges: Vec<(u32, u32)> = if quick { vec![(0, 0x1FFFF), (0x7F0000, MAX_SIZE)] } else { vec![(0, MAX_SIZE)] };
    for (lo, hi) in &ranges {
        let mut s = *lo;
        while s <= *hi {
            let e = (s + BLOCK - 1).min(*hi);
            let sizes: Vec<u32> = (s..=e).collect();
            sweep_block(ctx, &mut rng, &sizes, "every_size");
            s = e + 1;
        }
        ctx.exhaustive.push(format!("every size in {:#x}..={:#x} x 3 opcodes: emitted length, plaintext layout and marker against the independent keystream, both client decoding paths, consumed byte counts (connections of {} sizes each, fresh random session key per connection)", lo, hi, BLOCK));
    }
    // the threshold on a fresh connection for many keys, and random sizes
    let n = if quick { 200 } else { 2000 };
    for _ in 0..n {
        let mut sizes: Vec<u32> = SIZES.to_vec();
        for _ in 0..243 { sizes.push(rng.range(0, MAX_SIZE as u64) as u32); }
        let at = rng.below(13) as usize;
        sizes.swap(0, at);
        sweep_block(ctx, &mut rng, &sizes, "edge_and_random_sizes");
    }
    // every opcode, for a short and a long size
    let all: Vec<u16> = (0..=0xFFFFu16).collect();
    for size in [if quick { 0x7FFFu32 } else { 0x7FFE }, 0x8000, MAX_SIZE] {
        let key: [u8; 40] = rng.arr();
        if let Some(mut conn) = Conn::new(key) {
            for op in &all {
                ctx.oracle_runs += 1;
                if let Err((kind, msg)) = conn.step(size, *op) {
                    ctx.fail(kind, format!("{{\"what\":{},\"part\":\"every_opcode\",\"key\":\"{}\",\"size\":{},\"opcode\":{},\"connection_history\":\"opcodes 0..opcode-1 with the same size\",\"reproduces_on_fresh_connection_with_this_header_alone\":{}}}",
                                           jstr(&msg), hex(&key), size, op, fresh_reproduces(key, size, *op)));
                    break;
                }
            }
        }
        ctx.exhaustive.push(format!("every opcode 0..=0xFFFF with size {:#x} on one connection", size));
    }
}

/// long mixed sequences: the whole wire first, then decoded header after header through both paths
fn sequences(ctx: &mut Ctx) {
    let quick = ctx.quick();
    let mut rng = ctx.rng("seq");
    let n = if quick { 400 } else { 4000 };
    for k in 0..n {
        let key = gen_key(&mut rng, k);
        let len = match k % 10 { 0 => rng.range(1000, 2000), 1 | 2 => rng.range(100, 1000), _ => rng.range(0, 100) } as usize;
        let hs = gen_seq(&mut rng, len);
        let ntrail = rng.below(7) as usize;
        let trailing = rng.bytes(ntrail);
        let mode = k % 4; // 0: halves, 1: facades, 2: Write wrapper on the half, 3: Write wrapper on the facade
        ctx.oracle_runs += 1;
        ctx.count_n("sequence_headers", hs.len() as u64);
        let r = catch(|| {
            let (mut client, mut server) = pair(key);
            let mut wire: Vec<u8> = Vec::new();
            let mut lens: Vec<usize> = Vec::new();
            match mode {
                0 => { let (mut e, _) = server.split(); for (s, o) in &hs { let w = e.encrypt_server_header(*s, *o); lens.push(w.len()); wire.extend_from_slice(w); } }
                1 => for (s, o) in &hs { let w = server.encrypt_server_header(*s, *o); lens.push(w.len()); wire.extend_from_slice(w); },
                2 => { let (mut e, _) = server.split(); for (s, o) in &hs { let b = wire.len(); e.write_encrypted_server_header(&mut wire, *s, *o).unwrap(); lens.push(wire.len() - b); } }
                _ => for (s, o) in &hs { let b = wire.len(); server.write_encrypted_server_header(&mut wire, *s, *o).unwrap(); lens.push(wire.len() - b); },
            }
            let emitted = wire.len();
            wire.extend_from_slice(&trailing);
            // path A: one reader over everything, delivering at most `step` bytes per read call
            // (short reads are legal for a transport; 64 = everything at once)
            let mut reader = Frag { data: &wire, pos: 0, step: [1usize, 2, 3, 64][(k as usize / 4) % 4] };
            let mut a: Vec<(Result<H, String>, usize)> = Vec::new();
            let (_, mut rd_half) = client_halves(key);
            for _ in 0..hs.len() {
                let before = reader.len();
                let h = if mode % 2 == 1 { client.read_and_decrypt_server_header(&mut reader) } else { rd_half.read_and_decrypt_server_header(&mut reader) };
                let h = h.map(|h| (h.size, h.opcode)).map_err(|e| e.to_string());
                let stop = h.is_err();
                a.push((h, before - reader.len()));
                if stop { break; }
            }
            let left_a = reader.len();
            // path B: two-step
            let (mut c2, _) = pair(key);
            let (_, mut two_half) = client_halves(key);
            let mut pos = 0usize;
            let mut b: Vec<(H, usize)> = Vec::new();
            for _ in 0..hs.len() {
                if wire.len() - pos < 4 { break; }
                let buf = [wire[pos], wire[pos + 1], wire[pos + 2], wire[pos + 3]];
                let att = if mode % 2 == 1 { c2.attempt_decrypt_server_header(buf) } else { two_half.attempt_decrypt_server_header(buf) };
                match att {
                    WrathServerAttempt::Header(h) => { b.push(((h.size, h.opcode), 4)); pos += 4; }
                    WrathServerAttempt::AdditionalByteRequired => {
                        if wire.len() - pos < 5 { break; }
                        let h = if mode % 2 == 1 { c2.decrypt_large_server_header(wire[pos + 4]) } else { two_half.decrypt_large_server_header(wire[pos + 4]) };
                        b.push(((h.size, h.opcode), 5)); pos += 5;
                    }
                }
            }
            // path C: ONE decrypter, each header through a path chosen at random (read-based or two-step)
            let (mut c3, _) = pair(key);
            let (_, mut mix_half) = client_halves(key);
            let mut mpos = 0usize;
            let mut mix: Vec<(H, usize, bool)> = Vec::new();
            let mut choice = key[0] as u64 ^ (k as u64) << 8 | 1;
            for _ in 0..hs.len() {
                choice = choice.wrapping_mul(6364136223846793005).wrapping_add(1442695040888963407);
                let by_read = (choice >> 33) & 1 == 1;
                if by_read {
                    let mut rd = std::io::Cursor::new(&wire[mpos..]);
                    let h = if mode % 2 == 1 { c3.read_and_decrypt_server_header(&mut rd) } else { mix_half.read_and_decrypt_server_header(&mut rd) };
                    match h { Ok(h) => { let n = rd.position() as usize; mix.push(((h.size, h.opcode), n, true)); mpos += n; } Err(_) => break }
                } else {
                    if wire.len() - mpos < 4 { break; }
                    let buf = [wire[mpos], wire[mpos + 1], wire[mpos + 2], wire[mpos + 3]];
                    let att = if mode % 2 == 1 { c3.attempt_decrypt_server_header(buf) } else { mix_half.attempt_decrypt_server_header(buf) };
                    match att {
                        WrathServerAttempt::Header(h) => { mix.push(((h.size, h.opcode), 4, false)); mpos += 4; }
                        WrathServerAttempt::AdditionalByteRequired => {
                            if wire.len() - mpos < 5 { break; }
                            let h = if mode % 2 == 1 { c3.decrypt_large_server_header(wire[mpos + 4]) } else { mix_half.decrypt_large_server_header(wire[mpos + 4]) };
                            mix.push(((h.size, h.opcode), 5, false)); mpos += 5;
                        }
                    }
                }
            }
            (wire, emitted, lens, a, left_a, b, pos, mix)
        });
        let det = |what: &str, idx: usize| format!("{{\"what\":{},\"key\":\"{}\",\"api\":\"{}\",\"first_bad_index\":{},\"headers\":{},\"trailing\":\"{}\"}}",
            jstr(what), hex(&key), ["halves", "facades", "write wrapper (half) + halves", "write wrapper (facade) + facades"][mode], idx, hs_json(&hs), hex(&trailing));
        let (wire, emitted, lens, a, left_a, b, pos_b, mix) = match r { Some(x) => x, None => { ctx.fail("panic", det("panic while encoding / decoding a header sequence", 0)); continue; } };
        // emitted lengths and layout against the independent keystream
        let mut ks = RefRc4::wrath(&S2C, &key);
        let mut p = 0usize;
        let mut bad = false;
        for (i, (s, o)) in hs.iter().enumerate() {
            let (plain, plen) = expected_plain(*s, *o);
            if lens[i] != plen { ctx.fail("header_length", det(&format!("header {} was emitted as {} bytes, expected {}", i, lens[i], plen), i)); bad = true; break; }
            let got: Vec<u8> = wire[p..p + plen].iter().map(|x| x ^ ks.next()).collect();
            if got[..] != plain[..plen] { ctx.fail("layout", det(&format!("header {}: wire xor independent keystream = {}, expected {}", i, hex(&got), hex(&plain[..plen])), i)); bad = true; break; }
            p += plen;
        }
        if bad { continue; }
        if p != emitted { ctx.fail("header_length", det("total emitted length differs from the sum of header lengths", 0)); continue; }
        for (i, (s, o)) in hs.iter().enumerate() {
            let plen = if *s <= 0x7FFF { 4 } else { 5 };
            match a.get(i) {
                Some((Ok(h), n)) if *h == (*s, *o) && *n == plen => {}
                Some((Ok(h), n)) => { ctx.fail("read_path", det(&format!("read path, header {}: got size {} opcode {} consuming {} bytes", i, h.0, h.1, n), i)); bad = true; }
                Some((Err(e), _)) => { ctx.fail("read_path", det(&format!("read path, header {}: error {}", i, e), i)); bad = true; }
                None => { ctx.fail("read_path", det(&format!("read path stopped before header {}", i), i)); bad = true; }
            }
            if bad { break; }
            match b.get(i) {
                Some((h, n)) if *h == (*s, *o) && *n == plen => {}
                Some((h, n)) => { ctx.fail("two_step_path", det(&format!("two-step path, header {}: got size {} opcode {} consuming {} bytes", i, h.0, h.1, n), i)); bad = true; }
                None => { ctx.fail("two_step_path", det(&format!("two-step path stopped before header {}", i), i)); bad = true; }
            }
            if bad { break; }
        }
        if bad { continue; }
        for (i, (s, o)) in hs.iter().enumerate() {
            let plen = if *s <= 0x7FFF { 4 } else { 5 };
            match mix.get(i) {
                Some((h, n, _)) if *h == (*s, *o) && *n == plen => {}
                Some((h, n, by_read)) => { ctx.fail("mixed_paths", det(&format!("one decrypter, decoding paths mixed: header {} through the {} path gave size {} opcode {} consuming {} bytes; paths so far (true = read-based): {:?}", i, if *by_read { "read-based" } else { "two-step" }, h.0, h.1, n, mix.iter().take(i + 1).map(|m| m.2).collect::<Vec<_>>()), i)); bad = true; }
                None => { ctx.fail("mixed_paths", det(&format!("one decrypter, decoding paths mixed: stopped before header {}", i), i)); bad = true; }
            }
            if bad { break; }
        }
        if bad { continue; }
        if left_a != trailing.len() || pos_b != emitted {
            ctx.fail("consumed", det(&format!("after all headers the read path left {} bytes (expected {}), the two-step path consumed {} (emitted {})", left_a, trailing.len(), pos_b, emitted), hs.len()));
        }
    }
}

/// known answers: the repository's real-capture vectors and its long-header vector, through the
/// independent keystream too (validates the S2C constant and the drop of the reference)
fn known_answers(ctx: &mut Ctx) {
    let key: [u8; 40] = [1, 51, 81, 113, 146, 209, 181, 133, 131, 129, 50, 206, 122, 228, 208, 115, 52, 15, 132, 54, 189, 17, 178, 157, 178, 3, 35, 186,
                         202, 151, 226, 58, 162, 188, 65, 174, 60, 18, 152, 7];
    for (hs, want) in [(vec![(13u32, 0x1EEu16), (277, 0x3B), (19, 0x38B)], "17aad44c1a9c7c1010fb6ea8"), (vec![(0x8008, 0x1EE), (8, 0x1EE)], "972732a31a894ffe11")] {
        ctx.oracle_runs += 1;
        let mut ks = RefRc4::wrath(&S2C, &key);
        let mut reference = Vec::new();
        for (s, o) in &hs { let (p, n) = expected_plain(*s, *o); for b in &p[..n] { reference.push(b ^ ks.next()); } }
        if hex(&reference) != want { ctx.fail("oracle_selfcheck", format!("{{\"what\":\"independent keystream misses the captured server headers\",\"got\":\"{}\",\"want\":\"{}\"}}", hex(&reference), want)); }
        match impl_encode(key, &hs) {
            None => ctx.fail("panic", format!("{{\"what\":\"captured headers\",\"key\":\"{}\",\"headers\":{}}}", hex(&key), hs_json(&hs))),
            Some(w) => if hex(&w) != want { ctx.fail("capture", format!("{{\"key\":\"{}\",\"headers\":{},\"got\":\"{}\",\"want\":\"{}\"}}", hex(&key), hs_json(&hs), hex(&w), want)); }
        }
    }
}

pub fn run(ctx: &mut Ctx) {
    known_answers(ctx);
    correspondence(ctx);
    sweeps(ctx);
    sequences(ctx);
    ctx.notes.push("independent oracle: the plaintext layout written out from the property text, XORed with a textbook RC4-drop1024 keyed by a hand-written HMAC-SHA1(S2C constant, session key); validated on the repository's captured 3.3.5 headers at the start of every run".to_string());
}
