#!/usr/bin/env python3
"""A small translator from a subset of Rust statements and expressions to Gallina over N.

It covers what the byte-level cores of wow_srp are written in: `let` bindings, assignments through
`*x` / `x` / `self.f`, compound assignments, `if`/`else` with comparison conditions, `return`/tail
expressions, unsigned integer arithmetic with Rust's overflow rules, wrapping_* methods, bit
operations, casts with `as`, `.into()`, array indexing, `.swap(a, b)` on arrays, calls to single
expression helper methods of the same impl (inlined), named constants.

Semantics rendered (the stricter DEBUG profile; a theorem that excludes `None` therefore covers the
release profile too, where the same operations wrap instead of panicking):
  a + b, a - b, a * b        None (panic) when the mathematical result leaves the type
  a / b, a % b               None when b = 0
  a[i], a.swap(i, j)         None when an index is out of range (any profile)
  wrapping_add/sub/mul       modulo 2^bits
  e as T                     modulo 2^bits(T) when narrowing, identity when widening
  ^ & |                      N.lxor N.land N.lor
Everything is a term of type `option R`; a Rust value of integer type is an `N`, an array or slice
is a `list N`.

Anything outside the subset raises Untranslatable: the caller reports the construct and the
obligations that depend on the translation fail (the tie no longer checks).
"""
import re

class Untranslatable(Exception):
    pass

BITS = {"u8": 8, "u16": 16, "u32": 32, "u64": 64, "usize": 64, "u128": 128}

STRING = re.compile(r'\s*"((?:\\.|[^"\\])*)"')
TOKEN = re.compile(r"\s*(?:(0x[0-9a-fA-F_]+(?:_?(?:u8|u16|u32|u64|usize|u128))?|\d[\d_]*(?:_?(?:u8|u16|u32|u64|usize|u128))?)|([A-Za-z_]\w*)|(<<=|>>=|\.\.=|==|!=|<=|>=|=>|&&|\|\||<<|>>|\+=|-=|\*=|/=|%=|\^=|&=|\|=|::|->|\.\.|[-+*/%^&|!<>=(){}\[\];:,.#?]))")

def tokenize(src):
    out, i = [], 0
    src = strip_comments(src)
    while i < len(src):
        ms = STRING.match(src, i)
        if ms:
            out.append(("str", ms.group(1))); i = ms.end(); continue
        m = TOKEN.match(src, i)
        if not m:
            if src[i:].strip() == "": break
            raise Untranslatable("cannot tokenize at: %r" % src[i:i + 30])
        if m.group(1): out.append(("num", m.group(1)))
        elif m.group(2): out.append(("id", m.group(2)))
        else: out.append(("op", m.group(3)))
        i = m.end()
    return out

# ------------------------------------------------------------------------------------------ parser
class Parser:
    def __init__(self, toks):
        self.t, self.i = toks, 0
        self.nostruct = 0      # >0 while parsing an `if` / `while` condition: `Name {` is not a struct literal there
    def peek(self, k=0):
        return self.t[self.i + k] if self.i + k < len(self.t) else ("eof", "")
    def next(self):
        x = self.peek(); self.i += 1; return x
    def accept(self, val):
        if self.peek()[1] == val and self.peek()[0] in ("op", "id"):
            self.i += 1; return True
        return False
    def expect(self, val):
        if not self.accept(val):
            raise Untranslatable("expected %r, found %r" % (val, self.peek()[1]))

    # block := { stmt* [expr] }
    def block(self):
        self.expect("{")
        stmts = []
        while not self.accept("}"):
            stmts.append(self.stmt())
        return stmts

    def type_(self):
        # consume a type, return its text
        depth, out = 0, []
        while True:
            k, v = self.peek()
            if k == "eof": break
            if v in ("[", "(", "<"): depth += 1
            if v in ("]", ")", ">"):
                if depth == 0: break
                depth -= 1
            if depth == 0 and v in ("=", ";", ",", "{"): break
            out.append(v); self.i += 1
        return " ".join(out)

    def stmt(self):
        while self.peek() == ("op", "#") and self.peek(1) == ("op", "["):      # attributes on statements
            self.next(); depth = 0
            while True:
                tk = self.next()[1]
                if tk == "[": depth += 1
                if tk == "]":
                    depth -= 1
                    if depth == 0: break
        k, v = self.peek()
        if v == "fn" and self.peek(1)[0] == "id":                # a nested fn item: skipped here, translated as its own target
            self.next(); name = self.next()[1]
            depth = 0
            while True:
                tk = self.next()
                if tk[0] == "eof": raise Untranslatable("unterminated nested fn")
                if tk[1] == "{": depth += 1
                if tk[1] == "}":
                    depth -= 1
                    if depth == 0: break
            return ("nested_fn", name)
        if v == "const" and self.peek(1)[0] == "id" and self.peek(2) == ("op", ":"):      # a local constant is a let
            self.next(); name = self.next()[1]; self.expect(":"); ty = self.type_()
            self.expect("="); e = self.expr(); self.expect(";")
            return ("let", name, ty, e)
        if v == "let" and self.peek(1) == ("op", "("):          # let (a, _) = e;
            self.next(); self.next(); names = []
            while not self.accept(")"):
                self.accept("mut"); names.append(self.next()[1]); self.accept(",")
            self.expect("="); e = self.expr(); self.expect(";")
            return ("let_tuple", names, e)
        if v == "let":
            self.next(); self.accept("mut")
            name = self.next()[1]
            ty = None
            if self.accept(":"): ty = self.type_()
            self.expect("=")
            e = self.expr()
            if self.peek()[1] in ("..", "..="):
                incl = self.next()[1] == "..="
                e = ("range", e, self.expr(), incl)
            self.expect(";")
            return ("let", name, ty, e)
        if v == "if":
            return ("expr", self.if_())
        if v == "for":
            self.next()
            if self.accept("("):
                pat = []
                while not self.accept(")"):
                    pat.append(self.next()[1]); self.accept(",")
            else:
                pat = [self.next()[1]]
            self.expect("in")
            self.nostruct += 1
            it = self.expr(no_struct=True)
            if self.peek()[1] in ("..", "..="):
                incl = self.next()[1] == "..="
                hi = self.expr(no_struct=True)
                it = ("range", it, hi, incl)
            self.nostruct -= 1
            return ("for", pat, it, self.block())
        if v == "while":
            self.next()
            self.nostruct += 1
            c = self.expr(no_struct=True)
            self.nostruct -= 1
            return ("while", c, self.block())
        if v == "return":
            self.next()
            e = self.expr()
            self.accept(";")
            return ("return", e)
        e = self.expr()
        k2, v2 = self.peek()
        if v2 == "=":
            self.next(); r = self.expr(); self.expect(";")
            return ("assign", e, r)
        if v2 in ("+=", "-=", "*=", "/=", "%=", "^=", "&=", "|=", "<<=", ">>="):
            self.next(); r = self.expr(); self.expect(";")
            return ("assign", e, ("bin", v2[:-1], e, r))
        if self.accept(";"):
            return ("expr_stmt", e)
        return ("tail", e)

    def if_(self):
        self.expect("if")
        if self.peek()[1] == "let":                              # if let Some(x) = e { A } else { B }
            self.next()
            if self.next()[1] != "Some": raise Untranslatable("if let of another pattern")
            self.expect("("); name = self.next()[1]; self.expect(")"); self.expect("=")
            self.nostruct += 1
            scrut = self.expr(no_struct=True)
            self.nostruct -= 1
            th = self.block()
            self.expect("else")
            el = self.block()
            return ("iflet", name, scrut, th, el)
        self.nostruct += 1
        c = self.expr(no_struct=True)
        self.nostruct -= 1
        th = self.block()
        el = None
        if self.accept("else"):
            if self.peek()[1] == "if": el = [("tail", self.if_())]
            else: el = self.block()
        return ("if", c, th, el)

    PREC = [("||",), ("&&",), ("==", "!=", "<", ">", "<=", ">="), ("|",), ("^",), ("&",), ("<<", ">>"), ("+", "-"), ("*", "/", "%")]

    def expr(self, level=0, no_struct=False):
        if level == len(self.PREC):
            return self.cast()
        left = self.expr(level + 1, no_struct)
        while self.peek()[0] == "op" and self.peek()[1] in self.PREC[level]:
            op = self.next()[1]
            right = self.expr(level + 1, no_struct)
            left = ("bin", op, left, right)
        return left

    def cast(self):
        e = self.unary()
        while self.peek() == ("id", "as"):
            self.next()
            ty = self.next()[1]
            e = ("cast", e, ty)
        return e

    def unary(self):
        k, v = self.peek()
        if v == "*" and k == "op":
            self.next(); return ("deref", self.unary())
        if v == "&" and k == "op":
            self.next()
            if self.accept("mut"): return ("deref", self.unary(), "mut")      # a mutable borrow: see Gen.poison
            return ("deref", self.unary())
        if v == "!" and k == "op":
            self.next(); return ("not", self.unary())
        if v == "-" and k == "op":
            raise Untranslatable("unary minus")
        return self.postfix()

    def postfix(self):
        e = self.primary()
        while True:
            if self.accept("."):
                if self.peek()[0] == "num":
                    idx = int(self.next()[1]); e = ("tfield", e, idx); continue
                name = self.next()[1]
                if self.accept("("):
                    args = []
                    while not self.accept(")"):
                        args.append(self.expr()); self.accept(",")
                    e = ("call", e, name, args)
                else:
                    e = ("field", e, name)
            elif self.peek() == ("op", "?"):
                self.next(); e = ("try", e)
            elif self.accept("["):
                if self.accept(".."):
                    hi = None if self.peek()[1] == "]" else self.expr()
                    self.expect("]"); e = ("slice", e, None, hi)
                else:
                    i = self.expr()
                    if self.accept(".."):
                        hi = None if self.peek()[1] == "]" else self.expr()
                        self.expect("]"); e = ("slice", e, i, hi)
                    else:
                        self.expect("]"); e = ("index", e, i)
            else:
                return e

    def primary(self):
        k, v = self.next()
        if k == "str":
            return ("strlit", v)
        if k == "num":
            m = re.match(r"(0x[0-9a-fA-F_]+|\d[\d_]*?)_?(u8|u16|u32|u64|usize|u128)?$", v)
            if not m: raise Untranslatable("number %r" % v)
            txt = m.group(1).replace("_", "")
            return ("num", int(txt, 16) if txt.startswith("0x") else int(txt), m.group(2))
        if k == "id":
            if v == "if":
                self.i -= 1; return self.if_()
            if v == "match":
                self.nostruct += 1
                scrut = self.expr(no_struct=True)
                self.nostruct -= 1
                self.expect("{")
                arms = []
                while not self.accept("}"):
                    path = [self.next()[1]]
                    while self.peek() == ("op", "::"):
                        self.next(); path.append(self.next()[1])
                    binds = []
                    if self.accept("("):
                        while not self.accept(")"):
                            binds.append(self.next()[1]); self.accept(",")
                    self.expect("=>")
                    if self.peek() == ("op", "{"): body = ("block", self.block())
                    else: body = self.expr()
                    self.accept(",")
                    arms.append(("::".join(path), binds, body))
                return ("match", scrut, arms)
            if v == "vec" and self.peek() == ("op", "!"):
                self.next()
                if self.peek() != ("op", "["): raise Untranslatable("vec! without brackets")
                return self.primary()      # the bracketed literal / repeat that follows
            path = [v]
            generic = None
            while self.peek() == ("op", "::"):
                self.next()
                if self.peek() == ("op", "<"):
                    self.next(); gen = []
                    while self.peek()[1] != ">": gen.append(self.next()[1])
                    self.next(); generic = " ".join(gen)
                    continue
                path.append(self.next()[1])
            if generic is not None and self.peek() == ("op", "("):
                self.next(); args = []
                while not self.accept(")"):
                    args.append(self.expr()); self.accept(",")
                return ("fncall", "::".join(path) + "::<" + generic + ">", args)
            if self.peek() == ("op", "(") and not (len(path) == 1 and path[0] == "self"):
                self.next(); args = []
                while not self.accept(")"):
                    a_ = self.expr()
                    if self.peek()[1] in ("..", "..="):                   # a range as an argument: Uniform::from(lo..=hi)
                        incl = self.next()[1] == "..="
                        a_ = ("range", a_, self.expr(), incl)
                    args.append(a_); self.accept(",")
                return ("fncall", "::".join(path), args)
            if self.peek() == ("op", "{") and self.nostruct == 0 and path[-1][:1].isupper():
                self.next(); fields = []
                saved = self.nostruct; self.nostruct = 0
                while not self.accept("}"):
                    fname = self.next()[1]
                    if self.accept(":"): fields.append((fname, self.expr()))
                    else: fields.append((fname, ("id", fname)))
                    self.accept(",")
                self.nostruct = saved
                return ("struct", "::".join(path), fields)
            return ("id", "::".join(path))
        if v == "|":                                   # closure |pat| body  (only as the argument of for_each)
            if self.accept("("):
                pat = []
                while not self.accept(")"):
                    pat.append(self.next()[1]); self.accept(",")
            else:
                pat = [self.next()[1]]
            self.expect("|")
            if self.peek() == ("op", "{"): body = self.block()
            else: body = [("tail", self.expr())]
            return ("closure", pat, body)
        if v == "(":
            if self.accept(")"): return ("unit",)
            saved = self.nostruct; self.nostruct = 0
            try:
                e = self.expr()
                if self.peek()[1] in ("..", "..="):
                    incl = self.next()[1] == "..="
                    hi = self.expr()
                    self.expect(")")
                    return ("range", e, hi, incl)
                if self.accept(","):
                    items = [e]
                    while not self.accept(")"):
                        items.append(self.expr()); self.accept(",")
                    return ("tuple", items)
                self.expect(")"); return ("paren", e)
            finally:
                self.nostruct = saved
        if v == "[":
            items = []
            if self.accept("]"): return ("array", items)
            first = self.expr()
            if self.accept(";"):
                n = self.expr(); self.expect("]")
                return ("repeat", first, n)
            items.append(first)
            while self.accept(","):
                if self.peek()[1] == "]": break
                items.append(self.expr())
            self.expect("]")
            return ("array", items)
        raise Untranslatable("unexpected token %r" % v)


# --------------------------------------------------------------------------------------- generator
class Gen:
    """CPS generator: every gen_* takes a continuation k(term, type) -> Gallina text of type option R"""
    def __init__(self, env, consts, helpers=None, self_fields=None):
        self.env = dict(env)            # rust name -> (gallina name, type)   type: 'u8' | 'usize' | ... | ('arr', elem) | 'bool'
        self.consts = consts            # RUST_CONST -> (gallina term, type)
        self.helpers = helpers or {}    # method name -> (params, expr AST) single-expression helpers of the same impl
        self.n = 0
        self.uses_fuel = False
        self.calls = {}                 # rust path / method name -> (gallina term, "pure" | "nres"): modelled callees
        self.identity_calls = set()     # wrappers that do not change the bytes (X::from_le_bytes, .as_le_bytes(), ...)
        self.big = None                 # big-integer mode: dict(be=, into=, gen_params=set(), prime_params=set()) or None
        self.loop_depth = 0             # >0 while translating a `for` body: `return e` leaves the loop with (inl e)
        self.mut_arrays = set()         # `&mut [u8]` parameters of a free function: `for b in buf` writes through to them
        self.tape_stmt_calls = {}       # f(&mut arr); filling the array from the tape: name -> translated fn (arr, tape) -> option (arr, tape)
        self.poisoned = {}              # variable -> why it may no longer be used (a mutable alias of it lives under another name)
        self.tape_calls = {}            # calls that draw from the explicit tape: name -> (translated fn taking the tape last, result type)
        self.cipher_calls = {}          # free fn f(data, key, &mut a, &mut b): name -> translated per-byte step (folded over data)
        self.self_pure_calls = {}       # `self.m()` without arguments standing for a pure modelled value: name -> (gallina term, type)
        self.struct_params = {}         # parameter name -> [field names]: a `&Struct` parameter passed as its fields (env keys "p.f")
        self.param_method_calls = {}    # method on a struct parameter -> (translated method taking all its fields then the args, result type)
        self.struct_method_calls = {}   # read-only method on a local struct value -> (translated fn, number of fields, indices passed, result type)
        self.try_into_len = None        # the N of the `[u8; N]` an `.as_slice().try_into().unwrap()` converts into (per target)
        self.mut_method_calls = {}      # `x.m(args);` on a local struct value: name -> (translated method taking the fields then the args, number of fields)
        self.method_calls = {}          # method name (no arguments) on a value -> (translated function returning option, result type)
        self.match_patterns = {}        # rust path of a variant -> (gallina constructor, [types of its fields])
        self.fn_final = None            # function-level result builder: `?` and `return` leave the function through it
        self.self_calls = {}            # method name -> (translated function over the self fields, ["self.f", ..]): returns (fields, value)
        self.self_tuple = None          # gallina text standing for `self` passed by value to another function
        self.sum_calls = {}             # rust path -> (gallina function returning option (A + E), type label of A): Result-valued callees
        self.opt_calls = {}             # rust path -> (gallina function returning option R, type label of R): other translated functions
        self.ctor_calls = {}            # rust path of a tuple variant / constructor -> gallina constructor (applied to its arguments)
        self.str_vars = set()           # gallina names of values of type &str (lists of scalar values)
        self.enums = {}                 # rust path of a unit variant -> gallina constructor
        self.structs = {}               # struct name -> field order of the tuple that stands for it
        self.draws = {}                 # type name -> gallina term of the number of bytes X::randomized() draws
        self.field_draws = {}           # "self.f" -> gallina term of the number of bytes f.randomize_data() draws
        self.tape = None                # gallina name of the tape variable when the body draws randomness
        self.free_helpers = {}          # free fn name -> ([(param, type)], expr AST): single-expression fns of the same file, inlined
        self.externs = {}               # "self.m" / "self.f.m" -> (gallina function, state key): opaque calls (state, array) -> (state, array)
        self.usize_vars = set()         # un-annotated integer variables that Rust infers as usize (used as an index / against .len())
    def fresh(self, base="t"):
        self.n += 1; return "%s%d" % (base, self.n)

    def unify(self, ta, tb, what):
        if ta is None: return tb
        if tb is None: return ta
        if ta != tb: raise Untranslatable("operand types differ in %s: %s vs %s" % (what, ta, tb))
        return ta

    def expr(self, e, k, want=None):
        kind = e[0]
        if kind == "paren": return self.expr(e[1], k, want)
        if kind == "deref": return self.expr(e[1], k, want)
        if kind == "num":
            return k(str(e[1]), e[2] or want)
        if kind == "tfield" and e[2] == 0 and e[1][0] == "call" and e[1][2] == "compute" and not e[1][3]:
            def kmd(a, ta):
                if ta != "md5ctx": raise Untranslatable(".compute() of %s" % (ta,))
                return k("(md5 %s)" % a, ("arr", "u8"))
            return self.expr(e[1][1], kmd)
        if kind == "tfield":
            def ktf(a, ta):
                if not (isinstance(ta, tuple) and ta[0] == "tup" and len(ta[1]) == 2): raise Untranslatable("field of a non-pair")
                return k("(%s %s)" % ("fst" if e[2] == 0 else "snd", a), ta[1][e[2]])
            return self.expr(e[1], ktf)
        if kind == "call" and e[2] in ("finalize", "finalize_fixed") and not e[3]:
            # Sha1::new().chain_update(a).chain_update(b).finalize()  ->  sha1 (a ++ b)
            parts, x = [], e[1]
            while x[0] == "call" and x[2] == "chain_update" and len(x[3]) == 1:
                parts.insert(0, x[3][0]); x = x[1]
            if x == ("fncall", "Sha1::new", []) and parts:
                def gsh(i, acc):
                    if i == len(parts): return k("(sha1 (%s))" % " ++ ".join(acc), ("arr", "u8"))
                    return self.expr(parts[i], lambda t, tt: gsh(i + 1, acc + [t]))
                return gsh(0, [])
        if kind == "call" and e[2] in self.method_calls and not e[3] and e[1][0] == "id" and e[1][1] in self.env:
            g_, rty = self.method_calls[e[2]]
            def kmc(a, ta):
                v_ = self.fresh("m")
                return "match %s %s with None => None | Some %s =>\n  %s end" % (g_, a, v_, k(v_, rty))
            return self.expr(e[1], kmc)
        if kind == "block":
            saved = dict(self.env)
            def fin_block(tail):
                if tail is None: raise Untranslatable("block expression without a value")
                r = k(tail[0], tail[1])
                return r
            r = self.stmts(list(e[1]), fin_block)
            self.env = saved
            return r
        if kind == "match":
            arms = e[2]
            pats = self.match_patterns
            def ksc(sv, st_):
                out = []
                for path, binds, body in arms:
                    if path not in pats: raise Untranslatable("match pattern %s" % path)
                    ctor, tys = pats[path]
                    if len(binds) != len(tys): raise Untranslatable("pattern arity %s" % path)
                    saved = dict(self.env)
                    names = []
                    for b_, ty_ in zip(binds, tys):
                        self.env[b_] = ("v_" + b_, ty_); names.append("v_" + b_)
                    pat = ctor + ("" if not names else " " + " ".join(names))
                    out.append("| %s =>\n  %s" % (pat, self.expr(body, k, want)))
                    self.env = saved
                return "match %s with\n  %s end" % (sv, "\n  ".join(out))
            return self.expr(e[1], ksc)
        if kind == "unit":
            return k("tt", "unit")
        if kind == "id" and e[1] in self.enums:
            return k(self.enums[e[1]], "enum")
        if kind == "strlit":            # a string literal used as bytes (chain_update(":")): its UTF-8 encoding
            if "\\" in e[1]: raise Untranslatable("string literal with an escape")
            bs = e[1].encode("utf-8")
            return k("[" + "; ".join(str(b) for b in bs) + "]", ("arr", "u8"))
        if kind == "id" and e[1] in ("true", "false") and e[1] not in self.env:
            return k(e[1], "bool")
        if kind == "id" and e[1] == "None":
            return k("None", ("opt", None))
        if kind == "fncall" and e[1] == "Some" and len(e[2]) == 1:
            return self.expr(e[2][0], lambda t, tt: k("(Some %s)" % t, ("opt", tt)))
        if kind == "id" and e[1] in self.struct_params and e[1] not in self.env:      # the whole struct parameter as a value
            fs_ = [self.env["%s.%s" % (e[1], f_)][0] for f_ in self.struct_params[e[1]]]
            return k("(" + ", ".join(fs_) + ")" if len(fs_) > 1 else fs_[0], ("struct", e[1]))
        if kind == "id" and e[1] == "self" and self.self_tuple is not None:
            return k(self.self_tuple, "selfvalue")
        if kind == "id":
            name = e[1]
            if name in self.poisoned and name in self.env:
                raise Untranslatable("`%s` is used after %s (aliasing is not modelled)" % (name, self.poisoned[name]))
            if name in self.env:
                g, t = self.env[name]; return k(g, t)
            if name in self.consts:
                g, t = self.consts[name]; return k(g, t)
            raise Untranslatable("unknown identifier %s" % name)
        if kind == "field":
            if e[1] == ("id", "self"):
                key = "self." + e[2]
                if key in self.env:
                    g, t = self.env[key]; return k(g, t)
            if e[1][0] == "id" and e[1][1] in self.struct_params and e[2] in self.struct_params[e[1][1]]:
                g, t = self.env["%s.%s" % (e[1][1], e[2])]; return k(g, t)
            raise Untranslatable("field access %r" % (e,))
        if kind == "cast":
            ty = e[2]
            if ty not in BITS: raise Untranslatable("cast to %s" % ty)
            def kc(t, tt):
                if tt == "char":      # char as u8: the low 8 bits of the scalar value
                    return k("(%s mod %d)" % (t, 2 ** BITS[ty]), ty) if BITS[ty] < 32 else k(t, ty)
                if tt is None or tt == "bool": raise Untranslatable("cast of untyped value")
                if BITS[ty] < BITS[tt]:
                    return k("(%s mod %d)" % (t, 2 ** BITS[ty]), ty)
                return k(t, ty)
            return self.expr(e[1], kc)
        if kind == "index":
            def ka(a, ta):
                if not (isinstance(ta, tuple) and ta[0] == "arr"): raise Untranslatable("indexing a non-array")
                def ki(i, ti):
                    v = self.fresh()
                    return "match nth_error %s (N.to_nat %s) with None => None | Some %s =>\n  %s end" % (a, i, v, k(v, ta[1]))
                return self.expr(e[2], ki, "usize")
            return self.expr(e[1], ka)
        if kind == "struct":
            name = e[1].split("::")[-1]
            if name not in self.structs: raise Untranslatable("struct literal %s" % name)
            given = dict(e[2])
            order = self.structs[name]
            if set(given) != set(order): raise Untranslatable("fields of %s: %s" % (name, sorted(given)))
            def gos(i, acc):
                if i == len(order) and not acc: return k("tt", ("struct", name))
                if i == len(order): return k("(" + ", ".join(acc) + ")" if len(acc) > 1 else acc[0], ("struct", name))
                return self.expr(given[order[i]], lambda t, tt: gos(i + 1, acc + [t]))
            return gos(0, [])
        if kind == "fncall" and e[1] in ("Ok", "Err") and len(e[2]) == 1:
            return self.expr(e[2][0], lambda t, tt: k("(%s %s)" % ("inl" if e[1] == "Ok" else "inr", t), ("result", e[1], tt)))
        if kind == "fncall" and self.big is not None and e[1] == "KValue::bigint" and not e[2]:
            return k("(Z.of_N k_value)", "big")
        if kind == "fncall" and self.big is not None and e[1] in self.big.get("res_calls", {}):
            # a call whose Result (Ok bytes | Err kind) is the value of the expression
            g_ = self.big["res_calls"][e[1]]
            args = e[2]
            def gor(i, acc):
                if i == len(args): return k("(res_view (%s %s))" % (g_, " ".join(acc)), "resopt")
                return self.expr(args[i], lambda t, tt: gor(i + 1, acc + [t]))
            return gor(0, [])
        if kind == "fncall" and e[1] in self.sum_calls:
            g_, rty = self.sum_calls[e[1]]
            args = e[2]
            def gos(i, acc):
                if i == len(args):
                    v_ = self.fresh("r")
                    return "match %s %s with None => None | Some %s =>\n  %s end" % (g_, " ".join(acc), v_, k(v_, ("sum", rty)))
                return self.expr(args[i], lambda t, tt: gos(i + 1, acc + [t]))
            return gos(0, [])
        if kind == "call" and e[1][0] == "id" and e[1][1] in self.struct_params:
            pn = e[1][1]
            if e[2] in self.struct_params[pn] and not e[3]:          # getter
                g_, ty_ = self.env["%s.%s" % (pn, e[2])]; return k(g_, ty_)
            if e[2] in self.param_method_calls:
                fn_, rty = self.param_method_calls[e[2]]
                fs = " ".join(self.env["%s.%s" % (pn, f_)][0] for f_ in self.struct_params[pn])
                def gpm(i, acc):
                    if i == len(e[3]):
                        v_ = self.fresh("p")
                        return "match %s %s%s with None => None | Some %s =>\n  %s end" % (fn_, fs, "".join(" " + a for a in acc), v_, k(v_, rty))
                    return self.expr(e[3][i], lambda t_, tt: gpm(i + 1, acc + [t_]))
                return gpm(0, [])
        if (kind == "call" and e[2] in self.struct_method_calls and e[1][0] == "id" and e[1][1] in self.env
                and isinstance(self.env[e[1][1]][1], tuple) and self.env[e[1][1]][1][0] == "struct"):
            fn_, nf, idxs, rty = self.struct_method_calls[e[2]]
            g_, _ = self.env[e[1][1]]
            fs = [self.fresh("f") for _ in range(nf)]
            def gsm(i, acc):
                if i == len(e[3]):
                    v_ = self.fresh("m")
                    return ("match (let '(%s) := %s in %s %s%s) with None => None | Some %s =>\n  %s end"
                            % (", ".join(fs), g_, fn_, " ".join(fs[j] for j in idxs), "".join(" " + a for a in acc), v_, k(v_, rty)))
                return self.expr(e[3][i], lambda t_, tt: gsm(i + 1, acc + [t_]))
            return gsm(0, [])
        # ARR.iter().enumerate().find(|(_, a)| **a == RHS): the first (index, element) whose element is RHS
        if (kind == "call" and e[2] == "find" and len(e[3]) == 1 and e[3][0][0] == "closure" and len(e[3][0][1]) == 2
                and e[1][0] == "call" and e[1][2] == "enumerate" and e[1][1][0] == "call" and e[1][1][2] == "iter"):
            cl = e[3][0]; a_ = cl[1][1]
            if not (cl[1][0] == "_" and len(cl[2]) == 1 and cl[2][0][0] == "tail" and cl[2][0][1][0] == "bin" and cl[2][0][1][1] == "=="
                    and cl[2][0][1][2] == ("deref", ("deref", ("id", a_)))):
                raise Untranslatable("find with another predicate")
            rhs = cl[2][0][1][3]
            def kfa(av, ta):
                if not (isinstance(ta, tuple) and ta[0] == "arr"): raise Untranslatable("find over a non-array")
                return self.expr(rhs, lambda r, tr_: k("(position_from %s %s 0)" % (r, av), ("opt", ("tup", ("usize", ta[1])))), ta[1])
            return self.expr(e[1][1][1], kfa)
        if kind == "call" and e[2] == "unwrap" and not e[3] and e[1][0] == "call" and e[1][2] == "find":
            def kuw(a, ta):
                v_ = self.fresh("f")
                return "match %s with None => None | Some %s =>\n  %s end" % (a, v_, k(v_, ta[1]))
            return self.expr(e[1], kuw)
        if kind == "call" and e[2] == "unwrap" and not e[3] and e[1][0] == "fncall" and e[1][1] in ("core::str::from_utf8", "std::str::from_utf8", "str::from_utf8") and len(e[1][2]) == 1:
            # from_utf8(bytes).unwrap(): rendered with the ASCII criterion (every byte < 0x80), which is exact on
            # what the constructor can store and refuses (panic) anything else
            def kfu(a, ta):
                if not (isinstance(ta, tuple) and ta[0] == "arr"): raise Untranslatable("from_utf8 of %s" % (ta,))
                v_ = self.fresh("t")
                return "let %s := %s in\n  if forallb (fun b => b <? 128) %s then\n  %s else None" % (v_, a, v_, k(v_, "str"))
            return self.expr(e[1][2][0], kfu)
        if kind == "fncall" and e[1] in ("String::with_capacity", "String::new") and len(e[2]) <= 1:
            return k("(@nil N)", "str")
        if kind == "call" and e[2] == "to_string" and not e[3]:
            def kts(a, ta):
                if ta != "u8": raise Untranslatable(".to_string() of %s" % (ta,))
                return k("(u8_to_string %s)" % a, "str")          # decimal, no padding (core::fmt for u8)
            return self.expr(e[1], kts)
        if kind == "call" and e[2] == "chunks" and len(e[3]) == 1:
            def kch(a, ta):
                if not (isinstance(ta, tuple) and ta[0] == "arr"): raise Untranslatable(".chunks() of %s" % (ta,))
                return self.expr(e[3][0], lambda n_, tn: "if %s =? 0 then None else\n  %s" % (n_, k("(%s, %s)" % (a, n_), "chunks")), "usize")   # chunks(0) panics
            return self.expr(e[1], kch)
        if kind == "call" and e[2] == "next" and not e[3] and self.lhs_key(e[1]) in self.env and self.env[self.lhs_key(e[1])][1] == "chunks":
            g_, _ = self.env[self.lhs_key(e[1])]
            old = self.fresh("c")
            return "let %s := %s in\n  let %s := chunks_advance %s in\n  %s" % (old, g_, g_, old, k("(chunks_head %s)" % old, ("opt", ("arr", "u8"))))
        # ---- HMAC-SHA1 objects (hmac crate): a value (key, message so far) ----
        if kind == "fncall" and e[1] in ("Hmac::new_from_slice", "Hmac::new_from_slice::<Sha1>", "Hmac::<Sha1>::new_from_slice") and len(e[2]) == 1:
            def khn(a, ta):
                if not (isinstance(ta, tuple) and ta[0] == "arr"): raise Untranslatable("HMAC key")
                return k("(%s, @nil N)" % a, "hmac_res")        # new_from_slice accepts every key length
            return self.expr(e[2][0], khn)
        if kind == "fncall" and e[1] in ("Context::new", "md5::Context::new") and not e[2]:
            return k("(@nil N)", "md5ctx")                      # md5::Context: the message consumed so far
        if kind == "call" and e[2] in ("unwrap", "finalize", "finalize_fixed", "into_bytes", "as_slice", "as_mut_slice", "try_into") and not e[3] and not (e[2] in ("finalize", "finalize_fixed") and e[1][0] == "call" and e[1][2] == "chain_update"):
            def khm(a, ta):
                if e[2] == "finalize_fixed" and ta == "hmac": return k("(hmac_sha1 (fst %s) (snd %s))" % (a, a), ("arr", "u8"))
                if e[2] == "as_mut_slice" and isinstance(ta, tuple) and ta[0] == "arr": return k(a, ta)
                if e[2] == "unwrap" and isinstance(ta, tuple) and ta[0] == "opt" and ta[1] is not None:
                    v_ = self.fresh("u")
                    return "match %s with None => None | Some %s =>\n  %s end" % (a, v_, k(v_, ta[1]))
                if e[2] == "unwrap" and ta == "hmac_res": return k(a, "hmac")
                if e[2] == "finalize" and ta == "hmac": return k("(hmac_sha1 (fst %s) (snd %s))" % (a, a), "hmac_out")
                if e[2] == "into_bytes" and ta == "hmac_out": return k(a, ("arr", "u8"))
                if e[2] == "as_slice" and isinstance(ta, tuple) and ta[0] == "arr": return k(a, ta)
                if e[2] == "try_into" and isinstance(ta, tuple) and ta[0] == "arr": return k(a, ("tryinto", ta))
                if e[2] == "unwrap" and isinstance(ta, tuple) and ta[0] == "tryinto":
                    if self.try_into_len is None: raise Untranslatable("length of the try_into() target")
                    v_ = self.fresh("a")
                    return "if (N.of_nat (length %s) =? %s) then let %s := %s in\n  %s else None" % (a, self.try_into_len, v_, a, k(v_, ta[1]))
                raise Untranslatable(".%s() of %s" % (e[2], ta))
            return self.expr(e[1], khm)
        if kind == "call" and e[2] == "expect" and len(e[3]) == 1 and e[3][0][0] == "strlit":
            def kex(a, ta):
                if not (isinstance(ta, tuple) and ta[0] == "sum"): raise Untranslatable(".expect on a non-Result")
                v_ = self.fresh("x")
                return "match %s with inl %s =>\n  %s | inr _ => None end" % (a, v_, k(v_, ta[1]))
            return self.expr(e[1], kex)
        if kind == "try":
            def ktry(a, ta):
                if not (isinstance(ta, tuple) and ta[0] == "sum"): raise Untranslatable("? on a non-Result")
                v_ = self.fresh("x"); e_ = self.fresh("e")
                return "match %s with inl %s =>\n  %s | inr %s => %s end" % (a, v_, k(v_, ta[1]), e_, (self.fn_final)(("(inr %s)" % e_, "result")))
            return self.expr(e[1], ktry)
        if (kind == "call" and e[2] == "sample" and len(e[3]) == 1 and e[1][0] == "id" and e[1][1] in self.env
                and self.env[e[1][1]][1] == "uniform_u8" and self.tape is not None):
            # rand's UniformInt<u8>::sample (modelled dependency, model/Random.v): rejection sampling on u32 words of the tape
            lh = self.env[e[1][1]][0]
            v_ = self.fresh("d")
            return ("match (let '(lo_, hi_) := %s in uniform_sample (S (length %s)) lo_ (uniform_range lo_ hi_) (uniform_reject (uniform_range lo_ hi_)) %s) with None => None | Some (%s, %s) =>\n  %s end"
                    % (lh, self.tape, self.tape, v_, self.tape, k(v_, "u8")))
        if kind == "fncall" and e[1] in self.tape_calls and self.tape is not None:
            g_, rty = self.tape_calls[e[1]]
            args = e[2]
            def gtc(i, acc):
                if i == len(args):
                    v_ = self.fresh("o")
                    return "match %s %s %s with None => None | Some (%s, %s) =>\n  %s end" % (g_, " ".join(acc), self.tape, v_, self.tape, k(v_, rty))
                return self.expr(args[i], lambda t_, tt: gtc(i + 1, acc + [t_]))
            return gtc(0, [])
        if kind == "fncall" and e[1] in self.opt_calls:
            g_, rty = self.opt_calls[e[1]]
            args = e[2]
            def goo(i, acc):
                if i == len(args):
                    v_ = self.fresh("o")
                    if isinstance(rty, tuple) and rty[0] == "arr":
                        for a_ in args:
                            b_ = self.borrow_base(a_)
                            if b_ is not None: self.poison(b_, "`&mut %s` was handed to %s, whose result may alias it" % (b_, e[1]))
                    return "match %s %s with None => None | Some %s =>\n  %s end" % (g_, " ".join(acc), v_, k(v_, rty))
                return self.expr(args[i], lambda t, tt: goo(i + 1, acc + [t]))
            return goo(0, [])
        if kind == "fncall" and e[1] in self.ctor_calls:
            args = e[2]
            def gok(i, acc):
                if i == len(args): return k("(%s %s)" % (self.ctor_calls[e[1]], " ".join(acc)), "enum")
                return self.expr(args[i], lambda t, tt: gok(i + 1, acc + [t]))
            return gok(0, [])
        if kind == "fncall" and e[1] in self.identity_calls and len(e[2]) == 1:
            return self.expr(e[2][0], k, want)
        mrd = re.fullmatch(r"(?:rand::)?random::<(u8|u16|u32|u64)>", e[1]) if kind == "fncall" else None
        is_next = kind == "call" and e[2] in ("next_u32", "next_u64") and not e[3] and e[1] == ("fncall", "thread_rng", [])
        if (mrd and not e[2]) or is_next:
            if self.tape is None: raise Untranslatable("random draw without a tape")
            ty_ = mrd.group(1) if mrd else ("u32" if e[2] == "next_u32" else "u64")
            b_ = self.fresh("d")
            return "let '(%s, %s) := draw %d %s in\n  %s" % (b_, self.tape, BITS[ty_] // 8, self.tape, k("(le_to_N %s)" % b_, ty_))
        if kind == "fncall" and e[1].endswith("::randomized") and not e[2]:
            ty = e[1].split("::")[-2]
            if ty not in self.draws or self.tape is None: raise Untranslatable("random draw of %s" % ty)
            v = self.fresh("r")
            return "let '(%s, %s) := draw (N.to_nat %s) %s in\n  %s" % (v, self.tape, self.draws[ty], self.tape, k(v, ("arr", "u8")))
        if kind == "fncall" and e[1] in self.calls:
            g, mode = self.calls[e[1]]
            args = e[2]
            def goc(i, acc):
                if i == len(args):
                    call = "(%s %s)" % (g, " ".join(acc)) if acc else g
                    if mode == "pure": return k(call, ("arr", "u8"))
                    v = self.fresh("c")
                    return "match %s with Ok %s =>\n  %s | _ => None end" % (call, v, k(v, ("arr", "u8")))
                return self.expr(args[i], lambda t, tt: goc(i + 1, acc + [t]))
            return goc(0, [])
        if kind == "tuple":
            items = e[1]
            def got(i, acc, tys):
                if i == len(items): return k("(" + ", ".join(acc) + ")", ("tup", tuple(tys)))
                return self.expr(items[i], lambda t, tt: got(i + 1, acc + [t], tys + [tt]))
            return got(0, [], [])
        if kind == "array":
            items = e[1]
            def go(i, acc, ty):
                if i == len(items):
                    return k("[" + "; ".join(acc) + "]", ("arr", ty or "u8"))
                return self.expr(items[i], lambda t, tt: go(i + 1, acc + [t], self.unify(ty, tt if tt in BITS else None, "array literal")), ty)
            return go(0, [], None)
        if kind == "repeat":
            def kv(v, tv):
                def kn2(n_, tn):
                    return k("(repeat %s (N.to_nat %s))" % (v, n_), ("arr", tv or "u8"))
                return self.expr(e[2], kn2, "usize")
            return self.expr(e[1], kv)
        if kind == "slice":
            def ka(a, ta):
                if not (isinstance(ta, tuple) and ta[0] == "arr"): raise Untranslatable("slicing a non-array")
                lo, hi = e[2], e[3]
                if lo is None and hi is None: return k(a, ta)
                def with_lo(l):
                    def with_hi(h):
                        if h is None:
                            return "if N.of_nat (length %s) <? %s then None else\n  %s" % (a, l, k("(skipn (N.to_nat %s) %s)" % (l, a), ta))
                        return "if N.of_nat (length %s) <? %s then None else if %s <? %s then None else\n  %s" % (a, h, h, l, k("(firstn (N.to_nat (%s - %s)) (skipn (N.to_nat %s) %s))" % (h, l, l, a), ta))
                    if hi is None: return with_hi(None)
                    return self.expr(hi, lambda h, th: with_hi(h), "usize")
                if lo is None: return with_lo("0")
                return self.expr(lo, lambda l, tl: with_lo(l), "usize")
            return self.expr(e[1], ka)
        if kind == "bin":
            op = e[1]
            if op in ("&&", "||"):
                # short circuit: the right operand (and its panics) is evaluated only when needed
                def ks(a, ta):
                    if ta != "bool": raise Untranslatable("%s on non-boolean" % op)
                    # a right operand that cannot panic needs no short circuit: plain boolean connective
                    n0 = self.n
                    probe = self.expr(e[3], lambda t, tt: "\0" + t + "\0")
                    if probe.startswith("\0") and probe.endswith("\0") and probe.count("\0") == 2:
                        return k("(%s %s %s)" % (a, op, probe[1:-1]), "bool")
                    self.n = n0
                    right = self.expr(e[3], k)
                    if op == "&&": return "if %s then (\n  %s\n  ) else (\n  %s\n  )" % (a, right, k("false", "bool"))
                    return "if %s then (\n  %s\n  ) else (\n  %s\n  )" % (a, k("true", "bool"), right)
                return self.expr(e[2], ks)
            def kl(a, ta):
                def kr(b, tb):
                    if op in ("==", "!=") and isinstance(ta, tuple) and ta[0] == "arr" and isinstance(tb, tuple) and tb[0] == "arr":
                        return k("(list_eqb %s %s)" % (a, b) if op == "==" else "(negb (list_eqb %s %s))" % (a, b), "bool")
                    if op in ("==", "!=", "<", ">", "<=", ">="):
                        self.unify(ta, tb, op)
                        term = {"==": "(%s =? %s)", "!=": "(negb (%s =? %s))", "<": "(%s <? %s)", ">": "(%s <? %s)", "<=": "(%s <=? %s)", ">=": "(%s <=? %s)"}[op]
                        return k(term % ((b, a) if op in (">", ">=") else (a, b)), "bool")
                    if op == "+" and ta == "str" and tb == "str":          # String += &str
                        return k("(%s ++ %s)" % (a, b), "str")
                    if ta == "big" or tb == "big":
                        if ta != tb: raise Untranslatable("mixed big-integer arithmetic")
                        if op in ("+", "-", "*"): return k("(%s %s %s)%%Z" % (a, op, b), "big")
                        if op == "%":
                            v_ = self.fresh("z")
                            return "match rem %s %s with Ok %s =>\n  %s | _ => None end" % (a, b, v_, k(v_, "big"))
                        raise Untranslatable("big-integer operator %s" % op)
                    t = self.unify(ta, tb, op)
                    if t is None: raise Untranslatable("untyped operands of %s" % op)
                    if t == "bool": raise Untranslatable("%s on bool" % op)
                    mx = 2 ** BITS[t] - 1
                    if op == "^": return k("(N.lxor %s %s)" % (a, b), t)
                    if op == "&": return k("(N.land %s %s)" % (a, b), t)
                    if op == "|": return k("(N.lor %s %s)" % (a, b), t)
                    if op == "+": return "if %d <? %s + %s then None else\n  %s" % (mx, a, b, k("(%s + %s)" % (a, b), t))
                    if op == "-": return "if %s <? %s then None else\n  %s" % (a, b, k("(%s - %s)" % (a, b), t))
                    if op == "*": return "if %d <? %s * %s then None else\n  %s" % (mx, a, b, k("(%s * %s)" % (a, b), t))
                    if op == "%": return "if %s =? 0 then None else\n  %s" % (b, k("(%s mod %s)" % (a, b), t))
                    if op == "/": return "if %s =? 0 then None else\n  %s" % (b, k("(%s / %s)" % (a, b), t))
                    if op == "<<": return "if %d <=? %s then None else\n  %s" % (BITS[t], b, k("((N.shiftl %s %s) mod %d)" % (a, b, mx + 1), t))
                    if op == ">>": return "if %d <=? %s then None else\n  %s" % (BITS[t], b, k("(N.shiftr %s %s)" % (a, b), t))
                    raise Untranslatable("operator %s" % op)
                # shifts take any unsigned type on the right
                return self.expr(e[3], kr, None if op in ("<<", ">>") else ta)
            return self.expr(e[2], kl, want)
        if kind == "not":
            def kn(a, ta):
                if ta == "bool": return k("(negb %s)" % a, "bool")
                if ta in BITS: return k("(N.lxor %s %d)" % (a, 2 ** BITS[ta] - 1), ta)
                raise Untranslatable("! on untyped value")
            return self.expr(e[1], kn, want)
        if kind == "call":
            recv, name, args = e[1], e[2], e[3]
            if name in ("wrapping_add", "wrapping_sub", "wrapping_mul") and len(args) == 1:
                def ka(a, ta):
                    def kb(b, tb):
                        t = self.unify(ta, tb, name)
                        if t not in BITS: raise Untranslatable("%s on %s" % (name, t))
                        m = 2 ** BITS[t]
                        if name == "wrapping_add": return k("((%s + %s) mod %d)" % (a, b, m), t)
                        if name == "wrapping_sub": return k("((%s + %d - %s) mod %d)" % (a, m, b, m), t)
                        return k("((%s * %s) mod %d)" % (a, b, m), t)
                    return self.expr(args[0], kb, ta)
                return self.expr(recv, ka, want)
            if self.big is not None:
                B = self.big
                if name == "as_bigint" and not args:
                    return self.expr(recv, lambda a, ta: k("(from_bytes_le %s)" % a, "big"))
                if name == "to_bigint" and not args:
                    if recv[0] == "fncall" and recv[1] == "Generator::default": return k("(Z.of_N generator)", "big")
                    if recv[0] == "fncall" and recv[1] == "LargeSafePrime::default": return k("(from_bytes_le n_le)", "big")
                    rk = self.lhs_key(recv)
                    if rk in B.get("gen_params", ()): return k("(Z.of_N %s)" % self.env[rk][0], "big")
                    if rk in B.get("prime_params", ()): return k("(from_bytes_le %s)" % self.env[rk][0], "big")
                    raise Untranslatable(".to_bigint() of %r" % (recv,))
                if name == "to_bytes_le" and not args:
                    def ktb(a, ta):
                        if ta != "big": raise Untranslatable(".to_bytes_le() of a non-integer")
                        return k("(to_bytes_le %s %s)" % (B["be"], a), ("arr", "u8"))
                    return self.expr(recv, ktb)
                if name == "to_vec" and not args:
                    def ktv(a, ta):
                        if not (isinstance(ta, tuple) and ta[0] == "arr"): raise Untranslatable(".to_vec() of %s" % (ta,))
                        return k(a, ta)
                    return self.expr(recv, ktv)
                if name == "is_zero" and not args:
                    def kiz(a, ta):
                        if ta != "big": raise Untranslatable(".is_zero() of a non-integer")
                        return k("(is_zero %s)" % a, "bool")
                    return self.expr(recv, kiz)
                if name == "mod_large_safe_prime_is_zero" and len(args) == 1:
                    # (&self.value % large_safe_prime.to_bigint().value) == 0: the remainder panics on a zero modulus
                    pk_ = self.lhs_key(args[0])
                    if pk_ not in B.get("prime_params", ()): raise Untranslatable("modulus of mod_large_safe_prime_is_zero")
                    def kmz(a, ta):
                        if ta != "big": raise Untranslatable("mod_large_safe_prime_is_zero of a non-integer")
                        v_ = self.fresh("r")
                        return "match rem %s (from_bytes_le %s) with Ok %s =>\n  %s | _ => None end" % (a, self.env[pk_][0], v_, k("(is_zero %s)" % v_, "bool"))
                    return self.expr(recv, kmz)
                if name == "modpow" and len(args) == 2:
                    def kb0(a, ta):
                        def kb1(e_, te):
                            def kb2(m_, tm):
                                if not (ta == te == tm == "big"): raise Untranslatable("modpow operands")
                                v_ = self.fresh("z")
                                return "match modpow %s %s %s %s with Ok %s =>\n  %s | _ => None end" % (B["be"], a, e_, m_, v_, k(v_, "big"))
                            return self.expr(args[1], kb2)
                        return self.expr(args[0], kb1)
                    return self.expr(recv, kb0)
                if name == "to_padded_32_byte_array_le" and not args:
                    def kp(a, ta):
                        if ta != "big": raise Untranslatable("padding of a non-integer")
                        v_ = self.fresh("p")
                        return "match to_padded_32_byte_array_le %s %s with Ok %s =>\n  %s | _ => None end" % (B["be"], a, v_, k(v_, ("arr", "u8")))
                    return self.expr(recv, kp)
                if name == "into" and not args and B.get("into"):
                    def ki2(a, ta):
                        if ta != "big": raise Untranslatable(".into() of a non-integer")
                        v_ = self.fresh("p")
                        return "match %s %s with Ok %s =>\n  %s | _ => None end" % (B["into"], a, v_, k(v_, ("arr", "u8")))
                    return self.expr(recv, ki2)
            if name in self.identity_calls and not args:
                return self.expr(recv, k, want)
            if name in ("to_be_bytes", "to_le_bytes") and not args:
                def kb_(a, ta):
                    if ta not in BITS: raise Untranslatable(".%s() of %s" % (name, ta))
                    nbytes = BITS[ta] // 8
                    t_ = "(N_to_le %d %s)" % (nbytes, a)
                    return k("(rev %s)" % t_ if name == "to_be_bytes" else t_, ("arr", "u8"))
                return self.expr(recv, kb_)
            if name in ("is_ascii", "is_ascii_control", "is_ascii_lowercase") and not args:
                def kc_(a, ta):
                    if ta != "char": raise Untranslatable(".%s() of %s" % (name, ta))
                    return k("(%s %s)" % (name, a), "bool")
                return self.expr(recv, kc_)
            if name == "to_ascii_uppercase" and not args:
                def ku_(a, ta):
                    if ta != "char": raise Untranslatable(".to_ascii_uppercase() of %s" % (ta,))
                    return k("(to_ascii_uppercase %s)" % a, "char")
                return self.expr(recv, ku_)
            if name == "is_empty" and not args:
                def ke_(a, ta):
                    if ta == "str": return k("(Nat.eqb (str_len %s) 0)" % a, "bool")
                    if isinstance(ta, tuple) and ta[0] == "arr": return k("(Nat.eqb (length %s) 0)" % a, "bool")
                    raise Untranslatable(".is_empty() of %s" % (ta,))
                return self.expr(recv, ke_)
            if name == "len" and not args:
                def kn_(a, ta):
                    if ta == "str": return k("(N.of_nat (str_len %s))" % a, "usize")
                    if not (isinstance(ta, tuple) and ta[0] == "arr"): raise Untranslatable(".len() of a non-array")
                    return k("(N.of_nat (length %s))" % a, "usize")
                return self.expr(recv, kn_)
            if name == "into" and not args and want is None and self.lhs_key(recv) in self.env and self.env[self.lhs_key(recv)][1] == "str":
                return self.expr(recv, k)     # impl Into<String> -> String: the same text
            if name == "into" and not args:
                # only used for widening u8 -> usize in this crate
                def ki(a, ta):
                    if isinstance(ta, tuple) and ta[0] == "arr": return k(a, ta)      # GenericArray -> [u8; N]: the same bytes
                    if ta not in BITS: raise Untranslatable(".into() of %s" % (ta,))
                    tgt = want if want in BITS else "usize"
                    if BITS[tgt] < BITS[ta]: raise Untranslatable("narrowing .into()")
                    return k(a, tgt)
                return self.expr(recv, ki)
            if recv == ("id", "self") and name in self.self_pure_calls and not args:
                tm_, ty_ = self.self_pure_calls[name]; return k(tm_, ty_)
            if recv == ("id", "self") and name in self.self_calls:
                spec = self.self_calls[name]
                fn_, keys = spec[0], spec[1]
                rty = spec[2] if len(spec) > 2 else "u8"
                gs = [self.env[k_][0] for k_ in keys]
                def gsc(i, acc):
                    if i == len(args):
                        v_ = self.fresh("v")
                        pat = "(%s)" % ", ".join(gs) if len(gs) > 1 else gs[0]
                        return "match %s %s %s with None => None | Some (%s, %s) =>\n  %s end" % (fn_, " ".join(gs), " ".join(acc), pat, v_, k(v_, rty))
                    return self.expr(args[i], lambda t, tt: gsc(i + 1, acc + [t]))
                return gsc(0, [])
            if recv == ("id", "self") and name in self.helpers:
                params, body = self.helpers[name]
                if len(params) != len(args): raise Untranslatable("helper arity %s" % name)
                if args:
                    amap = {}
                    for (pn_, _pt), a_ in zip(params, args):
                        while a_[0] in ("deref", "paren"): a_ = a_[1]
                        if a_[0] != "id": raise Untranslatable("helper %s called with a compound argument" % name)
                        amap[pn_] = a_
                    def subh(n):
                        if isinstance(n, tuple):
                            if n[0] == "id" and n[1] in amap: return amap[n[1]]
                            return tuple(subh(c) for c in n)
                        if isinstance(n, list): return [subh(c) for c in n]
                        return n
                    return self.expr(subh(body), k, want)
                return self.expr(body, k, want)
            raise Untranslatable("method call .%s(..)" % name)
        if kind == "if":
            # expression-if: both branches must be tail expressions
            raise Untranslatable("if used as an expression value")
        if kind == "fncall":
            mfb = re.fullmatch(r"(u8|u16|u32|u64)::from_(le|be)_bytes", e[1])
            if mfb and len(e[2]) == 1:
                def kfb(a, ta):
                    if not (isinstance(ta, tuple) and ta[0] == "arr"): raise Untranslatable("%s of a non-array" % e[1])
                    return k("(le_to_N %s)" % (a if mfb.group(2) == "le" else "(rev %s)" % a), mfb.group(1))
                return self.expr(e[2][0], kfb)
            if e[1] in ("usize::from", "u16::from", "u32::from", "u64::from") and len(e[2]) == 1:
                tgt = e[1].split("::")[0]
                def kf(a, ta):
                    if ta not in BITS or BITS[tgt] < BITS[ta]: raise Untranslatable("%s of %s" % (e[1], ta))
                    return k(a, tgt)
                return self.expr(e[2][0], kf)
            if e[1] in self.free_helpers:
                params, body = self.free_helpers[e[1]]
                if len(params) != len(e[2]): raise Untranslatable("helper arity %s" % e[1])
                saved = dict(self.env)
                def bind(i):
                    if i == len(params):
                        def kdone(t, tt):
                            self.env = saved_env_holder[0]
                            return k(t, tt)
                        return self.expr(body, kdone, want)
                    pname, pty = params[i]
                    def kp(t, tt):
                        g = "h_%s_%s" % (e[1], pname)
                        self.env[pname] = (g, pty if pty in BITS else tt)
                        return "let %s := %s in\n  %s" % (g, t, bind(i + 1))
                    # arguments are evaluated in the caller's environment
                    cur = dict(self.env); self.env = dict(saved)
                    r = self.expr(e[2][i], lambda t, tt: (setattr(self, "env", cur), kp(t, tt))[1], pty if pty in BITS else None)
                    return r
                saved_env_holder = [saved]
                return bind(0)
            raise Untranslatable("call of %s" % e[1])
        raise Untranslatable("expression kind %s" % kind)

    def iter_list(self, x, kk):
        """kk(list term, [element types]) for an iterator expression"""
        iter_list = self.iter_list
        """(moved to the method Gen.iter_list)"""
        while x[0] == "paren": x = x[1]
        if x[0] == "range":
            def klo(lo, tl):
                def khi(hi, th):
                    t_ = self.unify(tl, th, "range") or "usize"
                    return kk("(range_list %s %s)" % (lo, ("(%s + 1)" % hi) if x[3] else hi), [t_])
                return self.expr(x[2], khi, tl)
            return self.expr(x[1], klo)
        if x[0] == "call" and not x[3]:
            if x[2] == "enumerate": return iter_list(x[1], lambda l, ts: kk("(enumerate_list %s)" % l, ["usize"] + ts) if len(ts) == 1 else (_ for _ in ()).throw(Untranslatable("enumerate of pairs")))
            if x[2] == "rev": return iter_list(x[1], lambda l, ts: kk("(rev %s)" % l, ts))
            if x[2] == "chars":
                def ks(sv, ts):
                    if ts != "str": raise Untranslatable(".chars() of a non-str")
                    return kk(sv, ["char"])
                return self.expr(x[1], ks)
            pass
        if x[0] == "id" and x[1] in self.env and isinstance(self.env[x[1]][1], tuple) and self.env[x[1]][1][0] == "iter":
            return kk(self.env[x[1]][0], list(self.env[x[1]][1][1]))
        if x[0] == "call" and len(x[3]) == 1 and x[2] in ("step_by", "skip"):
            def kn1(n_, tn):
                if x[2] == "skip": return iter_list(x[1], lambda l, ts: kk("(skipn (N.to_nat %s) %s)" % (n_, l), ts))
                return iter_list(x[1], lambda l, ts: "if %s =? 0 then None else\n  %s" % (n_, kk("(step_by_list (N.to_nat %s) %s)" % (n_, l), ts)))
            return self.expr(x[3][0], kn1, "usize")
        if x[0] == "call" and x[2] == "zip" and len(x[3]) == 1 and self.is_cycle(x[3][0]):
            base = self.is_cycle(x[3][0])
            return iter_list(x[1], lambda l1, t1: iter_list(base, lambda l2, t2: kk("(combine %s (cycle_take %s (length %s)))" % (l1, l2, l1), [("tup", (t1[0], t2[0]))]) if len(t1) == 1 and len(t2) == 1 else (_ for _ in ()).throw(Untranslatable("zip of pairs"))))
        if x[0] == "call" and x[2] == "zip" and len(x[3]) == 1:
            return iter_list(x[1], lambda l1, t1: iter_list(x[3][0], lambda l2, t2: kk("(combine %s %s)" % (l1, l2), [("tup", (t1[0], t2[0]))]) if len(t1) == 1 and len(t2) == 1 else (_ for _ in ()).throw(Untranslatable("zip of pairs"))))
        if x[0] == "call" and not x[3]:
            if x[2] == "iter":
                def ka_(av, ta):
                    if not (isinstance(ta, tuple) and ta[0] == "arr"): raise Untranslatable(".iter() of a non-array")
                    return kk(av, [ta[1]])
                return self.expr(x[1], ka_)
        if x[0] in ("call", "deref", "id"):
            def kany(av, ta):
                if not (isinstance(ta, tuple) and ta[0] == "arr"): raise Untranslatable("for over a value of type %s" % (ta,))
                return kk(av, [ta[1]])
            return self.expr(x, kany)
        raise Untranslatable("for over %r" % (x[0],))

    def is_cycle(self, x):
        """the iterator under a `.cycle()` (directly or through a let-bound name), else None"""
        while x[0] == "paren": x = x[1]
        if x[0] == "call" and x[2] == "cycle" and not x[3]: return x[1]
        if x[0] == "id" and x[1] in self.env and isinstance(self.env[x[1]][1], tuple) and self.env[x[1]][1][0] == "iter_cycle":
            return ("id", self.env[x[1]][1][2])
        return None

    def borrow_base(self, e):
        """the variable a `&mut PLACE` expression borrows from (through slices, indices, reborrows), else None"""
        if not (isinstance(e, tuple) and e[0] == "deref" and len(e) == 3): return None
        x = e[1]
        while isinstance(x, tuple) and x[0] in ("deref", "paren", "slice", "index"): x = x[1]
        if isinstance(x, tuple) and x[0] == "id" and x[1] in self.env: return x[1]
        k_ = self.lhs_key(x) if isinstance(x, tuple) else None
        return k_ if k_ in self.env else None

    def poison(self, name, why):
        # Aliasing is not modelled: once a mutable alias of `name` is bound to another name (or returned by a
        # callee that was handed `&mut name`), writes through the alias would not reach `name` in the
        # translation.  Any later use of `name` therefore stops the translation instead of mistranslating.
        self.poisoned[name] = why

    def lhs_key(self, e):
        while e[0] in ("deref", "paren"): e = e[1]
        if e[0] == "id": return e[1]
        if e[0] == "field" and e[1] == ("id", "self"): return "self." + e[2]
        return None

    def stmts(self, ss, final):
        """translate a statement list; `final()` produces the text once they are all done (it reads self.env)"""
        if not ss:
            return final(None)
        s, rest = ss[0], ss[1:]
        if s[0] == "nested_fn":
            return self.stmts(rest, final)
        # ITER.for_each(|pat| { body });  is  for pat in ITER { body }
        if (s[0] in ("expr_stmt", "tail") and s[1][0] == "call" and s[1][2] == "for_each" and len(s[1][3]) == 1
                and s[1][3][0][0] == "closure"):
            cl = s[1][3][0]
            s = ("for", cl[1], s[1][1], cl[2])
        # for (i, x) in ARR.iter_mut().enumerate() { .. *x .. }  is  for i in 0..ARR.len() { .. ARR[i] .. }
        if (s[0] == "for" and len(s[1]) == 2 and s[2][0] == "call" and s[2][2] == "enumerate" and not s[2][3]
                and s[2][1][0] == "call" and s[2][1][2] == "iter_mut" and not s[2][1][3]):
            arr_e = s[2][1][1]; iv, xv = s[1]
            def subst(n):
                if isinstance(n, tuple):
                    if n == ("deref", ("id", xv)): return ("index", arr_e, ("id", iv))
                    if n == ("id", xv): raise Untranslatable("iter_mut element used other than through *%s" % xv)
                    return tuple(subst(c) for c in n)
                if isinstance(n, list): return [subst(c) for c in n]
                return n
            s = ("for", [iv], ("range", ("num", 0, "usize"), ("call", arr_e, "len", []), False), subst(s[3]))
        # for b in &mut *ARR { .. *b .. }  is  for i in 0..ARR.len() { .. ARR[i] .. }
        if s[0] == "for" and len(s[1]) == 1:
            base_ = s[2]
            while base_[0] in ("deref", "paren"): base_ = base_[1]
            if base_[0] == "id" and base_[1] in self.env and isinstance(self.env[base_[1]][1], tuple) and self.env[base_[1]][1][0] == "arr" and (s[2][0] == "deref" or (s[2] == base_ and base_[1] in self.mut_arrays)):
                xv = s[1][0]; iv = "%s__idx" % xv
                def subst2(n):
                    if isinstance(n, tuple):
                        if n == ("deref", ("id", xv)): return ("index", base_, ("id", iv))
                        if n == ("id", xv): raise Untranslatable("slice element used other than through *%s" % xv)
                        return tuple(subst2(c) for c in n)
                    if isinstance(n, list): return [subst2(c) for c in n]
                    return n
                s = ("for", [iv], ("range", ("num", 0, "usize"), ("call", base_, "len", []), False), subst2(s[3]))
        if s[0] == "let_tuple":
            names = s[1]
            def klt(t_, tt):
                if not (isinstance(tt, tuple) and tt[0] == "tup" and len(tt[1]) == len(names)): raise Untranslatable("tuple pattern against %s" % (tt,))
                gs = []
                for n_, ty_ in zip(names, tt[1]):
                    if n_ == "_": gs.append("_")
                    else: self.env[n_] = ("v_" + n_, ty_); gs.append("v_" + n_)
                return "let '(%s) := %s in\n  %s" % (", ".join(gs), t_, self.stmts(rest, final))
            return self.expr(s[2], klt)
        if s[0] in ("tail", "expr") and s[1][0] == "iflet":
            _, name, scrut, th, el = s[1]
            def kil(sv, st_):
                if not (isinstance(st_, tuple) and st_[0] == "opt"): raise Untranslatable("if let on a non-Option")
                saved = dict(self.env)
                self.env[name] = ("v_" + name, st_[1])
                a = self.stmts(list(th) + list(rest), final)
                self.env = dict(saved)
                b = self.stmts(list(el) + list(rest), final)
                self.env = saved
                return "match %s with\n  | Some %s =>\n  %s\n  | None =>\n  %s end" % (sv, "v_" + name, a, b)
            return self.expr(scrut, kil)
        if s[0] == "for":
            pat, it, body = s[1], s[2], s[3]
            assigned = []
            def walkf(ss_):
                for x in ss_:
                    if x[0] == "assign":
                        key = self.lhs_key(x[1] if x[1][0] != "index" else x[1][1])
                        if key in self.env and key not in assigned: assigned.append(key)
                    elif x[0] in ("expr", "tail") and isinstance(x[1], tuple) and x[1][0] == "if":
                        walkf(x[1][2]); walkf(x[1][3] or [])
                    elif x[0] in ("while",): walkf(x[2])
                    elif x[0] == "for": walkf(x[3])
                    elif x[0] == "expr_stmt" and x[1][0] == "call" and x[1][2] in self.mut_method_calls:
                        key = self.lhs_key(x[1][1])
                        if key in self.env and key not in assigned: assigned.append(key)
                    elif x[0] == "expr_stmt" and x[1][0] == "call" and x[1][2] == "swap":
                        key = self.lhs_key(x[1][1])
                        if key in self.env and key not in assigned: assigned.append(key)
            walkf(body)
            if self.tape is not None and "'sample'" in repr(body):
                self.env["__tape"] = (self.tape, "tape"); assigned.append("__tape")
            order = [k_ for k_ in self.env if k_ in assigned]
            def tup():
                if not order: return "tt"                 # a loop that only searches (early return): no carried state
                return "(" + ", ".join(self.env[k_][0] for k_ in order) + ")" if len(order) > 1 else self.env[order[0]][0]
            # the list iterated over and the element pattern
            def with_list(lst, elem_types):
                if len(elem_types) == 1 and isinstance(elem_types[0], tuple) and elem_types[0][0] == "tup" and len(pat) == len(elem_types[0][1]) and len(pat) > 1:
                    elem_types = list(elem_types[0][1])
                if len(pat) != len(elem_types): raise Untranslatable("for pattern arity")
                saved = dict(self.env)
                names = []
                for p_, ty_ in zip(pat, elem_types):
                    g_ = "v_" + p_; self.env[p_] = (g_, ty_); names.append(g_)
                epat = "(" + ", ".join(names) + ")" if len(names) > 1 else names[0]
                spat = tup()
                self.loop_depth += 1
                b = self.stmts(list(body), lambda tail: "Some (inr %s)" % tup())
                self.loop_depth -= 1
                self.env = dict(saved)
                sb = ("fun '%s" % spat) if len(order) > 1 else ("fun %s" % spat if order else "fun (_ : unit)")
                eb = ("'%s" % epat) if len(names) > 1 else epat
                after = self.stmts(rest, final)
                early = ("Some (inl r_early)" if self.loop_depth > 0 else "Some r_early")
                return ("match for_loop (%s %s =>\n  %s) %s %s with\n  | None => None\n  | Some (inl r_early) => %s\n  | Some (inr %s) =>\n  %s end"
                        % (sb, eb, b, spat, lst, early, spat if order else "_", after))
            iter_list = self.iter_list
            return iter_list(it, with_list)
        if s[0] == "while":
            cond, body = s[1], s[2]
            assigned = []
            def walk(ss_):
                for x in ss_:
                    if x[0] == "assign":
                        key = self.lhs_key(x[1] if x[1][0] != "index" else x[1][1])
                        if key in self.env and key not in assigned: assigned.append(key)
                    elif x[0] == "expr" and x[1][0] == "if":
                        walk(x[1][2]); walk(x[1][3] or [])
                    elif x[0] == "tail" and x[1][0] == "if":
                        walk(x[1][2]); walk(x[1][3] or [])
                    elif x[0] == "while": walk(x[2])
                    elif x[0] == "expr_stmt" and x[1][0] == "call" and x[1][2] == "swap":
                        key = self.lhs_key(x[1][1])
                        if key in self.env and key not in assigned: assigned.append(key)
            walk(body)
            if not assigned: raise Untranslatable("while loop that assigns nothing")
            order = [k_ for k_ in self.env if k_ in assigned]
            def tup(): return "(" + ", ".join(self.env[k_][0] for k_ in order) + ")" if len(order) > 1 else self.env[order[0]][0]
            pat = tup()
            self.uses_fuel = True
            saved = dict(self.env)
            c = self.expr(cond, lambda t, tt: "Some %s" % t)
            self.env = dict(saved)
            b = self.stmts(list(body), lambda tail: "Some %s" % tup())
            self.env = dict(saved)
            binder = "fun '%s" % pat if len(order) > 1 else "fun %s" % pat
            return "match while_loop fuel (%s =>\n  %s) (%s =>\n  %s) %s with None => None | Some %s =>\n  %s end" % (
                binder, c, binder, b, pat, pat, self.stmts(rest, final))
        if s[0] == "let" and s[3][0] == "call" and s[3][2] == "cycle" and not s[3][3]:
            name = s[1]
            def kcy(l, ts):
                g = "v_" + name; base = "%s__base" % name
                self.env[base] = (g, ("iter", tuple(ts)))
                self.env[name] = (g, ("iter_cycle", tuple(ts), base))
                return "let %s := %s in\n  %s" % (g, l, self.stmts(rest, final))
            return self.iter_list(s[3][1], kcy)
        if s[0] == "let" and (s[3][0] == "range" or (s[3][0] == "call" and s[3][2] in ("zip", "enumerate", "step_by", "skip", "iter", "rev", "chars"))):
            name = s[1]
            def kit(l, ts):
                g = "v_" + name
                self.env[name] = (g, ("iter", tuple(ts)))
                return "let %s := %s in\n  %s" % (g, l, self.stmts(rest, final))
            return self.iter_list(s[3], kit)
        if s[0] == "let" and s[3] == ("fncall", "thread_rng", []):
            self.env[s[1]] = ("tt", "rng")                      # the thread RNG handle: the explicit tape stands for it
            return self.stmts(rest, final)
        if s[0] == "let" and s[3][0] == "fncall" and s[3][1] == "Uniform::from" and len(s[3][2]) == 1 and s[3][2][0][0] in ("range", "paren"):
            rg = s[3][2][0]
            while rg[0] == "paren": rg = rg[1]
            if rg[0] != "range" or not rg[3]: raise Untranslatable("Uniform::from of something other than an inclusive range")
            def klo_(lo, tl):
                def khi_(hi, th):
                    if tl != "u8" or th != "u8": raise Untranslatable("Uniform over %s" % (tl,))
                    self.env[s[1]] = ("(%s, %s)" % (lo, hi), "uniform_u8")
                    return self.stmts(rest, final)
                return self.expr(rg[2], khi_)
            return self.expr(rg[1], klo_)
        if s[0] == "expr_stmt" and s[1][0] == "fncall" and s[1][1] in self.tape_stmt_calls and len(s[1][2]) == 1 and self.tape is not None:
            akey = self.lhs_key(s[1][2][0])
            if akey is None or akey not in self.env: raise Untranslatable("argument of %s" % s[1][1])
            ag, _ = self.env[akey]
            return "match %s %s %s with None => None | Some (%s, %s) =>\n  %s end" % (self.tape_stmt_calls[s[1][1]], ag, self.tape, ag, self.tape, self.stmts(rest, final))
        if s[0] == "let":
            name, ty, e = s[1], s[2], s[3]
            e_ = e
            while e_[0] == "paren": e_ = e_[1]
            bb_ = self.borrow_base(e_)
            if bb_ is not None and bb_ != name:
                r_ = self.stmts_let_after_poison(s, rest, final, bb_, "a mutable alias of it was bound to `%s`" % name)
                return r_
            want = ty if ty in BITS else None
            if want is None and e[0] == "num" and e[2] is None and name in getattr(self, "usize_vars", ()):
                want = "usize"
            def k(t, tt):
                g = "v_" + name
                self.env[name] = (g, ty if ty in BITS else tt)
                return "let %s := %s in\n  %s" % (g, t, self.stmts(rest, final))
            return self.expr(e, k, want)
        if s[0] == "assign":
            lhs, e = s[1], s[2]
            if lhs[0] in ("index",) or (lhs[0] in ("deref", "paren") and lhs[1][0] == "index"):
                base = lhs if lhs[0] == "index" else lhs[1]
                key = self.lhs_key(base[1])
                if key is None or key not in self.env: raise Untranslatable("indexed assignment target")
                if key in self.poisoned: raise Untranslatable("`%s` is written after %s (aliasing is not modelled)" % (key, self.poisoned[key]))
                g, ta = self.env[key]
                def ki(i, ti):
                    def kv(v, tv):
                        g2 = g
                        return "if N.of_nat (length %s) <=? %s then None else\n  let %s := list_set %s (N.to_nat %s) %s in\n  %s" % (g, i, g2, g, i, v, self.stmts(rest, final))
                    return self.expr(e, kv, ta[1])
                return self.expr(base[2], ki, "usize")
            key = self.lhs_key(lhs)
            if key is None or key not in self.env: raise Untranslatable("assignment target %r" % (lhs,))
            g, t0 = self.env[key]
            def k(t, tt):
                if tt is not None and t0 is not None and tt != t0 and not isinstance(t0, tuple):
                    raise Untranslatable("assignment changes the type of %s: %s := %s" % (key, t0, tt))
                return "let %s := %s in\n  %s" % (g, t, self.stmts(rest, final))
            return self.expr(e, k, t0 if t0 in BITS else None)
        if s[0] == "expr_stmt" and s[1][0] == "try" and s[1][1][0] == "call" and s[1][1][2] in ("read_exact", "write_all") and len(s[1][1][3]) == 1:
            call = s[1][1]
            io = self.lhs_key(call[1])
            if io is None or io not in self.env: raise Untranslatable("i/o object")
            iog, ioty = self.env[io]
            if call[2] == "read_exact":
                if ioty != "reader": raise Untranslatable("read_exact on a non-reader")
                bkey = self.lhs_key(call[3][0])
                if bkey is None or bkey not in self.env: raise Untranslatable("read_exact buffer")
                bg, bty = self.env[bkey]
                kd = self.fresh("kd"); tb = self.fresh("b")
                return ("match read_exact (length %s) %s with\n  | Ok (%s, %s) => let %s := %s in\n  %s\n  | Err %s => %s\n  | Panic => None end"
                        % (bg, iog, tb, iog, bg, tb, self.stmts(rest, final), kd, (self.fn_final or final)(("(inr %s)" % kd, "result"))))
            if ioty != "writer": raise Untranslatable("write_all on a non-writer")
            def kw(b, tb_):
                kd = self.fresh("kd"); r_ = self.fresh("r")
                ok = self.stmts(rest, final)
                return ("let '(%s, %s) := io_write_all %s %s in\n  match %s with\n  | Ok _ => %s\n  | Err %s => %s\n  | Panic => None end"
                        % (iog, r_, b, iog, r_, ok, kd, (self.fn_final or final)(("(inr %s)" % kd, "result"))))
            return self.expr(call[3][0], kw)
        if s[0] == "expr_stmt" and s[1][0] == "call" and s[1][2] == "fill_bytes" and len(s[1][3]) == 1 and s[1][1] == ("fncall", "thread_rng", []):
            bkey = self.lhs_key(s[1][3][0])
            if bkey is None or bkey not in self.env or self.tape is None: raise Untranslatable("fill_bytes target")
            bg, bty = self.env[bkey]
            return "let '(%s, %s) := draw (length %s) %s in\n  %s" % (bg, self.tape, bg, self.tape, self.stmts(rest, final))
        if s[0] == "expr_stmt" and s[1][0] == "call" and s[1][2] == "randomize_data" and not s[1][3]:
            key = self.lhs_key(s[1][1])
            if key is None or key not in self.env or self.tape is None: raise Untranslatable("randomize_data target")
            g, ty = self.env[key]
            n_ = self.field_draws.get(key)
            if n_ is None: raise Untranslatable("size of the random draw for %s" % key)
            return "let '(%s, %s) := draw (N.to_nat %s) %s in\n  %s" % (g, self.tape, n_, self.tape, self.stmts(rest, final))
        if (s[0] == "expr_stmt" and s[1][0] == "call" and s[1][2] in self.mut_method_calls
                and self.lhs_key(s[1][1]) in self.env and isinstance(self.env[self.lhs_key(s[1][1])][1], tuple) and self.env[self.lhs_key(s[1][1])][1][0] == "struct"):
            spec_ = self.mut_method_calls[s[1][2]]
            fn_, nf = spec_[0], spec_[1]
            g, ty = self.env[self.lhs_key(s[1][1])]
            if len(spec_) > 2 and spec_[2] in ("slice", "whole"):        # x.m(&mut data): a translated per-element body folded over the slice
                a0 = s[1][3][0] if len(s[1][3]) == 1 else None
                while a0 is not None and a0[0] == "call" and a0[2] in ("as_mut_slice",) and not a0[3]: a0 = a0[1]
                akey = self.lhs_key(a0) if a0 is not None else None
                if akey is None or akey not in self.env: raise Untranslatable("slice argument of %s" % s[1][2])
                ag, _ = self.env[akey]
                if spec_[2] == "whole":
                    return "match %s %s %s with None => None | Some (%s, _, %s) =>\n  %s end" % (fn_, g, ag, g, ag, self.stmts(rest, final))
                return "match slice_loop %s %s %s with None => None | Some (%s, %s) =>\n  %s end" % (fn_, g, ag, g, ag, self.stmts(rest, final))
            fs = [self.fresh("f") for _ in range(nf)]
            def goa(i, acc):
                if i == len(s[1][3]):
                    return ("match (let '(%s) := %s in %s %s%s) with None => None | Some (%s, _) =>\n  %s end"
                            % (", ".join(fs), g, fn_, " ".join(fs), "".join(" " + a for a in acc), g, self.stmts(rest, final)))
                return self.expr(s[1][3][i], lambda t_, tt: goa(i + 1, acc + [t_]))
            return goa(0, [])
        if (s[0] == "expr_stmt" and s[1][0] == "call" and s[1][2] in ("update", "consume") and len(s[1][3]) == 1
                and self.lhs_key(s[1][1]) in self.env and self.env[self.lhs_key(s[1][1])][1] == {"update": "hmac", "consume": "md5ctx"}[s[1][2]]):
            g, _ = self.env[self.lhs_key(s[1][1])]
            def khu(d, td):
                if not (isinstance(td, tuple) and td[0] == "arr"): raise Untranslatable("%s data" % s[1][2])
                if s[1][2] == "consume": return "let %s := %s ++ %s in\n  %s" % (g, g, d, self.stmts(rest, final))
                return "let %s := (fst %s, snd %s ++ %s) in\n  %s" % (g, g, g, d, self.stmts(rest, final))
            return self.expr(s[1][3][0], khu)
        if s[0] == "expr_stmt" and s[1][0] == "fncall" and s[1][1] in self.cipher_calls and len(s[1][2]) == 4:
            step = self.cipher_calls[s[1][1]]
            dk, kk_, ak, bk = [self.lhs_key(a_) for a_ in s[1][2]]
            if any(x is None or x not in self.env for x in (dk, kk_, ak, bk)): raise Untranslatable("arguments of %s" % s[1][1])
            dg, kg, ag, bg = [self.env[x][0] for x in (dk, kk_, ak, bk)]
            return ("match slice_loop (%s %s) (%s, %s) %s with None => None | Some ((%s, %s), %s) =>\n  %s end"
                    % (step, kg, ag, bg, dg, ag, bg, dg, self.stmts(rest, final)))
        if s[0] == "expr_stmt" and s[1][0] == "call":
            e = s[1]
            path = None
            if e[1] == ("id", "self"): path = "self." + e[2]
            elif e[1][0] == "field" and e[1][1] == ("id", "self"): path = "self.%s.%s" % (e[1][2], e[2])
            if path in self.externs and len(e[3]) == 1:
                fn_, skey = self.externs[path]
                akey = self.lhs_key(e[3][0])
                if akey is None or akey not in self.env or skey not in self.env: raise Untranslatable("external call argument")
                sg, _ = self.env[skey]; ag, _ = self.env[akey]
                return "match %s %s %s with None => None | Some (%s, %s) =>\n  %s end" % (fn_, sg, ag, sg, ag, self.stmts(rest, final))
        if s[0] == "expr_stmt" and s[1][0] == "call" and s[1][2] in ("clone_from_slice", "copy_from_slice") and len(s[1][3]) == 1 and s[1][1][0] == "slice":
            # ARR[lo..hi].clone_from_slice(&SRC): bounds of the range, then equal lengths, are checked (panics)
            sl = s[1][1]
            key = self.lhs_key(sl[1])
            if key is None or key not in self.env: raise Untranslatable("clone_from_slice target")
            g, ta = self.env[key]
            def kcs(src_, ts):
                if not (isinstance(ts, tuple) and ts[0] == "arr"): raise Untranslatable("clone_from_slice source")
                def klo(lo, tl):
                    def khi(hi, th):
                        return ("if N.of_nat (length %s) <? %s then None else if %s <? %s then None else\n  if negb (N.of_nat (length %s) =? %s - %s) then None else\n  let %s := (firstn (N.to_nat %s) %s ++ %s ++ skipn (N.to_nat %s) %s) in\n  %s"
                                % (g, hi, hi, lo, src_, hi, lo, g, lo, g, src_, hi, g, self.stmts(rest, final)))
                    if sl[3] is None: return khi("(N.of_nat (length %s))" % g, "usize")
                    return self.expr(sl[3], khi, "usize")
                if sl[2] is None: return klo("0", "usize")
                return self.expr(sl[2], klo, "usize")
            return self.expr(s[1][3][0], kcs)
        if s[0] == "expr_stmt" and s[1][0] == "call" and s[1][2] == "reverse" and not s[1][3] and s[1][1][0] == "slice":
            sl = s[1][1]
            key = self.lhs_key(sl[1])
            if key is None or key not in self.env: raise Untranslatable("reverse target")
            g, ta = self.env[key]
            def klo(lo, tl):
                def khi(hi, th):
                    return ("if N.of_nat (length %s) <? %s then None else if %s <? %s then None else\n  let %s := (firstn (N.to_nat %s) %s ++ rev (firstn (N.to_nat (%s - %s)) (skipn (N.to_nat %s) %s)) ++ skipn (N.to_nat %s) %s) in\n  %s"
                            % (g, hi, hi, lo, g, lo, g, hi, lo, lo, g, hi, g, self.stmts(rest, final)))
                if sl[3] is None: return khi("(N.of_nat (length %s))" % g, "usize")
                return self.expr(sl[3], khi, "usize")
            if sl[2] is None: return klo("0", "usize")
            return self.expr(sl[2], klo, "usize")
        if s[0] == "expr_stmt":
            e = s[1]
            if e[0] == "call" and e[2] == "swap" and len(e[3]) == 2:
                key = self.lhs_key(e[1])
                if key is None or key not in self.env: raise Untranslatable("swap target")
                g, ta = self.env[key]
                def ki(i, ti):
                    def kj(j, tj):
                        a, b = self.fresh("x"), self.fresh("y")
                        return ("match nth_error %s (N.to_nat %s), nth_error %s (N.to_nat %s) with\n  | Some %s, Some %s =>\n  let %s := list_set (list_set %s (N.to_nat %s) %s) (N.to_nat %s) %s in\n  %s\n  | _, _ => None end"
                                % (g, i, g, j, a, b, g, g, i, b, j, a, self.stmts(rest, final)))
                    return self.expr(e[3][1], kj, "usize")
                return self.expr(e[3][0], ki, "usize")
            raise Untranslatable("expression statement %r" % (e[0],))
        if s[0] == "tail":
            if rest: raise Untranslatable("tail expression followed by statements")
            if s[1][0] == "if": return self.if_stmt(s[1], rest, final)
            return self.expr(s[1], lambda t, tt: final((t, tt)))
        if s[0] == "return":
            if self.loop_depth > 0:
                return self.expr(s[1], lambda t, tt: "Some (inl %s)" % t)
            return self.expr(s[1], lambda t, tt: final((t, tt)))
        if s[0] == "expr" and s[1][0] == "if":
            return self.if_stmt(s[1], rest, final)
        raise Untranslatable("statement kind %s" % s[0])

    def stmts_let_after_poison(self, s, rest, final, base, why):
        # evaluate the initialiser first (it reads the base), then forbid the base
        name, ty, e = s[1], s[2], s[3]
        def k(t, tt):
            g = "v_" + name
            self.env[name] = (g, ty if ty in BITS else tt)
            self.poison(base, why)
            return "let %s := %s in\n  %s" % (g, t, self.stmts(rest, final))
        return self.expr(e, k, ty if ty in BITS else None)

    def if_stmt(self, e, rest, final):
        # both branches continue with the remaining statements (duplicated), each in its own environment
        _, c, th, el = e
        if rest:                      # `else if` chains parse as a tail `if` inside the else block: a statement here
            if th and th[-1][0] == "tail" and th[-1][1][0] in ("if", "iflet"): th = list(th[:-1]) + [("expr", th[-1][1])]
            if el and el[-1][0] == "tail" and el[-1][1][0] in ("if", "iflet"): el = list(el[:-1]) + [("expr", el[-1][1])]
        def kc(ct, ctt):
            if ctt != "bool": raise Untranslatable("if condition is not a comparison")
            saved = dict(self.env)
            a = self.stmts(list(th) + list(rest), final)
            self.env = dict(saved)
            b = self.stmts(list(el or []) + list(rest), final)
            self.env = saved
            return "if %s then (\n  %s\n  ) else (\n  %s\n  )" % (ct, a, b)
        return self.expr(c, kc)


def usize_variables(stmts):
    """un-annotated variables that occur inside an index / slice bound or are compared with a .len()"""
    found = set()
    def ids(e, acc):
        if not isinstance(e, tuple): return
        if e[0] == "struct" and len(e) == 3 and isinstance(e[2], list):
            for _, fe in e[2]: ids(fe, acc)
            return
        if e[0] == "id": acc.add(e[1])
        for x in e[1:]:
            if isinstance(x, tuple): ids(x, acc)
            elif isinstance(x, list):
                for y in x: ids(y, acc) if isinstance(y, tuple) else None
    def expr(e):
        if not isinstance(e, tuple): return
        if e[0] == "struct" and len(e) == 3 and isinstance(e[2], list):
            for _, fe in e[2]: expr(fe)
            return
        if e[0] == "index": ids(e[2], found)
        if e[0] == "slice":
            for b in (e[2], e[3]):
                if b is not None: ids(b, found)
        if e[0] == "bin" and e[1] in ("<", ">", "<=", ">=", "==", "!="):
            for a, b in ((e[2], e[3]), (e[3], e[2])):
                if b[0] == "call" and b[2] == "len": ids(a, found)
        for x in e[1:]:
            if isinstance(x, tuple): expr(x)
            elif isinstance(x, list):
                for y in x:
                    if isinstance(y, tuple): expr(y)
    def walk(ss):
        for s in ss:
            for x in s[1:]:
                if isinstance(x, tuple): expr(x)
                elif isinstance(x, list): walk([y for y in x if isinstance(y, tuple)])
    walk(stmts)
    return found

# -------------------------------------------------------------------------------------- front end
def strip_comments(s):
    """remove // and /* */ comments, leaving string literals (which may contain // or /*) intact"""
    out, i, n = [], 0, len(s)
    while i < n:
        c = s[i]
        if c == '"':
            j = i + 1
            while j < n and s[j] != '"':
                j += 2 if s[j] == "\\" else 1
            out.append(s[i:j + 1]); i = j + 1
        elif s.startswith("//", i):
            j = s.find("\n", i)
            i = n if j < 0 else j
        elif s.startswith("/*", i):
            j = s.find("*/", i + 2)
            i = n if j < 0 else j + 2
        elif c == "'" and i + 2 < n and (s[i + 2] == "'" or (s[i + 1] == "\\" and i + 3 < n and s[i + 3] == "'")):
            j = i + (4 if s[i + 1] == "\\" else 3)          # char literal such as '"' or '\\n'
            out.append(s[i:j]); i = j
        else:
            out.append(c); i += 1
    return "".join(out)

def balanced(s, i):
    depth, j = 0, i
    while j < len(s):
        if s[j] in "([{": depth += 1
        elif s[j] in ")]}":
            depth -= 1
            if depth == 0: return j + 1
        j += 1
    raise Untranslatable("unbalanced brackets")

def find_fn(src, name, nth=0):
    """(signature text, body text incl. braces) of the nth function called `name` outside test modules"""
    cut = re.search(r"#\[cfg\(test\)\]\s*mod\s+\w+", src)
    if cut: src = src[:cut.start()]
    ms = list(re.finditer(r"\bfn\s+%s\s*(<[^>]*>)?\s*\(" % re.escape(name), src))
    if len(ms) <= nth: raise Untranslatable("function %s not found" % name)
    m = ms[nth]
    k = balanced(src, m.end() - 1)
    j = k
    while j < len(src) and src[j] != "{":
        if src[j] == "[": j = balanced(src, j); continue
        if src[j] == ";": raise Untranslatable("function %s has no body" % name)
        j += 1
    e = balanced(src, j)
    return src[m.end():k - 1], src[k:j], src[j:e]

def split_params(sig):
    out, depth, cur = [], 0, ""
    for ch in sig + ",":
        if ch in "([{<": depth += 1
        if ch in ")]}>": depth -= 1
        if ch == "," and depth == 0:
            if cur.strip(): out.append(cur.strip())
            cur = ""
        else:
            cur += ch
    res = []
    for p in out:
        if re.match(r"&?\s*(mut\s+)?self$", p): res.append(("self", "self")); continue
        m = re.match(r"(?:mut\s+)?(\w+)\s*:\s*(.*)$", p, flags=re.S)
        if not m: raise Untranslatable("parameter %r" % p)
        res.append((m.group(1), re.sub(r"\s+", " ", m.group(2).strip())))
    return res

def param_type(ty):
    """rust type text -> ('u8' | ... | ('arr', elem)), mutable?"""
    mut = bool(re.match(r"&\s*mut\b", ty))
    t = re.sub(r"^&\s*(mut\s+)?", "", ty).strip()
    if t in ("str", "String", "impl AsRef<str>", "impl Into<String>"): return "str", mut
    if t in BITS: return t, mut
    m = re.match(r"\[\s*(\w+)\s*(?:;.*)?\]$", t, flags=re.S)
    if m and m.group(1) in BITS: return ("arr", m.group(1)), mut
    raise Untranslatable("parameter type %r" % ty)
