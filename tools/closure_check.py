#!/usr/bin/env python3
"""Closure of the translated code: coq/Steps.v (regenerated from /repo/src on every run) may mention a
hand-written model function only if
  (a) it stands for third-party code (the modelled dependencies: big-integer back end, rand's sampler, std's
      char / str API), or
  (b) that model function itself has a translated counterpart in Steps.v together with a machine-checked
      lemma `<name>_translated` in proofs/steps/*.v saying the two are equal.
So no hand-written definition can silently stand in for source code of the crate inside a translated body.
Prints `closure: ok (...)` and exits 0, or lists the offending identifiers and exits 1."""
import os, re, sys, glob
ROOT = os.path.dirname(os.path.dirname(os.path.abspath(__file__)))
COQ = os.path.join(ROOT, "coq")

DEPENDENCIES = {
    # model/Bigint.v: num-bigint / rug primitives
    "from_bytes_le", "to_bytes_le", "modpow", "rem", "is_zero",
    # model/Random.v: rand 0.8 UniformInt<u8>
    "uniform_sample", "uniform_range", "uniform_reject",
    # model/NormalizedString.v: std char / str API
    "is_ascii", "is_ascii_control", "to_ascii_uppercase", "str_len",
}
# model function -> [(translated definition, lemma)]
COUNTERPART = {
    "calculate_x": [("tr_srp_calculate_x", "calculate_x_translated")],
    "calculate_client_proof": [("tr_srp_calculate_client_proof", "calculate_client_proof_translated")],
    "calculate_client_proof_with_custom_value": [("tr_srp_calculate_client_proof_custom", "calculate_client_proof_custom_translated")],
    "calculate_server_proof": [("tr_srp_calculate_server_proof", "calculate_server_proof_translated")],
    "calculate_reconnect_proof": [("tr_srp_calculate_reconnect_proof", "calculate_reconnect_proof_translated")],
    "calculate_session_key": [("tr_srp_calculate_session_key", "calculate_session_key_translated")],
    "calculate_world_server_proof": [("tr_world_calculate_world_server_proof", "calculate_world_server_proof_translated")],
    "crypto_new": [("tr_vanilla_crypto_new", "vanilla_crypto_new_translated"), ("tr_tbc_crypto_new", "tbc_crypto_new_translated")],
    "client_crypto_new": [("tr_wrath_client_crypto_new", "wrath_client_crypto_new_translated")],
    "server_crypto_new": [("tr_wrath_server_crypto_new", "wrath_server_crypto_new_translated")],
    "key_from_bigint": [("tr_key_macro_from_bigint", "key_macro_from_bigint_translated")],
    "pk_try_from_bigint": [("tr_key_try_from_bigint", "key_try_from_bigint_translated")],
    "pk_client_try_from_bigint": [("tr_key_client_try_from_bigint", "key_client_try_from_bigint_translated")],
    "to_padded_32_byte_array_le": [("tr_bigint_to_padded_32", "bigint_to_padded_32_translated")],
}

def main():
    steps = open(os.path.join(COQ, "Steps.v")).read()
    code = re.sub(r"\(\*.*?\*\)", "", steps, flags=re.S)
    # model modules whose names are visible unqualified (Require Import) / only qualified (Require)
    imported = set(re.findall(r"\bmodel\.(\w+)", " ".join(re.findall(r"Require Import([^.]*(?:\.\w[^.]*)*)\.\s", code))))
    required = set(re.findall(r"\bmodel\.(\w+)", code)) 
    by_mod, defs = {}, {}
    for f in glob.glob(os.path.join(COQ, "model", "*.v")):
        mod = os.path.basename(f)[:-2]
        names = set(re.findall(r"^(?:Definition|Fixpoint)\s+(\w+)", open(f).read(), flags=re.M))
        by_mod[mod] = names
        if mod in imported:
            for n in names: defs.setdefault(n, []).append(os.path.basename(f))
    lemmas = set()
    for f in glob.glob(os.path.join(COQ, "proofs", "steps", "*.v")):
        lemmas |= set(re.findall(r"^(?:Lemma|Theorem)\s+(\w+)", open(f).read(), flags=re.M))
    translated = set(re.findall(r"^Definition\s+(tr_\w+)", code, flags=re.M))
    used = set()
    for m in re.finditer(r"\b([A-Za-z_][\w\.]*)\b", code):
        full = m.group(1)
        if full.startswith("tr_"): continue
        parts = full.split(".")
        n = parts[-1]
        if len(parts) >= 2 and parts[-2] in by_mod:               # qualified: Vanilla.crypto_new, model.Tbc.crypto_new
            if n in by_mod[parts[-2]]: used.add(n); defs.setdefault(n, []).append(parts[-2] + ".v")
        elif len(parts) == 1 and n in defs: used.add(n)
    bad = []
    for n in sorted(used):
        if n in DEPENDENCIES: continue
        cps = COUNTERPART.get(n)
        if not cps:
            bad.append("%s (model/%s) is used in a translated body but has no translated counterpart" % (n, ",".join(defs[n]))); continue
        for d, l in cps:
            if d not in translated: bad.append("%s: its translated counterpart %s is missing from Steps.v" % (n, d))
            if l not in lemmas: bad.append("%s: the lemma %s (translated = model) is missing from proofs/steps" % (n, l))
    if bad:
        for b in bad: print("closure: " + b)
        return 1
    print("closure: ok (%d model functions used in Steps.v: %d modelled dependencies, %d with a translated counterpart and its lemma)"
          % (len(used), len(used & DEPENDENCIES), len(used - DEPENDENCIES)))
    return 0

if __name__ == "__main__":
    sys.exit(main())
