"""Texts for MANIFEST.json."""
ALL = ["C%02d" % i for i in range(1, 20)]

NOTES = ("Technique family: machine-checked proof in Coq 8.16.1. Each property has theorems about an executable Gallina "
         "model of the Rust code (coq/props/Cxx.v, and coq/props/src/Cxx.v about bodies translated from the source), the model is tied to /repo on every run by four translators "
         "(constants, digest layouts, purity scan, Rust-subset-to-Gallina translation of core and API bodies) "
         "and by a correspondence check that evaluates the model inside coqc on the inputs and outputs of the real library. "
         "See DESIGN.md.")

CHECKS = {
    "C07": {
        "text": "Theorems (Coq, all keys / streams / partitions, by induction): any chunking of encrypt calls equals the whole-stream recurrence and leaves (len mod 40, last ciphertext); decrypt likewise; decrypter inverts encrypter with independent chunkings; empty calls are the identity; the full step table; no panic from any state with index < 40. The model is tied to the code by evaluating it in Coq on the implementation's inputs/outputs and by an exhaustive implementation-side step table.",
        "design_ref": "DESIGN.md §3 C07",
        "note": "Trusted: Coq kernel+VM, the hand-written model of encrypt/decrypt (checked against the code by the correspondence on every run), the harness and hooks. No axioms.",
        "technique": "Coq proof (induction over the stream) + model/implementation correspondence via vm_compute",
    },
    "C04": {
        "text": "Theorems (Coq, all 2^256 keys): check_public_key key = Ok <-> key mod N <> 0; the only two refused 32-byte values are zero and N (uses 2N > 2^256 and injectivity of the little-endian encoding); error kinds; accepted keys are handed back unchanged; the same rule for try_from_bigint (server's own key) and client_try_from_bigint under any announced modulus; the pinned 0.7.0 shortcut is refuted (183, 0x9b00). Tied to the code by the correspondence on boundary values, the 2^32 'zero or N-byte' class and random keys, plus a 10^6-key implementation oracle.",
        "design_ref": "DESIGN.md §3 C04, §4 F1",
        "note": "Decided on the repaired function (fix: a367a59). Trusted: Coq kernel+VM, the model of key.rs/bigint.rs, the harness. No axioms.",
        "technique": "Coq proof (arithmetic on the little-endian encoding) + model/implementation correspondence via vm_compute",
    },
    "C13": {
        "text": "Theorems (Coq, every list of Unicode scalar values): accepted iff 1..16 chars all in 0x20..0x7E; stored text = map upper; error precedence (byte-length gate first, then first offending scalar); no panic (chars <= bytes <= 16); idempotent; case-insensitive incl. error payload; constructors agree; derived Eq/Ord on (array,length) = lexicographic order of the texts (padding lemma); text -> struct injective (covers Hash); Display. Tied to the code by the correspondence (every ASCII byte at every position, multi-byte mixes around 16 bytes, all constructors, comparisons) and an oracle over every scalar value.",
        "design_ref": "DESIGN.md §3 C13",
        "note": "Trusted: Coq kernel+VM, the model of normalized_string.rs (str/char API rendered on scalar lists), the harness. No axioms.",
        "technique": "Coq proof (induction over the scalar list) + model/implementation correspondence via vm_compute",
    },
    "C01": {
        "text": "Theorem C01_honest_login (Coq, every username/password text, salt, b, a and challenge on the tape, through export/re-import of the account record): unless into_proof hits its documented panic (B = 0 mod N) the client constructor returns, its A is accepted by the public-key check, the server accepts M1, the client accepts M2, both session keys are equal and 40 bytes long. Rests on: model = SRP6 spec (C03 lemmas), the algebraic identity S_client = S_server for all a,b,x,u >= 0 (no side condition, so negative B - k*v and every count of zero bytes in S are covered), g^a mod N <> 0 (gcd(7,N) = 1), the precomputed xor hash equals the computed one (closed SHA-1 computation), case variants normalise to the same string (C13). Tied to the code by full logins through the public API with an injected tape compared value by value with the model, including rare classes found by Rust-side search.",
        "design_ref": "DESIGN.md §3 C01",
        "note": "Trusted: Coq kernel+VM; models of server.rs/client.rs/srp_internal*.rs/key.rs/bigint.rs; SHA-1 and num-bigint primitives modelled; harness and RNG tape hook. No axioms.",
        "technique": "Coq proof (Z algebra + byte-level lemmas) + model/implementation correspondence via vm_compute",
    },
    "C06": {
        "text": "Theorems (Coq, all names, keys, seeds; each of the three modules modelled from its own source): client proof = SHA1(U|0000|client seed LE|server seed LE|K); server hands out crypto iff the presented proof equals that value for its own seed, else Err{client_proof := presented, server_proof := expected}; client output accepted with swapped seed roles; all 160 bit flips refused; binding of name, both seeds and key in collision form; seed() = the 4 drawn bytes little-endian. Tied to the code by the correspondence over all three modules with tape-injected seeds.",
        "design_ref": "DESIGN.md §3 C06",
        "note": "Trusted: Coq kernel+VM; SHA-1 modelled; models of the three ProofSeed impls; harness and RNG tape hook. No axioms.",
        "technique": "Coq proof + model/implementation correspondence via vm_compute",
    },
    "C08": {
        "text": "Theorems (Coq, all session keys / streams / partitions): both halves key themselves with HMAC-SHA1(TBC seed, K) (the two duplicated seed literals are separate extracted constants proved equal to the TBC seed); any chunking equals the whole-stream recurrence modulo 20; decrypter inverts encrypter with independent chunkings; empty calls; step table; no panic from any state with index < 20. Tied to the code by evaluating the model (concrete HMAC-SHA1 in Coq) on the implementation's inputs/outputs, plus an exhaustive implementation-side step table.",
        "design_ref": "DESIGN.md §3 C08",
        "note": "Trusted: Coq kernel+VM; HMAC-SHA1 modelled (RFC 2202 vectors checked in Coq, compared with the hmac crate by the correspondence); harness and hooks. No axioms.",
        "technique": "Coq proof (induction over the stream) + model/implementation correspondence via vm_compute",
    },
    "C02": {
        "text": "Theorems (Coq, all states and inputs): into_server accepts iff the presented proof equals sp_M1(user, salt, A, B, K(A, v, b)), returns M2 = H(A|M1|K) and K, else Err{client_proof := presented, server_proof := expected} (no server object by the type); verify_server_proof accepts iff m = H(A|M1|K) with the payload the other way round; all 160 single-bit changes are refused; M1 and M2 bind every field in collision form (fixed-width concatenation is injective). Tied to the code by batched bit-flip cases and field perturbations evaluated through the model, plus an implementation oracle over all 160 flips on hundreds of sessions.",
        "design_ref": "DESIGN.md §3 C02",
        "note": "Trusted: Coq kernel+VM; models of server.rs/client.rs; SHA-1 and num-bigint primitives modelled; harness/RNG tape hook. No axioms. 'Different password is refused' is stated honestly as: accepted => equal fields or an explicit SHA-1 collision.",
        "technique": "Coq proof (decision = equality with the spec value; injectivity of fixed-width concatenation) + model/implementation correspondence via vm_compute",
    },
    "C03": {
        "text": "Theorems (Coq, all inputs): each function of srp_internal.rs / srp_internal_client.rs equals the WoW-SRP6 specification byte for byte: verifier, B (incl. the public-key check outcome), u, server S, interleave for every 32-byte secret (every count of low-order zero bytes, zero included), M1 with the precomputed xor hash = H(N) xor H(g) (closed SHA-1 computation), M2; on the client A, S (signed intermediate, unreduced exponent) and M1 for ANY announced generator and ANY modulus 0 < N' < 2^256; and the values leaving the public typestate API as functions of (U, P, group, tape). Tied to the code through hooks (interleave, S, B, client S) and the public API under ten announced moduli, plus an independent textbook recomputation on thousands of sessions.",
        "design_ref": "DESIGN.md §3 C03",
        "note": "Trusted: Coq kernel+VM; SHA-1 and num-bigint primitives modelled; harness and hooks. No axioms.",
        "technique": "Coq proof (model refines spec: padding, strip, even/odd split, square-and-multiply = b^e mod m) + model/implementation correspondence via vm_compute",
    },
    "C05": {
        "text": "Theorems (Coq, ALL finite histories of attempts, by induction): the i-th verdict is true iff proof_i = H(U|cd_i|chal_i|K) where chal_0 is the login challenge and chal_(i+1) the i-th 16-byte tape segment, whatever earlier verdicts were; after any history user and key are unchanged and the challenge is the next drawn segment (unconditional refresh); the legitimate client is accepted n times in a row for every n; a pair accepted at steps i < j forces chal_i = chal_j or an explicit SHA-1 collision; the proof binds user, client data, challenge and key; the client draws a fresh 16-byte challenge per call. Tied to the code by random histories with tape-injected challenges evaluated through the model.",
        "design_ref": "DESIGN.md §3 C05",
        "note": "Trusted: Coq kernel+VM; SHA-1 modelled; model of verify_reconnection_attempt/calculate_reconnect_values; harness/RNG tape hook. No axioms.",
        "technique": "Coq proof (induction over the attempt list) + model/implementation correspondence via vm_compute",
    },
    "C14": {
        "text": "Theorems (Coq, all values of the peer-controlled arguments): into_server is never Panic for any stored verifier, accepted A and proof; reconnect verification is total; the client constructor with the built-in group is Ok for every B, salt and tape and verify_server_proof never panics; the zero secret a hostile server can force (B = k*v mod N, proved to give S = 0) is handled; world-login on all three modules never panics; every header encrypt/decrypt entry point (Vanilla, TBC, Wrath incl. decrypt_large without a prior attempt) returns from any state satisfying its invariant; N is prime (Pocklington certificate chain) hence the server's S is non-zero for a proper verifier. The pinned unbounded scan is refuted. Tied to the code by catch_unwind around adversarial calls in debug and release builds and model comparison on a sample.",
        "design_ref": "DESIGN.md §3 C14, §4 F2",
        "note": "Decided on the repaired scan (fix: 0562141). Trusted: Coq kernel+VM; num-bigint panic conditions as modelled; harness. No axioms (MathComp ssreflect used in primes/, axiom-free).",
        "technique": "Coq proof (total functions with explicit Panic outcome; invariants; primality certificate) + catch_unwind oracle + model/implementation correspondence",
    },
    "C15": {
        "text": "PARTIAL. Theorems (Coq) about the data flow of randomness through the model with an explicit tape: each documented drawing call consumes exactly the next w tape bytes (32 salt, 32 b, 32 a, 16 login challenge drawn only on acceptance, 16 refresh after EVERY reconnect attempt, 16 client challenge, 4/4/8-byte seeds little-endian, 16-byte salts) and hands them out verbatim (no masking or reduction; the little-endian reading is injective), draws are consecutive and disjoint for any sequence of calls, and the Uniform(0..=9) rejection sampler yields a digit < 10 for every accepted 32-bit word. What no theorem can say - that rand::thread_rng produces fresh, unpredictable bytes - is examined by a statistical test (no repeats, per-byte uniformity) and named as trusted.",
        "design_ref": "DESIGN.md §3 C15",
        "note": "Level is proof for the flow of drawn bytes, test for the RNG's quality. Trusted: Coq kernel+VM; rand's UniformInt sampler as modelled; thread_rng itself. No axioms.",
        "technique": "Coq proof of tape linearity over the API model + tape-injection correspondence + statistical test (labelled as a test)",
    },
    "C17": {
        "text": "Theorems (Coq, all file contents, salts, keys): Windows, Mac and single-buffer functions all equal SHA1(key | HMAC-SHA1(salt, files concatenated in argument order)); any two ways of distributing the same bytes over the five arguments (or one buffer) give the same result; reconnect check = SHA1(salt | 20 zero bytes); changing files, salt or key changes the result or exhibits a SHA-1 collision (binding through HMAC's two nested hashes, xor pads injective). Tied to the code through the concrete SHA-1/HMAC in Coq on cuts around all padding boundaries.",
        "design_ref": "DESIGN.md §3 C17",
        "note": "Trusted: Coq kernel+VM; SHA-1/HMAC modelled incl. the streaming-update = concatenation behaviour of the hmac crate. No axioms.",
        "technique": "Coq proof (algebra of list concatenation; collision-form binding) + model/implementation correspondence via vm_compute",
    },
    "C09": {
        "text": "Theorems (Coq, all keys / streams / partitions): Rc4::new and apply_keystream never index out of range (checked accesses, invariant length 256, i, j < 256); for every non-empty key the model is textbook RC4 at every offset (counters wrap mod 256, no special case at 256 or 65,536 bytes); any partition into calls equals one call and the state depends only on the byte count; each of the four halves outputs data xor bytes 1024.. of RC4 keyed by HMAC-SHA1(direction constant, K); client encrypter / server decrypter (and server encrypter / client decrypter) start in the same state, the two constants differ, each direction round-trips under independent chunkings; constructors and raw calls never panic. Tied to the code by the correspondence (raw Rc4 through a hook incl. RFC 6229 keys, the four halves over random partitions, lengths around 256/1024 and beyond 65,536 in thorough) and an independent RC4+HMAC reference in the harness.",
        "design_ref": "DESIGN.md §3 C09",
        "note": "Trusted: Coq kernel+VM, the model of rc4.rs / wrath_header, the Gallina SHA-1/HMAC, harness and hooks. 'Never share a keystream' is proved as 'different HMAC key constants'. No axioms.",
        "technique": "Coq proof (RC4 invariant, induction over the stream, lock-step of paired halves) + model/implementation correspondence via vm_compute",
    },
    "C10": {
        "text": "Theorems (Coq, every size <= 0x7FFFFF, opcode < 2^16, every state satisfying the RC4 invariant): emitted bytes xor keystream are the documented layout, 4 bytes iff size <= 0x7FFF else 5 with 0x80 in the first plaintext byte; with the decrypter in step the attempt returns a short header directly and asks for one more byte for a long one, after which decrypt_large returns exactly (size, opcode) with the states equal again; ANY finite sequence of in-range headers, short and long mixed, decodes to the same sequence consuming exactly the emitted bytes; no header entry point panics incl. decrypt_large without attempt; oversize sizes wrap mod 2^23. Tied to the code by the correspondence and an implementation-side sweep of every size (thorough: all 2^23) through both client paths.",
        "design_ref": "DESIGN.md §3 C10",
        "note": "Trusted: as C09. No axioms.",
        "technique": "Coq proof (byte arithmetic of the layout, induction over the header sequence with the lock-step invariant) + model/implementation correspondence via vm_compute + exhaustive implementation-side size sweep",
    },
    "C16": {
        "text": "Theorems (Coq, every PIN, seed, salts): the keypad layout is a permutation of 0..9 for EVERY seed (invariant, no enumeration), depends only on seed mod 10! and equals the factorial-base decoding; pin_to_bytes is the decimal expansion and never writes outside its array; the position lookup and += 0x30 never panic; calculate_hash = None iff pin < 1000 else SHA1(client salt | SHA1(server salt | ASCII positions)); verify = true iff a hash exists and equals the presented one; every single-bit flip of an accepted hash is refused; the crate's test vectors evaluate on the model. Tied to the code by the correspondence and an implementation-side sweep of all 3,628,800 residues (thorough).",
        "design_ref": "DESIGN.md §3 C16",
        "note": "Trusted: Coq kernel+VM, the model of pin.rs, SHA-1 as executable Gallina, harness and the remap_pin_grid hook. No axioms.",
        "technique": "Coq proof (permutation invariant, mixed-radix arithmetic) + model/implementation correspondence via vm_compute",
    },
    "C18": {
        "text": "Theorems (Coq, all cards with 1 <= w*h <= 255, d >= 1): get_number_at_coordinates(x, y) is printed cell y*w+x; the printer yields w*h disjoint cells of d digits in row-major order; the challenged coordinates are a selection without replacement (distinct, on the card, no u8 overflow); rounds outside 0..count-1 give None and nothing panics for rounds 0..255; the proof of entered digits is HMAC-SHA1(MD5(seed LE | K), RC4(digits)) for any partition into calls; verify_matrix_card_hash never panics and accepts exactly the proof of the digits printed at the challenged cells; the honest client is accepted; any other digit sequence is rejected or exhibits an HMAC collision; the two pinned defects (start = x*y, round > count) are refuted on the legacy model. Tied to the code by the correspondence (lookup, all 256 rounds, client proof, server verify) and an oracle over every geometry.",
        "design_ref": "DESIGN.md §3 C18, §4 F3 F4 F5",
        "note": "Decided on the repaired functions (fix: 3395191, c8e10d4). digit_count = 0 (to_printer panics) is known finding F5 (known_findings.json), outside the guard. Trusted: Coq kernel+VM, models of matrix_card.rs / rc4.rs, SHA-1/HMAC/MD5 as Gallina, harness. No axioms.",
        "technique": "Coq proof (list surgery, selection without replacement, RC4 refinement, xor cancellation) + model/implementation correspondence via vm_compute",
    },
    "C19": {
        "text": "Theorems (Coq, all inputs, no side condition): the model of the srp-fast-math bodies of bigint.rs and the model of the num-bigint bodies give equal results for modpow (every exponent >= 0 and modulus >= 0, negative bases included; both panic on modulus 0), for every padded copy (the [0] vs [] encoding of zero vanishes), and hence for every function of the authentication API model (verifier, B, S, client A and S under any group, registration, into_proof, into_server, client constructor, both public-key conversions); each equals b^e mod m. The pinned GMP body is refuted (zero exponent, even modulus). Tied to the code by building the harness against BOTH real back ends (GMP via a vendored gmp-mpfr-sys build script using the system library), comparing them pairwise on seed-determined inputs and each with its own model.",
        "design_ref": "DESIGN.md §3 C19, §4 F6",
        "note": "Decided on the repaired GMP body (fix: afd25dc). Trusted: Coq kernel+VM; models of both primitive sets; system GMP 6.2.1 instead of 6.3.0 via the relaxed version gate in the vendored build script. No axioms.",
        "technique": "Coq proof (both back ends refine b^e mod m; zero-encoding difference absorbed by padding) + four-way correspondence (two real builds, two models)",
    },
    "C11": {
        "text": "Theorems (Coq, all sizes/opcodes, all cipher states satisfying the module invariant, all reader/writer scripts): each typed helper = the raw call on the wire layout be16 size ++ le16/le32 opcode (Wrath server: 4 or 5 bytes with the 0x80 marker), same bytes and same new state; every method of the combined objects = the half's method (incl. the re-implemented decrypt_client_header of vanilla HeaderCrypto and wrath ServerCrypto); read_exact on a script that delivers the bytes in ANY fragmentation with ANY interruptions returns the first n bytes and leaves the rest, hence read_and_decrypt_X = the array call (Wrath server header: the two-step protocol); if read_exact fails - characterised exactly: fewer than n bytes delivered, then end of file, a zero-length read or any error but Interrupted, i.e. every offset and kind at once - the wrapper returns that error and the decrypter is UNCHANGED; a Wrath fifth-byte failure leaves exactly the state after the 4-byte attempt and a later decrypt_large_server_header with the true byte completes the header and re-synchronises; write_encrypted_X returns exactly write_all's result (never swallowed) and - stated explicitly as not promised - the encrypter has advanced even when the write failed. Tied to the code by scripted Read/Write implementations replayed through implementation and model with a failure at every offset x every kind.",
        "design_ref": "DESIGN.md §3 C11, §2.2 (scripts), Appendix A",
        "note": "Trusted: Coq kernel+VM; models of the wrappers and of read_exact/write_all (documented std behaviour, shown to satisfy the std loop equations); SHA-1/HMAC modelled; harness. No axioms.",
        "technique": "Coq proof (induction over reader/writer scripts, RC4/recurrence invariants) + model/implementation correspondence via vm_compute",
    },
    "C12": {
        "text": "PARTIAL for thread schedules, proof for histories. Theorems (Coq, every finite list of operations {Enc chunk, Dec chunk, Split, Unsplit, Clone} on an object machine Combined c | Halves e d, for Vanilla, TBC, Wrath client and Wrath server objects, from any state satisfying the invariants): the run never panics, and per direction its outputs and final half are exactly those of that direction's calls alone on that direction's half; from fresh objects these are the C07/C08/C09 streams; clone operations are transparent and a history can be cut and continued on the copy; Vanilla unsplit e d = Ok <-> the two 40-byte keys are equal (Err otherwise, in particular for keys differing at any single position), never panics, is_pair_of decides the same, unsplit (split c) = Ok c. The 'different threads' clause is reduced to interleavings by Rust ownership (checked syntactically on every run) plus a two-thread test; it is not a theorem.",
        "design_ref": "DESIGN.md §3 C12",
        "note": "Trusted: Coq kernel+VM; models of split/unsplit and of the halves; Rust's ownership guarantees for the thread clause; harness. No axioms.",
        "technique": "Coq proof (simulation of the object machine by its two halves, induction over the history) + model/implementation correspondence via vm_compute + syntactic ownership check",
    },
}

DONE = set(CHECKS)
# second session: translators beyond the constants, and source-level theorems
_TRANSLATED = {
    "C19": "the five big-integer formulas of the handshake (the model is parametrised by the back end) and, for BOTH back ends, the eleven wrapper bodies of src/bigint.rs with the library calls as modelled dependencies (tools/extract_bigint.py)",
    "C01": "the whole typestate API path (registration, from_database_values, into_proof, SrpClientChallenge::new, check_public_key, into_server, verify_server_proof), calculate_u / calculate_interleaved / calculate_session_key and the five big-integer formulas", "C02": "SrpProof::into_server, SrpClientChallenge::verify_server_proof, the proof digests (calculate_client_proof, calculate_server_proof, calculate_x) and calculate_interleaved",
    "C03": "SKey::as_equal_slice, calculate_u, calculate_interleaved, calculate_session_key, the API constructors and the five big-integer formulas (verifier, B, S, client A, client S)", "C04": "check_public_key, PublicKey::from_le_bytes, try_from_bigint and client_try_from_bigint", "C05": "SrpServer::verify_reconnection_attempt, SrpClient::calculate_reconnect_values and calculate_reconnect_proof",
    "C06": "calculate_world_server_proof and the six ProofSeed::into_{client,server}_header_crypto functions", "C07": "the Vanilla encrypt / decrypt loop bodies and the three constructors",
    "C08": "the TBC encrypt / decrypt loop bodies and the three constructors with their HMAC key derivation", "C09": "Rc4::new with its key schedule, Rc4::pseudo_random_generation, Rc4::apply_keystream, InnerCrypto::new (HMAC key, drop of 1024 bytes) and the six Wrath constructors", "C10": "the Wrath header encoder and decoder (encrypt_server_header, attempt_decrypt_server_header, decrypt_large_server_header, from_small_array, from_large_array)",
    "C11": "the Vanilla / TBC loop bodies, their eight typed header helpers, two header parsers, eight Read / Write wrappers and the Wrath client's read_and_decrypt_server_header, and the Wrath encrypt_server_header", "C13": "NormalizedString::new and the four other constructors", "C14": "SKey::as_equal_slice",
    "C15": "every function that draws randomness (get_pin_grid_seed, get_pin_salt, get_matrix_card_seed, get_salt_value, the three ProofSeed::default, from_username_and_password, into_proof, SrpClientChallenge::new) and the positions of the draws in into_server, verify_reconnection_attempt, calculate_reconnect_values",
    "C12": "split (four objects), unsplit, both is_pair_of and every constructor of the halves and combined objects",
    "C17": "the six functions of src/integrity.rs (HMAC-SHA1 objects with their update sequences, finalise)",
    "C16": "pin_to_bytes, remap_pin_grid, calculate_hash and verify_client_pin_hash", "C18": "get_number_at_coordinates, get_matrix_coordinates, generate_coordinates, MatrixCardVerifier::{new, enter_value, into_proof}, verify_matrix_card_hash, Rc4::new and the RC4 output step",
}
_SRC_THEOREMS = {"C19", "C01", "C15", "C12", "C17", "C02", "C03", "C04", "C05", "C06", "C07", "C08", "C09", "C10", "C11", "C13", "C14", "C16", "C18"}
for _k, _c in CHECKS.items():
    _c["text"] += (" Every run also re-reads the source: constants and inline literals, the field order of every digest (incl. byte order and width of serialised integers),"
                   " and a scan of the files the property reaches for hidden state / unsafe / ambient inputs, each as a proof obligation against the regenerated file.")
    if _k in _TRANSLATED:
        _c["text"] += (" The body of %s is translated from the Rust source into Gallina on every run (tools/extract_steps.py) and proved equal to the model%s."
                       % (_TRANSLATED[_k], "; props/src/%s.v states the property directly about the translated term" % _k if _k in _SRC_THEOREMS else ""))
        _c["technique"] += " + source-to-Gallina translation of the core bodies with machine-checked equality to the model"
    _c["note"] += " Also trusted: the translators tools/extract_{consts,layouts,purity,steps}.py (their rendering of Rust syntax and integer / bounds semantics)."

# implementation-level oracles added by the later seeded rounds (they turn a broken tie into a concrete failing input)
_LATE_ORACLES = {
    "C02": "a process-history oracle (the process acts as a client under other announced groups between server steps; the server step is compared with textbook values)",
    "C05": "runs of one verdict (R rejected attempts in a row, then a correct one; A accepted, then a wrong one; R and A around every power of two up to 1024, 65536 in the thorough tier)",
    "C07": "typed traffic through a receive buffer (headers with sizes around every boundary and payload, bytes arriving in pieces, Read-based call retried while incomplete or array call, split half and combined object, both ends in step afterwards), refusing writers, and objects for a structurally related second key built after a first one",
    "C08": "typed traffic through a receive buffer (headers with sizes around every boundary and payload, bytes arriving in pieces, Read-based call retried while incomplete or array call, split half and combined object, both ends in step afterwards), refusing writers, and objects for a structurally related second key built after a first one",
    "C09": "typed traffic through a receive buffer, refusing writers, and a construction-history oracle (a second pair of objects for a structurally related key built after a first pair, compared with the independent RC4 / HMAC stream)",
    "C11": "typed traffic through a receive buffer for all three modules, with header sizes drawn around every boundary on the Read path too",
    "C12": "typed traffic through a receive buffer for all three modules with split half and combined object side by side; the two own-body methods of the combined objects are translated and proved equal to the half's method (C12_source_own_bodies)",
    "C14": "a generous set-up tape so that the reconnect loop (2000 attempts on one session in the quick tier) is reached whatever the implementation draws; the API bodies are obligations of this property too",
    "C16": "salts drawn in related pairs (equal, reversed, one bit apart)",
}
for _k, _t in _LATE_ORACLES.items():
    CHECKS[_k]["text"] += " Implementation-level oracles added by the seeded rounds: " + _t + "."

NOT_APPLICABLE = [{"property_id": p, "reason": "not yet claimed: the Coq model, theorems and correspondence for this property are still being built (see DESIGN.md §7a); no check is registered until its tie to the code is in place"} for p in ALL if p not in DONE]
