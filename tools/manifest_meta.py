"""Texts for MANIFEST.json."""
ALL = ["C%02d" % i for i in range(1, 20)]

NOTES = ("Technique family: machine-checked proof in Coq 8.16.1. Each property has theorems about an executable Gallina "
         "model of the Rust code (coq/props/Cxx.v), the model is tied to /repo on every run by the constants translator "
         "and by a correspondence check that evaluates the model inside coqc on the inputs and outputs of the real library. "
         "See DESIGN.md.")

CHECKS = {
    "C07": {
        "text": "Theorems (Coq, all keys / streams / partitions, by induction): any chunking of encrypt calls equals the whole-stream recurrence and leaves (len mod 40, last ciphertext); decrypt likewise; decrypter inverts encrypter with independent chunkings; empty calls are the identity; the full step table; no panic from any state with index < 40. The model is tied to the code by evaluating it in Coq on the implementation's inputs/outputs and by an exhaustive implementation-side step table.",
        "design_ref": "DESIGN.md §3 C07",
        "note": "Trusted: Coq kernel+VM, the hand-written model of encrypt/decrypt (checked against the code by the correspondence on every run), the harness and hooks. No axioms.",
        "technique": "Coq proof (induction over the stream) + model/implementation correspondence via vm_compute",
    },
}

DONE = set(CHECKS)
NOT_APPLICABLE = [{"property_id": p, "reason": "not yet claimed: the Coq model, theorems and correspondence for this property are still being built (see DESIGN.md §7a); no check is registered until its tie to the code is in place"} for p in ALL if p not in DONE]
