#!/usr/bin/env python3
"""Statement pins: a digest of every property theorem's STATEMENT (name + statement text up to
`Proof.`, comments and whitespace normalised) is committed in tools/pins.json.  The driver
recomputes them on every run; a silently weakened or removed theorem shows up as a pin mismatch and
the obligation counts as not discharged.  `python3 tools/pins.py --update` rewrites the file after a
deliberate change of a statement."""
import re, os, sys, json, hashlib
ROOT = os.path.join(os.path.dirname(os.path.abspath(__file__)), "..")
COQ = os.path.join(ROOT, "coq")

def strip_comments(s):
    out, depth, i = [], 0, 0
    while i < len(s):
        if s.startswith("(*", i): depth += 1; i += 2
        elif s.startswith("*)", i) and depth > 0: depth -= 1; i += 2
        else:
            if depth == 0: out.append(s[i])
            i += 1
    return "".join(out)

def statements(propfile):
    txt = strip_comments(open(os.path.join(COQ, propfile)).read())
    res = {}
    for m in re.finditer(r"(?:Theorem|Corollary)\s+(\w+)\s*:(.*?)\bProof\.", txt, flags=re.S):
        stmt = re.sub(r"\s+", " ", m.group(2)).strip()
        res[m.group(1)] = hashlib.sha256(stmt.encode()).hexdigest()[:16]
    return res

def all_pins():
    pins = {}
    for sub in ("props", "props/src"):
        for f in sorted(os.listdir(os.path.join(COQ, sub))):
            if f.endswith(".v"):
                pins[sub + "/" + f] = statements(sub + "/" + f)
    return pins

if __name__ == "__main__":
    p = os.path.join(ROOT, "tools", "pins.json")
    if "--update" in sys.argv:
        json.dump(all_pins(), open(p, "w"), indent=1, sort_keys=True)
        print("pins.json updated:", sum(len(v) for v in all_pins().values()), "statements")
    else:
        old = json.load(open(p)) if os.path.exists(p) else {}
        cur = all_pins()
        bad = [(f, t) for f in old for t in old[f] if cur.get(f, {}).get(t) != old[f][t]]
        print("mismatches:", bad)
        sys.exit(1 if bad else 0)
