#!/usr/bin/env python3
"""Big-integer shim translator: re-reads src/bigint.rs and regenerates coq/BigintShim.v.

src/bigint.rs is the only place where the crate touches a big-integer library; every function in it is a thin
wrapper whose body differs per back end (`#[cfg(feature = "srp-fast-math")] { .. }` blocks: rug / GMP; the
other block: num-bigint).  For each back end this tool selects the cfg blocks that are compiled, parses every
function body with the expression parser of tools/rustexpr.py and renders it over Z with the LIBRARY calls kept
as calls of the modelled dependencies of coq/model/BigLib.v (nb_* for num-bigint, gmp_* for rug):

    tr_bigint_<fn>_default / tr_bigint_<fn>_fast : .. -> nres <result>

(`Panic` where a library call or an `unwrap()` panics).  proofs/steps/BigintShim.v proves each equal to the
function of model/Bigint.v that all SRP formulas are stated over.  What the wrappers call, on which arguments,
in which order, under which condition - per back end - is therefore read from the source on every run; the
semantics of the library calls themselves stays a modelled dependency (DESIGN.md section 5).

Anything outside the forms below is refused (the function is emitted as a comment and the obligation breaks).
"""
import os, re, sys
sys.path.insert(0, os.path.dirname(os.path.abspath(__file__)))
from rustexpr import Parser, tokenize, strip_comments, balanced, Untranslatable

REPO = os.environ.get("VERIF_REPO", "/repo")
OUT = os.path.join(os.path.dirname(os.path.abspath(__file__)), "..", "coq", "BigintShim.v")
FILE = "src/bigint.rs"
# (name in the generated file, Rust fn name, occurrence, parameter names -> Gallina type)
FUNCS = [("is_zero", "is_zero", 0), ("mod_large_safe_prime_is_zero", "mod_large_safe_prime_is_zero", 0), ("to_bytes_le", "to_bytes_le", 0),
         ("modpow", "modpow", 0), ("from_bytes_le", "from_bytes_le", 0), ("from_bigint", "from_bigint", 0), ("from_u8", "from", 0),
         ("mul", "mul", 0), ("add", "add", 0), ("sub", "sub", 0), ("rem", "rem", 0)]
BYTES_PARAMS = {"v": {"from_bytes_le"}}          # `v: &[u8]`
U8_PARAMS = {"v": {"from"}}                      # `v: u8`

def cfg_is_fast(pred):
    p = "".join(pred.split())
    if "not(feature=\"srp-fast-math\")" in p: return False
    if "feature=\"srp-fast-math\"" in p: return True
    return None

def select_cfg(src, fast):
    """keep the `#[cfg(..)] { .. }` blocks (and drop the attribute) that are compiled for this back end"""
    out, i = [], 0
    for m in re.finditer(r"#\[cfg\(", src):
        if m.start() < i: continue
        e = balanced(src, m.end() - 1)                 # end of (..)
        pred = src[m.end():e - 1]
        j = e
        while j < len(src) and src[j] in " \t\r\n]": j += 1
        which = cfg_is_fast(pred)
        if src[j] == "{" and which is not None:
            k = balanced(src, j)
            out.append(src[i:m.start()])
            if which == fast: out.append(src[j + 1:k - 1])
            i = k
        elif which is not None:                        # an attribute on an item (`use ..;`): drop the item when not compiled
            k = src.find(";", j) + 1
            out.append(src[i:m.start()])
            if which == fast: out.append(src[j:k])
            i = k
    out.append(src[i:])
    return "".join(out)

def find_fn(src, name, nth):
    ms = list(re.finditer(r"\bfn\s+%s\s*(<[^>]*>)?\s*\(" % name, src))
    if nth >= len(ms): raise Untranslatable("function %s not found" % name)
    m = ms[nth]
    k = balanced(src, m.end() - 1)
    j = src.index("{", k)
    e = balanced(src, j)
    return src[m.end():k - 1], src[j:e]

class Emit:
    def __init__(self, fn):
        self.fn = fn; self.n = 0
    def fresh(self):
        self.n += 1; return "t%d" % self.n
    def var(self, name):
        return "v_" + name
    def ord_lit(self, e):
        if e[0] == "id" and e[1].endswith("Ordering::Greater"): return "Gt"
        if e[0] == "id" and e[1].endswith("Ordering::Less"): return "Lt"
        if e[0] == "id" and e[1].endswith("Ordering::Equal"): return "Eq"
        return None
    def enum_lit(self, e):
        if e[0] == "id" and e[1].endswith("Sign::Plus"): return "Sign_Plus"
        if e[0] == "id" and e[1].endswith("Sign::Minus"): return "Sign_Minus"
        if e[0] == "id" and e[1].endswith("Sign::NoSign"): return "Sign_NoSign"
        if e[0] == "id" and e[1].endswith("Order::LsfLe"): return "Order_LsfLe"
        if e[0] == "id" and e[1].endswith("Order::MsfBe"): return "Order_MsfBe"
        if e[0] == "id" and e[1].endswith("Order::Lsf"): return "Order_LsfLe"
        if e[0] == "id" and e[1].endswith("Order::Msf"): return "Order_MsfBe"
        return None
    def panicking(self, term, k):
        t = self.fresh()
        return "match %s with Ok %s => %s | Err e_ => Err e_ | Panic => Panic end" % (term, t, k(t))
    def args(self, es, k, acc=None):
        acc = acc or []
        if not es: return k(acc)
        return self.expr(es[0], lambda t: self.args(es[1:], k, acc + [t]))
    def expr(self, e, k):
        tag = e[0]
        if tag in ("paren", "deref"): return self.expr(e[1], k)
        if tag == "id":
            lit = self.enum_lit(e) or self.ord_lit(e)
            if lit: return k(lit)
            if "::" in e[1]: raise Untranslatable("path %s" % e[1])
            return k(self.var(e[1]))
        if tag == "num": return k("%d" % e[1])
        if tag == "field" and e[2] == "value": return self.expr(e[1], k)          # the wrapper is transparent
        if tag == "struct" and e[1] in ("Self", "Integer") and len(e[2]) == 1 and e[2][0][0] == "value": return self.expr(e[2][0][1], k)
        if tag == "tfield" and e[2] in (0, 1): return self.expr(e[1], lambda t: k("(%s %s)" % ("fst" if e[2] == 0 else "snd", t)))
        if tag == "tuple":
            return self.args(e[1], lambda ts: k("(%s)" % ", ".join(ts)))
        if tag == "fncall":
            f, a = e[1], e[2]
            if f in ("Self::from_bigint", "Integer::from_bigint") and len(a) == 1: return self.expr(a[0], k)
            if f in ("Integer::from", "BigInt::from", "Self::from") and len(a) == 1:
                if a[0][0] == "num": return k("(lib_from_u8 %d%%N)" % a[0][1])
                return self.expr(a[0], lambda t: k("(lib_from_u8 %s)" % t))
            if f == "BigInt::from_bytes_le" and len(a) == 2: return self.args(a, lambda ts: k("(nb_from_bytes_le %s %s)" % (ts[0], ts[1])))
            if f == "BigInt::from_digits" and len(a) == 2: return self.args(a, lambda ts: k("(gmp_from_digits %s %s)" % (ts[0], ts[1])))
            raise Untranslatable("call of %s" % f)
        if tag == "call":
            recv, m, a = e[1], e[2], e[3]
            if m == "to_bigint" and not a: return self.expr(recv, k)                # LargeSafePrime::to_bigint(): the modulus as an integer
            if m == "cmp0" and not a: return self.expr(recv, lambda t: k("(lib_cmp0 %s)" % t))
            if m == "is_even" and not a: return self.expr(recv, lambda t: k("(Z.even %s)" % t))
            if m == "is_odd" and not a: return self.expr(recv, lambda t: k("(Z.odd %s)" % t))
            if m == "to_bytes_le" and not a and recv != ("id", "self"): return self.expr(recv, lambda t: k("(nb_to_bytes_le %s)" % t))
            if m == "to_digits" and len(a) == 1: return self.args([recv] + a, lambda ts: k("(gmp_to_digits %s %s)" % (ts[0], ts[1])))
            if m == "modpow" and len(a) == 2 and recv != ("id", "self"):
                return self.args([recv] + a, lambda ts: self.panicking("(nb_modpow %s %s %s)" % tuple(ts), k))
            if m == "secure_pow_mod" and len(a) == 2:
                return self.args([recv] + a, lambda ts: self.panicking("(gmp_secure_pow_mod %s %s %s)" % tuple(ts), k))
            if m == "pow_mod" and len(a) == 2:
                return self.args([recv] + a, lambda ts: self.panicking("(gmp_pow_mod %s %s %s)" % tuple(ts), k))
            if m == "unwrap" and not a:
                return self.expr(recv, lambda t: self.panicking("(lib_unwrap %s)" % t, k))
            raise Untranslatable("method call .%s(..)" % m)
        if tag == "bin":
            op, a, b = e[1], e[2], e[3]
            if op in ("==", "!="):
                la, lb = self.ord_lit(a), self.ord_lit(b)
                if la or lb:
                    return self.args([a, b], lambda ts: k(("(comparison_eqb %s %s)" if op == "==" else "(negb (comparison_eqb %s %s))") % tuple(ts)))
                return self.args([a, b], lambda ts: k(("(Z.eqb %s %s)" if op == "==" else "(negb (Z.eqb %s %s))") % tuple(ts)))
            if op == "||":       # the right operand is evaluated only when the left one is false
                return self.expr(a, lambda ta: "if %s then %s else %s" % (ta, k("true"), self.expr(b, k)))
            if op == "&&":
                return self.expr(a, lambda ta: "if %s then %s else %s" % (ta, self.expr(b, k), k("false")))
            if op in ("*", "+", "-"):
                fn = {"*": "Z.mul", "+": "Z.add", "-": "Z.sub"}[op]
                return self.args([a, b], lambda ts: k("(%s %s %s)" % (fn, ts[0], ts[1])))
            if op == "%":
                return self.args([a, b], lambda ts: self.panicking("(lib_rem %s %s)" % tuple(ts), k))
            raise Untranslatable("operator %s" % op)
        raise Untranslatable("expression %s" % tag)
    def stmts(self, ss):
        if not ss: raise Untranslatable("function without a result")
        s = ss[0]
        final = lambda t: "Ok %s" % t
        if s[0] == "tail" and len(ss) == 1: return self.expr(s[1], final)
        if s[0] == "return": return self.expr(s[1], final)
        if s[0] == "expr" and s[1][0] == "if" and s[1][3] is None:
            c, then = s[1][1], s[1][2]
            rest = self.stmts(ss[1:])
            return self.expr(c, lambda t: "if %s then %s else %s" % (t, self.stmts(then), rest))
        if s[0] == "let" and isinstance(s[1], str):
            return self.expr(s[3], lambda t: "let %s := %s in %s" % (self.var(s[1]), t, self.stmts(ss[1:])))
        if s[0] == "let_tuple":
            return self.expr(s[2], lambda t: "let '(%s) := %s in %s" % (", ".join(self.var(n_) for n_ in s[1]), t, self.stmts(ss[1:])))
        raise Untranslatable("statement %s" % s[0])

def params_of(sig, fn):
    out = []
    for p in [x.strip() for x in sig.split(",") if x.strip()]:
        if re.match(r"&?\s*(mut\s+)?self$", p): out.append(("v_self", "Z")); continue
        name = p.split(":")[0].strip().replace("mut ", "")
        ty = "list N" if fn in BYTES_PARAMS.get(name, ()) else ("N" if fn in U8_PARAMS.get(name, ()) else "Z")
        out.append(("v_" + name, ty))
    return out

def main():
    try: src0 = strip_comments(open(os.path.join(REPO, FILE)).read())
    except OSError: src0 = ""
    cut = re.search(r"#\[cfg\(test\)\]\s*mod\s+\w+", src0)
    if cut: src0 = src0[:cut.start()]
    out = ["(* GENERATED by tools/extract_bigint.py from %s (both back ends). Do not edit. *)" % FILE,
           "From Coq Require Import List ZArith NArith.", "From WS Require Import lib.Bytes lib.Res model.Bigint model.BigLib.", "Import ListNotations.", "Local Open Scope Z_scope.", ""]
    ok = bad = 0
    for be, fast in (("default", False), ("fast", True)):
        try: src = select_cfg(src0, fast)
        except Exception as ex: src = ""
        for name, fn, nth in FUNCS:
            full = "tr_bigint_%s_%s" % (name, be)
            try:
                sig, body = find_fn(src, fn, nth)
                if "#[cfg" in body: raise Untranslatable("a cfg attribute this tool does not understand")
                blk = Parser(tokenize(body)).block()
                ps = params_of(sig, fn)
                text = Emit(fn).stmts(blk)
                out.append("(* %s fn %s, back end %s *)" % (FILE, fn, be))
                out.append("Definition %s %s: nres _ :=\n  %s.\n" % (full, "".join("(%s : %s) " % p for p in ps), text))
                ok += 1
            except Exception as ex:
                out.append("(* %s: NOT TRANSLATED: %s *)\n" % (full, str(ex).replace("*)", "* )")))
                bad += 1
    text = "\n".join(out) + "\n"
    old = open(OUT).read() if os.path.exists(OUT) else None
    if old != text: open(OUT, "w").write(text)
    print("extract_bigint: %d of %d wrapper bodies translated (2 back ends)%s" % (ok, ok + bad, "" if old == text else " (BigintShim.v rewritten)"))
    return 0

if __name__ == "__main__":
    sys.exit(main())
