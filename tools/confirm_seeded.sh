#!/bin/bash
# usage: confirm_seeded.sh <worktree> <seeded-name> [features]
# Re-confirms a seeded change in its scratch worktree (builds, pinned tests pass with it, demo fails
# with it and passes without it) and stores it under /verif/seeded/<name>/.
set -u
WT=$1; NAME=$2; FEAT=${3:-}
cd "$WT" || exit 2
DEMO=$(python3 -c "import json;print(json.load(open('meta.json'))['demo_cmd'])")
echo "demo: $DEMO"
git checkout -q -- src && git apply patch.diff || { echo "patch does not apply"; exit 2; }
T=$(cargo test --offline $FEAT 2>&1 | grep -E "^test result" | head -1); echo "tests with change: $T"
( eval "$DEMO" ) > /tmp/demo_with.log 2>&1; RC1=$?; echo "demo with change: exit $RC1"
git checkout -q -- src
( eval "$DEMO" ) > /tmp/demo_without.log 2>&1; RC2=$?; echo "demo without change: exit $RC2"
git apply patch.diff
if echo "$T" | grep -q " 0 failed" && [ $RC1 -ne 0 ] && [ $RC2 -eq 0 ]; then
  D=/verif/seeded/$NAME; mkdir -p $D
  cp patch.diff meta.json $D/
  # the demonstration (package or file), without build output
  if [ -d demo ]; then rsync -a --exclude target demo $D/; fi
  for f in tests/*.rs; do [ -f "$f" ] && git ls-files --error-unmatch "$f" >/dev/null 2>&1 || { [ -f "$f" ] && mkdir -p $D/tests && cp "$f" $D/tests/; }; done
  python3 - "$D" "$T" "$RC1" "$RC2" <<'PY'
import json,sys
d=sys.argv[1]; m=json.load(open(d+'/meta.json'))
m['confirmed']={'tests_with_change':sys.argv[2],'demo_exit_with_change':int(sys.argv[3]),'demo_exit_without_change':int(sys.argv[4]),
 'how':'re-run by tools/confirm_seeded.sh in the scratch worktree'}
json.dump(m,open(d+'/meta.json','w'),indent=1)
PY
  echo "CONFIRMED -> $D"
else
  echo "NOT CONFIRMED"; tail -5 /tmp/demo_with.log; tail -5 /tmp/demo_without.log; exit 1
fi
