#!/usr/bin/env python3
"""Run checks against a seeded defect WITHOUT touching /repo: a scratch worktree of /repo gets the
patch, a scratch copy of /verif gets its harness pointed at that worktree.

  tools/eval_seeded.py <patch.diff> <Cxx> [<Cyy> ...] [--tier quick|thorough] [--keep]

Prints, per property, the exit status and the VIOLATION / KNOWN-FINDING lines; exit 0 if at least one
of the named checks raised a violation (i.e. the defect was caught).
(The registered checks themselves always run against /repo; this tool is only for evaluating the
machinery on seeded changes while other work is going on in /repo.)
"""
import sys, os, subprocess, shutil, re, tempfile, json, time

def sh(cmd, **kw):
    return subprocess.run(cmd, shell=isinstance(cmd, str), stdout=subprocess.PIPE, stderr=subprocess.STDOUT, text=True, **kw)

def main():
    args = [a for a in sys.argv[1:] if not a.startswith("--")]
    tier = "quick"
    if "--tier" in sys.argv:
        tier = sys.argv[sys.argv.index("--tier") + 1]
        args = [a for a in args if a != tier]
    keep = "--keep" in sys.argv
    patch, props = os.path.abspath(args[0]), args[1:]
    base = tempfile.mkdtemp(prefix="evalseed-", dir="/tmp")
    repo = os.path.join(base, "repo")
    verif = os.path.join(base, "verif")
    r = sh(["git", "-C", "/repo", "worktree", "add", "--detach", repo, "HEAD", "-q"])
    if r.returncode != 0:
        print(r.stdout); return 2
    caught = False
    try:
        r = sh(["git", "-C", repo, "apply", patch])
        if r.returncode != 0:
            print("patch does not apply:", r.stdout); return 2
        sh("cp -a %s %s" % (os.environ.get("VERIF_SRC", "/verif"), verif))      # VERIF_SRC: a snapshot of /verif, so that /verif can be edited meanwhile
        for hd in ("harness", "harness-fast"):
            p = os.path.join(verif, hd, "Cargo.toml")
            s = open(p).read().replace('path = "/repo"', 'path = "%s"' % repo)
            open(p, "w").write(s)
        shutil.rmtree(os.path.join(verif, "_work"), ignore_errors=True)
        shutil.rmtree(os.path.join(verif, "replays"), ignore_errors=True)
        env = dict(os.environ, VERIF_REPO=repo)
        for pid in props:
            t0 = time.time()
            r = sh([os.path.join(verif, "check"), pid, tier], env=env, cwd=verif)
            lines = [l for l in r.stdout.split("\n") if l.startswith("VIOLATION") or l.startswith("KNOWN-FINDING") or re.match(r"^C\d\d (quick|thorough):", l)]
            print("== %s %s: exit %d (%.0fs)" % (pid, tier, r.returncode, time.time() - t0))
            for l in lines[:8]:
                print("   " + l)
            if r.returncode == 1:
                caught = True
                # show the first replay
                m = re.search(r"replay=(\S+)", r.stdout)
                if m and os.path.exists(m.group(1)):
                    txt = open(m.group(1)).read()
                    print("   replay: " + txt[:700].replace("\n", " "))
            elif r.returncode != 0:
                print(r.stdout[-1500:])
    finally:
        if not keep:
            sh(["git", "-C", "/repo", "worktree", "remove", "--force", repo])
            shutil.rmtree(base, ignore_errors=True)
        else:
            print("kept:", base)
    return 0 if caught else 1

if __name__ == "__main__":
    sys.exit(main())
