#!/usr/bin/env python3
"""Regression run of the machinery: every stored seeded change against the quick check of the property
it is filed under (tools/eval_seeded.py, scratch copies; /repo is never touched).  Prints one line per
change and a summary; exit 1 if one is no longer caught.   usage: eval_all_seeded.py [-j N] [name-prefix]"""
import sys, os, json, glob, subprocess, concurrent.futures, re
ROOT = os.path.join(os.path.dirname(os.path.abspath(__file__)), "..")
def one(d):
    meta = json.load(open(os.path.join(d, "meta.json")))
    pid = meta.get("decided_by", meta["property"])
    r = subprocess.run([sys.executable, os.path.join(ROOT, "tools", "eval_seeded.py"), os.path.join(d, "patch.diff"), pid],
                       stdout=subprocess.PIPE, stderr=subprocess.STDOUT, text=True)
    m = re.search(r"%s quick: (obligations \S+).*?disagreements (\d+), violations (\d+)" % pid, r.stdout)
    nf = "no-failing-input-found" in r.stdout
    return os.path.basename(d), pid, r.returncode == 0, (m.group(0) if m else r.stdout[-200:].replace("\n", " ")), nf
def main():
    j = 3
    args = sys.argv[1:]
    if "-j" in args: j = int(args[args.index("-j") + 1]); del args[args.index("-j"):args.index("-j") + 2]
    pre = args[0] if args else ""
    dirs = sorted(d for d in glob.glob(os.path.join(ROOT, "seeded", pre + "*")) if os.path.exists(os.path.join(d, "meta.json")))
    bad = 0
    with concurrent.futures.ThreadPoolExecutor(j) as ex:
        for name, pid, caught, line, nf in ex.map(one, dirs):
            print("%-58s %s %s%s" % (name, "CAUGHT" if caught else "MISSED", line, "  [obligation only]" if nf else ""), flush=True)
            bad += 0 if caught else 1
    print("%d seeded changes, %d missed" % (len(dirs), bad))
    return 1 if bad else 0
if __name__ == "__main__":
    sys.exit(main())
