#!/usr/bin/env python3
"""Writes MANIFEST.json from tools/props_meta.py and tools/manifest_meta.py"""
import json, os, subprocess, sys
sys.path.insert(0, os.path.dirname(os.path.abspath(__file__)))
import props_meta, manifest_meta
ROOT = os.path.join(os.path.dirname(os.path.abspath(__file__)), "..")
hooks = subprocess.run(["git", "-C", "/repo", "log", "--format=%H %s"], stdout=subprocess.PIPE, text=True).stdout.split("\n")
hook_commits = [l.split()[0] for l in hooks if l and "verif hooks" in l]
m = {
    "version": 1,
    "setup_cmd": "./check setup",
    "hooks": {
        "guard": "gtker_wow_srp_verif",
        "enable": "RUSTFLAGS=\"--cfg gtker_wow_srp_verif\" (set in /verif/harness/.cargo/config.toml; the harness depends on /repo by path)",
        "baseline_off_cmd": "cd /repo && cargo test --workspace --no-fail-fast --offline",
        "source_commits": hook_commits,
        "add_only": True,
    },
    "engines": [
        {"name": "coq-proofs", "path": "coq/", "serves_properties": sorted(props_meta.PROPS), "kind_free_text": "Coq 8.16.1 development: spec, executable model of the Rust code, theorems (props/Cxx.v), full .vo build"},
        {"name": "correspondence", "path": "harness/ + coq/corr/", "serves_properties": sorted(props_meta.PROPS), "kind_free_text": "Rust harness runs the real library (hooks on), ships inputs+outputs as Coq terms, the model is evaluated on them by vm_compute inside coqc; implementation-level oracles search for failing inputs"},
        {"name": "consts-translator", "path": "tools/extract_consts.py", "serves_properties": sorted(props_meta.PROPS), "kind_free_text": "regenerates coq/Consts.v from /repo/src on every run"},
    ],
    "checks": [],
    "not_applicable": manifest_meta.NOT_APPLICABLE,
    "notes": manifest_meta.NOTES,
}
for pid in sorted(props_meta.PROPS):
    meta = props_meta.PROPS[pid]
    mm = manifest_meta.CHECKS[pid]
    m["checks"].append({
        "property_id": pid,
        "quick_cmd": "./check %s quick" % pid,
        "thorough_cmd": "./check %s thorough" % pid,
        "evidence_file": "/verif/evidence/%s.json" % pid,
        "replay_cmd_template": "./check replay {path}",
        "engine": "coq-proofs + correspondence",
        "level_claimed": {"category": meta.get("level", "proof"), "text": mm["text"], "design_ref": mm["design_ref"]},
        "level_note": mm["note"],
        "technique": mm["technique"],
    })
json.dump(m, open(os.path.join(ROOT, "MANIFEST.json"), "w"), indent=1)
print("MANIFEST.json written with %d checks, %d not_applicable" % (len(m["checks"]), len(m["not_applicable"])))
