#!/usr/bin/env python3
"""Step translator: re-reads the byte-level cores of the Rust source and regenerates coq/Steps.v.

For each target function the BODY is translated statement by statement (tools/rustexpr.py) into a
Gallina function over N with Rust's overflow, division and bounds rules made explicit (`None` is a
panic).  `proofs/Steps*.v` prove that the hand-written model the theorems are about computes
exactly these translated functions, so the loop bodies of the model are re-derived from what the
source says now on every run.  A change of an operator, an operand, the order of two statements,
a constant or a cast in one of these bodies changes the generated term and breaks a named
obligation before any test input is run; a renamed local variable does not (bound names are
positional in the proofs; parameters are taken in signature order).

Kinds of target:
  slice_loop   fn f(data: &mut [u8], <arrays and &mut scalars>) { for x in data { BODY } }
               ->  tr_<name>_step (arrays..) (st : scalars tuple) (x : N) : option (scalars tuple * N)
  method       fn m(&mut self, <scalars>) -> T { BODY }   over the integer / array fields of self
               ->  tr_<name> (fields.. : state) (args..) : option (state * result)
"""
import re, sys, os
sys.path.insert(0, os.path.dirname(os.path.abspath(__file__)))
from rustexpr import *

REPO = os.environ.get("VERIF_REPO", "/repo")
OUT = os.path.join(os.path.dirname(os.path.abspath(__file__)), "..", "coq", "Steps.v")

CONSTS = {"SESSION_KEY_LENGTH": ("session_key_length", "u8"), "PROOF_LENGTH": ("proof_length", "u8"),
          "PUBLIC_KEY_LENGTH": ("public_key_length", "u8"), "SERVER_HEADER_LENGTH": ("vanilla_server_header_length", "u8"),
          "CLIENT_HEADER_LENGTH": ("vanilla_client_header_length", "u8"), "LARGE_SAFE_PRIME_LITTLE_ENDIAN": ("n_le", ("arr", "u8"))}
CTORS = {"NormalizedStringError::CharacterNotAllowed": "CharacterNotAllowed"}
STRUCTS_FN = {"NormalizedString": ["s", "length"]}
ENUMS = {"NormalizedStringError::StringTooLong": "StringTooLong","InvalidPublicKeyError::PublicKeyIsZero": "PublicKeyIsZero",
         "InvalidPublicKeyError::PublicKeyModLargeSafePrimeIsZero": "PublicKeyModLargeSafePrimeIsZero"}

TARGETS = [
    dict(name="vanilla_encrypt", file="src/vanilla_header/encrypt.rs", fn="encrypt", kind="slice_loop"),
    dict(name="vanilla_decrypt", file="src/vanilla_header/decrypt.rs", fn="decrypt", kind="slice_loop"),
    dict(name="tbc_encrypt", file="src/tbc_header/encrypt.rs", fn="encrypt", kind="slice_loop"),
    dict(name="tbc_decrypt", file="src/tbc_header/decrypt.rs", fn="decrypt", kind="slice_loop"),
    dict(name="rc4_prga", file="src/rc4.rs", fn="pseudo_random_generation", kind="method",
         fields=[("state", ("arr", "u8")), ("i", "u8"), ("j", "u8")], helpers=["s_i", "s_j"], ret="u8"),
    dict(name="vanilla_server_header_from_array", file="src/vanilla_header/mod.rs", fn="from_array", nth=0, kind="function", ret="N * N", structs={"Self": ["size", "opcode"]}),
    dict(name="vanilla_client_header_from_array", file="src/vanilla_header/mod.rs", fn="from_array", nth=1, kind="function", ret="N * N", structs={"Self": ["size", "opcode"]}),
    dict(name="vanilla_encrypt_server_header", file="src/vanilla_header/encrypt.rs", fn="encrypt_server_header", kind="method", fields=[("half", "opaque")], helpers=[],
         externs={"self.encrypt": ("ext_raw", "self.half")}, ret=("arr", "u8")),
    dict(name="vanilla_encrypt_client_header", file="src/vanilla_header/encrypt.rs", fn="encrypt_client_header", kind="method", fields=[("half", "opaque")], helpers=[],
         externs={"self.encrypt": ("ext_raw", "self.half")}, ret=("arr", "u8")),
    dict(name="vanilla_decrypt_server_header", file="src/vanilla_header/decrypt.rs", fn="decrypt_server_header", kind="method", fields=[("half", "opaque")], helpers=[],
         externs={"self.decrypt": ("ext_raw", "self.half")}, ret="N * N",
         opt_calls={"ServerHeader::from_array": ("tr_vanilla_server_header_from_array", "hdr")}),
    dict(name="vanilla_decrypt_client_header", file="src/vanilla_header/decrypt.rs", fn="decrypt_client_header", kind="method", fields=[("half", "opaque")], helpers=[],
         externs={"self.decrypt": ("ext_raw", "self.half")}, ret="N * N",
         opt_calls={"ClientHeader::from_array": ("tr_vanilla_client_header_from_array", "hdr")}),
    # the two methods of the combined objects that have a body of their own instead of delegating to the half
    dict(name="vanilla_crypto_decrypt_client_header", file="src/vanilla_header/mod.rs", fn="decrypt_client_header", kind="method", fields=[("half", "opaque")], helpers=[],
         externs={"self.decrypt": ("ext_raw", "self.half")}, ret="N * N", structs={"ClientHeader": ["size", "opcode"]},
         opt_calls={"ClientHeader::from_array": ("tr_vanilla_client_header_from_array", "hdr")}),
    dict(name="wrath_server_crypto_decrypt_client_header", file="src/wrath_header/mod.rs", fn="decrypt_client_header", kind="method", fields=[("decrypt", "opaque")], helpers=[],
         externs={"self.decrypt": ("ext_apply", "self.decrypt")}, ret="N * N",
         opt_calls={"ClientHeader::from_array": ("tr_vanilla_client_header_from_array", "hdr")}),
    dict(name="tbc_encrypt_server_header", file="src/tbc_header/encrypt.rs", fn="encrypt_server_header", kind="method", fields=[("half", "opaque")], helpers=[],
         externs={"self.encrypt": ("ext_raw", "self.half")}, ret=("arr", "u8")),
    dict(name="tbc_encrypt_client_header", file="src/tbc_header/encrypt.rs", fn="encrypt_client_header", kind="method", fields=[("half", "opaque")], helpers=[],
         externs={"self.encrypt": ("ext_raw", "self.half")}, ret=("arr", "u8")),
    dict(name="tbc_decrypt_server_header", file="src/tbc_header/decrypt.rs", fn="decrypt_server_header", kind="method", fields=[("half", "opaque")], helpers=[],
         externs={"self.decrypt": ("ext_raw", "self.half")}, ret="N * N",
         opt_calls={"ServerHeader::from_array": ("tr_vanilla_server_header_from_array", "hdr")}),
    dict(name="tbc_decrypt_client_header", file="src/tbc_header/decrypt.rs", fn="decrypt_client_header", kind="method", fields=[("half", "opaque")], helpers=[],
         externs={"self.decrypt": ("ext_raw", "self.half")}, ret="N * N",
         opt_calls={"ClientHeader::from_array": ("tr_vanilla_client_header_from_array", "hdr")}),
    dict(name="vanilla_read_and_decrypt_server_header", file="src/vanilla_header/decrypt.rs", fn="read_and_decrypt_server_header", kind="method", fields=[("half", "opaque")], helpers=[],
         io_params={"reader": "reader"}, ext_params=["ext_raw"], ret="hdr",
         self_calls={"decrypt_server_header": ("tr_vanilla_decrypt_server_header ext_raw", ["self.half"], "hdr")}),
    dict(name="vanilla_write_encrypted_server_header", file="src/vanilla_header/encrypt.rs", fn="write_encrypted_server_header", kind="method", fields=[("half", "opaque")], helpers=[],
         io_params={"write": "writer"}, ext_params=["ext_raw"], ret="unit",
         self_calls={"encrypt_server_header": ("tr_vanilla_encrypt_server_header ext_raw", ["self.half"], ("arr", "u8"))}),
    dict(name="vanilla_read_and_decrypt_client_header", file="src/vanilla_header/decrypt.rs", fn="read_and_decrypt_client_header", kind="method", fields=[("half", "opaque")], helpers=[],
         io_params={"reader": "reader"}, ext_params=["ext_raw"], ret="hdr",
         self_calls={"decrypt_client_header": ("tr_vanilla_decrypt_client_header ext_raw", ["self.half"], "hdr")}),
    dict(name="vanilla_write_encrypted_client_header", file="src/vanilla_header/encrypt.rs", fn="write_encrypted_client_header", kind="method", fields=[("half", "opaque")], helpers=[],
         io_params={"write": "writer"}, ext_params=["ext_raw"], ret="unit",
         self_calls={"encrypt_client_header": ("tr_vanilla_encrypt_client_header ext_raw", ["self.half"], ("arr", "u8"))}),
    dict(name="tbc_read_and_decrypt_server_header", file="src/tbc_header/decrypt.rs", fn="read_and_decrypt_server_header", kind="method", fields=[("half", "opaque")], helpers=[],
         io_params={"reader": "reader"}, ext_params=["ext_raw"], ret="hdr",
         self_calls={"decrypt_server_header": ("tr_tbc_decrypt_server_header ext_raw", ["self.half"], "hdr")}),
    dict(name="tbc_write_encrypted_server_header", file="src/tbc_header/encrypt.rs", fn="write_encrypted_server_header", kind="method", fields=[("half", "opaque")], helpers=[],
         io_params={"write": "writer"}, ext_params=["ext_raw"], ret="unit",
         self_calls={"encrypt_server_header": ("tr_tbc_encrypt_server_header ext_raw", ["self.half"], ("arr", "u8"))}),
    dict(name="tbc_read_and_decrypt_client_header", file="src/tbc_header/decrypt.rs", fn="read_and_decrypt_client_header", kind="method", fields=[("half", "opaque")], helpers=[],
         io_params={"reader": "reader"}, ext_params=["ext_raw"], ret="hdr",
         self_calls={"decrypt_client_header": ("tr_tbc_decrypt_client_header ext_raw", ["self.half"], "hdr")}),
    dict(name="tbc_write_encrypted_client_header", file="src/tbc_header/encrypt.rs", fn="write_encrypted_client_header", kind="method", fields=[("half", "opaque")], helpers=[],
         io_params={"write": "writer"}, ext_params=["ext_raw"], ret="unit",
         self_calls={"encrypt_client_header": ("tr_tbc_encrypt_client_header ext_raw", ["self.half"], ("arr", "u8"))}),
    dict(name="rc4_key_scheduling_algorithm", file="src/rc4.rs", fn="key_scheduling_algorithm", kind="method",
         fields=[("state", ("arr", "u8")), ("i", "u8"), ("j", "u8")], ret="unit"),
    dict(name="rc4_new", file="src/rc4.rs", fn="new", kind="function", ret="list N * N * N", structs={"Self": ["state", "i", "j"]},
         mut_method_calls={"key_scheduling_algorithm": ("tr_rc4_key_scheduling_algorithm", 3)}),
    dict(name="vanilla_encrypter_new", file="src/vanilla_header/encrypt.rs", fn="new", kind="function", ret="list N * N * N",
         structs={"Self": ["session_key", "index", "previous_value"]}),
    dict(name="vanilla_decrypter_new", file="src/vanilla_header/decrypt.rs", fn="new", kind="function", ret="list N * N * N",
         structs={"Self": ["session_key", "index", "previous_value"]}),
    dict(name="tbc_encrypter_new", file="src/tbc_header/encrypt.rs", fn="new", kind="function", ret="list N * N * N",
         structs={"Self": ["key", "index", "previous_value"]}, try_into_len="proof_length"),
    dict(name="tbc_decrypter_new", file="src/tbc_header/decrypt.rs", fn="new", kind="function", ret="list N * N * N",
         structs={"Self": ["key", "index", "previous_value"]}, try_into_len="proof_length"),
    dict(name="vanilla_unsplit", file="src/vanilla_header/encrypt.rs", fn="unsplit", kind="method", helpers=["is_pair_of"], readonly=True, self_value=True,
         fields=[("session_key", ("arr", "u8")), ("index", "u8"), ("previous_value", "u8")], struct_params={"decrypter": [("session_key", ("arr", "u8")), ("index", "u8"), ("previous_value", "u8")]}, structs={"UnsplitCryptoError": [], "HeaderCrypto": ["decrypt", "encrypt"]},
         ret="((list N * N * N) * (list N * N * N)) + unit"),
    dict(name="vanilla_enc_is_pair_of", file="src/vanilla_header/encrypt.rs", fn="is_pair_of", kind="method", helpers=[], readonly=True,
         fields=[("session_key", ("arr", "u8")), ("index", "u8"), ("previous_value", "u8")], struct_params={"other": [("session_key", ("arr", "u8")), ("index", "u8"), ("previous_value", "u8")]}, ret="bool"),
    dict(name="vanilla_dec_is_pair_of", file="src/vanilla_header/decrypt.rs", fn="is_pair_of", kind="method", helpers=[], readonly=True, self_value="args",
         param_method_calls={"is_pair_of": ("tr_vanilla_enc_is_pair_of", "bool")},
         fields=[("session_key", ("arr", "u8")), ("index", "u8"), ("previous_value", "u8")], struct_params={"other": [("session_key", ("arr", "u8")), ("index", "u8"), ("previous_value", "u8")]}, ret="bool"),
    dict(name="vanilla_split", file="src/vanilla_header/mod.rs", fn="split", kind="method", helpers=[], readonly=True,
         fields=[("decrypt", ("struct", "Half")), ("encrypt", ("struct", "Half"))], ret="(list N * N * N) * (list N * N * N)"),
    dict(name="tbc_split", file="src/tbc_header/mod.rs", fn="split", kind="method", helpers=[], readonly=True,
         fields=[("decrypt", ("struct", "Half")), ("encrypt", ("struct", "Half"))], ret="(list N * N * N) * (list N * N * N)"),
    dict(name="wrath_client_split", file="src/wrath_header/mod.rs", fn="split", nth=0, kind="method", helpers=[], readonly=True,
         fields=[("decrypt", ("struct", "HalfBuf")), ("encrypt", ("struct", "Half"))], ret="(list N * N * N) * ((list N * N * N) * list N)"),
    dict(name="wrath_server_split", file="src/wrath_header/mod.rs", fn="split", nth=1, kind="method", helpers=[], readonly=True,
         fields=[("decrypt", ("struct", "Half")), ("encrypt", ("struct", "HalfBuf"))], ret="((list N * N * N) * list N) * (list N * N * N)"),
    dict(name="vanilla_half_encrypt", file="src/vanilla_header/encrypt.rs", fn="encrypt", nth=0, kind="method", helpers=[], fields=[("session_key", ("arr", "u8")), ("index", "u8"), ("previous_value", "u8")],
         out_params=["data"], cipher_calls={"encrypt": "tr_vanilla_encrypt_step"}),
    dict(name="vanilla_half_decrypt", file="src/vanilla_header/decrypt.rs", fn="decrypt", nth=0, kind="method", helpers=[], fields=[("session_key", ("arr", "u8")), ("index", "u8"), ("previous_value", "u8")],
         out_params=["data"], cipher_calls={"decrypt": "tr_vanilla_decrypt_step"}),
    dict(name="tbc_half_encrypt", file="src/tbc_header/encrypt.rs", fn="encrypt", nth=0, kind="method", helpers=[], fields=[("key", ("arr", "u8")), ("index", "u8"), ("previous_value", "u8")],
         out_params=["data"], cipher_calls={"encrypt": "tr_tbc_encrypt_step"}),
    dict(name="tbc_half_decrypt", file="src/tbc_header/decrypt.rs", fn="decrypt", nth=0, kind="method", helpers=[], fields=[("key", ("arr", "u8")), ("index", "u8"), ("previous_value", "u8")],
         out_params=["data"], cipher_calls={"decrypt": "tr_tbc_decrypt_step"}),
    dict(name="rc4_apply_keystream", file="src/rc4.rs", fn="apply_keystream", kind="method_slice_loop",
         fields=[("state", ("arr", "u8")), ("i", "u8"), ("j", "u8")],
         self_calls={"pseudo_random_generation": ("tr_rc4_prga", ["self.state", "self.i", "self.j"])}),
    dict(name="wrath_inner_new", file="src/wrath_header/inner_crypto/mod.rs", fn="new", kind="function", ret="list N * N * N",
         structs={"Self": ["inner"]}, opt_calls={"Rc4::new": ("tr_rc4_new", ("struct", "Rc4"))},
         mut_method_calls={"apply_keystream": ("tr_rc4_apply_keystream_step", 3, "slice")}),
    dict(name="wrath_server_enc_new", file="src/wrath_header/encrypt.rs", fn="new", nth=0, kind="function", ret="(list N * N * N) * list N",
         structs={"Self": ["encrypt", "server_header"]}, consts={"R": ("wrath_R", ("arr", "u8")), "S": ("wrath_S", ("arr", "u8")), "SERVER_HEADER_MAXIMUM_LENGTH": ("wrath_server_header_max_length", "u8"), "SERVER_HEADER_MINIMUM_LENGTH": ("wrath_server_header_min_length", "u8")}, opt_calls={"InnerCrypto::new": ("tr_wrath_inner_new", ("struct", "Rc4"))}),
    dict(name="wrath_client_enc_new", file="src/wrath_header/encrypt.rs", fn="new", nth=1, kind="function", ret="list N * N * N",
         structs={"Self": ["encrypt"]}, consts={"R": ("wrath_R", ("arr", "u8")), "S": ("wrath_S", ("arr", "u8")), "SERVER_HEADER_MAXIMUM_LENGTH": ("wrath_server_header_max_length", "u8"), "SERVER_HEADER_MINIMUM_LENGTH": ("wrath_server_header_min_length", "u8")}, opt_calls={"InnerCrypto::new": ("tr_wrath_inner_new", ("struct", "Rc4"))}),
    dict(name="wrath_server_dec_new", file="src/wrath_header/decrypt.rs", fn="new", nth=0, kind="function", ret="list N * N * N",
         structs={"Self": ["decrypt"]}, consts={"R": ("wrath_R", ("arr", "u8")), "S": ("wrath_S", ("arr", "u8")), "SERVER_HEADER_MAXIMUM_LENGTH": ("wrath_server_header_max_length", "u8"), "SERVER_HEADER_MINIMUM_LENGTH": ("wrath_server_header_min_length", "u8")}, opt_calls={"InnerCrypto::new": ("tr_wrath_inner_new", ("struct", "Rc4"))}),
    dict(name="wrath_client_dec_new", file="src/wrath_header/decrypt.rs", fn="new", nth=1, kind="function", ret="(list N * N * N) * list N",
         structs={"Self": ["decrypt", "header"]}, consts={"R": ("wrath_R", ("arr", "u8")), "S": ("wrath_S", ("arr", "u8")), "SERVER_HEADER_MAXIMUM_LENGTH": ("wrath_server_header_max_length", "u8"), "SERVER_HEADER_MINIMUM_LENGTH": ("wrath_server_header_min_length", "u8")}, opt_calls={"InnerCrypto::new": ("tr_wrath_inner_new", ("struct", "Rc4"))}),
    dict(name="vanilla_crypto_new", file="src/vanilla_header/mod.rs", fn="new", nth=0, kind="function", ret="(list N * N * N) * (list N * N * N)",
         structs={"Self": ["decrypt", "encrypt"]}, opt_calls={"DecrypterHalf::new": ("tr_vanilla_decrypter_new", ("struct", "Half")), "EncrypterHalf::new": ("tr_vanilla_encrypter_new", ("struct", "Half"))}),
    dict(name="tbc_crypto_new", file="src/tbc_header/mod.rs", fn="new", nth=0, kind="function", ret="(list N * N * N) * (list N * N * N)",
         structs={"Self": ["decrypt", "encrypt"]}, opt_calls={"DecrypterHalf::new": ("tr_tbc_decrypter_new", ("struct", "Half")), "EncrypterHalf::new": ("tr_tbc_encrypter_new", ("struct", "Half"))}),
    dict(name="wrath_client_crypto_new", file="src/wrath_header/mod.rs", fn="new", nth=0, kind="function", ret="((list N * N * N) * list N) * (list N * N * N)",
         structs={"Self": ["decrypt", "encrypt"]}, opt_calls={"ClientDecrypterHalf::new": ("tr_wrath_client_dec_new", ("struct", "Half")), "ClientEncrypterHalf::new": ("tr_wrath_client_enc_new", ("struct", "Half"))}),
    dict(name="wrath_server_crypto_new", file="src/wrath_header/mod.rs", fn="new", nth=1, kind="function", ret="(list N * N * N) * ((list N * N * N) * list N)",
         structs={"Self": ["decrypt", "encrypt"]}, opt_calls={"ServerDecrypterHalf::new": ("tr_wrath_server_dec_new", ("struct", "Half")), "ServerEncrypterHalf::new": ("tr_wrath_server_enc_new", ("struct", "Half"))}),
    dict(name="wrath_inner_apply", file="src/wrath_header/inner_crypto/mod.rs", fn="apply", kind="method", helpers=[], fields=[("inner", ("struct", "Rc4"))],
         out_params=["data"], mut_method_calls={"apply_keystream": ("tr_rc4_apply_keystream_step", 3, "slice")}),
    dict(name="wrath_server_enc_encrypt", file="src/wrath_header/encrypt.rs", fn="encrypt", nth=0, kind="method", helpers=[],
         fields=[("encrypt", ("struct", "Rc4")), ("server_header", ("arr", "u8"))], out_params=["data"], mut_method_calls={"apply": ("tr_wrath_inner_apply", 1, "whole")}),
    dict(name="wrath_client_enc_encrypt", file="src/wrath_header/encrypt.rs", fn="encrypt", nth=1, kind="method", helpers=[],
         fields=[("encrypt", ("struct", "Rc4"))], out_params=["data"], mut_method_calls={"apply": ("tr_wrath_inner_apply", 1, "whole")}),
    dict(name="wrath_server_dec_decrypt", file="src/wrath_header/decrypt.rs", fn="decrypt", nth=0, kind="method", helpers=[],
         fields=[("decrypt", ("struct", "Rc4"))], out_params=["data"], mut_method_calls={"apply": ("tr_wrath_inner_apply", 1, "whole")}),
    dict(name="wrath_client_dec_decrypt", file="src/wrath_header/decrypt.rs", fn="decrypt", nth=1, kind="method", helpers=[],
         fields=[("decrypt", ("struct", "Rc4")), ("header", ("arr", "u8"))], out_params=["data"], mut_method_calls={"apply": ("tr_wrath_inner_apply", 1, "whole")}),
    dict(name="wrath_from_small_array", file="src/wrath_header/mod.rs", fn="from_small_array", kind="function", ret="N * N", structs={"Self": ["size", "opcode"]}),
    dict(name="wrath_from_large_array", file="src/wrath_header/mod.rs", fn="from_large_array", kind="function", ret="N * N", structs={"Self": ["size", "opcode"]},
         free_helpers=[("clear_large_header", "src/wrath_header/decrypt.rs")]),
    dict(name="wrath_attempt_decrypt_server_header", file="src/wrath_header/decrypt.rs", fn="attempt_decrypt_server_header", kind="method",
         fields=[("decrypt", "opaque"), ("header", ("arr", "u8"))], helpers=[], free_helpers=["large_header"],
         externs={"self.decrypt.apply": ("ext_apply", "self.decrypt")}, ret="option (N * N)",
         enums={"WrathServerAttempt::AdditionalByteRequired": "None"}, ctors={"WrathServerAttempt::Header": "Some"},
         opt_calls={"ServerHeader::from_small_array": ("tr_wrath_from_small_array", "hdr")}),
    dict(name="wrath_decrypt_large_server_header", file="src/wrath_header/decrypt.rs", fn="decrypt_large_server_header", kind="method",
         fields=[("decrypt", "opaque"), ("header", ("arr", "u8"))], helpers=[], externs={"self.decrypt.apply": ("ext_apply", "self.decrypt")}, ret="N * N",
         opt_calls={"ServerHeader::from_large_array": ("tr_wrath_from_large_array", "hdr")}),
    dict(name="wrath_read_and_decrypt_server_header", file="src/wrath_header/decrypt.rs", fn="read_and_decrypt_server_header", kind="method",
         fields=[("decrypt", "opaque"), ("header", ("arr", "u8"))], helpers=[], io_params={"reader": "reader"}, ext_params=["ext_apply"], ret="hdr",
         self_calls={"attempt_decrypt_server_header": ("tr_wrath_attempt_decrypt_server_header ext_apply", ["self.decrypt", "self.header"], "attempt"),
                     "decrypt_large_server_header": ("tr_wrath_decrypt_large_server_header ext_apply", ["self.decrypt", "self.header"], "hdr")},
         match_patterns={"WrathServerAttempt::Header": ("Some", ["hdr"]), "WrathServerAttempt::AdditionalByteRequired": ("None", [])}),
    dict(name="wrath_encrypt_server_header", file="src/wrath_header/encrypt.rs", fn="encrypt_server_header", kind="method",
         fields=[("encrypt", "opaque"), ("server_header", ("arr", "u8"))], helpers=[], free_helpers=["set_large_header"],
         externs={"self.encrypt": ("ext_apply", "self.encrypt")}, ret=("arr", "u8"), consts={"SERVER_HEADER_MINIMUM_LENGTH": ("wrath_server_header_min_length", "u8")}),
    dict(name="wrath_encrypt_client_header", file="src/wrath_header/encrypt.rs", fn="encrypt_client_header", kind="method", fields=[("encrypt", "opaque")], helpers=[],
         externs={"self.encrypt": ("ext_apply", "self.encrypt")}, ret=("arr", "u8")),
    dict(name="wrath_decrypt_client_header", file="src/wrath_header/decrypt.rs", fn="decrypt_client_header", kind="method", fields=[("decrypt", "opaque")], helpers=[],
         externs={"self.decrypt": ("ext_apply", "self.decrypt")}, ret="N * N",
         opt_calls={"ClientHeader::from_array": ("tr_vanilla_client_header_from_array", "hdr")}),
    dict(name="wrath_write_encrypted_client_header", file="src/wrath_header/encrypt.rs", fn="write_encrypted_client_header", kind="method", fields=[("encrypt", "opaque")], helpers=[],
         io_params={"write": "writer"}, ext_params=["ext_apply"], ret="unit",
         self_calls={"encrypt_client_header": ("tr_wrath_encrypt_client_header ext_apply", ["self.encrypt"], ("arr", "u8"))}),
    dict(name="wrath_write_encrypted_server_header", file="src/wrath_header/encrypt.rs", fn="write_encrypted_server_header", kind="method",
         fields=[("encrypt", "opaque"), ("server_header", ("arr", "u8"))], helpers=[],
         io_params={"write": "writer"}, ext_params=["ext_apply"], ret="unit",
         self_calls={"encrypt_server_header": ("tr_wrath_encrypt_server_header ext_apply", ["self.encrypt", "self.server_header"], ("arr", "u8"))}),
    dict(name="wrath_read_and_decrypt_client_header", file="src/wrath_header/decrypt.rs", fn="read_and_decrypt_client_header", kind="method", fields=[("decrypt", "opaque")], helpers=[],
         io_params={"reader": "reader"}, ext_params=["ext_apply"], ret="hdr",
         self_calls={"decrypt_client_header": ("tr_wrath_decrypt_client_header ext_apply", ["self.decrypt"], "hdr")}),
    dict(name="bigint_to_padded_32", file="src/bigint.rs", fn="to_padded_32_byte_array_le", kind="method", helpers=[], readonly=True,
         fields=[("value", "bigz")], ext_params_raw=["(be : backend)"], ret=("arr", "u8"),
         self_pure_calls={"to_bytes_le": ("(to_bytes_le be s_value)", ("arr", "u8"))}),
    dict(name="srp_calculate_password_verifier", file="src/srp_internal.rs", fn="calculate_password_verifier", kind="formula",
         calls={"calculate_x": ("calculate_x", "pure")}),
    dict(name="srp_calculate_server_public_key", file="src/srp_internal.rs", fn="calculate_server_public_key", kind="formula",
         res_calls={"PublicKey::try_from_bigint": "pk_try_from_bigint be"}),
    dict(name="srp_calculate_S", file="src/srp_internal.rs", fn="calculate_S", kind="formula", into="key_from_bigint be (N.to_nat s_length)"),
    dict(name="srp_calculate_client_public_key", file="src/srp_internal_client.rs", fn="calculate_client_public_key", kind="formula",
         gen_params=["generator"], prime_params=["large_safe_prime"], res_calls={"PublicKey::client_try_from_bigint": "pk_client_try_from_bigint be"}),
    dict(name="srp_calculate_client_S", file="src/srp_internal_client.rs", fn="calculate_client_S", kind="formula",
         gen_params=["generator"], prime_params=["large_safe_prime"]),
    dict(name="pin_get_pin_grid_seed", file="src/pin.rs", fn="get_pin_grid_seed", kind="function", ret="u32", tape=True),
    dict(name="pin_get_pin_salt", file="src/pin.rs", fn="get_pin_salt", kind="function", ret=("arr", "u8"), tape=True, consts={"PIN_SALT_SIZE": ("pin_salt_size", "u8")}),
    dict(name="matrix_get_matrix_card_seed", file="src/matrix_card.rs", fn="get_matrix_card_seed", kind="function", ret="u64", tape=True),
    dict(name="integrity_get_salt_value", file="src/integrity.rs", fn="get_salt_value", kind="function", ret=("arr", "u8"), tape=True,
         consts={"crate::INTEGRITY_SALT_LENGTH": ("integrity_salt_length", "u8")}),
    dict(name="integrity_finalise", file="src/integrity.rs", fn="finalise", kind="function", ret=("arr", "u8")),
    dict(name="integrity_checksum", file="src/integrity.rs", fn="checksum", kind="function", ret=("arr", "u8")),
    dict(name="integrity_login_generic", file="src/integrity.rs", fn="login_integrity_check_generic", kind="function", ret=("arr", "u8"), consts={"crate::INTEGRITY_SALT_LENGTH": ("integrity_salt_length", "u8"), "SHA1_HASH_LENGTH": ("sha1_hash_length", "u8")},
         opt_calls={"finalise": ("tr_integrity_finalise", ("arr", "u8"))}),
    dict(name="integrity_login_windows", file="src/integrity.rs", fn="login_integrity_check_windows", kind="function", ret=("arr", "u8"), consts={"crate::INTEGRITY_SALT_LENGTH": ("integrity_salt_length", "u8"), "SHA1_HASH_LENGTH": ("sha1_hash_length", "u8")},
         opt_calls={"finalise": ("tr_integrity_finalise", ("arr", "u8")), "checksum": ("tr_integrity_checksum", ("arr", "u8"))}),
    dict(name="integrity_login_mac", file="src/integrity.rs", fn="login_integrity_check_mac", kind="function", ret=("arr", "u8"), consts={"crate::INTEGRITY_SALT_LENGTH": ("integrity_salt_length", "u8"), "SHA1_HASH_LENGTH": ("sha1_hash_length", "u8")},
         opt_calls={"finalise": ("tr_integrity_finalise", ("arr", "u8"))}),
    dict(name="integrity_reconnect", file="src/integrity.rs", fn="reconnect_integrity_check", kind="function", ret=("arr", "u8"), consts={"crate::INTEGRITY_SALT_LENGTH": ("integrity_salt_length", "u8"), "SHA1_HASH_LENGTH": ("sha1_hash_length", "u8")},
         opt_calls={"finalise": ("tr_integrity_finalise", ("arr", "u8"))}),
    dict(name="vanilla_proof_seed_default", file="src/vanilla_header/mod.rs", fn="default", kind="function", ret="u32", tape=True, structs={"Self": ["seed"]}),
    dict(name="tbc_proof_seed_default", file="src/tbc_header/mod.rs", fn="default", kind="function", ret="u32", tape=True, structs={"Self": ["seed"]}),
    dict(name="wrath_proof_seed_default", file="src/wrath_header/mod.rs", fn="default", kind="function", ret="u32", tape=True, structs={"Self": ["seed"]}),
    dict(name="server_from_database_values", file="src/server.rs", fn="from_database_values", kind="api", assoc=True, fields=[],
         identity=["Verifier::from_le_bytes", "Salt::from_le_bytes"]),
    dict(name="server_with_specific_salt", file="src/server.rs", fn="with_specific_salt", kind="api", assoc=True, fields=[], extra_params=["be : backend"],
         opt_calls={"srp_internal::calculate_password_verifier": ("tr_srp_calculate_password_verifier be", ("arr", "u8")),
                    "Self::from_database_values": ("tr_server_from_database_values", ("struct", "Self"))}),
    dict(name="server_from_username_and_password", file="src/server.rs", fn="from_username_and_password", kind="api", assoc=True, fields=[],
         extra_params=["be : backend"], tape=True,
         opt_calls={"Self::with_specific_salt": ("tr_server_with_specific_salt be", ("struct", "Self"))}),
    dict(name="server_with_specific_private_key", file="src/server.rs", fn="with_specific_private_key", kind="api",
         fields=["username", "password_verifier", "salt"], extra_params=["be : backend"],
         sum_calls={"srp_internal::calculate_server_public_key": ("tr_srp_calculate_server_public_key be", ("arr", "u8"))}),
    dict(name="server_into_proof", file="src/server.rs", fn="into_proof", kind="api",
         fields=["username", "password_verifier", "salt"], extra_params=["be : backend"], tape=True,
         sum_calls={"Self::with_specific_private_key": ("tr_server_with_specific_private_key be", ("struct", "SrpProof"))}),
    dict(name="client_new", file="src/client.rs", fn="new", kind="api", assoc=True, fields=[], extra_params=["be : backend"], tape=True,
         identity=["Generator::from", "LargeSafePrime::from_le_bytes", "Salt::from_le_bytes"],
         calls={"srp_internal::calculate_x": ("calculate_x", "pure"),
                "calculate_client_proof_with_custom_value": ("calculate_client_proof_with_custom_value", "pure")},
         sum_calls={"srp_internal_client::calculate_client_public_key": ("tr_srp_calculate_client_public_key be", ("arr", "u8"))},
         opt_calls={"calculate_u": ("tr_srp_calculate_u", ("arr", "u8")), "calculate_client_S": ("tr_srp_calculate_client_S be", ("arr", "u8")),
                    "calculate_interleaved": ("tr_srp_calculate_interleaved", ("arr", "u8"))}),
    dict(name="server_acc_username", file="src/server.rs", fn="username", nth=0, kind="api", fields=["username", "password_verifier", "salt"]),
    dict(name="server_acc_password_verifier", file="src/server.rs", fn="password_verifier", nth=0, kind="api", fields=["username", "password_verifier", "salt"]),
    dict(name="server_acc_salt", file="src/server.rs", fn="salt", nth=0, kind="api", fields=["username", "password_verifier", "salt"]),
    dict(name="server_acc_server_public_key", file="src/server.rs", fn="server_public_key", nth=0, kind="api", fields=["username", "server_public_key", "salt", "server_private_key", "password_verifier"]),
    dict(name="server_acc_proof_salt", file="src/server.rs", fn="salt", nth=1, kind="api", fields=["username", "server_public_key", "salt", "server_private_key", "password_verifier"]),
    dict(name="server_acc_session_key", file="src/server.rs", fn="session_key", nth=0, kind="api", fields=["username", "session_key", "reconnect_challenge_data"]),
    dict(name="server_acc_reconnect_challenge_data", file="src/server.rs", fn="reconnect_challenge_data", nth=0, kind="api", fields=["username", "session_key", "reconnect_challenge_data"]),
    dict(name="client_acc_session_key", file="src/client.rs", fn="session_key", nth=0, kind="api", fields=["username", "session_key"]),
    dict(name="client_acc_client_proof", file="src/client.rs", fn="client_proof", nth=0, kind="api", fields=["username", "client_proof", "client_public_key", "session_key"]),
    dict(name="client_acc_client_public_key", file="src/client.rs", fn="client_public_key", nth=0, kind="api", fields=["username", "client_proof", "client_public_key", "session_key"]),
    dict(name="key_check_public_key", file="src/key.rs", fn="check_public_key", kind="function", ret="unit + pk_error"),
    dict(name="key_public_from_le_bytes", file="src/key.rs", fn="from_le_bytes", nth=1, kind="function", ret="list N + pk_error",
         structs={"Self": ["key"]}, opt_calls={"check_public_key": ("tr_key_check_public_key", ("sum", "unit"))},
         match_patterns={"Ok": ("inl", ["unit"]), "Err": ("inr", ["enum"])}),
    dict(name="key_try_from_bigint", file="src/key.rs", fn="try_from_bigint", kind="formula", big_params=["b"], structs={"Self": ["key"]},
         opt_calls={"Self::from_le_bytes": ("tr_key_public_from_le_bytes", ("sum", ("arr", "u8")))}),
    dict(name="key_client_try_from_bigint", file="src/key.rs", fn="client_try_from_bigint", kind="formula", big_params=["b"], prime_params=["large_safe_prime"],
         structs={"Self": ["key"]}),
    dict(name="key_macro_default", file="src/key.rs", fn="default", kind="function", ret=("arr", "u8"), tape=True,
         subst={"$size": "KEY_SIZE", "$name": "KeyName"}, consts={"KEY_SIZE": ("key_size", "usize")}, extra_params=["key_size : N"],
         identity=["Self::from_le_bytes"]),
    dict(name="reconnect_randomize_data", file="src/key.rs", fn="randomize_data", kind="api", fields=["key"], mutates=True, tape=True, unit=True),
    dict(name="key_macro_randomized", file="src/key.rs", fn="randomized", kind="function", ret=("arr", "u8"), tape=True,
         subst={"$size": "KEY_SIZE", "$name": "KeyName"}, extra_params=["key_size : N"], tape_calls={"Self::default": ("tr_key_macro_default key_size", ("arr", "u8"))}),
    dict(name="key_macro_from_le_bytes", file="src/key.rs", fn="from_le_bytes", nth=0, kind="function", ret=("arr", "u8"), structs={"Self": ["key"]},
         subst={"$size": "KEY_SIZE", "$name": "KeyName"}),
    dict(name="key_macro_as_le_bytes", file="src/key.rs", fn="as_le_bytes", kind="method", fields=[("key", ("arr", "u8"))], helpers=[], readonly=True, ret=("arr", "u8"),
         subst={"$size": "KEY_SIZE", "$name": "KeyName"}),
    dict(name="key_macro_from_bigint", file="src/key.rs", fn="from", kind="formula", big_params=["b"], structs={"Self": ["key"]},
         subst={"$size": "KEY_SIZE", "$name": "KeyName"}, consts={"KEY_SIZE": ("key_size", "usize")}, extra_params=["(key_size : N)"]),
    dict(name="normalized_string_new", file="src/normalized_string.rs", fn="inner", kind="function", ret="nstr_view + ns_error",
         consts={"MAXIMUM_STRING_LENGTH_IN_BYTES": ("max_string_length", "u8")}),
    dict(name="normalized_string_new_outer", file="src/normalized_string.rs", fn="new", kind="function", ret="nstr_view + ns_error",
         opt_calls={"inner": ("tr_normalized_string_new", "res")}, identity=["as_ref"]),
    dict(name="normalized_string_as_ref", file="src/normalized_string.rs", fn="as_ref", kind="method", helpers=[], readonly=True,
         fields=[("s", ("arr", "u8")), ("length", "u8")], ret=("arr", "u8")),
    dict(name="normalized_string_from_str", file="src/normalized_string.rs", fn="from_str", kind="function", ret="nstr_view + ns_error", opt_calls={"Self::new": ("tr_normalized_string_new", "res")}),
    dict(name="normalized_string_from_string", file="src/normalized_string.rs", fn="from_string", kind="function", ret="nstr_view + ns_error", opt_calls={"Self::new": ("tr_normalized_string_new", "res")}),
    dict(name="normalized_string_try_from_str", file="src/normalized_string.rs", fn="try_from", nth=0, kind="function", ret="nstr_view + ns_error", opt_calls={"Self::new": ("tr_normalized_string_new", "res")}),
    dict(name="normalized_string_try_from_string", file="src/normalized_string.rs", fn="try_from", nth=1, kind="function", ret="nstr_view + ns_error", opt_calls={"Self::new": ("tr_normalized_string_new", "res")}),
    dict(name="matrix_generate_coordinates", file="src/matrix_card.rs", fn="generate_coordinates", kind="function", ret=("arr", "u8")),
    dict(name="pin_remap_pin_grid", file="src/pin.rs", fn="remap_pin_grid", kind="function", ret=("arr", "u8"),
         consts={"MAX_PIN_LENGTH": ("max_pin_length", "u8")}),
    dict(name="pin_to_bytes", file="src/pin.rs", fn="pin_to_bytes", kind="function", ret=("arr", "u8"),
         consts={"MAX_PIN_LENGTH": ("max_pin_length", "u8")}),
    dict(name="pin_calculate_hash", file="src/pin.rs", fn="calculate_hash", kind="function", ret="option (list N)",
         consts={"MIN_PIN_LENGTH": ("min_pin_length", "u8"), "MAX_PIN_LENGTH": ("max_pin_length", "u8"), "PIN_HASH_SIZE": ("pin_hash_size", "u8")},
         opt_calls={"pin_to_bytes": ("tr_pin_to_bytes 11%nat", ("arr", "u8")), "remap_pin_grid": ("tr_pin_remap_pin_grid", ("arr", "u8"))}),
    dict(name="pin_verify_client_pin_hash", file="src/pin.rs", fn="verify_client_pin_hash", kind="function", ret="bool",
         opt_calls={"calculate_hash": ("tr_pin_calculate_hash", ("opt", ("arr", "u8")))}),
    dict(name="matrix_get_number_at_coordinates", file="src/matrix_card.rs", fn="get_number_at_coordinates", kind="method",
         fields=[("digit_count", "u8"), ("width", "u8"), ("height", "u8"), ("data", ("arr", "u8"))], helpers=[], ret=("arr", "u8"), readonly=True),
    dict(name="matrix_get_matrix_coordinates", file="src/matrix_card.rs", fn="get_matrix_coordinates", kind="method",
         fields=[("challenge_count", "u8"), ("height", "u8"), ("width", "u8"), ("coordinates", ("arr", "u8"))], helpers=[], ret="option (N * N)", readonly=True),
    dict(name="matrix_get_matrix_card_size", file="src/matrix_card.rs", fn="get_matrix_card_size", kind="function", ret="usize"),
    dict(name="matrix_from_data", file="src/matrix_card.rs", fn="from_data", kind="function", ret="option (N * N * N * list N)",
         structs={"Self": ["digit_count", "width", "height", "data"]}, byte_types=["Vec<u8>"],
         opt_calls={"Self::get_matrix_card_size": ("tr_matrix_get_matrix_card_size", "usize")}),
    dict(name="matrix_acc_data", file="src/matrix_card.rs", fn="data", kind="method", helpers=[], readonly=True, fields=[("digit_count", "u8"), ("width", "u8"), ("height", "u8"), ("data", ("arr", "u8"))], ret=("arr", "u8")),
    dict(name="matrix_acc_width", file="src/matrix_card.rs", fn="width", kind="method", helpers=[], readonly=True, fields=[("digit_count", "u8"), ("width", "u8"), ("height", "u8"), ("data", ("arr", "u8"))], ret="u8"),
    dict(name="matrix_acc_height", file="src/matrix_card.rs", fn="height", kind="method", helpers=[], readonly=True, fields=[("digit_count", "u8"), ("width", "u8"), ("height", "u8"), ("data", ("arr", "u8"))], ret="u8"),
    dict(name="matrix_acc_digit_count", file="src/matrix_card.rs", fn="digit_count", kind="method", helpers=[], readonly=True, fields=[("digit_count", "u8"), ("width", "u8"), ("height", "u8"), ("data", ("arr", "u8"))], ret="u8"),
    dict(name="vanilla_proof_seed_seed", file="src/vanilla_header/mod.rs", fn="seed", kind="method", helpers=[], readonly=True, fields=[("seed", "u32")], ret="u32"),
    dict(name="vanilla_proof_seed_new", file="src/vanilla_header/mod.rs", fn="new", nth=1, kind="function", ret="u32", tape=True, tape_calls={"Self::default": ("tr_vanilla_proof_seed_default", "u32")}),
    dict(name="tbc_proof_seed_seed", file="src/tbc_header/mod.rs", fn="seed", kind="method", helpers=[], readonly=True, fields=[("seed", "u32")], ret="u32"),
    dict(name="tbc_proof_seed_new", file="src/tbc_header/mod.rs", fn="new", nth=1, kind="function", ret="u32", tape=True, tape_calls={"Self::default": ("tr_tbc_proof_seed_default", "u32")}),
    dict(name="wrath_proof_seed_seed", file="src/wrath_header/mod.rs", fn="seed", kind="method", helpers=[], readonly=True, fields=[("seed", "u32")], ret="u32"),
    dict(name="wrath_proof_seed_new", file="src/wrath_header/mod.rs", fn="new", nth=2, kind="function", ret="u32", tape=True, tape_calls={"Self::default": ("tr_wrath_proof_seed_default", "u32")}),
    dict(name="primes_lsp_default", file="src/primes.rs", fn="default", nth=0, kind="function", ret=("arr", "u8"), structs={"Self": ["prime"]}),
    dict(name="primes_lsp_from_le_bytes", file="src/primes.rs", fn="from_le_bytes", kind="function", ret=("arr", "u8"), structs={"Self": ["prime"]},
         consts={"LARGE_SAFE_PRIME_LENGTH": ("large_safe_prime_length", "u8")}),
    dict(name="primes_lsp_as_le_bytes", file="src/primes.rs", fn="as_le_bytes", kind="method", helpers=[], readonly=True, fields=[("prime", ("arr", "u8"))], ret=("arr", "u8")),
    dict(name="primes_generator_default", file="src/primes.rs", fn="default", nth=1, kind="function", ret="u8", structs={"Self": ["generator"]}, consts={"GENERATOR": ("generator", "u8")}),
    dict(name="primes_generator_as_u8", file="src/primes.rs", fn="as_u8", kind="method", helpers=[], readonly=True, fields=[("generator", "u8")], ret="u8"),
    dict(name="primes_generator_from", file="src/primes.rs", fn="from", kind="function", ret="u8", structs={"Self": ["generator"]}),
    dict(name="matrix_fill_matrix_card_values", file="src/matrix_card.rs", fn="fill_matrix_card_values", kind="function", ret=("arr", "u8"), tape=True,
         consts={"MIN_MATRIX_CARD_VALUE": ("min_matrix_card_value", "u8"), "MAX_MATRIX_CARD_VALUE": ("max_matrix_card_value", "u8")}),
    dict(name="matrix_card_new", file="src/matrix_card.rs", fn="new", nth=0, kind="function", ret="N * N * N * list N", tape=True,
         structs={"Self": ["digit_count", "width", "height", "data"]},
         opt_calls={"Self::get_matrix_card_size": ("tr_matrix_get_matrix_card_size", "usize")},
         tape_stmt_calls={"fill_matrix_card_values": "tr_matrix_fill_matrix_card_values"}),
    dict(name="matrix_to_printer", file="src/matrix_card.rs", fn="to_printer", kind="method", helpers=[], readonly=True, fields=[("digit_count", "u8"), ("width", "u8"), ("height", "u8"), ("data", ("arr", "u8"))],
         structs={"MatrixCardPrinter": ["chunks"]}, ret="list N * N"),
    dict(name="matrix_printer_next", file="src/matrix_card.rs", fn="next", kind="method", helpers=[], fields=[("chunks", "chunks")], ret="option (list N)"),
    dict(name="matrix_verifier_new", file="src/matrix_card.rs", fn="new", nth=1, kind="function",
         ret="N * N * N * list N * (list N * list N) * (list N * N * N)",
         structs={"Self": ["challenge_count", "height", "width", "coordinates", "hmac", "rc4"]},
         opt_calls={"generate_coordinates": ("tr_matrix_generate_coordinates", ("arr", "u8")), "Rc4::new": ("tr_rc4_new", ("struct", "Rc4"))}),
    dict(name="matrix_enter_value", file="src/matrix_card.rs", fn="enter_value", kind="method", helpers=[],
         fields=[("challenge_count", "u8"), ("height", "u8"), ("width", "u8"), ("coordinates", ("arr", "u8")), ("hmac", "hmac"), ("rc4", ("struct", "Rc4"))], mut_method_calls={"apply_keystream": ("tr_rc4_apply_keystream_step", 3, "slice")}),
    dict(name="matrix_into_proof", file="src/matrix_card.rs", fn="into_proof", kind="method", helpers=[],
         fields=[("challenge_count", "u8"), ("height", "u8"), ("width", "u8"), ("coordinates", ("arr", "u8")), ("hmac", "hmac"), ("rc4", ("struct", "Rc4"))], ret=("arr", "u8"), readonly=True),
    dict(name="matrix_verify_matrix_card_hash", file="src/matrix_card.rs", fn="verify_matrix_card_hash", kind="function", ret="bool",
         struct_params={"matrix_card": [("digit_count", "u8"), ("width", "u8"), ("height", "u8"), ("data", ("arr", "u8"))]},
         opt_calls={"MatrixCardVerifier::new": ("tr_matrix_verifier_new", ("struct", "MatrixCardVerifier"))},
         param_method_calls={"get_number_at_coordinates": ("tr_matrix_get_number_at_coordinates", ("arr", "u8"))},
         struct_method_calls={"get_matrix_coordinates": ("tr_matrix_get_matrix_coordinates", 6, [0, 1, 2, 3], ("opt", ("tup", ("u8", "u8")))),
                              "into_proof": ("tr_matrix_into_proof", 6, [0, 1, 2, 3, 4, 5], ("arr", "u8"))},
         mut_method_calls={"enter_value": ("tr_matrix_enter_value", 6)}),
    dict(name="server_verify_reconnection_attempt", file="src/server.rs", fn="verify_reconnection_attempt", kind="api",
         fields=["username", "session_key", "reconnect_challenge_data"], mutates=True, tape=True,
         calls={"calculate_reconnect_proof": ("calculate_reconnect_proof", "pure")},
         field_draws={"self.reconnect_challenge_data": "reconnect_challenge_data_length"}),
    dict(name="server_into_server", file="src/server.rs", fn="into_server", kind="api",
         fields=["username", "server_public_key", "salt", "server_private_key", "password_verifier"], tape=True,
         extra_params=["be : backend"],
         calls={"srp_internal::calculate_session_key": ("calculate_session_key be", "nres"),
                "srp_internal::calculate_client_proof": ("calculate_client_proof", "pure"),
                "srp_internal::calculate_server_proof": ("calculate_server_proof", "pure")}),
    dict(name="client_verify_server_proof", file="src/client.rs", fn="verify_server_proof", kind="api",
         fields=["username", "session_key", "client_proof", "client_public_key"],
         calls={"calculate_server_proof": ("calculate_server_proof", "pure")}),
    dict(name="client_calculate_reconnect_values", file="src/client.rs", fn="calculate_reconnect_values", kind="api",
         fields=["username", "session_key"], tape=True,
         calls={"calculate_reconnect_proof": ("calculate_reconnect_proof", "pure")}),
    dict(name="vanilla_into_client_header_crypto", file="src/vanilla_header/mod.rs", fn="into_client_header_crypto", kind="api",
         fields=[("seed", "u32")], calls={"calculate_world_server_proof": ("WorldProof.calculate_world_server_proof", "pure"), "HeaderCrypto::new": ("Vanilla.crypto_new", "pure")}),
    dict(name="vanilla_into_server_header_crypto", file="src/vanilla_header/mod.rs", fn="into_server_header_crypto", kind="api",
         fields=[("seed", "u32")], calls={"calculate_world_server_proof": ("WorldProof.calculate_world_server_proof", "pure"), "HeaderCrypto::new": ("Vanilla.crypto_new", "pure")}),
    dict(name="tbc_into_client_header_crypto", file="src/tbc_header/mod.rs", fn="into_client_header_crypto", kind="api",
         fields=[("seed", "u32")], calls={"calculate_world_server_proof": ("WorldProof.calculate_world_server_proof", "pure"), "HeaderCrypto::new": ("Tbc.crypto_new", "nres")}),
    dict(name="tbc_into_server_header_crypto", file="src/tbc_header/mod.rs", fn="into_server_header_crypto", kind="api",
         fields=[("seed", "u32")], calls={"calculate_world_server_proof": ("WorldProof.calculate_world_server_proof", "pure"), "HeaderCrypto::new": ("Tbc.crypto_new", "nres")}),
    dict(name="wrath_into_client_header_crypto", file="src/wrath_header/mod.rs", fn="into_client_header_crypto", kind="api",
         fields=[("seed", "u32")], calls={"calculate_world_server_proof": ("WorldProof.calculate_world_server_proof", "pure"), "ClientCrypto::new": ("Wrath.client_crypto_new", "nres")}),
    dict(name="wrath_into_server_header_crypto", file="src/wrath_header/mod.rs", fn="into_server_header_crypto", kind="api",
         fields=[("seed", "u32")], calls={"calculate_world_server_proof": ("WorldProof.calculate_world_server_proof", "pure"), "ServerCrypto::new": ("Wrath.server_crypto_new", "nres")}),
    dict(name="skey_as_equal_slice", file="src/key.rs", fn="as_equal_slice", kind="method",
         fields=[("key", ("arr", "u8"))], helpers=[], ret=("arr", "u8"), readonly=True),
    dict(name="srp_calculate_x", file="src/srp_internal.rs", fn="calculate_x", kind="function", ret=("arr", "u8"), byte_types=["NormalizedString", "Salt", "PublicKey", "SessionKey", "Proof", "ReconnectData", "LargeSafePrime"], identity=["Sha1Hash::from_le_bytes", "Proof::from_le_bytes", "as_le_bytes", "as_ref", "into"]),
    dict(name="srp_calculate_server_proof", file="src/srp_internal.rs", fn="calculate_server_proof", kind="function", ret=("arr", "u8"), byte_types=["NormalizedString", "Salt", "PublicKey", "SessionKey", "Proof", "ReconnectData", "LargeSafePrime"], identity=["Sha1Hash::from_le_bytes", "Proof::from_le_bytes", "as_le_bytes", "as_ref", "into"]),
    dict(name="srp_calculate_client_proof", file="src/srp_internal.rs", fn="calculate_client_proof", kind="function", ret=("arr", "u8"), byte_types=["NormalizedString", "Salt", "PublicKey", "SessionKey", "Proof", "ReconnectData", "LargeSafePrime"], identity=["Sha1Hash::from_le_bytes", "Proof::from_le_bytes", "as_le_bytes", "as_ref", "into"],
         consts={"PRECALCULATED_XOR_HASH": ("xor_hash", ("arr", "u8")), "PROOF_LENGTH": ("proof_length", "u8")}),
    dict(name="srp_calculate_reconnect_proof", file="src/srp_internal.rs", fn="calculate_reconnect_proof", kind="function", ret=("arr", "u8"), byte_types=["NormalizedString", "Salt", "PublicKey", "SessionKey", "Proof", "ReconnectData", "LargeSafePrime"], identity=["Sha1Hash::from_le_bytes", "Proof::from_le_bytes", "as_le_bytes", "as_ref", "into"],
         consts={"PROOF_LENGTH": ("proof_length", "u8")}),
    dict(name="srp_calculate_xor_hash", file="src/srp_internal.rs", fn="calculate_xor_hash", kind="function", ret=("arr", "u8"), byte_types=["NormalizedString", "Salt", "PublicKey", "SessionKey", "Proof", "ReconnectData", "LargeSafePrime"], identity=["Sha1Hash::from_le_bytes", "Proof::from_le_bytes", "as_le_bytes", "as_ref", "into", "as_u8"],
         scalar_types={"Generator": "u8"}, consts={"SHA1_HASH_LENGTH": ("sha1_hash_length", "u8")}),
    dict(name="srp_calculate_client_proof_custom", file="src/srp_internal_client.rs", fn="calculate_client_proof_with_custom_value", kind="function", ret=("arr", "u8"), byte_types=["NormalizedString", "Salt", "PublicKey", "SessionKey", "Proof", "ReconnectData", "LargeSafePrime"], identity=["Sha1Hash::from_le_bytes", "Proof::from_le_bytes", "as_le_bytes", "as_ref", "into", "as_u8"],
         scalar_types={"Generator": "u8"}, consts={"PROOF_LENGTH": ("proof_length", "u8")},
         opt_calls={"calculate_xor_hash": ("tr_srp_calculate_xor_hash", ("arr", "u8"))}),
    dict(name="world_calculate_world_server_proof", file="src/vanilla_header/internal.rs", fn="calculate_world_server_proof", kind="function", ret=("arr", "u8"),
         byte_types=["NormalizedString", "SessionKey"], identity=["Proof::from_le_bytes", "as_le_bytes", "as_ref", "into"]),
    dict(name="srp_calculate_u", file="src/srp_internal.rs", fn="calculate_u", kind="function", ret=("arr", "u8"),
         byte_types=["PublicKey"], identity=["Sha1Hash::from_le_bytes", "as_le_bytes", "into"]),
    dict(name="srp_calculate_interleaved", file="src/srp_internal.rs", fn="calculate_interleaved", kind="function", ret=("arr", "u8"),
         consts={"S_LENGTH": ("s_length", "u8")}, method_calls={"as_equal_slice": ("tr_skey_as_equal_slice 33", ("arr", "u8"))},
         identity=["SessionKey::from_le_bytes"], byte_types=["SKey"]),
    dict(name="srp_calculate_session_key", file="src/srp_internal.rs", fn="calculate_session_key", kind="function", ret=("arr", "u8"),
         byte_types=["PublicKey", "Verifier", "PrivateKey"], extra_params=["be : backend"],
         opt_calls={"calculate_u": ("tr_srp_calculate_u", ("arr", "u8")), "calculate_S": ("tr_srp_calculate_S be", ("arr", "u8")),
                    "calculate_interleaved": ("tr_srp_calculate_interleaved", ("arr", "u8"))}),
]

def tuple_of(names):
    return names[0] if len(names) == 1 else "(" + ", ".join(names) + ")"
def tuple_type(n, elem="N"):
    return elem if n == 1 else "(" + " * ".join([elem] * n) + ")"

def free_fn(src, name, nth=0):
    """the nth function `name` whose first parameter is not self"""
    k, seen = 0, 0
    while True:
        sig, ret, body = find_fn(src, name, k)
        ps = split_params(sig)
        if not ps or ps[0][0] != "self":
            if seen == nth: return ps, ret, body
            seen += 1
        k += 1

def slice_loop(t, src):
    ps, ret, body = free_fn(src, t["fn"])
    toks = tokenize(body)
    p = Parser(toks)
    p.expect("{"); p.expect("for")
    var = p.next()[1]
    p.expect("in")
    it = p.next()[1]
    blk = p.block()
    p.expect("}")
    if p.peek()[0] != "eof": raise Untranslatable("statements after the loop")
    env, ro, st = {}, [], []
    elem = None
    for name, ty in ps:
        pt, mut = param_type(ty)
        if name == it:
            if not (isinstance(pt, tuple) and mut): raise Untranslatable("loop source is not a mutable slice")
            elem = pt[1]; continue
        env[name] = ("v_" + name, pt)
        if isinstance(pt, tuple):
            if mut: raise Untranslatable("mutable array parameter")
            ro.append("v_" + name)
        elif mut: st.append("v_" + name)
        else: ro.append("v_" + name)
    if elem is None: raise Untranslatable("loop does not iterate over a parameter")
    env[var] = ("v_" + var, elem)
    g = Gen(env, CONSTS)
    def final(tail):
        if tail is not None: raise Untranslatable("loop body ends in an expression")
        return "Some (%s, %s)" % (tuple_of([g.env[n[2:]][0] for n in st]), g.env[var][0])
    text = g.stmts(blk, final)
    head = "Definition tr_%s_step %s(st : %s) (v_%s : N) : option (%s * N) :=\n  let '%s := st in\n  %s." % (
        t["name"], "".join("(%s : list N) " % r for r in ro), tuple_type(len(st)), var, tuple_type(len(st)), tuple_of(st), text)
    note = "(* %s fn %s: for %s in %s; read-only %s; carried %s *)" % (t["file"], t["fn"], var, it, " ".join(ro) or "-", " ".join(st))
    return note + "\n" + head

def method_slice_loop(t, src):
    """fn m(&mut self, data: &mut [u8]) { for x in data { BODY } } over the fields of self"""
    sig, ret, body = find_fn(src, t["fn"])
    ps = split_params(sig)
    if not ps or ps[0][0] != "self" or len(ps) != 2: raise Untranslatable("expected (&mut self, slice)")
    p = Parser(tokenize(body))
    p.expect("{"); p.expect("for")
    var = p.next()[1]; p.expect("in"); it = p.next()[1]
    blk = p.block(); p.expect("}")
    if p.peek()[0] != "eof": raise Untranslatable("statements after the loop")
    pt, mut = param_type(ps[1][1])
    if ps[1][0] != it or not (isinstance(pt, tuple) and mut): raise Untranslatable("loop does not iterate over the mutable slice parameter")
    env = {var: ("v_" + var, pt[1])}
    for f, ty in t["fields"]: env["self." + f] = ("s_" + f, ty)
    g = Gen(env, dict(CONSTS))
    g.self_calls = dict(t.get("self_calls", {}))
    fields = ["s_" + f for f, _ in t["fields"]]
    def final(tail):
        if tail is not None: raise Untranslatable("loop body ends in an expression")
        return "Some ((%s), %s)" % (", ".join(fields), g.env[var][0])
    text = g.stmts(blk, final)
    sty = "(" + " * ".join("list N" if isinstance(ty, tuple) else "N" for _, ty in t["fields"]) + ")"
    head = "Definition tr_%s_step (st : %s) (v_%s : N) : option (%s * N) :=\n  let '(%s) := st in\n  %s." % (t["name"], sty, var, sty, ", ".join(fields), text)
    return "(* %s fn %s(&mut self, %s): for %s in %s; fields %s *)\n%s" % (t["file"], t["fn"], it, var, it, " ".join(fields), head)

def method(t, src):
    sig, ret, body = find_fn(src, t["fn"], t.get("nth", 0))
    ps = split_params(sig)
    if not ps or ps[0][0] != "self": raise Untranslatable("not a method")
    helpers = {}
    for h in t.get("helpers", []):
        hs, hr, hb = find_fn(src, h)
        hp = Parser(tokenize(hb))
        blk = hp.block()
        if len(blk) != 1 or blk[0][0] != "tail": raise Untranslatable("helper %s is not a single expression" % h)
        helpers[h] = ([x for x in split_params(hs) if x[0] != "self"], blk[0][1])
    env, args, argtys = {}, [], {}
    io = t.get("io_params", {})
    sparams = t.get("struct_params", {})
    for name, ty in ps[1:]:
        if name in sparams:
            for f_, fty in sparams[name]:
                gname = "v_%s_%s" % (name, f_)
                env["%s.%s" % (name, f_)] = (gname, fty); args.append(gname); argtys[gname] = fty
            continue
        if name in io: pt, mut = io[name], True
        else: pt, mut = param_type(ty)
        env[name] = ("v_" + name, pt); args.append("v_" + name); argtys["v_" + name] = pt
    for f, ty in t["fields"]:
        env["self." + f] = ("s_" + f, ty)
    consts = dict(CONSTS); consts.update(t.get("consts", {}))
    if t["file"].startswith("src/wrath_header/"):
        consts.update({"CLIENT_HEADER_LENGTH": ("wrath_client_header_length", "u8")})
    if t["file"].startswith("src/tbc_header/"):
        consts.update({"SERVER_HEADER_LENGTH": ("tbc_server_header_length", "u8"), "CLIENT_HEADER_LENGTH": ("tbc_client_header_length", "u8")})
    g = Gen(env, consts, helpers)
    for h in t.get("free_helpers", []):
        hsrc = src
        if isinstance(h, tuple): h, hfile = h; hsrc = strip_comments(open(os.path.join(REPO, hfile)).read())
        hs, hr, hb = find_fn(hsrc, h)
        blk_h = Parser(tokenize(hb)).block()
        if len(blk_h) != 1 or blk_h[0][0] != "tail": raise Untranslatable("helper %s is not a single expression" % h)
        g.free_helpers[h] = ([(n_, param_type(ty_)[0]) for n_, ty_ in split_params(hs)], blk_h[0][1])
    g.externs = dict(t.get("externs", {}))
    g.enums = dict(t.get("enums", {})); g.ctor_calls = dict(t.get("ctors", {})); g.opt_calls = dict(t.get("opt_calls", {}))
    g.self_calls = dict(t.get("self_calls", {})); g.mut_method_calls = dict(t.get("mut_method_calls", {}))
    g.struct_params = {n_: [f_ for f_, _ in fs_] for n_, fs_ in sparams.items()}
    g.structs = dict(t.get("structs", {}))
    if t.get("self_value") == "args": g.self_tuple = " ".join("s_" + f for f, _ in t["fields"])
    elif t.get("self_value"): g.self_tuple = "(" + ", ".join("s_" + f for f, _ in t["fields"]) + ")"
    g.param_method_calls = dict(t.get("param_method_calls", {})); g.self_pure_calls = dict(t.get("self_pure_calls", {}))
    g.cipher_calls = dict(t.get("cipher_calls", {}))
    blk = Parser(tokenize(body)).block()
    g.usize_vars = usize_variables(blk)
    fields = ["s_" + f for f, _ in t["fields"]]
    ro = t.get("readonly", False)
    ionames = ["v_" + n_ for n_ in io]
    def final(tail):
        st = "(" + ", ".join(fields) + ")" if len(fields) > 1 else fields[0]
        if ro:
            if tail is None: raise Untranslatable("read-only method without a result")
            return "Some %s" % tail[0]
        extra = "".join(", " + n_ for n_ in ionames) + "".join(", " + g.env[n_][0] for n_ in t.get("out_params", []))
        if tail is None: return "Some (%s, tt%s)" % (st, extra)
        return "Some (%s, %s%s)" % (st, tail[0], extra)
    g.fn_final = final
    g.match_patterns = dict(t.get("match_patterns", {}))
    text = g.stmts(blk, final)
    def cty(ty):
        if ty == "hmac": return "(list N * list N)"
        if ty == "bigz": return "Z"
        if ty == "chunks": return "(list N * N)"
        if isinstance(ty, tuple) and ty[0] == "struct": return {"Rc4": "(list N * N * N)", "Half": "(list N * N * N)", "HalfBuf": "((list N * N * N) * list N)"}[ty[1]]
        return "list N" if isinstance(ty, tuple) else ("ST" if ty == "opaque" else "N")
    tys = " ".join("(%s : %s)" % ("s_" + f, cty(ty)) for f, ty in t["fields"])
    if any(ty == "opaque" for _, ty in t["fields"]):
        exts = sorted(set(v[0] for v in t.get("externs", {}).values()) | set(t.get("ext_params", [])))
        tys = "{ST : Type} " + " ".join("(%s : ST -> list N -> option (ST * list N))" % x for x in exts) + " " + tys
    sty = "(" + " * ".join(cty(ty) for _, ty in t["fields"]) + ")"
    rty = "list N" if isinstance(t.get("ret"), tuple) else (t["ret"] if isinstance(t.get("ret"), str) and t["ret"] not in BITS else ("N" if t.get("ret") else "unit"))
    fuel = "(fuel : nat) " if g.uses_fuel else ""
    fuel += "".join(x + " " for x in t.get("ext_params_raw", []))
    def aty(a):
        if argtys[a] == "reader": return "rscript"
        if argtys[a] == "writer": return "(list N * wscript)%type"
        return "list N" if isinstance(argtys[a], tuple) else "N"
    rann = "" if (io or t.get("out_params")) else ": option %s " % (("(%s)" % rty) if ro else "(%s * (%s))" % (sty, rty))
    head = "Definition tr_%s %s%s %s%s:=\n  %s." % (t["name"], fuel, tys, "".join("(%s : %s) " % (a, aty(a)) for a in args), rann, text)
    note = "(* %s fn %s(&mut self%s); fields %s; helpers inlined: %s *)" % (t["file"], t["fn"], "".join(", " + a for a in args), " ".join(fields), " ".join(helpers) or "-")
    return note + "\n" + head

def formula(t, src):
    """a big-integer formula of srp_internal(.rs|_client.rs): byte arrays in, modelled integer operations"""
    for a_, b_ in t.get("subst", {}).items(): src = src.replace(a_, b_)
    ps, ret, body = free_fn(src, t["fn"], t.get("nth", 0))
    env, names = {}, []
    for name, ty in ps:
        if name in t.get("big_params", ()): env[name] = ("v_" + name, "big"); names.append("(v_%s : Z)" % name)
        elif name in t.get("gen_params", ()): env[name] = ("v_" + name, "u8"); names.append("(v_%s : N)" % name)
        else: env[name] = ("v_" + name, ("arr", "u8")); names.append("(v_%s : list N)" % name)
    consts_f = dict(CONSTS); consts_f.update(t.get("consts", {}))
    g = Gen(env, consts_f)
    g.identity_calls = set(IDENTITY) | {"SKey::from_le_bytes"}
    g.calls = dict(t.get("calls", {})); g.opt_calls = dict(t.get("opt_calls", {})); g.structs = dict(t.get("structs", {})); g.enums = dict(ENUMS)
    g.big = dict(be="be", into=t.get("into"), gen_params=set(t.get("gen_params", ())), prime_params=set(t.get("prime_params", ())),
                 res_calls=dict(t.get("res_calls", {})))
    blk = Parser(tokenize(body)).block()
    def final(tail):
        if tail is None: raise Untranslatable("formula without a result")
        return tail[0] if tail[1] == "resopt" else "Some %s" % tail[0]
    text = g.stmts(blk, final)
    names = list(t.get("extra_params", [])) + names
    head = "Definition tr_%s (be : backend) %s :=\n  %s." % (t["name"], " ".join(names), text)
    return "(* %s fn %s *)\n%s" % (t["file"], t["fn"], head)

def function(t, src):
    """free function: parameters by value or &mut array; result = (mutable array params.., tail value)"""
    for a_, b_ in t.get("subst", {}).items(): src = src.replace(a_, b_)
    ps, ret, body = free_fn(src, t["fn"], t.get("nth", 0))
    env, names, muts = {}, [], []
    sparams = t.get("struct_params", {})
    for name, ty in ps:
        if name in sparams:
            for f_, fty in sparams[name]:
                env["%s.%s" % (name, f_)] = ("v_%s_%s" % (name, f_), fty); names.append(("v_%s_%s" % (name, f_), fty))
            continue
        try: pt, mut = param_type(ty)
        except Untranslatable:
            if re.sub(r"^&\s*(mut\s+)?", "", ty).strip() in t.get("byte_types", ()): pt, mut = ("arr", "u8"), False
            elif re.sub(r"^&\s*(mut\s+)?", "", ty).strip() in t.get("scalar_types", {}): pt, mut = t["scalar_types"][re.sub(r"^&\s*(mut\s+)?", "", ty).strip()], False
            else: raise
        env[name] = ("v_" + name, pt); names.append(("v_" + name, pt))
        if mut and isinstance(pt, tuple): muts.append(name)
    consts = dict(CONSTS); consts.update(t.get("consts", {}))
    g = Gen(env, consts)
    g.enums = dict(ENUMS); g.ctor_calls = dict(CTORS); g.structs = dict(STRUCTS_FN); g.opt_calls = dict(t.get("opt_calls", {}))
    g.structs.update(t.get("structs", {}))
    g.mut_method_calls = dict(t.get("mut_method_calls", {})); g.try_into_len = t.get("try_into_len")
    g.match_patterns = dict(t.get("match_patterns", {})); g.tape_calls = dict(t.get("tape_calls", {}))
    g.tape_stmt_calls = dict(t.get("tape_stmt_calls", {}))
    g.struct_params = {n_: [f_ for f_, _ in fs_] for n_, fs_ in sparams.items()}
    g.param_method_calls = dict(t.get("param_method_calls", {})); g.struct_method_calls = dict(t.get("struct_method_calls", {}))
    g.method_calls = dict(t.get("method_calls", {})); g.identity_calls = set(t.get("identity", []))
    if t.get("tape"): g.tape = "v_tape"
    for h in t.get("free_helpers", []):
        hsrc = src
        if isinstance(h, tuple): h, hfile = h; hsrc = strip_comments(open(os.path.join(REPO, hfile)).read())
        hs, hr, hb = find_fn(hsrc, h)
        blk_h = Parser(tokenize(hb)).block()
        if len(blk_h) != 1 or blk_h[0][0] != "tail": raise Untranslatable("helper %s is not a single expression" % h)
        g.free_helpers[h] = ([(n_, param_type(ty_)[0]) for n_, ty_ in split_params(hs)], blk_h[0][1])
    blk = Parser(tokenize(body)).block()
    g.usize_vars = usize_variables(blk)
    g.mut_arrays = set(muts)
    def final(tail):
        if tail is None:
            if not muts: raise Untranslatable("function without a result")
            tail = ("(" + ", ".join(g.env[m_][0] for m_ in muts) + ")" if len(muts) > 1 else g.env[muts[0]][0], None)   # the &mut array parameters are the result
        return ("Some (%s, v_tape)" % tail[0]) if t.get("tape") else "Some %s" % tail[0]
    text = g.stmts(blk, final)
    fuel = "(fuel : nat) " if g.uses_fuel else ""
    rty = "list N" if isinstance(t.get("ret"), tuple) else (t["ret"] if isinstance(t.get("ret"), str) and t["ret"] not in BITS else "N")
    if t.get("tape"): rty = "%s * tape" % rty; names.append(("v_tape", "tape"))
    fuel += "".join("(%s) " % p for p in t.get("extra_params", []))
    head = "Definition tr_%s %s%s: option (%s) :=\n  %s." % (t["name"], fuel, "".join("(%s : %s) " % (n_, "tape" if ty_ == "tape" else ("list N" if (isinstance(ty_, tuple) or ty_ == "str") else "N")) for n_, ty_ in names), rty, text)
    note = "(* %s fn %s(%s) *)" % (t["file"], t["fn"], ", ".join(n_ for n_, _ in names))
    return note + "\n" + head

IDENTITY = {"Proof::from_le_bytes", "ReconnectData::from_le_bytes", "PublicKey::from_le_bytes_unchecked", "Salt::from_le_bytes",
            "SessionKey::from_le_bytes", "Sha1Hash::from_le_bytes", "as_le_bytes", "as_ref", "clone"}
STRUCTS = {"MatchProofsError": ["client_proof", "server_proof"],
           "SrpServer": ["username", "session_key", "reconnect_challenge_data"],
           "SrpClient": ["username", "session_key"],
           "SrpClientReconnection": ["challenge_data", "proof"]}
STRUCTS.update({"SrpProof": ["username", "server_public_key", "salt", "server_private_key", "password_verifier"],
                "SrpClientChallenge": ["username", "client_proof", "client_public_key", "session_key"],
                "Self": ["username", "password_verifier", "salt"]})
DRAWS = {"ReconnectData": "reconnect_challenge_data_length", "Salt": "salt_length", "PrivateKey": "private_key_length"}

def api(t, src):
    """a method of the typestate API: calls into modelled functions, comparisons, random draws from the
    explicit tape, struct / Result values as tuples / sums"""
    sig, ret, body = find_fn(src, t["fn"], t.get("nth", 0))
    ps = split_params(sig)
    if t.get("assoc"):
        if ps and ps[0][0] == "self": raise Untranslatable("expected an associated function")
        ps = [("self", "self")] + ps
    if not ps or ps[0][0] != "self": raise Untranslatable("not a method")
    env, args = {}, []
    for name, ty in ps[1:]:
        try: pt, _ = param_type(ty)
        except Untranslatable: pt = ("arr", "u8")
        env[name] = ("v_" + name, pt); args.append(("v_" + name, pt))
    ftypes = {}
    for f in t["fields"]:
        fname, fty = (f, ("arr", "u8")) if isinstance(f, str) else f
        ftypes[fname] = fty
        env["self." + fname] = ("s_" + fname, fty)
    t = dict(t); t["fields"] = list(ftypes)
    g = Gen(env, dict(CONSTS))
    g.calls = dict(t.get("calls", {})); g.identity_calls = set(IDENTITY); g.structs = dict(STRUCTS); g.draws = dict(DRAWS)
    g.field_draws = dict(t.get("field_draws", {}))
    g.sum_calls = dict(t.get("sum_calls", {})); g.opt_calls = dict(t.get("opt_calls", {}))
    g.identity_calls |= set(t.get("identity", []))
    if t.get("tape"): g.tape = "v_tape"
    blk = Parser(tokenize(body)).block()
    fields = ["s_" + f for f in t["fields"]]
    g.self_tuple = " ".join(fields) if fields else None
    def final(tail):
        if tail is None and not (t.get("unit") and t.get("mutates")): raise Untranslatable("method without a result")
        parts = [tail[0]] if tail is not None else []
        if t.get("mutates"): parts.append("(" + ", ".join(fields) + ")" if len(fields) > 1 else fields[0])
        if t.get("tape"): parts.append("v_tape")
        return "Some (%s)" % ", ".join(parts) if len(parts) > 1 else "Some %s" % parts[0]
    g.fn_final = final
    text = g.stmts(blk, final)
    params = "".join("(%s) " % p for p in t.get("extra_params", []))
    params += "".join("(%s : %s) " % ("s_" + f, "list N" if isinstance(ftypes[f], tuple) else "N") for f in t["fields"])
    params += "".join("(%s : %s) " % (a, "list N" if isinstance(ty, tuple) else "N") for a, ty in args)
    if t.get("tape"): params += "(v_tape : tape) "
    head = "Definition tr_%s %s:=\n  %s." % (t["name"], params, text)
    note = "(* %s fn %s; self fields %s; modelled callees: %s *)" % (t["file"], t["fn"], " ".join(fields), ", ".join(sorted(g.calls)) or "-")
    return note + "\n" + head

def main():
    out = ["(* GENERATED by tools/extract_steps.py from the Rust sources under /repo/src. Do not edit. *)",
           "From Coq Require Import List NArith.", "From WS Require Import lib.Bytes lib.Res lib.Tape lib.IoScript lib.Sha1 lib.Md5 lib.Hmac lib.StepLoop Consts model.Bigint model.Srp model.Random.", "From WS Require Import model.Key model.NormalizedString.", "Definition nstr_view : Type := (list N * N)%type.",
           "Definition res_view {A E} (r : res A E) : option (A + E) := match r with Ok a => Some (inl a) | Err e => Some (inr e) | Panic => None end.", "From WS Require model.Vanilla model.Tbc model.Wrath model.WorldProof.", "Import ListNotations.", "Local Open Scope N_scope.", ""]
    failed = []
    gen = []          # (name, text) in TARGETS order, then sorted so that a definition follows the ones it calls
    for t in TARGETS:
        try:
            src = strip_comments(open(os.path.join(REPO, t["file"])).read())
            gen.append((t["name"], {"slice_loop": slice_loop, "method": method, "function": function, "api": api, "formula": formula, "method_slice_loop": method_slice_loop}[t["kind"]](t, src)))
        except Exception as e:
            # Untranslatable / OSError: outside the subset or file gone; anything else: an internal error of the
            # translator on syntax it did not expect.  Either way this one body is not translated
            if not isinstance(e, (Untranslatable, OSError)): e = Untranslatable("translator error %s: %s" % (type(e).__name__, e))
            failed.append((t["name"], str(e)))
            gen.append((t["name"], "(* %s: NOT TRANSLATED: %s *)" % (t["name"], str(e).replace("*)", "* )"))))
    names = {n for n, _ in gen}
    def deps(n, txt):
        body = txt.split(":=", 1)[1] if ":=" in txt else ""
        return {m.group(1) for m in re.finditer(r"\btr_(\w+?)(?:_step)?\b", body)} & names - {n}
    done, order = set(), []
    pending = list(gen)
    while pending:
        progressed = False
        for item in list(pending):
            if deps(*item) <= done:
                order.append(item); done.add(item[0]); pending.remove(item); progressed = True
        if not progressed:
            order.extend(pending); break
    for n, txt in order:
        out.append(txt); out.append("")
    # the instantiations of the key macros of src/key.rs: which type gets which size (and so how many bytes
    # `Default` draws and `From<Integer>` pads to)
    KSIZE = {"SALT_LENGTH": "salt_length", "PRIVATE_KEY_LENGTH": "private_key_length", "PUBLIC_KEY_LENGTH": "public_key_length",
             "SHA1_HASH_LENGTH": "sha1_hash_length", "PASSWORD_VERIFIER_LENGTH": "large_safe_prime_length", "PROOF_LENGTH": "proof_length",
             "S_LENGTH": "s_length", "RECONNECT_CHALLENGE_DATA_LENGTH": "reconnect_challenge_data_length", "SESSION_KEY_LENGTH": "session_key_length"}
    ksrc = strip_comments(open(os.path.join(REPO, "src/key.rs")).read())
    out.append("(* src/key.rs: macro instantiations  macro!(Type; SIZE as usize) *)")
    for m in re.finditer(r"^\s*(key_new|key_wrapper|key_no_checks_initialization)!\(\s*(\w+)\s*;\s*([^)]*?)\s*(?:as\s+usize)?\s*\)\s*;", ksrc, flags=re.M):
        mac, ty, size = m.group(1), m.group(2), m.group(3).strip()
        val = KSIZE.get(size, size if re.fullmatch(r"\d+", size) else None)
        if val is None: out.append("(* %s!(%s; %s): size expression not understood *)" % (mac, ty, size)); continue
        out.append("Definition inst_%s_%s : N := %s." % (mac, ty, val))
    out.append("")
    text = "\n".join(out) + "\n"
    old = open(OUT).read() if os.path.exists(OUT) else None
    if old != text:
        open(OUT, "w").write(text)
    print("extract_steps: %d of %d bodies translated%s" % (len(TARGETS) - len(failed), len(TARGETS), "" if old == text else " (Steps.v rewritten)"))
    for n, e in failed:
        print("  could not translate %s: %s" % (n, e))
    return 0

if __name__ == "__main__":
    sys.exit(main())
