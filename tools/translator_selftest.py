#!/usr/bin/env python3
"""Differential self-test of the Rust-subset -> Gallina translator (tools/rustexpr.py + extract_steps.function).

The translator is in the trusted base: its rendering of Rust's integer, cast, bounds, iterator and panic rules is
what ties Steps.v to the source.  This script tests that rendering against rustc itself:

  1. every function of tools/selftest/snippets.rs (one construct family each) is compiled by rustc with debug
     assertions and overflow checks on and run on generated inputs, each call under catch_unwind;
  2. the same function is translated to Gallina by the same code path that translates /repo's functions;
  3. one coqc run evaluates the translated term on the same inputs with vm_compute and compares the outcome
     (value, or None = panic) with what the compiled Rust did.

Exit 0 and a line `translator-selftest: N functions, M cases, 0 mismatches` when they agree; exit 1 otherwise,
listing the disagreeing calls.  The result is cached on the content of the translator and the snippets."""
import os, re, sys, subprocess, hashlib, json, tempfile, shutil
HERE = os.path.dirname(os.path.abspath(__file__))
sys.path.insert(0, HERE)
import extract_steps as es
from rustexpr import Untranslatable, strip_comments, BITS

SNIP = os.path.join(HERE, "selftest", "snippets.rs")
COQ = os.path.join(os.path.dirname(HERE), "coq")
CACHE = os.path.join(HERE, "selftest", ".result.json")
CASES = 30

def lcg(seed):
    x = seed & (2**64 - 1)
    while True:
        x = (x * 6364136223846793005 + 1442695040888963407) & (2**64 - 1)
        yield x >> 24

def parse_functions(src):
    out = []
    for m in re.finditer(r"(?:pub )?fn (\w+)\s*\(([^)]*)\)\s*->\s*([^{]+?)\s*\{", src):
        params = []
        if "self" in m.group(2): continue                      # methods are handled separately
        for p in [x.strip() for x in m.group(2).split(",") if x.strip()]:
            n, ty = p.split(":", 1); params.append((n.strip(), ty.strip()))
        out.append((m.group(1), params, m.group(3).strip()))
    return out

def gallina_type(ty):
    ty = ty.strip()
    if ty in BITS: return "N"
    if ty == "bool": return "bool"
    if re.match(r"\[u8;\s*\d+\]$", ty) or ty in ("Vec<u8>", "&[u8]"): return "list N"
    m = re.match(r"Option<(.*)>$", ty)
    if m: return "option (%s)" % gallina_type(m.group(1))
    if ty.startswith("(") and ty.endswith(")"):
        return " * ".join("(%s)" % gallina_type(x) for x in split_top(ty[1:-1]))
    raise ValueError("return type %s" % ty)

def split_top(s):
    parts, depth, cur = [], 0, ""
    for ch in s:
        if ch in "<([": depth += 1
        if ch in ">)]": depth -= 1
        if ch == "," and depth == 0: parts.append(cur.strip()); cur = ""
        else: cur += ch
    if cur.strip(): parts.append(cur.strip())
    return parts

def comparator(ty):
    ty = ty.strip()
    if ty in BITS: return "N.eqb"
    if ty == "bool": return "Bool.eqb"
    if re.match(r"\[u8;\s*\d+\]$", ty) or ty in ("Vec<u8>", "&[u8]"): return "list_eqb"
    m = re.match(r"Option<(.*)>$", ty)
    if m: return "(opt_eqb %s)" % comparator(m.group(1))
    if ty.startswith("(") and ty.endswith(")"):
        a, b = split_top(ty[1:-1]); return "(pair_eqb %s %s)" % (comparator(a), comparator(b))
    raise ValueError(ty)

def ret_spec(ty):
    """the `ret` entry of a target dict"""
    ty = ty.strip()
    if ty in BITS: return ty
    if re.match(r"\[u8;\s*\d+\]$", ty): return ("arr", "u8")
    return gallina_type(ty)

EDGE = {"u8": [0, 1, 2, 3, 4, 7, 9, 10, 99, 100, 127, 128, 199, 200, 254, 255],
        "u16": [0, 1, 2, 255, 256, 300, 21845, 21846, 65534, 65535],
        "u32": [0, 1, 2, 9, 10, 1000, 65535, 65536, 2**31 - 1, 2**31, 2**32 - 2, 2**32 - 1],
        "u64": [0, 1, 2**32, 2**63, 2**64 - 1]}

def gen_value(name, ty, rnd, fname):
    ty = ty.strip()
    if ty == "usize":
        r = next(rnd) % 10
        return ("u", next(rnd) % 10 if r < 8 else (next(rnd) % 40 if r < 9 else 300 + next(rnd) % 7))
    if ty in BITS:
        if name == "s": return ("u", next(rnd) % 40)                      # shift amounts: mostly valid, sometimes >= 32
        if name == "n" and BITS[ty] > 8: return ("u", next(rnd) % 60)     # loop bounds stay small
        e = EDGE[ty]
        return ("u", e[next(rnd) % len(e)] if next(rnd) % 3 else next(rnd) % (2 ** BITS[ty]))
    m = re.match(r"\[u8;\s*(\d+)\]$", ty)
    if m:
        n = int(m.group(1))
        mode = next(rnd) % 4
        return ("a", [0 if mode == 0 else (next(rnd) % 10 if mode == 1 else (next(rnd) % 256 if mode == 2 else 200 + next(rnd) % 56)) for _ in range(n)])
    if ty == "&[u8]":
        n = next(rnd) % 13
        mode = next(rnd) % 3
        return ("s", [(0 if mode == 0 else next(rnd) % 256) for _ in range(n)])
    raise ValueError("parameter type %s" % ty)

def rust_lit(v, ty):
    k, x = v
    if k == "u": return "%d_%s" % (x, ty.strip())
    body = ", ".join("%d_u8" % b for b in x)
    return ("[%s]" % body) if k == "a" else ("&[%s]" % body if x else "&[0_u8; 0]")

def coq_lit(v):
    k, x = v
    if k == "u": return str(x)
    return "[" + "; ".join(str(b) for b in x) + "]" if x else "(@nil N)"

RUST_MAIN_HEAD = r'''
mod snippets;
#[allow(unused_imports)]
use snippets::*;
trait Show { fn show(&self) -> String; }
macro_rules! show_int { ($($t:ty),*) => { $(impl Show for $t { fn show(&self) -> String { format!("{}", self) } })* } }
show_int!(u8, u16, u32, u64, usize);
impl Show for bool { fn show(&self) -> String { format!("{}", self) } }
impl<const K: usize> Show for [u8; K] { fn show(&self) -> String { self[..].show() } }
impl Show for [u8] { fn show(&self) -> String { if self.is_empty() { "(@nil N)".to_string() } else { format!("[{}]", self.iter().map(|b| b.to_string()).collect::<Vec<_>>().join("; ")) } } }
impl Show for Vec<u8> { fn show(&self) -> String { self[..].show() } }
impl<T: Show> Show for Option<T> { fn show(&self) -> String { match self { Some(x) => format!("(Some {})", x.show()), None => "None".to_string() } } }
impl<A: Show, B: Show> Show for (A, B) { fn show(&self) -> String { format!("({}, {})", self.0.show(), self.1.show()) } }
fn run<F: FnOnce() -> String + std::panic::UnwindSafe>(tag: &str, f: F) {
    match std::panic::catch_unwind(f) { Ok(s) => println!("{} = Some {}", tag, s), Err(_) => println!("{} = None", tag) }
}
fn main() {
    std::panic::set_hook(Box::new(|_| {}));
'''

def main():
    src_raw = open(SNIP).read()
    key = hashlib.sha256((src_raw + open(os.path.join(HERE, "rustexpr.py")).read() + open(os.path.join(HERE, "extract_steps.py")).read()
                          + open(__file__).read()).encode()).hexdigest()
    if "--force" not in sys.argv and os.path.exists(CACHE):
        c = json.load(open(CACHE))
        if c.get("key") == key:
            print(c["line"] + " (cached)")
            return 0 if c["ok"] else 1
    src = strip_comments(src_raw)
    fns = parse_functions(src)
    names = {f for f, _, _ in fns}
    rnd = lcg(20261001)
    defs, calls_rs, cases, failed_tr, refused, not_refused = [], [], [], [], [], []
    for fname, params, ret in fns:
        helper = not (fname.startswith("t_") or fname.startswith("r_"))
        mres = re.match(r"Result<(\w+),\s*(\w+)>$", ret)
        try: rspec = "N + N" if mres else ret_spec(ret)
        except ValueError:
            if helper: continue
            raise
        t = dict(name="st_" + fname, file="tools/selftest/snippets.rs", fn=fname, kind="function", ret=rspec,
                 match_patterns={"Ok": ("inl", ["u8"]), "Err": ("inr", ["u8"])})
        mb = re.search(r"\bfn %s\s*\(" % fname, src)
        nxt = re.search(r"\n(?:pub )?fn \w", src[mb.end():])
        body_txt = src[mb.end():mb.end() + nxt.start()] if nxt else src[mb.end():]
        body_calls = {c for c in names if c != fname and re.search(r"\b%s\s*\(" % c, body_txt)}
        if body_calls:
            t["opt_calls"] = {}
            for c in body_calls:
                cret = [r for f, _, r in fns if f == c][0]
                m = re.match(r"Option<(\w+)>$", cret)
                mr = re.match(r"Result<(\w+),\s*(\w+)>$", cret)
                t["opt_calls"][c] = ("tr_st_" + c, ("opt", m.group(1)) if m else (("sum", mr.group(1)) if mr else (cret if cret in BITS else ("arr", "u8"))))
        try:
            txt = es.function(t, src)
        except Untranslatable as e:
            if fname.startswith("r_"): refused.append((fname, str(e)))
            elif not helper: failed_tr.append((fname, str(e)))
            continue
        if fname.startswith("r_"):
            not_refused.append(fname); continue
        if helper:
            defs.insert(0, txt); continue
        defs.append(txt)
        uses_fuel = "(fuel : nat)" in txt.split(":=")[0]
        for i in range(CASES):
            vals = [gen_value(n, ty, rnd, fname) for n, ty in params]
            tag = "%s#%d" % (fname, i)
            calls_rs.append('    run("%s", || %s(%s).show());' % (tag, fname, ", ".join(rust_lit(v, ty) for v, (_, ty) in zip(vals, params))))
            cases.append((tag, fname, ret, "(tr_st_%s %s%s)" % (fname, "1000%nat " if uses_fuel else "", " ".join(coq_lit(v) for v in vals))))
    for f, e in refused: print("translator-selftest: %s refused as required: %s" % (f, e))
    # ---- methods of `St` (fields state: [u8; 8], i: u8, j: u8)
    fields = [("state", ("arr", "u8")), ("i", "u8"), ("j", "u8")]
    for m in re.finditer(r"pub fn (m_\w+)\s*\(\s*&mut self\s*,([^)]*)\)\s*->\s*(\w+)\s*\{", src):
        fname, ptxt, ret = m.group(1), m.group(2), m.group(3)
        params = []
        for p in [x.strip() for x in ptxt.split(",") if x.strip()]:
            n, ty = p.split(":", 1); params.append((n.strip(), ty.strip()))
        t = dict(name="st_" + fname, file="tools/selftest/snippets.rs", fn=fname, kind="method", fields=fields, helpers=["s_i"], ret=ret)
        try:
            txt = es.method(t, src)
        except Untranslatable as e:
            failed_tr.append((fname, str(e))); continue
        defs.append(txt)
        for i in range(CASES):
            st = gen_value("state", "[u8; 8]", rnd, fname); fi = gen_value("i", "u8", rnd, fname); fj = gen_value("j", "u8", rnd, fname)
            vals = [gen_value(n, ty, rnd, fname) for n, ty in params]
            tag = "%s#%d" % (fname, i)
            calls_rs.append('    run("%s", || { let mut s = St { state: %s, i: %s, j: %s }; let r = s.%s(%s); (((s.state, s.i), s.j), r).show() });'
                            % (tag, rust_lit(st, "[u8; 8]"), rust_lit(fi, "u8"), rust_lit(fj, "u8"), fname, ", ".join(rust_lit(v, ty) for v, (_, ty) in zip(vals, params))))
            cases.append((tag, fname, "((([u8; 8], u8), u8), %s)" % ret, "(tr_st_%s %s %s %s %s)" % (fname, coq_lit(st), coq_lit(fi), coq_lit(fj), " ".join(coq_lit(v) for v in vals))))
    if not_refused:
        line = "translator-selftest: the translator ACCEPTED %s, which it must refuse (aliasing it does not model)" % ", ".join(not_refused)
        json.dump({"key": key, "ok": False, "line": line}, open(CACHE, "w")); print(line); return 1
    if failed_tr:
        for f, e in failed_tr: print("translator-selftest: snippet %s is not translated: %s" % (f, e))
        line = "translator-selftest: %d snippet(s) outside the translated subset" % len(failed_tr)
        json.dump({"key": key, "ok": False, "line": line}, open(CACHE, "w")); print(line); return 1
    work = tempfile.mkdtemp(prefix="trself-", dir=os.path.join(HERE, "selftest"))
    try:
        shutil.copy(SNIP, os.path.join(work, "snippets.rs"))
        open(os.path.join(work, "main.rs"), "w").write(RUST_MAIN_HEAD + "\n".join(calls_rs) + "\n}\n")
        r = subprocess.run(["rustc", "--edition", "2021", "-A", "warnings", "-C", "debug-assertions=on", "-C", "overflow-checks=on", "-C", "opt-level=0",
                            "main.rs", "-o", "selftest_bin"], cwd=work, capture_output=True, text=True)
        if r.returncode != 0:
            print("translator-selftest: rustc failed:\n" + r.stderr[-3000:]); return 1
        out = subprocess.run([os.path.join(work, "selftest_bin")], capture_output=True, text=True).stdout
        got = dict(l.split(" = ", 1) for l in out.splitlines() if " = " in l)
        lines = ["From Coq Require Import List NArith Bool.", "From WS Require Import lib.Bytes lib.Res lib.Tape lib.IoScript lib.Sha1 lib.Md5 lib.Hmac lib.StepLoop Consts.",
                 "Import ListNotations.", "Local Open Scope N_scope.",
                 "Definition opt_eqb {A} (e : A -> A -> bool) (x y : option A) : bool := match x, y with Some a, Some b => e a b | None, None => true | _, _ => false end.",
                 "Definition pair_eqb {A B} (ea : A -> A -> bool) (eb : B -> B -> bool) (x y : A * B) : bool := andb (ea (fst x) (fst y)) (eb (snd x) (snd y)).", ""]
        lines += [d + "\n" for d in defs]
        lines.append("Definition checks : list (nat * bool) := [")
        rows = []
        for idx, (tag, fname, ret, call) in enumerate(cases):
            if tag not in got: print("translator-selftest: no output for %s" % tag); return 1
            rows.append("  (%d%%nat, opt_eqb %s %s (%s))" % (idx, comparator(ret), call, got[tag]))
        lines.append(";\n".join(rows)); lines.append("].")
        lines.append("Definition fails : list nat := map fst (filter (fun p => negb (snd p)) checks).")
        lines.append("Eval vm_compute in fails.")
        vfile = os.path.join(work, "SelfTest.v")
        open(vfile, "w").write("\n".join(lines) + "\n")
        r = subprocess.run(["coqc", "-q", "-noglob", "-Q", COQ, "WS", "-w", "-notation-overridden", vfile], capture_output=True, text=True, timeout=1200)
        if r.returncode != 0:
            print("translator-selftest: coqc failed:\n" + (r.stdout + r.stderr)[-3000:]); return 1
        m = re.search(r"=\s*(\[[^\]]*\])\s*:\s*list nat", r.stdout.replace("\n", " "))
        if not m: print("translator-selftest: cannot read coqc output: " + r.stdout[-500:]); return 1
        bad = [int(x.replace("%nat", "")) for x in re.findall(r"\d+(?:%nat)?", m.group(1))]
        panics = sum(1 for v in got.values() if v.strip() == "None")
        line = "translator-selftest: %d functions, %d cases (%d of them panics in Rust), %d mismatches; %d alias-writing functions refused as required" % (len(defs), len(cases), panics, len(bad), len(refused))
        for i in bad:
            print("  MISMATCH %s: rust gives %s, translated term %s" % (cases[i][0], got[cases[i][0]], cases[i][3]))
        json.dump({"key": key, "ok": not bad, "line": line}, open(CACHE, "w"))
        print(line)
        return 1 if bad else 0
    finally:
        shutil.rmtree(work, ignore_errors=True)

if __name__ == "__main__":
    sys.exit(main())
