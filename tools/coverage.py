#!/usr/bin/env python3
"""Inventory of the functions of /repo/src (test modules, doc comments and the hook shim excluded): which are
translated into Gallina on every run (tools/extract_steps.py targets), which are covered as delegations
(tools/extract_delegations.py), and which are not translated.  Prints a table; `--md` for DESIGN.md."""
import os, re, sys
HERE = os.path.dirname(os.path.abspath(__file__))
sys.path.insert(0, HERE)
import extract_steps as es
from rustexpr import strip_comments
REPO = os.environ.get("VERIF_REPO", "/repo")

def functions(path):
    src = open(path).read()
    m0 = re.search(r"#\[cfg\(test\)\]\s*(?:pub(?:\([^)]*\))?\s+)?mod\s+\w+", src)
    if m0: src = src[:m0.start()]
    src = strip_comments(src)
    src = re.sub(r"#\[test\]\s*fn\s+\w+", "", src)
    out = []
    for m in re.finditer(r"(#\[cfg\(test\)\]\s*(?:#\[[^\]]*\]\s*)*)?(?:pub(?:\([^)]*\))?\s+)?(?:const\s+)?fn\s+(\w+)", src):
        if m.group(1): continue
        out.append(m.group(2))
    return out

def main():
    translated = {}
    for t in es.TARGETS:
        translated.setdefault((t["file"], t["fn"]), []).append(t["name"])
        for h in t.get("helpers", []) or []:
            translated.setdefault((t["file"], h), []).append(t["name"] + " (inlined)")
        for h in t.get("free_helpers", []) or []:
            if isinstance(h, tuple): translated.setdefault((h[1], h[0]), []).append(t["name"] + " (inlined)")
            else: translated.setdefault((t["file"], h), []).append(t["name"] + " (inlined)")
    try:
        import extract_bigint as eb
        for name, fn, nth in eb.FUNCS: translated.setdefault((eb.FILE, fn), []).append("tr_bigint_%s_{default,fast}" % name)
    except Exception:
        pass
    deleg = set()
    try:
        import extract_delegations as ed
        for f in ("src/vanilla_header/mod.rs", "src/tbc_header/mod.rs", "src/wrath_header/mod.rs"):
            deleg.add(f)
    except Exception:
        pass
    # methods of the combined objects whose body is NOT a delegation (coq/Delegations.v, regenerated on every run)
    own = set()
    try:
        txt = open(os.path.join(HERE, "..", "coq", "Delegations.v")).read()
        files = {"vanilla": "src/vanilla_header/mod.rs", "tbc": "src/tbc_header/mod.rs", "wrath_client": "src/wrath_header/mod.rs", "wrath_server": "src/wrath_header/mod.rs"}
        for tag, body in re.findall(r"Definition delegations_(\w+)[^\[]*\[(.*?)\]\.", txt, re.S):
            for mname in re.findall(r'\("(\w+)", "", "own body"', body): own.add((files[tag], mname))
    except OSError:
        pass
    # bridge one-liners checked by proofs/delegations/Bridges.v (coq/Delegations.v `bridges`, regenerated on every run)
    bridge = {}
    try:
        bfiles = {"key": "src/key.rs", "primes": "src/primes.rs", "error": "src/error.rs"}
        bt = txt.split("Definition bridges", 1)[1]
        for tag, nm in re.findall(r'\("(\w+)", "(\w+)#\d+"', bt): bridge[(bfiles[tag], nm)] = bridge.get((bfiles[tag], nm), 0) + 1
    except Exception:
        pass
    rows, tot, tr, dl = [], 0, 0, 0
    for root, _, fs in sorted(os.walk(os.path.join(REPO, "src"))):
        for f in sorted(fs):
            if not f.endswith(".rs"): continue
            rel = os.path.relpath(os.path.join(root, f), REPO)
            if rel in ("src/verif_hooks.rs", "src/test.rs", "src/lib.rs"): continue
            names = functions(os.path.join(root, f))
            seen = {}
            t_, d_, u_ = [], [], []
            for n in names:
                seen[n] = seen.get(n, 0) + 1
                key = (rel, n)
                if key in translated and len(translated[key]) >= seen[n]: t_.append(n)
                elif key in translated and rel in deleg: d_.append(n)
                elif bridge.get(key, 0) > 0: bridge[key] -= 1; d_.append(n)
                elif rel in deleg and (rel, n) not in own and n in ("encrypt", "decrypt", "decrypter", "encrypter", "write_encrypted_server_header", "write_encrypted_client_header",
                                            "encrypt_server_header", "encrypt_client_header", "read_and_decrypt_server_header", "read_and_decrypt_client_header",
                                            "decrypt_server_header", "decrypt_client_header", "attempt_decrypt_server_header", "decrypt_large_server_header"):
                    d_.append(n)
                else: u_.append(n)
            tot += len(names); tr += len(t_); dl += len(d_)
            rows.append((rel, len(names), t_, d_, u_))
    md = "--md" in sys.argv
    for rel, n, t_, d_, u_ in rows:
        if md: print("| `%s` | %d | %d | %d | %s |" % (rel, n, len(t_), len(d_), ", ".join("`%s`" % x for x in u_) or "-"))
        else: print("%-40s %3d fns: %3d translated, %3d delegation, untranslated: %s" % (rel, n, len(t_), len(d_), " ".join(u_) or "-"))
    print(("\n**total** %d functions: %d translated bodies, %d delegations checked, %d not translated" if md else "TOTAL %d functions: %d translated, %d delegations, %d untranslated") % (tot, tr, dl, tot - tr - dl))

if __name__ == "__main__":
    main()
