"""Per-property metadata used by the driver: which Coq files state the theorems, which constants
of Consts.v the property depends on, the correspondence runner, and the trusted base."""

TRUSTED_COMMON = [
    "Coq 8.16.1 kernel incl. its bytecode VM (vm_compute); no native_compute; no axioms declared (Print Assumptions: Closed under the global context)",
    "the hand-written Gallina model of the Rust functions (tied to /repo by the correspondence check on every run, not verified against rustc)",
    "tools/extract_consts.py (regex translator of constants into coq/Consts.v, re-run on every check)",
    "the Rust harness /verif/harness (generators, catch_unwind, case printer) and the guarded hooks src/verif_hooks.rs",
    "Rust integer/slice semantics as rendered in the model (wrapping ops, debug overflow checks, bounds checks)",
]

SHA = "SHA-1 / HMAC-SHA1 modelled as executable Gallina (lib/Sha1.v, lib/Hmac.v), validated by RFC vectors in Coq and by the correspondence against the sha1/hmac crates; the streaming update(a);update(b) = update(a++b) behaviour of those crates is a modelled dependency"

PROPS = {
    "C07": {
        "prop_files": ["props/C07.v"],
        "consts": ["session_key_length"],
        "runner": "run_C07",
        "byte_exact": True,
        "rule": "random and edge-case keys x streams (lengths 0,1,39,40,41,79..81,255..257, random) x random partitions incl. empty chunks, both directions, through model and implementation; plus implementation-only oracles: spec recurrence + round trip with independent chunkings, and the exhaustive 40x256x256 step table.",
        "trusted": [],
        "assumptions": ["bytes are modelled as N < 256; u8 arithmetic rendered with explicit mod 256 and explicit overflow panics"],
    },
    "C04": {
        "prop_files": ["props/C04.v"],
        "consts": ["n_le", "n_be", "public_key_length"],
        "runner": "run_C04",
        "byte_exact": True,
        "rule": "PublicKey::from_le_bytes on 0, N, N+-256^i, +-256^i, 2N mod 2^256, 2^256-1, arrays whose bytes are each 0 or N's byte (the 2^32 class the pinned shortcut refused), random arrays; try_from_bigint / client_try_from_bigint (hook) on integers of every byte length 0..33 against several announced moduli; implementation-only oracle: the two-value predicate on random, class, sparse and neighbourhood keys.",
        "trusted": ["num-bigint from_bytes_le / to_bytes_le / % as modelled in model/Bigint.v"],
        "assumptions": ["the check is decided on the repaired function (fix commit a367a59); the pinned shortcut is kept as model/LegacyKey.v with its refutation"],
    },
    "C13": {
        "prop_files": ["props/C13.v"],
        "consts": ["max_string_length"],
        "runner": "run_C13",
        "byte_exact": True,
        "rule": "strings as lists of Unicode scalar values: every ASCII byte at positions 0..15 of a 16-byte string, every single ASCII char, lengths 0..20, random mixes of 1/2/3/4-byte characters summing to 13..18 bytes, random mostly-valid strings through all five constructors, ==/cmp on related pairs (case variants, prefixes, one-char changes); implementation-only oracle: every scalar value as a one-character string and behind a 15-byte prefix, random strings, idempotence, case-insensitivity, Hash/Display following the text.",
        "trusted": ["Rust str/char semantics as modelled (chars(), len(), is_ascii, is_ascii_control, to_ascii_uppercase, derived Ord/Eq on (array, length)); the private fields are read through the derived Debug output"],
        "assumptions": ["a Rust &str is modelled as a list of Unicode scalar values; SipHash (derived Hash) is not modelled, hashing is covered by injectivity of text -> struct"],
    },
    "C01": {
        "prop_files": ["props/C01.v"],
        "extra_files": ["proofs/SrpBatch.v"],
        "consts": ["n_le", "generator", "k_value", "xor_hash", "salt_length", "private_key_length", "session_key_length", "reconnect_challenge_data_length", "s_length", "public_key_length"],
        "runner": "run_C01",
        "byte_exact": False,
        "rule": "complete logins through the public API with an injected tape (salt, b, a, challenge), credentials of every length 1..16 over the printable set with random case flips on the client side, export/re-import of the account record; classes forced by Rust-side search: S with 1 (thorough: 2) low-order zero bytes, S/A/B/v with a high-order zero byte, B < v (B - k*v negative); every value (v, B, A, M1, M2, K on both sides, challenge) compared with the Coq model; implementation-only oracle: tens of thousands of honest logins (all must authenticate with equal keys) plus directed sessions with S = 0 mod 256.",
        "trusted": [SHA, "num-bigint from_bytes_le / to_bytes_le / modpow / * + - % as modelled in model/Bigint.v", "primality certificate chain for N checked by vm_compute (primes/PockZ.v; MathComp ssreflect used for Pocklington's criterion)"],
        "assumptions": ["the documented panic of into_proof (server's own B = 0 mod N) is excluded by hypothesis", "usernames/passwords enter the model as their normalised text; normalisation itself is C13"],
    },
    "C08": {
        "prop_files": ["props/C08.v"],
        "consts": ["tbc_seed_enc", "tbc_seed_dec", "proof_length"],
        "runner": "run_C08",
        "byte_exact": True,
        "rule": "random and edge-case 40-byte session keys x streams (lengths 0,1,19,20,21,39..41,255..257, random) x random partitions incl. empty chunks, both halves, through model (concrete HMAC-SHA1 in Coq) and implementation, comparing bytes, derived key and (index, previous); implementation-only oracles: independent HMAC key derivation, spec recurrence, round trip with independent chunkings, exhaustive 20x256x256 step table.",
        "trusted": [SHA],
        "assumptions": ["bytes are modelled as N < 256; u8 arithmetic rendered with explicit mod 256 and explicit overflow panics"],
    },
    "C06": {
        "prop_files": ["props/C06.v"],
        "consts": ["proof_length", "session_key_length", "wrath_S", "wrath_R", "tbc_seed_enc", "tbc_seed_dec"],
        "runner": "run_C06",
        "byte_exact": True,
        "rule": "all three modules (vanilla, tbc, wrath) x sessions with names of every length, seeds from {0,1,0xFFFFFFFF,0x80000000,...} and random, equal seeds, swapped seeds (own seed injected through the RNG tape at ProofSeed::new): client proof and seed() accessor, server accept, and refusing perturbations (proof bit flips - all 160 in thorough -, either seed, swapped seeds, one key bit, other username, case-only change of the name); implementation-only oracle: spec value, agreement, bit flip payloads, seed order, key binding.",
        "trusted": [SHA],
        "assumptions": ["the crypto object handed out is compared only through the proof/accept decision here; its behaviour is C07-C10"],
    },
    "C03": {
        "prop_files": ["props/C03.v"],
        "consts": ["n_le", "generator", "k_value", "xor_hash", "s_length", "session_key_length", "public_key_length"],
        "runner": "run_C03",
        "byte_exact": True,
        "rule": "through the Coq model: calculate_interleaved (hook) on secrets with every count 0..32 of low-order zero bytes (and an interior zero), verifier via the public API with injected salt, server public key and S (hooks) incl. unreduced stored verifiers, client S / client public key / the public client API under announced groups g in {2,3,5,7,11,255} x N' in {N, 3, 5, 7, 251, 65537, 2^31-1, random 64/128/255-bit primes, largest 256-bit prime}; implementation-only oracle: textbook WoW-SRP6 values recomputed independently (num-bigint + sha1 used directly) for thousands of sessions through the public API and for announced groups.",
        "trusted": [SHA, "num-bigint primitives as modelled in model/Bigint.v"],
        "assumptions": ["degenerate exchanges with S = 0 are covered by the zero-secret corollary and C14", "usernames/passwords enter the model as their normalised text (C13)"],
    },
    "C02": {
        "prop_files": ["props/C02.v"],
        "extra_files": ["proofs/SrpBatch.v"],
        "consts": ["n_le", "generator", "k_value", "xor_hash", "proof_length", "session_key_length", "reconnect_challenge_data_length"],
        "runner": "run_C02",
        "byte_exact": False,
        "rule": "baseline sessions (tape-injected salt, b, a) through the public API; per session, compared with the Coq model: the accepted M1 plus single-bit flips of M1 in one batched server case (all 160 in thorough), the accepted M2 plus flips on the client, A with one bit changed, and client proofs computed with a changed salt bit, B bit, other password, other username (all must be refused with payload (presented, expected)) and a case-only change (must be accepted); implementation-only oracle: all 160 flips of M1 and M2 and random A/B/salt/credential changes on hundreds of sessions.",
        "trusted": [SHA, "num-bigint primitives as modelled in model/Bigint.v"],
        "assumptions": ["'a different field is refused' is proved in collision form (C02_binding): acceptance with a differing field exhibits two different byte strings with equal SHA-1"],
    },
    "C05": {
        "prop_files": ["props/C05.v"],
        "consts": ["reconnect_challenge_data_length", "proof_length", "session_key_length"],
        "runner": "run_C05",
        "byte_exact": False,
        "rule": "random histories (1..40 attempts quick, ..400 thorough) on logged-in servers drawn from {correct for the current challenge, replay of any earlier pair, proof for a stale challenge, wrong session key, wrong username, single-bit change of proof or client data}, every new server challenge injected through the RNG tape so the model predicts verdicts and challenges byte for byte; client reconnect values with injected challenge; implementation-only oracle: long histories with injected and with real randomness (verdict = proof equality, challenge replaced after every attempt, replays refused, legitimate client accepted).",
        "trusted": [SHA],
        "assumptions": ["a replay is refused unless two challenges coincide or SHA-1 collides (C05_replay); distinctness of challenges is the RNG's job (C15)", "the server state (user, K, challenge) is read through the public accessors after a real login"],
    },
}
