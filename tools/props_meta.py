"""Per-property metadata used by the driver: which Coq files state the theorems, which constants
of Consts.v the property depends on, the correspondence runner, and the trusted base."""

TRUSTED_COMMON = [
    "Coq 8.16.1 kernel incl. its bytecode VM (vm_compute); no native_compute; no axioms declared (Print Assumptions: Closed under the global context)",
    "the hand-written Gallina model of the Rust functions (tied to /repo by the correspondence check on every run, not verified against rustc)",
    "tools/extract_consts.py (regex translator of constants and inline literals into coq/Consts.v), tools/extract_layouts.py (digest field sequences into coq/Layouts.v) and tools/extract_purity.py (hidden-state / unsafe / ambient-input scan of the files the property reaches into coq/Purity.v), tools/extract_steps.py + tools/rustexpr.py (Rust-subset to Gallina translation of 174 function bodies into coq/Steps.v; the translator's rendering of Rust is itself tested on every tree against rustc by tools/translator_selftest.py: 58 snippet functions and methods, 1710 calls incl. 251 panics, and three alias-writing functions it must refuse) and tools/extract_delegations.py (which half each method of a combined crypto object delegates to, and the bodies of the seven bridge one-liners as_bigint / to_bigint / bigint / From for SrpError, into coq/Delegations.v), all re-run on every check",
    "the Rust harness /verif/harness (generators, catch_unwind, case printer) and the guarded hooks src/verif_hooks.rs",
    "Rust integer/slice semantics as rendered in the model (wrapping ops, debug overflow checks, bounds checks)",
]

BIG = "the SRP correspondence cases are evaluated with an accelerated runner (Bignums BigZ square-and-multiply, corr/SrpBig.v) proved equal to the plain-Z runner the theorems are about; that equality proof - never a property theorem - depends on the Uint63 primitive axioms of Coq's standard library and on functional extensionality (both stdlib axioms, reported by Print Assumptions run_SRP_big_eq)"

SHA = "SHA-1 / HMAC-SHA1 modelled as executable Gallina (lib/Sha1.v, lib/Hmac.v), validated by RFC vectors in Coq and by the correspondence against the sha1/hmac crates; the streaming update(a);update(b) = update(a++b) behaviour of those crates is a modelled dependency"

PROPS = {
    "C07": {
        "prop_files": ["props/C07.v"],
        "consts": ["session_key_length"],
        "runner": "run_C07",
        "byte_exact": True,
        "rule": "random and edge-case keys x streams (lengths 0,1,39,40,41,79..81,255..257, random) x random partitions incl. empty chunks, both directions, through model and implementation; plus implementation-only oracles: spec recurrence + round trip with independent chunkings, and the exhaustive 40x256x256 step table. Added in the second session: header-shaped partitions (mostly 4- and 6-byte calls with odd-length and empty calls in between) and, in two thirds of the cases, the typed helpers (encrypt/decrypt_server_header, encrypt/decrypt_client_header) instead of the raw call for every 4-/6-byte chunk.",
        "trusted": [],
        "assumptions": ["bytes are modelled as N < 256; u8 arithmetic rendered with explicit mod 256 and explicit overflow panics"],
    },
    "C04": {
        "prop_files": ["props/C04.v"],
        "consts": ["n_le", "n_be", "public_key_length"],
        "runner": "run_C04",
        "byte_exact": True,
        "rule": "PublicKey::from_le_bytes on 0, N, N+-256^i, +-256^i, 2N mod 2^256, 2^256-1, arrays whose bytes are each 0 or N's byte (the 2^32 class the pinned shortcut refused), random arrays; try_from_bigint / client_try_from_bigint (hook) on integers of every byte length 0..33 against several announced moduli; implementation-only oracle: the two-value predicate on random, class, sparse and neighbourhood keys.",
        "trusted": ["num-bigint from_bytes_le / to_bytes_le / % as modelled in model/Bigint.v"],
        "assumptions": ["the check is decided on the repaired function (fix commit a367a59); the pinned shortcut is kept as model/LegacyKey.v with its refutation"],
    },
    "C13": {
        "prop_files": ["props/C13.v"],
        "consts": ["max_string_length"],
        "runner": "run_C13",
        "byte_exact": True,
        "rule": "strings as lists of Unicode scalar values: every ASCII byte at positions 0..15 of a 16-byte string, every single ASCII char, lengths 0..20, random mixes of 1/2/3/4-byte characters summing to 13..18 bytes, random mostly-valid strings through all five constructors, ==/cmp on related pairs (case variants, prefixes, one-char changes); implementation-only oracle: every scalar value as a one-character string and behind a 15-byte prefix, random strings, idempotence, case-insensitivity, Hash/Display following the text. Added in the second session: every oracle string goes through all five constructors and must give the same outcome as `new`; multibyte mixes and a list of case-mapping specials (sharp s, dotless i, long s, Kelvin sign, ligatures) through every constructor and the model.",
        "trusted": ["Rust str/char semantics as modelled (chars(), len(), is_ascii, is_ascii_control, to_ascii_uppercase, derived Ord/Eq on (array, length)); the private fields are read through the derived Debug output"],
        "assumptions": ["a Rust &str is modelled as a list of Unicode scalar values; SipHash (derived Hash) is not modelled, hashing is covered by injectivity of text -> struct"],
    },
    "C01": {
        "layouts": {"file": "proofs/LayoutsSrp.v", "lemmas": ["layout_calculate_x", "layout_calculate_u", "layout_client_proof", "layout_client_proof_custom", "layout_server_proof", "layout_xor_hash"]},
        "prop_files": ["props/C01.v"],
        "extra_files": ["proofs/SrpBatch.v"],
        "consts": ["n_le", "generator", "k_value", "xor_hash", "salt_length", "private_key_length", "session_key_length", "reconnect_challenge_data_length", "s_length", "public_key_length"],
        "runner": "run_C01",
        "byte_exact": False,
        "rule": "complete logins through the public API with an injected tape (salt, b, a, challenge), credentials of every length 1..16 over the printable set with random case flips on the client side, export/re-import of the account record; classes forced by Rust-side search: S with 1 (thorough: 2) low-order zero bytes, S/A/B/v with a high-order zero byte, B < v (B - k*v negative); every value (v, B, A, M1, M2, K on both sides, challenge) compared with the Coq model; implementation-only oracle: tens of thousands of honest logins (all must authenticate with equal keys) plus directed sessions with S = 0 mod 256. Added in the second session: two-step histories on ONE thread (a mistyped password on the same record, the same account under another password / salt / session keys, another account under the same salt, the identical login) followed by the honest login, which also goes through the model.",
        "trusted": [BIG, SHA, "num-bigint from_bytes_le / to_bytes_le / modpow / * + - % as modelled in model/Bigint.v", "primality certificate chain for N checked by vm_compute (primes/PockZ.v; MathComp ssreflect used for Pocklington's criterion)"],
        "assumptions": ["the documented panic of into_proof (server's own B = 0 mod N) is excluded by hypothesis", "usernames/passwords enter the model as their normalised text; normalisation itself is C13"],
    },
    "C08": {
        "layouts": {"file": "proofs/LayoutsExtras.v", "lemmas": ["layout_tbc"]},
        "prop_files": ["props/C08.v"],
        "consts": ["tbc_seed_enc", "tbc_seed_dec", "proof_length"],
        "runner": "run_C08",
        "byte_exact": True,
        "rule": "random and edge-case 40-byte session keys x streams (lengths 0,1,19,20,21,39..41,255..257, random) x random partitions incl. empty chunks, both halves, through model (concrete HMAC-SHA1 in Coq) and implementation, comparing bytes, derived key and (index, previous); implementation-only oracles: independent HMAC key derivation, spec recurrence, round trip with independent chunkings, exhaustive 20x256x256 step table. Added in the second session: header-shaped partitions and the typed helpers standing in for the 4-/6-byte raw calls, as for C07.",
        "trusted": [SHA],
        "assumptions": ["bytes are modelled as N < 256; u8 arithmetic rendered with explicit mod 256 and explicit overflow panics"],
    },
    "C06": {
        "layouts": {"file": "proofs/LayoutsSrp.v", "lemmas": ["layout_world_proof"]},
        "prop_files": ["props/C06.v"],
        "consts": ["proof_length", "session_key_length", "wrath_S", "wrath_R", "tbc_seed_enc", "tbc_seed_dec"],
        "runner": "run_C06",
        "byte_exact": True,
        "rule": "all three modules (vanilla, tbc, wrath) x sessions with names of every length, seeds from {0,1,0xFFFFFFFF,0x80000000,...} and random, equal seeds, swapped seeds (own seed injected through the RNG tape at ProofSeed::new): client proof and seed() accessor, server accept, and refusing perturbations (proof bit flips - all 160 in thorough -, either seed, swapped seeds, one key bit, other username, case-only change of the name); implementation-only oracle: spec value, agreement, bit flip payloads, seed order, key binding. Added in the second session: near-miss proofs on the refusing path (model cases and oracle).",
        "trusted": [SHA],
        "assumptions": ["the crypto object handed out is compared only through the proof/accept decision here; its behaviour is C07-C10"],
    },
    "C03": {
        "layouts": {"file": "proofs/LayoutsSrp.v", "lemmas": ["layout_calculate_x", "layout_calculate_u", "layout_interleaved_halves", "layout_client_proof", "layout_client_proof_custom", "layout_server_proof", "layout_xor_hash"]},
        "prop_files": ["props/C03.v"],
        "consts": ["n_le", "generator", "k_value", "xor_hash", "s_length", "session_key_length", "public_key_length"],
        "runner": "run_C03",
        "byte_exact": True,
        "rule": "through the Coq model: calculate_interleaved (hook) on secrets with every count 0..32 of low-order zero bytes (and an interior zero), verifier via the public API with injected salt, server public key and S (hooks) incl. unreduced stored verifiers, client S / client public key / the public client API under announced groups g in {2,3,5,7,11,255} x N' in {N, 3, 5, 7, 251, 65537, 2^31-1, random 64/128/255-bit primes, largest 256-bit prime}; implementation-only oracle: textbook WoW-SRP6 values recomputed independently (num-bigint + sha1 used directly) for thousands of sessions through the public API and for announced groups.",
        "trusted": [BIG, SHA, "num-bigint primitives as modelled in model/Bigint.v"],
        "assumptions": ["degenerate exchanges with S = 0 are covered by the zero-secret corollary and C14", "usernames/passwords enter the model as their normalised text (C13)"],
    },
    "C02": {
        "layouts": {"file": "proofs/LayoutsSrp.v", "lemmas": ["layout_client_proof", "layout_client_proof_custom", "layout_server_proof"]},
        "prop_files": ["props/C02.v"],
        "extra_files": ["proofs/SrpBatch.v"],
        "consts": ["n_le", "generator", "k_value", "xor_hash", "proof_length", "session_key_length", "reconnect_challenge_data_length"],
        "runner": "run_C02",
        "byte_exact": False,
        "rule": "baseline sessions (tape-injected salt, b, a) through the public API; per session, compared with the Coq model: the accepted M1 plus single-bit flips of M1 in one batched server case (all 160 in thorough), the accepted M2 plus flips on the client, A with one bit changed, and client proofs computed with a changed salt bit, B bit, other password, other username (all must be refused with payload (presented, expected)) and a case-only change (must be accepted); implementation-only oracle: all 160 flips of M1 and M2 and random A/B/salt/credential changes on hundreds of sessions. Added in the second session: structured near misses of M1 and M2 (two bytes changed by the same XOR mask, +d/-d, swapped bytes, differences confined to the last bytes / the first byte, reversal) on both sides; sessions whose secret S has a rare byte shape (00 xx.., ..00, 00 xx 00.., 00 00 xx..) found by a textbook-arithmetic search, with the server run on the textbook M1 and the client on the textbook M2. Added in round 21: typed-credentials oracle (credentials over the characters that surround the ASCII letter ranges, in any case; verifier, M1, M2 and both session keys of the completed login must be the textbook values of the upper-cased text, computed without the crate's normalisation, and the server must accept that textbook proof).",
        "trusted": [BIG, SHA, "num-bigint primitives as modelled in model/Bigint.v"],
        "assumptions": ["'a different field is refused' is proved in collision form (C02_binding): acceptance with a differing field exhibits two different byte strings with equal SHA-1"],
    },
    "C05": {
        "layouts": {"file": "proofs/LayoutsSrp.v", "lemmas": ["layout_reconnect_proof"]},
        "prop_files": ["props/C05.v"],
        "consts": ["reconnect_challenge_data_length", "proof_length", "session_key_length"],
        "runner": "run_C05",
        "byte_exact": False,
        "rule": "random histories (1..40 attempts quick, ..400 thorough) on logged-in servers drawn from {correct for the current challenge, replay of any earlier pair, proof for a stale challenge, wrong session key, wrong username, single-bit change of proof or client data}, every new server challenge injected through the RNG tape so the model predicts verdicts and challenges byte for byte; client reconnect values with injected challenge; implementation-only oracle: long histories with injected and with real randomness (verdict = proof equality, challenge replaced after every attempt, replays refused, legitimate client accepted). Added in the second session: near-miss proofs (cancelling / confined differences) as an attempt kind. Added in round 21: a quarter of the attempts present the client data of the previous or an earlier attempt again (with whatever kind of proof the attempt draws - a correct one for the challenge on offer must be accepted).",
        "trusted": [BIG, SHA],
        "assumptions": ["a replay is refused unless two challenges coincide or SHA-1 collides (C05_replay); distinctness of challenges is the RNG's job (C15)", "the server state (user, K, challenge) is read through the public accessors after a real login"],
    },
    "C14": {
        "prop_files": ["props/C14.v"],
        "extra_files": ["proofs/SrpBatch.v"],
        "consts": ["n_le", "generator", "k_value", "s_length", "session_key_length", "public_key_length", "wrath_S", "wrath_R", "proof_length"],
        "runner": "run_C14",
        "byte_exact": False,
        "rule": "catch_unwind around every public call, release AND debug builds: server accounts with stored verifier in {honest, 0, N, 2N mod 2^256, 2^256-1, 1, random} x accepted client keys A in {1, 2, N-1, N+1, 2^255, 2^256-1, 3v mod N, 3v+-1 mod N, unreduced, sparse, random} x proofs {00.., ff.., random}; reconnect attempts with arbitrary bytes; client with the built-in group against B from the same adversarial set (3v mod N forces S = 0) x salts {00.., ff.., random} x M2; world-login proofs and header byte storms on all three expansions (raw, typed, attempt/large in any order, read wrappers on short input); a sample of the server and client cases is also evaluated through the Coq model (outputs must agree, the model predicts no panic).",
        "trusted": [BIG, SHA, "num-bigint primitives incl. their panic conditions as modelled in model/Bigint.v", "primality certificate chain for N (primes/PockZ.v, Pocklington over MathComp nat)"],
        "assumptions": ["decided on the repaired scan (fix commit 0562141); the pinned scan is kept as as_equal_slice_v070 with its refutation", "documented panics excluded: the server's own B = 0 mod N in into_proof, the client's own A invalid under an announced group"],
    },
    "C17": {
        "layouts": {"file": "proofs/LayoutsExtras.v", "lemmas": ["layout_integrity_generic", "layout_integrity_mac", "layout_integrity_windows"]},
        "prop_files": ["props/C17.v"],
        "consts": ["sha1_hash_length", "integrity_salt_length", "public_key_length"],
        "runner": "run_C17",
        "byte_exact": True,
        "rule": "byte strings of length 0..700 (all SHA-1/HMAC padding boundaries 55/56, 63/64/65, 119/120, 127/128 named) cut at random 4-tuples of points (empty arguments included) over the five file arguments, Windows vs Mac vs single buffer, and the reconnect check, through the Coq model with the concrete SHA-1/HMAC; implementation-only oracle: independent SHA1(key|HMAC(salt,files)) with two independent cuts, single-bit changes of files, salt, key. (The suite's Windows and Mac vector files are empty in this tree, so these functions are otherwise never executed.)",
        "trusted": [SHA],
        "assumptions": ["hmac.update(a); hmac.update(b) == hmac.update(a ++ b) in the hmac crate (modelled as message concatenation; exercised by every cut)"],
    },
    "C15": {
        "prop_files": ["props/C15.v"],
        "consts": ["salt_length", "private_key_length", "reconnect_challenge_data_length", "integrity_salt_length", "pin_salt_size", "min_matrix_card_value", "max_matrix_card_value"],
        "runner": "run_C15",
        "byte_exact": False,
        "debug_run": False,
        "rule": "(a) data flow, tape injected: for each documented drawing call (registration salt 32, server key 32, client key 32, login challenge 16 only on acceptance, refresh 16 after every reconnect attempt, client challenge 16, three ProofSeeds 4, integrity salt 16, PIN salt 16 and grid seed 4, matrix seed 8, card digits through the Uniform(0..=9) rejection sampler incl. forced rejected words) the number of bytes consumed, the logged draw and the value that came out are compared with the tape and, for the convenience generators, with the Coq model; (b) statistics over the real thread RNG (a TEST, not a proof): thousands of draws per source, no repeats for sources of >= 64 bits (bounded birthday coincidences for 32-bit seeds), every byte position takes >= 200 values and passes a chi-square test, B for a fixed verifier and A for fixed inputs never repeat, card digits 0..9 all present and uniform.",
        "trusted": ["rand::thread_rng (ChaCha12, OS seeding, fork safety) is NOT covered by any theorem: its quality is only sampled", "rand 0.8 UniformInt<u8>::sample as modelled in model/Random.v", "the RNG shim's little-endian composition of next_u32/next_u64 from tape bytes"],
        "assumptions": ["PARTIAL: the theorems cover the flow of drawn bytes (amount, order, single use, no masking); 'does not repeat' and 'every byte varies' reduce to the tape, i.e. to the CSPRNG, which is tested statistically", "statistical thresholds chosen so that the false-alarm probability of the whole check stays below 1e-9"],
    },
    "C09": {
        "extra_files": ["proofs/InlineConsts.v"],
        "layouts": {"file": "proofs/LayoutsExtras.v", "lemmas": ["layout_wrath"]},
        "prop_files": ["props/C09.v"],
        "consts": ["rc4_state_size", "wrath_S", "wrath_R", "wrath_drop", "wrath_key_length", "session_key_length"],
        "runner": "run_C09",
        "byte_exact": True,
        "rule": "raw Rc4 (hook) on the RFC 6229 keys, the empty key, one key of every length 1..64 and random keys, and each of the four Wrath halves (obtained through ProofSeed::into_{client,server}_header_crypto + split) on zero / 0xFF / random 40-byte session keys x streams of length 0,1,255,256,257,1023,1024,1025, ~3000 (thorough: also > 65,536) and random x random partitions into calls incl. empty calls, through model and implementation; implementation-only oracles: an independent textbook RC4 + hand-written HMAC-SHA1 with the 1024-byte drop and the two direction constants copied from the property text (validated on RFC 6229 / RFC 2202 vectors) must reproduce the wire bytes of both encrypters; per direction the peer decrypter with an independent random chunking returns the plaintext (lengths up to 70,000 quick / 200,000 thorough, crossing 256 and 65,536); client and server encrypter keystreams differ for every sampled key; facades equal their halves.",
        "trusted": [SHA],
        "assumptions": ["'never share a keystream' is proved as: the two directions are RC4 streams under HMAC keys derived from constants that differ (wrath_S <> wrath_R), and observed on every sampled session key; that the two HMAC tags differ for ALL K is a property of HMAC-SHA1 outside the proof"],
    },
    "C10": {
        "extra_files": ["proofs/InlineConsts.v"],
        "prop_files": ["props/C10.v"],
        "consts": ["wrath_large_threshold", "wrath_marker_set", "wrath_marker_clear", "wrath_marker_test", "wrath_S", "wrath_R", "wrath_drop", "wrath_server_header_min_length", "wrath_server_header_max_length", "session_key_length"],
        "runner": "run_C10",
        "byte_exact": True,
        "rule": "sequences of 0..200 server headers on one connection (sizes from 0,1,8,0x7FFE,0x7FFF,0x8000,0x8001,0xFFFF,0x10000,0x3FFFFF,0x400000,0x7FFFFE,0x7FFFFF and random; opcodes from 0,1,0xFF,0x100,0xFFFF and random; all-short, all-long and mixed; a few out-of-range sizes) encoded by ServerEncrypterHalf::encrypt_server_header; the concatenated wire (exact, with trailing bytes, truncated, random) decoded by the two-step client API; scripts of attempt / decrypt_large calls incl. misuse; all through model and implementation; implementation-only oracle: every size of the sweep range (quick: 0..=0x1FFFF, 0x7F0000..=0x7FFFFF and random; thorough: EVERY size 0..=0x7FFFFF) with three opcodes: emitted length 4 iff size <= 0x7FFF, plaintext layout and 0x80 marker checked against an independent RC4/HMAC keystream, decoding through read_and_decrypt_server_header and through attempt + decrypt_large with the consumed byte count; random mixed sequences of up to 2000 headers through both paths, halves, facades and the Write wrapper.",
        "trusted": [SHA],
        "assumptions": ["sizes above 0x7FFFFF are outside the property; the model covers them too (C10_oversize_wraps: they wrap mod 2^23)", "the reader-based path is modelled and proved in C11; here it is compared with the two-step path by the implementation-side oracle"],
    },
    "C16": {
        "extra_files": ["proofs/InlineConsts.v"],
        "layouts": {"file": "proofs/LayoutsExtras.v", "lemmas": ["layout_pin"]},
        "prop_files": ["props/C16.v"],
        "consts": ["pin_ascii_offset", "min_pin_length", "max_pin_length", "pin_salt_size"],
        "runner": "run_C16",
        "byte_exact": True,
        "rule": "remap_pin_grid (hook) on seeds {0, 1, 10!-1, 10!, 10!+1, 2^32-1, radix boundaries, random}; calculate_hash on PINs {0, 999, 1000, 1001, 9999, 10000, 99999, 10^9-1, 10^9, 2^32-1, random of every digit length 1..10} x seeds x random/zero/0xff salts; verify_client_pin_hash with the right hash, single-bit flips (all 160 in thorough), hashes for another PIN / seed / salt, seed+10!, PINs below 1000; implementation-only oracle against an independent specification in the harness: residues modulo 10! through the hook (quick: every 61st; thorough: EVERY residue 0..3,628,800: permutation, equals the specification, equals the grid of seed+10! and seed+2*10!), every PIN 0..9999 on one seed, random (pin, seed, salts) with verify iff. Added in the second session: near-miss hashes in the verify cases and the oracle. Added in round 21: in both tiers every small multiple (1..9) of every falling product 10, 10*9, .. and of every factorial 2!..9!, and both neighbours, as residues.",
        "trusted": [SHA],
        "assumptions": ["refusal of a wrong PIN is stated as accepted <-> presented = the specified hash; SHA-1 is not assumed injective"],
    },
    "C18": {
        "extra_files": ["proofs/InlineConsts.v"],
        "layouts": {"file": "proofs/LayoutsExtras.v", "lemmas": ["layout_matrix_key"]},
        "prop_files": ["props/C18.v"],
        "consts": ["rc4_state_size", "min_matrix_card_value", "max_matrix_card_value", "session_key_length"],
        "runner": "run_C18",
        "byte_exact": True,
        "rule": "op 1: MatrixCard::from_data + get_number_at_coordinates + to_printer on geometries with width*height <= 255 (all with w,h <= 16 in thorough), digit counts 1..4, random data, corner/random/every coordinate, wrong lengths, off-card coordinates; op 2: coordinates for ALL rounds 0..=255 with seeds {0, 1, 2^64-1, random} x counts {1, 2, cells-1, cells}; ops 3, 4: honest client (digits read off the printer) vs verify_matrix_card_hash, wrong / missing / extra digits, swapped cells, wrong count / seed / key, flipped proof, the crate's two proof vectors; implementation-only oracle over every coordinate of every sampled card, all rounds, honest client accepted, single wrong digit rejected, MatrixCard::new digits decimal; probe of known finding F5 (digit_count = 0). Added in the second session: near-miss proofs in the verify cases.",
        "trusted": [SHA, "MD5 modelled as executable Gallina (lib/Md5.v, RFC 1321 vectors); RC4 is repo code, modelled and proved to refine textbook RC4"],
        "assumptions": ["guards: 1 <= digit_count (digit_count = 0 is known finding F5), 1 <= width*height <= 255, data of the right length, 1 <= challenge_count <= cells, seed < 2^64", "'any other digit sequence is rejected' is proved in binding form: rejected, or an explicit HMAC-SHA1 collision"],
    },
    "C19": {
        "prop_files": ["props/C19.v"],
        "consts": ["n_le", "generator", "k_value", "public_key_length", "s_length"],
        "runner": "run_C19",
        "byte_exact": False,
        "debug_run": False,
        "second_harness": {"dir": "harness-fast", "exe": "wsvfast", "raw_ops": [20, 22, 23]},
        "rule": "the same harness sources are built twice, against srp-default-math (num-bigint) and srp-fast-math (rug + system GMP through a vendored gmp-mpfr-sys build script); inputs are a function of the seed only, so every case is run by both real builds and compared pairwise, and each build's outputs are evaluated through the Coq model of its own back end (four-way comparison). Cases: wrapper operations (byte round trip, padding, modpow of a possibly negative difference, mul-add-rem, zero tests) on operands of every length 0..40, zero / one / two / 160-bit / 256-bit exponents, odd, even, tiny and zero moduli; SRP internals with private values zero, one, random, high-zero-byte; client S / A under ten prime moduli plus 2, 4, 10, 1; logins (also with b = 0 and a = 0), server with stored values, client API under N' = 2 and 5, verifier. Raw magnitudes of zero ([0] vs []) are an internal encoding difference and are canonicalised before the pairwise comparison (the model keeps them distinct and the padding theorem shows they vanish at the API). Added in the second session: limb-boundary operands (low 4/8/12/16/24 bytes zero, exact powers of two and predecessors, high zero limbs) for all wrapper operations, moduli 2^(8k)*odd and bare powers of two for modpow and for the client functions with even generators, N-1, a public client-API case under N' = 2^64*odd.",
        "trusted": [BIG, SHA, "num-bigint and rug/GMP primitives as modelled in model/Bigint.v (incl. panic conditions)", "the vendored copy of gmp-mpfr-sys whose build script accepts the system GMP 6.2.1 in place of 6.3.0 (use-system-libs); GMP itself"],
        "assumptions": ["decided on the repaired GMP body (fix commit afd25dc: fall back to pow_mod when secure_pow_mod's preconditions fail); the pinned body is kept as modpow_fast_v070 with its refutation"],
    },
    "C11": {
        "extra_files": ["proofs/InlineConsts.v"],
        "prop_files": ["props/C11.v"],
        "consts": ["wrath_client_header_length", "tbc_client_header_length", "tbc_server_header_length", "wrath_large_threshold", "wrath_marker_set", "wrath_marker_clear", "wrath_marker_test", "vanilla_client_header_length", "vanilla_server_header_length", "wrath_server_header_min_length", "wrath_server_header_max_length", "session_key_length", "proof_length", "tbc_seed_enc", "tbc_seed_dec", "wrath_S", "wrath_R"],
        "runner": "run_C11",
        "byte_exact": True,
        "rule": "all 12 (module, header kind, half/combined) selectors: typed encrypt/decrypt helpers over sizes {0,1,0xFF,0x100,0x7FFF,0x8000,0xFFFF} (Wrath server also 0x10000..0x7FFFFF and beyond) x opcodes {0,1,0xFF,0x100,0x1EE,0xFFFF} (+ u32 values) from random cipher states; read_and_decrypt_X through scripted readers: a failure injected at EVERY byte offset of every header kind (incl. the fifth byte of a long Wrath header, then resumed with decrypt_large_server_header) for every error kind + end of file + zero-length read, three fragmentations of the delivered prefix, plus random fragmentations with interruptions and surplus bytes; write_encrypted_X through scripted writers failing at every offset with every kind / WriteZero, and succeeding writers of every granularity. Every case goes through the implementation and the Coq model (result, bytes handed over, unread bytes, cipher state observed as (index, previous[, key]) or by an 8-byte probe for Wrath); implementation-only oracles: helper = raw call on the wire layout, state unchanged after a failed read, error kind returned unchanged, nothing consumed beyond the header, writer received a prefix / exactly the header. Added in the second session: boundary sizes (0, 0x7FFE, 0x7FFF, 0x8000, 0x8001, 0xFFFF, 0x10000, 0x7FFFFF) on the write wrappers with succeeding writers.",
        "trusted": [SHA, "std::io::Read::read_exact and std::io::Write::write_all as modelled in lib/IoScript.v from their documentation (retry on Interrupted, UnexpectedEof on a zero-length read, WriteZero on a zero-length write, first other error returned); the model is shown to satisfy the std loop equations and is exercised against the real std loops by the scripted Read/Write implementations of the harness"],
        "assumptions": ["a Read/Write implementation is modelled as a script of per-call outcomes; readers/writers that panic or misreport lengths are outside the model", "the Wrath cipher state is not directly observable in Rust; it is compared through the next 8 keystream bytes"],
    },
    "C12": {
        "prop_files": ["props/C12.v"],
        "consts": ["session_key_length", "proof_length", "tbc_seed_enc", "tbc_seed_dec", "wrath_S", "wrath_R"],
        "runner": "run_C12",
        "byte_exact": True,
        "rule": "random histories (<= 60 operations quick, <= 600 thorough) of {encrypt chunk, decrypt chunk, split, unsplit, clone} on the four objects (vanilla, tbc, wrath client, wrath server), chunk lengths 0..300, through implementation and Coq model (per-direction bytes, final shape, final state of both halves); implementation-only oracles: per direction equal to two separate single-direction objects, originals of clones unchanged, a clone taken at a random cut continues like the uncut run; Vanilla unsplit / is_pair_of on key pairs equal / differing in one bit of byte i for each i in 0..39 / unrelated, with the halves advanced beforehand; a real two-thread run of the two halves against the single-threaded run (a TEST, not part of the proof); the syntactic ownership preconditions (#![forbid(unsafe_code)] in src/lib.rs, no Cell/RefCell/Mutex/RwLock/Atomic/static mut/thread_local/unsafe/Rc/Arc in the header modules and rc4.rs; failure kind ownership_precondition). Added in the second session: a fifth machine, the Wrath client object with its receiving side at header level (4-byte receive = attempt_decrypt_server_header, 1-byte receive = decrypt_large_server_header, cut out of a real server's output; sends, splits and clones between the two steps of long headers; the 4-byte stash is part of the observation).",
        "trusted": [SHA, "Rust ownership: two values that share no memory (no unsafe, no interior mutability, no statics: checked syntactically on every run) cannot influence each other, whichever threads use them"],
        "assumptions": ["PARTIAL for schedules: the model has no threads; a two-thread execution of the two halves is taken to be observationally one of the interleavings quantified over in C12_independent_* because each half owns its state (proof level for histories; schedules rest on this ownership argument and on the two-thread test)", "#[derive(Clone)] is modelled as the identity on immutable model values; the harness checks on the real types that originals of clones stay equal to their snapshots"],
    },
}

# every property: the model's functions are functions of their arguments, object fields and the tape
# (tools/extract_purity.py + proofs/Purity.v)
for _k, _p in PROPS.items():
    _p["extra_files"] = list(_p.get("extra_files", [])) + ["proofs/purity/%s.v" % _k]

# loop bodies translated from the source on every run (tools/extract_steps.py + proofs/steps/*.v)
for _k in ("C03", "C04"):
    PROPS[_k]["extra_files"] = PROPS[_k]["extra_files"] + ["proofs/ConstsSrp.v"]
    PROPS[_k]["consts"] = list(PROPS[_k]["consts"]) + [c for c in ("large_safe_prime_length", "n_be", "sha1_hash_length", "proof_length", "private_key_length", "salt_length", "s_length", "session_key_length", "reconnect_challenge_data_length", "public_key_length", "n_le") if c not in PROPS[_k]["consts"]]
STEP_FILES = {"C07": ["Vanilla"], "C08": ["Tbc"], "C09": ["Rc4"], "C11": ["Vanilla", "Tbc", "Wrath"], "C10": ["Wrath"], "C18": ["Rc4", "Matrix"], "C16": ["Pin"], "C03": ["Key"], "C14": ["Key"]}
for _k, _fs in {"C01": ["ApiIntoServer", "Formulas"], "C03": ["Formulas"], "C02": ["ApiIntoServer", "ApiClientProof"], "C05": ["ApiServerReconnect", "ApiClientReconnect"],
                "C15": ["ApiServerReconnect", "ApiIntoServer", "ApiClientReconnect"], "C06": ["ApiWorld"], "C04": ["KeyCheck"], "C13": ["NormString"], "C19": ["Formulas"], "C11": ["HelpersVanilla", "HelpersTbc", "IoWrappers", "IoWrath"], "C10": ["IoWrath"], "C07": ["HelpersVanilla"], "C08": ["HelpersTbc"], "C14": ["HelpersVanilla", "HelpersTbc", "IoWrath"]}.items():
    STEP_FILES[_k] = STEP_FILES.get(_k, []) + _fs
# third build session: interleave / u / session key, random-draw functions, API constructors and registration,
# cipher-object constructors incl. Rc4::new + key schedule and Wrath InnerCrypto::new, PIN hash, matrix-card verifier
for _k, _fs in {"C01": ["Interleave", "ApiCtors", "KeyCheck", "ApiClientProof"], "C02": ["Interleave"], "C03": ["Interleave", "ApiCtors"], "C15": ["Draws", "ApiCtors"],
                "C07": ["Ctors", "IoWrappers"], "C08": ["Ctors", "IoWrappers"], "C09": ["Ctors", "Wrath", "IoWrath"], "C10": ["Ctors"], "C11": ["Ctors"], "C12": ["Ctors", "IoWrappers", "IoWrath", "HelpersVanilla", "HelpersTbc", "Wrath"], "C18": ["MatrixProof"],
                "C17": ["Integrity"], "C06": ["Digests"], "C05": ["Digests", "Accessors"], "C04": ["KeyCheck"]}.items():
    STEP_FILES[_k] = STEP_FILES.get(_k, []) + [f for f in _fs if f not in STEP_FILES.get(_k, [])]
for _k, _fs in {"C06": ["Accessors", "Draws"], "C18": ["Accessors", "Draws"], "C16": ["Draws"], "C17": ["Draws"], "C15": ["KeyCheck"], "C01": ["Digests", "Accessors"], "C02": ["Digests", "Accessors"], "C03": ["Digests", "Accessors", "KeyCheck"], "C19": ["KeyCheck"]}.items():
    STEP_FILES[_k] = STEP_FILES.get(_k, []) + [f for f in _fs if f not in STEP_FILES.get(_k, [])]
# round 17: C14 (no panics through the authentication API) also obliges the translated bodies of the API entry points it drives
for _k, _fs in {"C14": ["ApiIntoServer", "ApiServerReconnect", "ApiClientProof", "ApiClientReconnect", "KeyCheck"]}.items():
    STEP_FILES[_k] = STEP_FILES.get(_k, []) + [f for f in _fs if f not in STEP_FILES.get(_k, [])]
# the big-integer shim (src/bigint.rs, both back ends: tools/extract_bigint.py + proofs/steps/BigintShim.v)
for _k in ("C01", "C02", "C03", "C04", "C19"):
    STEP_FILES[_k] = STEP_FILES.get(_k, []) + ["BigintShim"]
for _k, _fs in STEP_FILES.items():
    PROPS[_k]["extra_files"] = PROPS[_k]["extra_files"] + ["proofs/steps/%s.v" % f for f in _fs]

# property-level statements about the bodies translated from the source (props/src/Cxx.v)
for _k in ("C01", "C02", "C03", "C04", "C05", "C06", "C07", "C08", "C09", "C10", "C11", "C12", "C13", "C14", "C15", "C16", "C17", "C18", "C19"):
    PROPS[_k]["prop_files"] = list(PROPS[_k]["prop_files"]) + ["props/src/%s.v" % _k]

# delegations of the combined crypto objects to their halves (tools/extract_delegations.py + proofs/delegations/*.v)
for _k, _fs in {"C07": ["Vanilla"], "C08": ["Tbc"], "C09": ["WrathClient", "WrathServer"], "C10": ["WrathClient", "WrathServer"],
                "C11": ["Vanilla", "Tbc", "WrathClient", "WrathServer"], "C12": ["Vanilla", "Tbc", "WrathClient", "WrathServer"],
                "C14": ["Vanilla", "Tbc", "WrathClient", "WrathServer"]}.items():
    PROPS[_k]["extra_files"] = PROPS[_k]["extra_files"] + ["proofs/delegations/%s.v" % f for f in _fs]
# bridge one-liners between keys / prime / generator / k / error kinds and the big-integer shim (proofs/delegations/Bridges.v)
for _k in ("C01", "C02", "C03", "C04", "C05", "C06", "C14", "C19"):
    PROPS[_k]["extra_files"] = PROPS[_k]["extra_files"] + ["proofs/delegations/Bridges.v"]

