#!/bin/sh
# usage: goal.sh <file.v> <line> [timeout]  -- shows the proof state after the given line of a file in /verif/coq
f=$1; n=$2; t=${3:-60}
head -$n /verif/coq/$f > /tmp/goal_$$.v; echo "Show." >> /tmp/goal_$$.v
cd /verif/coq && timeout $t coqc -Q . WS /tmp/goal_$$.v 2>&1 | tail -${4:-45}; echo "exit=$?"
rm -f /tmp/goal_$$.*
