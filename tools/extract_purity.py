#!/usr/bin/env python3
"""Purity translator: re-reads the Rust sources and regenerates coq/Purity.v.

The Gallina model renders every function of the crate as a function of its arguments, of the fields
of the object it is called on and of the explicit random tape.  That is only faithful while the
crate keeps no state anywhere else.  This translator lists, from the comment-stripped non-test
sources under /repo/src (the guarded hook file src/verif_hooks.rs excepted: it is the one place where
a thread-local exists, compiled only under --cfg gtker_wow_srp_verif), every construct through which
a result could depend on something else:

  hidden_state_sites   thread_local!, static items, lazy_static!, Once*/Lazy cells, Mutex/RwLock,
                       atomics, Cell/RefCell/UnsafeCell
  unsafe_sites         the `unsafe` keyword
  ambient_input_sites  std::env, std::fs, std::time / SystemTime / Instant, std::process, std::net

The lists are produced PER PROPERTY: the files scanned for property Cxx are the files its anchor
names in /verif/properties.jsonl plus everything they reach through `crate::`/`super::` paths and
`mod` declarations in the current source (so a new module is followed automatically), plus
src/lib.rs.  proofs/purity/Cxx.v proves the three lists of Cxx empty by reflexivity and is an
obligation of Cxx only; a cache added to the client does not disturb the cipher properties.  A change that introduces e.g. a per-thread cache breaks the obligation before any test
runs; the history generators of the harness then look for a failing sequence of calls.
"""
import re, sys, os, glob, json

REPO = os.environ.get("VERIF_REPO", "/repo")
OUT = os.path.join(os.path.dirname(os.path.abspath(__file__)), "..", "coq", "Purity.v")

def strip(src):
    # line comments (doc comments included), block comments, string literals, then the test module
    src = re.sub(r"//[^\n]*", "", src)
    src = re.sub(r"/\*.*?\*/", "", src, flags=re.S)
    src = re.sub(r'"(?:\\.|[^"\\])*"', '""', src)
    return src

def cut_tests(src):
    """blank out `#[cfg(test)] mod ... { ... }` blocks, keeping line numbers"""
    out = src
    for m in re.finditer(r"#\[cfg\(test\)\]\s*(?:pub\s+)?mod\s+\w+\s*\{", src):
        i = m.end() - 1; depth = 0; j = i
        while j < len(src):
            if src[j] == "{": depth += 1
            elif src[j] == "}":
                depth -= 1
                if depth == 0: break
            j += 1
        block = src[m.start():j + 1]
        out = out.replace(block, re.sub(r"[^\n]", " ", block), 1)
    return out

KINDS = {
    "hidden_state_sites": [r"\bthread_local\s*!", r"\bstatic\s+(?:mut\s+)?[A-Za-z_]\w*\s*:", r"\blazy_static\b", r"\bOnce(?:Cell|Lock)?\b", r"\bLazy(?:Cell|Lock)?\b",
                           r"\b(?:Mutex|RwLock|Condvar)\b", r"\bAtomic[A-Z]\w*\b", r"\b(?:RefCell|UnsafeCell)\b", r"\bCell\s*(?:<|::)"],
    "unsafe_sites": [r"\bunsafe\b"],
    "ambient_input_sites": [r"\bstd::env\b", r"\bstd::fs\b", r"\bstd::time\b", r"\bSystemTime\b", r"\bInstant\b", r"\bstd::process\b", r"\bstd::net\b", r"\benv!\s*\(", r"\boption_env!\s*\("],
}

def modfile(parts):
    for k in range(len(parts), 0, -1):
        p = os.path.join(REPO, "src", *parts[:k])
        if os.path.exists(p + ".rs"): return "src/" + "/".join(parts[:k]) + ".rs"
        if os.path.exists(os.path.join(p, "mod.rs")): return "src/" + "/".join(parts[:k]) + "/mod.rs"
    return None

def dependencies(rel, src):
    """files of the crate that `rel` refers to through crate::/super:: paths or declares as modules"""
    d = set()
    here = os.path.dirname(rel)[4:].split("/") if os.path.dirname(rel) != "src" else []
    is_root = rel.endswith("mod.rs") or rel == "src/lib.rs"
    for m in re.finditer(r"\bcrate::((?:\w+::)*\w+)", src):
        t = modfile(m.group(1).split("::"))
        if t: d.add(t)
    for m in re.finditer(r"\bsuper::((?:\w+::)*\w+)", src):
        par = here[:-1] if rel.endswith("mod.rs") else here
        t = modfile(par + m.group(1).split("::"))
        if t: d.add(t)
    if rel != "src/lib.rs":
        for m in re.finditer(r"^\s*(?:pub(?:\([a-z]+\))?\s+)?mod\s+(\w+)\s*;", src, flags=re.M):
            par = here if is_root else here + [os.path.basename(rel)[:-3]]
            t = modfile(par + [m.group(1)])
            if t: d.add(t)
    d.discard(rel); d.discard("src/verif_hooks.rs"); d.discard("src/test.rs")
    return d

def main():
    files = sorted(glob.glob(os.path.join(REPO, "src", "**", "*.rs"), recursive=True))
    sites, deps = {}, {}
    for f in files:
        rel = os.path.relpath(f, REPO)
        if rel == "src/verif_hooks.rs": continue
        src = cut_tests(strip(open(f).read()))
        deps[rel] = dependencies(rel, src)
        sites[rel] = {k: [] for k in KINDS}
        for ln, line in enumerate(src.split("\n"), 1):
            for kind, pats in KINDS.items():
                for p in pats:
                    m = re.search(p, line)
                    if m:
                        sites[rel][kind].append("%s:%d: %s" % (rel, ln, re.sub(r"[^A-Za-z0-9_ .:<>!/-]", "", m.group(0)).strip()))
                        break
    # structural trait implementations: the derive list of every type and every hand-written impl of a trait whose
    # DERIVED semantics the models rely on (a hand-written Clone / PartialEq / Hash / Ord / Drop can carry state or
    # compare something else than the fields, e.g. leave stale bytes behind in clone_from)
    STRUCTURAL = ("Clone", "Copy", "PartialEq", "Eq", "Hash", "Ord", "PartialOrd", "Drop")
    traits = {}
    for f in files:
        rel = os.path.relpath(f, REPO)
        if rel == "src/verif_hooks.rs": continue
        src = cut_tests(strip(open(f).read()))
        items = []
        for m in re.finditer(r"#\[derive\(([^)]*)\)\]\s*(?:#\[[^\]]*\]\s*)*(?:pub(?:\([^)]*\))?\s+)?(?:struct|enum)\s+(\$?\w+)", src):
            ds = sorted(x.strip() for x in m.group(1).split(",") if x.strip() in STRUCTURAL)      # Debug, Default ... do not matter here
            if ds: items.append("%s: %s derives %s" % (rel, m.group(2), " ".join(ds)))
        for m in re.finditer(r"\bimpl(?:<[^>]*>)?\s+(?:core::|std::)?(?:\w+::)*(\w+)\s+for\s+(\$?\w+)", src):
            if m.group(1) in STRUCTURAL: items.append("%s: hand-written impl %s for %s" % (rel, m.group(1), m.group(2)))
        traits[rel] = sorted(items)
    props = []
    pj = os.path.join(os.path.dirname(os.path.abspath(__file__)), "..", "properties.jsonl")
    for line in open(pj):
        if line.strip():
            d = json.loads(line)
            props.append((d["id"], [f for f in d.get("anchors", {}).get("files", []) if f.endswith(".rs")]))
    out = ["(* GENERATED by tools/extract_purity.py from the Rust sources under /repo/src. Do not edit. *)",
           "From Coq Require Import String List.", "Import ListNotations.", "Local Open Scope string_scope.", ""]
    tot = 0
    for pid, roots in props:
        seen, todo = set(), [r for r in roots if r in sites] + ["src/lib.rs"]
        while todo:
            f = todo.pop()
            if f in seen or f not in sites: continue
            seen.add(f); todo.extend(deps[f])
        out.append("(* %s: %s *)" % (pid, " ".join(sorted(seen))))
        for kind in KINDS:
            items = [i for f in sorted(seen) for i in sites[f][kind]]
            tot += len(items)
            out.append("Definition %s_%s : list string := [%s]." % (kind, pid, "; ".join('"%s"' % i for i in items)))
            for i in items: print("  %s %s: %s" % (pid, kind, i))
        out.append("Definition structural_traits_%s : list string := [%s]." % (pid, "; ".join('"%s"' % i for f in sorted(seen) for i in traits.get(f, []))))
        out.append("Definition source_files_scanned_%s : nat := %d." % (pid, len(seen)))
    text = "\n".join(out) + "\n"
    old = open(OUT).read() if os.path.exists(OUT) else None
    if old != text:
        open(OUT, "w").write(text)
    print("extract_purity: %d files, %d properties, %d sites%s" % (len(sites), len(props), tot, "" if old == text else " (Purity.v rewritten)"))
    return 0

if __name__ == "__main__":
    sys.exit(main())
