// Snippets for the translator self-test (tools/translator_selftest.py): every function below is inside the
// Rust subset that tools/rustexpr.py translates.  Each is compiled with rustc (debug assertions and overflow
// checks ON) and run on generated inputs; the same function is translated to Gallina and evaluated by
// vm_compute on the same inputs; outcomes (value or panic) must agree.  One construct family per function.

pub fn t_wrapping(a: u8, b: u8) -> u8 {
    a.wrapping_add(b).wrapping_sub(3).wrapping_mul(b)
}

pub fn t_checked_add(a: u8, b: u8) -> u8 {
    a + b
}

pub fn t_checked_sub_mul(a: u16, b: u16) -> u16 {
    (a - b) * 3
}

pub fn t_div_rem(a: u32, b: u32) -> u32 {
    a / b + a % b
}

pub fn t_shifts(a: u32, s: u32) -> u32 {
    (a << s) ^ (a >> 3)
}

pub fn t_bitops(a: u8, b: u8) -> u8 {
    (a & b) | (a ^ 0x5A) | 0x80
}

pub fn t_casts(a: u32) -> u16 {
    let lo = a as u8;
    let hi = (a >> 8) as u8;
    (lo as u16) + ((hi as u16) << 8)
}

pub fn t_widen(a: u8, b: u8) -> usize {
    let x: usize = a.into();
    let y: usize = b.into();
    x * 256 + y
}

pub fn t_compare(a: u8, b: u8) -> bool {
    a < b || (a == b && a != 7) || !(a >= 200)
}

pub fn t_if_else(a: u8) -> u8 {
    let mut r = 0_u8;
    if a < 10 {
        r = 1;
    } else if a < 100 {
        r = 2;
    } else {
        r = 3;
    }
    r
}

pub fn t_early_return(a: u8, b: u8) -> u8 {
    if a == 0 {
        return 255;
    }
    if b > a {
        return b - a;
    }
    a - b
}

pub fn t_index(data: &[u8], i: usize) -> u8 {
    data[i]
}

pub fn t_index_assign(data: [u8; 8], i: usize, v: u8) -> [u8; 8] {
    let mut out = data;
    out[i] = v;
    out[0] = out[0].wrapping_add(1);
    out
}

pub fn t_slices(data: &[u8], lo: usize, hi: usize) -> usize {
    let part = &data[lo..hi];
    let tail = &data[hi..];
    part.len() * 100 + tail.len()
}

pub fn t_for_range(n: u8) -> u32 {
    let mut acc = 0_u32;
    for i in 0..n {
        acc += i as u32;
    }
    acc
}

pub fn t_for_inclusive_rev(n: u32) -> u32 {
    let mut acc = 1_u32;
    for i in (1..=n).rev() {
        acc = acc.wrapping_mul(31).wrapping_add(i);
    }
    acc
}

pub fn t_for_enumerate(data: &[u8]) -> u32 {
    let mut acc = 0_u32;
    for (i, x) in data.iter().enumerate() {
        acc = acc.wrapping_add((i as u32 + 1) * (*x as u32));
    }
    acc
}

pub fn t_while(a: u32) -> u32 {
    let mut n = a;
    let mut steps = 0_u32;
    while n != 0 {
        n /= 10;
        steps += 1;
    }
    steps
}

pub fn t_nested_loops(n: u8) -> u32 {
    let mut acc = 0_u32;
    for i in 0..n {
        for j in i..n {
            acc += (i as u32) * (j as u32);
        }
    }
    acc
}

pub fn t_return_in_loop(data: &[u8], needle: u8) -> usize {
    for (i, x) in data.iter().enumerate() {
        if *x == needle {
            return i;
        }
    }
    data.len()
}

pub fn t_swap_reverse(data: [u8; 8], i: usize, j: usize) -> [u8; 8] {
    let mut out = data;
    out.swap(i, j);
    out[2..6].reverse();
    out
}

pub fn t_le_be_bytes(a: u32, b: u16) -> [u8; 6] {
    let x = a.to_le_bytes();
    let y = b.to_be_bytes();
    [x[0], x[1], x[2], x[3], y[0], y[1]]
}

pub fn t_from_bytes(data: [u8; 4]) -> u32 {
    u32::from_le_bytes(data) ^ u32::from_be_bytes(data)
}

pub fn t_array_repeat(n: u8) -> [u8; 5] {
    let mut a = [7_u8; 5];
    a[1] = n;
    a
}

pub fn t_clone_from_slice(data: &[u8]) -> [u8; 8] {
    let mut out = [0_u8; 8];
    out[0..data.len()].clone_from_slice(data);
    out
}

pub fn t_iter_mut_enumerate(data: [u8; 8], k: u8) -> [u8; 8] {
    let mut out = data;
    for (i, x) in out.iter_mut().enumerate() {
        *x = (i as u8).wrapping_mul(k);
    }
    out
}

pub fn t_for_each_closure(data: [u8; 8], k: u8) -> [u8; 8] {
    let mut out = data;
    let mut j = k;
    out.iter_mut().enumerate().for_each(|(i, x)| {
        j = j.wrapping_add(i as u8);
        *x = j;
    });
    out
}

pub fn t_zip_cycle(key: &[u8]) -> u32 {
    let mut acc = 0_u32;
    let idx = 0..10_usize;
    let cyc = key.iter().cycle();
    for (i, k) in idx.zip(cyc) {
        acc = acc.wrapping_mul(3).wrapping_add(i as u32 + *k as u32);
    }
    acc
}

pub fn t_mut_slice_loop(data: [u8; 8]) -> [u8; 8] {
    let mut out = data;
    for b in &mut out {
        *b += 0x30;
    }
    out
}

pub fn t_alias_not_reused(data: [u8; 8]) -> usize {
    let mut out = data;
    let bytes = &mut out[2..];
    let mut n = 0_usize;
    for b in &mut *bytes {
        *b = 1;
        n += 1;
    }
    n + bytes.len()
}

pub fn t_find(table: [u8; 6], v: u8) -> usize {
    let (i, _) = table.iter().enumerate().find(|(_, a)| **a == v).unwrap();
    i
}

pub fn t_option(a: u8) -> Option<u8> {
    if a < 4 {
        return None;
    }
    Some(a / 4)
}

pub fn t_if_let(a: u8) -> u8 {
    if let Some(q) = t_option(a) {
        q + 1
    } else {
        0
    }
}

pub fn t_tuple(a: u8, b: u8) -> (u8, u16) {
    (a ^ b, (a as u16) * (b as u16))
}

pub fn t_const_and_let(a: u8) -> u16 {
    const K: u16 = 300;
    let base: u16 = a.into();
    base * 2 + K
}

pub fn t_short_circuit(data: &[u8], i: usize) -> bool {
    i < data.len() && data[i] == 0
}

pub fn t_step_by_skip(data: &[u8]) -> u32 {
    let mut acc = 0_u32;
    for x in data.iter().skip(1).step_by(2) {
        acc = acc * 7 + *x as u32;
    }
    acc
}

pub fn t_compound_assign(a: u32, b: u32) -> u32 {
    let mut x = a;
    x += b;
    x -= 1;
    x *= 2;
    x /= 3;
    x %= 1000;
    x ^= b;
    x |= 1;
    x &= 0xFFFF;
    x <<= 2;
    x >>= 1;
    x
}

pub fn t_array_eq(a: [u8; 4], b: [u8; 4]) -> bool {
    a == b || a != [0_u8; 4]
}

pub fn t_u64_arith(a: u64, b: u64) -> u64 {
    let lo = a as u32;
    let wide = (lo as u64) * (b as u32 as u64);
    wide + (a >> 33) - (b >> 63)
}

pub fn t_usize_underflow(data: &[u8], k: usize) -> usize {
    data.len() - k
}

pub fn t_prefix_slice(data: &[u8], n: usize) -> u32 {
    let head = &data[..n];
    let mut acc = 0_u32;
    for x in head.iter() {
        acc = acc * 2 + *x as u32;
    }
    acc
}

pub fn t_while_with_index(data: &[u8]) -> usize {
    let mut lead = 0;
    while lead < data.len() && data[lead] == 0 {
        lead += 1;
    }
    lead
}

pub fn t_loop_in_branch(a: u8, n: u8) -> u32 {
    let mut acc = 0_u32;
    if a % 2 == 0 {
        for i in 0..n {
            acc += i as u32 + a as u32;
        }
    } else {
        let mut k = n;
        while k > 0 {
            acc += 2;
            k -= 1;
        }
    }
    acc
}

pub fn t_shift_copy(data: [u8; 8], from: usize, count: usize) -> [u8; 8] {
    let mut grid = data;
    for i in 0..count {
        grid[from + i] = grid[from + i + 1];
    }
    grid
}

pub fn t_option_tuple(a: u8, w: u8) -> Option<(u8, u8)> {
    if w == 0 {
        return None;
    }
    let x = a % w;
    let y = a / w;
    if y >= 10 {
        return None;
    }
    return Some((x, y));
}

pub fn t_wrapping_wide(a: u32, b: u32) -> u32 {
    a.wrapping_sub(b).wrapping_mul(2654435761).wrapping_add(b >> 5)
}

pub fn t_array_literal_index(i: usize) -> u8 {
    let table = [0_u8, 1, 2, 3, 4, 5, 6, 7, 8, 9];
    table[i] * 2
}

pub fn t_cast_narrow(a: u64) -> u8 {
    let x = a as u32;
    let y = x as u16;
    (y as u8) ^ ((a >> 56) as u8)
}

pub fn t_rev_enumerate(seed: u32) -> [u8; 4] {
    let mut grid = [0_u8, 1, 2, 3];
    let mut out = grid;
    let mut s = seed;
    for (idx, i) in (1..=4_u32).rev().enumerate() {
        let r = s % i;
        s /= i;
        out[idx] = grid[r as usize];
        let copy = i - r - 1;
        for j in 0..copy as usize {
            grid[r as usize + j] = grid[r as usize + j + 1];
        }
    }
    out
}

pub fn t_result_match(a: u8) -> u8 {
    let r = res_of(a);
    match r {
        Ok(v) => v,
        Err(e) => e + 100,
    }
}

fn res_of(a: u8) -> Result<u8, u8> {
    if a % 3 == 0 {
        return Err(a / 3);
    }
    Ok(a - 1)
}

pub fn t_be_header(data: [u8; 6]) -> (u16, u32) {
    let size = u16::from_be_bytes([data[0], data[1]]);
    let opcode = u32::from_le_bytes([data[2], data[3], data[4], data[5]]);
    (size, opcode)
}

pub fn t_large_header(size: u32, opcode: u16) -> [u8; 5] {
    let s = size.to_be_bytes();
    let o = opcode.to_le_bytes();
    if size > 0x7FFF {
        [s[1] | 0x80, s[2], s[3], o[0], o[1]]
    } else {
        [s[2], s[3], o[0], o[1], 0]
    }
}

pub fn t_suffix_strip(data: &[u8]) -> usize {
    let mut s = &data[..];
    if s.len() % 2 == 1 {
        s = &s[1..];
    }
    let mut lead = 0;
    while lead < s.len() && s[lead] == 0 {
        lead += 1;
    }
    s.len() - lead
}

// ---- functions the translator must REFUSE (prefix r_): writes through a mutable alias that the translation
// would not propagate to the aliased variable.  They are valid Rust; the point is that the translator says
// "outside the subset" instead of producing a wrong term.

pub fn r_alias_let(data: [u8; 8]) -> [u8; 8] {
    let mut out = data;
    let bytes = &mut out[..];
    for b in &mut *bytes {
        *b += 0x30;
    }
    out
}

fn first_half(a: &mut [u8; 8]) -> &mut [u8] {
    &mut a[0..4]
}

pub fn r_alias_call(data: [u8; 8]) -> [u8; 8] {
    let mut out = data;
    let h = first_half(&mut out);
    for b in &mut *h {
        *b = 1;
    }
    out
}

pub fn r_alias_index_write(data: [u8; 8]) -> u8 {
    let mut out = data;
    let view = &mut out[1..3];
    view[0] = 9;
    out[1]
}

// ---- methods (prefix m_): `&mut self` with fields; the translation threads the fields as a tuple ----
pub struct St {
    pub state: [u8; 8],
    pub i: u8,
    pub j: u8,
}

impl St {
    pub fn m_step(&mut self, x: u8) -> u8 {
        self.i = self.i.wrapping_add(1);
        self.j = self.j.wrapping_add(self.s_i());
        self.state.swap((self.i % 8).into(), (self.j % 8).into());
        let index: usize = (self.s_i().wrapping_add(x) % 8).into();
        self.state[index]
    }

    pub fn m_write(&mut self, k: usize, v: u8) -> u8 {
        self.state[k] = v;
        self.state[k] ^= 0x0F;
        self.i += 1;
        self.state[0]
    }

    pub fn m_branch(&mut self, x: u8) -> u8 {
        if x >= self.i {
            return 0;
        }
        let c = self.state[(x % 8) as usize];
        if c >= self.j {
            self.j = c;
            return 1;
        }
        self.i -= x;
        2
    }

    const fn s_i(&self) -> u8 {
        self.state[(self.i % 8) as usize]
    }
}
