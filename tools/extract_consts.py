#!/usr/bin/env python3
"""Constants translator: re-reads /repo/src and regenerates coq/Consts.v.

Every constant is located by a regex on the Rust source.  A constant that cannot be located is
reported on stderr (`could not locate name`): the driver marks the obligation `Consts.name` of every
property that uses it as broken.  So that the rest of the development still compiles and the
correspondence can go on looking for a failing input, the definition is then emitted with the value
recorded for the pinned tree in tools/consts_pinned.json (written by `--update-pinned`), under a
`(* MISSING name *)` comment.
The file is rewritten only when its content changes so that `make` stays incremental.
"""
import re, sys, os

REPO = os.environ.get("VERIF_REPO", "/repo")
OUT = os.path.join(os.path.dirname(os.path.abspath(__file__)), "..", "coq", "Consts.v")

def read(rel):
    try:
        with open(os.path.join(REPO, rel)) as f:
            return f.read()
    except OSError:
        return ""

def strip_comments(s):
    s = re.sub(r"//[^\n]*", "", s)
    return re.sub(r"/\*.*?\*/", "", s, flags=re.S)

def parse_int(tok):
    tok = tok.strip().replace("_u8", "").replace("_u16", "").replace("_u32", "").replace("_usize", "").replace("_", "")
    return int(tok, 0)

def array_after(src, pattern):
    """first `[ ... ]` list of integer literals after regex `pattern` (after its `=`)"""
    m = re.search(pattern, src, flags=re.S)
    if not m:
        return None
    rest = src[m.end():]
    m2 = re.search(r"=\s*\[([^\]]*)\]", rest, flags=re.S)
    if not m2:
        return None
    toks = [t for t in m2.group(1).replace("\n", " ").split(",") if t.strip()]
    try:
        return [parse_int(t) for t in toks]
    except ValueError:
        return None

def scalar(src, name, env):
    m = re.search(r"const\s+%s\s*:\s*\w+\s*=\s*([^;]+);" % name, src)
    if not m:
        return None
    expr = m.group(1).strip()
    expr = re.sub(r"\bas\s+\w+", "", expr)
    expr = re.sub(r"core::mem::size_of::<u(\d+)>\(\)", lambda k: str(int(k.group(1)) // 8), expr)
    expr = re.sub(r"(\d)_u\d+", r"\1", expr)
    def sub(k):
        n = k.group(0)
        if n in env and env[n] is not None:
            return str(env[n])
        raise KeyError(n)
    try:
        expr2 = re.sub(r"[A-Z][A-Z0-9_]+", sub, expr)
        if not re.fullmatch(r"[0-9xXa-fA-F\s\+\*\(\)\-]+", expr2):
            return None
        return int(eval(expr2, {"__builtins__": {}}))
    except Exception:
        return None

def main():
    primes = strip_comments(read("src/primes.rs"))
    key = strip_comments(read("src/key.rs"))
    srp = strip_comments(read("src/srp_internal.rs"))
    tenc = strip_comments(read("src/tbc_header/encrypt.rs"))
    tdec = strip_comments(read("src/tbc_header/decrypt.rs"))
    wmod = strip_comments(read("src/wrath_header/mod.rs"))
    winner = strip_comments(read("src/wrath_header/inner_crypto/mod.rs"))
    vmod = strip_comments(read("src/vanilla_header/mod.rs"))
    pin = strip_comments(read("src/pin.rs"))
    mc = strip_comments(read("src/matrix_card.rs"))
    lib = strip_comments(read("src/lib.rs"))
    ns = strip_comments(read("src/normalized_string.rs"))

    lists = {
        "n_le": array_after(primes, r"const\s+LARGE_SAFE_PRIME_LITTLE_ENDIAN\b"),
        "n_be": array_after(primes, r"const\s+LARGE_SAFE_PRIME_BIG_ENDIAN\b"),
        "xor_hash": array_after(srp, r"const\s+PRECALCULATED_XOR_HASH\b"),
        "tbc_seed_enc": array_after(tenc, r"let\s+s\s*:\s*\[u8;\s*SEED_KEY_SIZE\]"),
        "tbc_seed_dec": array_after(tdec, r"let\s+s\s*:\s*\[u8;\s*SEED_KEY_SIZE\]"),
        "wrath_S": array_after(wmod, r"const\s+S\s*:\s*\[u8;\s*16\]"),
        "wrath_R": array_after(wmod, r"const\s+R\s*:\s*\[u8;\s*16\]"),
    }
    env = {}
    scalars = {}
    def sc(coqname, src, rustname):
        v = scalar(src, rustname, env)
        env[rustname] = v
        scalars[coqname] = v
    sc("large_safe_prime_length", primes, "LARGE_SAFE_PRIME_LENGTH")
    sc("generator", primes, "GENERATOR")
    sc("k_value", primes, "K_VALUE")
    sc("salt_length", key, "SALT_LENGTH")
    sc("private_key_length", key, "PRIVATE_KEY_LENGTH")
    sc("public_key_length", key, "PUBLIC_KEY_LENGTH")
    sc("sha1_hash_length", key, "SHA1_HASH_LENGTH")
    sc("proof_length", key, "PROOF_LENGTH")
    sc("s_length", key, "S_LENGTH")
    sc("reconnect_challenge_data_length", key, "RECONNECT_CHALLENGE_DATA_LENGTH")
    sc("session_key_length", key, "SESSION_KEY_LENGTH")
    sc("integrity_salt_length", lib, "INTEGRITY_SALT_LENGTH")
    sc("max_string_length", ns, "MAXIMUM_STRING_LENGTH_IN_BYTES")
    sc("vanilla_client_header_length", vmod, "CLIENT_HEADER_LENGTH")
    sc("vanilla_server_header_length", vmod, "SERVER_HEADER_LENGTH")
    tmod = strip_comments(read("src/tbc_header/mod.rs"))
    sc("tbc_client_header_length", tmod, "CLIENT_HEADER_LENGTH")
    sc("tbc_server_header_length", tmod, "SERVER_HEADER_LENGTH")
    sc("wrath_client_header_length", wmod, "CLIENT_HEADER_LENGTH")
    sc("wrath_server_header_min_length", wmod, "SERVER_HEADER_MINIMUM_LENGTH")
    sc("wrath_server_header_max_length", wmod, "SERVER_HEADER_MAXIMUM_LENGTH")
    sc("wrath_key_length", winner, "KEY_LENGTH")
    sc("pin_salt_size", pin, "PIN_SALT_SIZE")
    sc("min_pin_length", pin, "MIN_PIN_LENGTH")
    sc("max_pin_length", pin, "MAX_PIN_LENGTH")
    sc("min_matrix_card_value", mc, "MIN_MATRIX_CARD_VALUE")
    sc("max_matrix_card_value", mc, "MAX_MATRIX_CARD_VALUE")
    m = re.search(r"let\s+mut\s+pad_data\s*=\s*\[0_u8;\s*(\w+)\]", winner)
    scalars["wrath_drop"] = parse_int(m.group(1)) if m else None
    # inline literals of modelled decisions (threshold, marker masks, ASCII offset, RC4 state size)
    wenc = strip_comments(read("src/wrath_header/encrypt.rs"))
    wdec = strip_comments(read("src/wrath_header/decrypt.rs"))
    rc4 = strip_comments(read("src/rc4.rs"))
    def lit(src, pattern):
        mm = re.search(pattern, src)
        try:
            return parse_int(mm.group(1)) if mm else None
        except ValueError:
            return None
    scalars["wrath_large_threshold"] = lit(wenc, r"if\s+size\s*>\s*(\w+)\s*\{")
    scalars["wrath_marker_set"] = lit(wenc, r"fn\s+set_large_header\s*\([^)]*\)\s*->\s*u8\s*\{\s*v\s*\|\s*(\w+)")
    scalars["wrath_marker_clear"] = lit(wdec, r"fn\s+clear_large_header\s*\([^)]*\)\s*->\s*u8\s*\{\s*v\s*&\s*(\w+)")
    scalars["wrath_marker_test"] = lit(wdec, r"fn\s+large_header\s*\([^)]*\)\s*->\s*bool\s*\{\s*v\s*&\s*(\w+)\s*!=\s*0")
    scalars["pin_ascii_offset"] = lit(pin, r"\*\w+\s*\+=\s*(\w+)\s*;")
    scalars["rc4_state_size"] = lit(rc4, r"state\s*:\s*\[u8;\s*(\w+)\]")

    pinned_path = os.path.join(os.path.dirname(os.path.abspath(__file__)), "consts_pinned.json")
    import json
    if "--update-pinned" in sys.argv:
        json.dump({"lists": lists, "scalars": scalars}, open(pinned_path, "w"), indent=1, sort_keys=True)
    try:
        pinned = json.load(open(pinned_path))
    except OSError:
        pinned = {"lists": {}, "scalars": {}}
    missing = []
    out = ["(* GENERATED by tools/extract_consts.py from the Rust sources under /repo/src. Do not edit. *)",
           "From Coq Require Import List NArith.", "Import ListNotations.", "Local Open Scope N_scope.", ""]
    for name, v in lists.items():
        if v is None:
            missing.append(name); out.append("(* MISSING %s: not located in the source on this run; pinned value, obligation reported broken *)" % name)
            v = pinned["lists"].get(name)
        if v is not None:
            out.append("Definition %s : list N := [%s]." % (name, "; ".join(str(x) for x in v)))
    for name, v in scalars.items():
        if v is None:
            missing.append(name); out.append("(* MISSING %s: not located in the source on this run; pinned value, obligation reported broken *)" % name)
            v = pinned["scalars"].get(name)
        if v is not None:
            out.append("Definition %s : N := %d." % (name, v))
    text = "\n".join(out) + "\n"
    old = None
    try:
        with open(OUT) as f: old = f.read()
    except OSError:
        pass
    if old != text:
        with open(OUT, "w") as f: f.write(text)
    for m_ in missing:
        print("extract_consts: could not locate %s" % m_, file=sys.stderr)
    print("extract_consts: %d lists, %d scalars, %d missing%s" %
          (len(lists), len(scalars), len(missing), "" if old == text else " (Consts.v rewritten)"))
    return 1 if missing else 0

if __name__ == "__main__":
    sys.exit(main())
