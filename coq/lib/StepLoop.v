(* Support for the bodies translated from the Rust source by tools/extract_steps.py. *)
From Coq Require Import List NArith.
Import ListNotations.
Local Open Scope N_scope.

(* l[n] = v for an index already known to be in range (the translation checks the range first) *)
Fixpoint list_set (l : list N) (n : nat) (v : N) : list N :=
  match l, n with
  | [], _ => []
  | _ :: r, O => v :: r
  | x :: r, S m => x :: list_set r m v
  end.

(* for x in data { BODY }  where BODY reads and rewrites x and a carried state; None is a panic *)
Fixpoint slice_loop {S : Type} (step : S -> N -> option (S * N)) (s : S) (data : list N) : option (S * list N) :=
  match data with
  | [] => Some (s, [])
  | x :: r =>
    match step s x with
    | None => None
    | Some (s', y) =>
      match slice_loop step s' r with
      | None => None
      | Some (s'', out) => Some (s'', y :: out)
      end
    end
  end.

(* while COND { BODY } over a carried state; None is a panic or exhausted fuel (the obligations
   instantiate the fuel with a bound under which the loop provably ends) *)
Fixpoint while_loop {S : Type} (fuel : nat) (cond : S -> option bool) (body : S -> option S) (s : S) : option S :=
  match fuel with
  | O => None
  | Datatypes.S f =>
    match cond s with
    | None => None
    | Some false => Some s
    | Some true => match body s with None => None | Some s' => while_loop f cond body s' end
    end
  end.

(* a sequence of calls `f(&mut chunk)` with the state carried from call to call; outputs concatenated *)
Fixpoint calls_loop {S : Type} (step : S -> N -> option (S * N)) (s : S) (chunks : list (list N)) : option (S * list N) :=
  match chunks with
  | [] => Some (s, [])
  | c :: r =>
    match slice_loop step s c with
    | None => None
    | Some (s', o) =>
      match calls_loop step s' r with
      | None => None
      | Some (s'', o') => Some (s'', o ++ o')
      end
    end
  end.

(* for x in LIST { BODY } with a carried state; the body may leave the loop early with a result
   (inl r: a `return r` inside the loop) or go on with the next state (inr s); None is a panic *)
Fixpoint for_loop {S R A : Type} (body : S -> A -> option (R + S)) (s : S) (l : list A) : option (R + S) :=
  match l with
  | [] => Some (inr s)
  | x :: r =>
    match body s x with
    | None => None
    | Some (inl e) => Some (inl e)
    | Some (inr s') => for_loop body s' r
    end
  end.

(* lo..hi *)
Definition range_list (lo hi : N) : list N := map (fun k => lo + N.of_nat k) (seq 0 (N.to_nat (hi - lo))).
(* iter.enumerate() *)
Fixpoint enumerate_from {A : Type} (i : N) (l : list A) : list (N * A) :=
  match l with [] => [] | x :: r => (i, x) :: enumerate_from (i + 1) r end.
Definition enumerate_list {A : Type} (l : list A) : list (N * A) := enumerate_from 0 l.

(* iter.step_by(k): the first element and then every k-th (k >= 1; the translation rejects k = 0) *)
Fixpoint step_by_fuel (fuel k : nat) (l : list N) : list N :=
  match fuel with
  | O => []
  | Datatypes.S f => match l with [] => [] | x :: _ => x :: step_by_fuel f k (skipn k l) end
  end.
Definition step_by_list (k : nat) (l : list N) : list N := step_by_fuel (length l) k l.

(* iter.cycle(), first n items: core::iter::Cycle keeps the original iterator and a working copy; when
   the working copy is exhausted it is replaced by a fresh clone, and if that clone is exhausted too
   (an empty original) the cycle ends.  `a.zip(b.cycle())` therefore takes [length a] items of it. *)
Fixpoint cycle_from {A : Type} (orig cur : list A) (n : nat) : list A :=
  match n with
  | O => []
  | Datatypes.S m =>
    match cur with
    | k :: cur' => k :: cycle_from orig cur' m
    | [] => match orig with
            | [] => []
            | k :: cur' => k :: cycle_from orig cur' m
            end
    end
  end.
Definition cycle_take {A : Type} (l : list A) (n : nat) : list A := cycle_from l l n.

(* iter().enumerate().find(|(_, a)| **a == b): the first (index, element) whose element is b *)
Fixpoint position_from (b : N) (l : list N) (i : N) : option (N * N) :=
  match l with
  | [] => None
  | a :: r => if (a =? b)%N then Some (i, a) else position_from b r (i + 1)%N
  end.

(* slice::chunks(n) as an iterator state (rest of the slice, n) with n >= 1: next() hands out the first n
   elements (fewer at the end) and keeps the rest; an empty rest ends the iteration *)
Definition chunks_head (c : list N * N) : option (list N) :=
  match fst c with [] => None | _ :: _ => Some (firstn (N.to_nat (snd c)) (fst c)) end.
Definition chunks_advance (c : list N * N) : list N * N := (skipn (N.to_nat (snd c)) (fst c), snd c).

(* u8::to_string(): decimal digits, most significant first, no padding *)
Definition u8_to_string (b : N) : list N :=
  if (b <? 10)%N then [48 + b]%N
  else if (b <? 100)%N then [48 + b / 10; 48 + b mod 10]%N
  else [48 + b / 100; 48 + (b / 10) mod 10; 48 + b mod 10]%N.
