(* Outcome of a Rust call: a value, an error value, or an unwinding panic. *)
From Coq Require Import List.
Inductive res (A E : Type) : Type := Ok (a : A) | Err (e : E) | Panic.
Arguments Ok {A E} a.  Arguments Err {A E} e.  Arguments Panic {A E}.
Definition no_panic {A E} (r : res A E) : Prop := r <> Panic.
Definition is_ok {A E} (r : res A E) : bool := match r with Ok _ => true | _ => false end.
Definition bind {A B E} (r : res A E) (f : A -> res B E) : res B E :=
  match r with Ok a => f a | Err e => Err e | Panic => Panic end.
Notation "'let*' x ':=' r 'in' k" := (bind r (fun x => k)) (at level 200, x pattern, r at level 100, k at level 200).
Definition of_option {A E} (o : option A) : res A E := match o with Some a => Ok a | None => Panic end.
(* a Rust function that has no error value *)
Definition nres (A : Type) := res A Empty_set.
