(* Shared byte-level definitions and lemmas.  Bytes are [N] with the side predicate [< 256]. *)
From Coq Require Export List NArith ZArith Bool Lia.
From Coq Require Import ZifyN ZifyNat ZifyBool.
From Coq.Strings Require Import Byte.
Export ListNotations.
Ltac Zify.zify_post_hook ::= Z.div_mod_to_equations.

Definition byte_ok (b : N) : Prop := (b < 256)%N.
Definition bytes (l : list N) : Prop := Forall byte_ok l.
Definition bytesn (n : nat) (l : list N) : Prop := length l = n /\ bytes l.

Definition byte_okb (b : N) : bool := (b <? 256)%N.
Definition bytesb (l : list N) : bool := forallb byte_okb l.

Lemma bytesb_spec l : bytesb l = true <-> bytes l.
Proof.
  unfold bytesb, bytes. rewrite forallb_forall, Forall_forall.
  split; intros H x Hx; specialize (H x Hx); unfold byte_okb, byte_ok in *; lia.
Qed.

Lemma bytes_app a b : bytes (a ++ b) <-> bytes a /\ bytes b.
Proof. unfold bytes. apply Forall_app. Qed.

Lemma bytes_cons x l : bytes (x :: l) <-> (x < 256)%N /\ bytes l.
Proof. unfold bytes. split; intros H; [inversion H; auto | constructor; tauto]. Qed.

Lemma bytes_nil : bytes []. Proof. constructor. Qed.

Lemma bytes_firstn n l : bytes l -> bytes (firstn n l).
Proof.
  unfold bytes. rewrite !Forall_forall. intros H x Hx. apply H.
  rewrite <- (firstn_skipn n l). apply in_or_app. now left.
Qed.

Lemma bytes_skipn n l : bytes l -> bytes (skipn n l).
Proof.
  unfold bytes. rewrite !Forall_forall. intros H x Hx. apply H.
  rewrite <- (firstn_skipn n l). apply in_or_app. now right.
Qed.

Lemma bytes_repeat0 n : bytes (repeat 0%N n).
Proof. induction n as [|n IH]; constructor; [unfold byte_ok; lia | apply IH]. Qed.

Lemma bytes_concat ls : Forall bytes ls -> bytes (concat ls).
Proof. induction 1; cbn; [constructor|]. apply bytes_app; auto. Qed.

Lemma bytes_nth l n d : bytes l -> (d < 256)%N -> (nth n l d < 256)%N.
Proof.
  intros Hl Hd. destruct (Nat.lt_ge_cases n (length l)) as [H|H].
  - unfold bytes in Hl. rewrite Forall_forall in Hl. apply Hl. now apply nth_In.
  - now rewrite nth_overflow.
Qed.

(* ---- xor on bytes ---- *)
Lemma lt256_log2 a : a <> 0%N -> ((a < 256)%N <-> (N.log2 a < 8)%N).
Proof. intros H. change 256%N with (2^8)%N. apply N.log2_lt_pow2. lia. Qed.

Lemma lxor_byte a b : (a < 256)%N -> (b < 256)%N -> (N.lxor a b < 256)%N.
Proof.
  intros Ha Hb.
  destruct (N.eq_dec (N.lxor a b) 0) as [E|Hne]; [rewrite E; lia|].
  apply lt256_log2; [assumption|].
  eapply N.le_lt_trans; [apply N.log2_lxor|].
  apply N.max_lub_lt.
  - destruct (N.eq_dec a 0) as [->|Ha0]; [cbn; lia|]. now apply lt256_log2.
  - destruct (N.eq_dec b 0) as [->|Hb0]; [cbn; lia|]. now apply lt256_log2.
Qed.

Lemma lxor_cancel_r a b : N.lxor (N.lxor a b) b = a.
Proof. now rewrite N.lxor_assoc, N.lxor_nilpotent, N.lxor_0_r. Qed.

Definition xor_bytes (a b : list N) : list N := map (fun p => N.lxor (fst p) (snd p)) (combine a b).

(* ---- little-endian integers ---- *)
Fixpoint le_to_Z (l : list N) : Z :=
  match l with [] => 0%Z | b :: r => (Z.of_N b + 256 * le_to_Z r)%Z end.

Fixpoint Z_to_le (n : nat) (z : Z) : list N :=        (* exactly n little-endian bytes of z >= 0 *)
  match n with O => [] | S m => Z.to_N (z mod 256) :: Z_to_le m (z / 256) end.

Definition LE32 := Z_to_le 32.

Fixpoint le_to_N (l : list N) : N :=
  match l with [] => 0%N | b :: r => (b + 256 * le_to_N r)%N end.
Fixpoint N_to_le (n : nat) (z : N) : list N :=
  match n with O => [] | S m => (z mod 256)%N :: N_to_le m (z / 256)%N end.
Definition le32 (w : N) : list N := N_to_le 4 w.
Definition le16 (w : N) : list N := N_to_le 2 w.
Definition le64 (w : N) : list N := N_to_le 8 w.
Definition be16 (w : N) : list N := rev (N_to_le 2 w).

Lemma le_to_Z_nonneg l : (0 <= le_to_Z l)%Z.
Proof. induction l; cbn [le_to_Z]; lia. Qed.

Lemma le_to_Z_bound l : bytes l -> (le_to_Z l < 256 ^ Z.of_nat (length l))%Z.
Proof.
  induction 1 as [|b l Hb Hl IH]; cbn [le_to_Z length]; [lia|].
  rewrite Nat2Z.inj_succ, Z.pow_succ_r by lia. unfold byte_ok in Hb. lia.
Qed.

Lemma Z_to_le_length n z : length (Z_to_le n z) = n.
Proof. revert z; induction n; intros; cbn; auto. Qed.

Lemma Z_to_le_bytes n z : bytes (Z_to_le n z).
Proof.
  revert z; induction n as [|n IH]; intros z; cbn [Z_to_le]; constructor; [|apply IH].
  unfold byte_ok. pose proof (Z.mod_pos_bound z 256). lia.
Qed.

Lemma N_to_le_length n z : length (N_to_le n z) = n.
Proof. revert z; induction n; intros; cbn; auto. Qed.

Lemma N_to_le_bytes n z : bytes (N_to_le n z).
Proof.
  revert z; induction n as [|n IH]; intros z; cbn [N_to_le]; constructor; [|apply IH].
  unfold byte_ok. lia.
Qed.

Lemma le_to_Z_to_le l : bytes l -> Z_to_le (length l) (le_to_Z l) = l.
Proof.
  induction 1 as [|b l Hb Hl IH]; cbn [le_to_Z length Z_to_le]; [reflexivity|].
  unfold byte_ok in Hb. pose proof (le_to_Z_nonneg l).
  replace ((Z.of_N b + 256 * le_to_Z l) mod 256)%Z with (Z.of_N b) by lia.
  replace ((Z.of_N b + 256 * le_to_Z l) / 256)%Z with (le_to_Z l) by lia.
  rewrite N2Z.id, IH. reflexivity.
Qed.

Lemma Z_to_le_to_Z n z : (0 <= z < 256 ^ Z.of_nat n)%Z -> le_to_Z (Z_to_le n z) = z.
Proof.
  revert z; induction n as [|n IH]; intros z Hz; cbn [Z_to_le le_to_Z].
  - cbn in Hz. lia.
  - rewrite Nat2Z.inj_succ, Z.pow_succ_r in Hz by lia.
    rewrite IH by lia. rewrite Z2N.id by lia. lia.
Qed.

Lemma le_to_Z_inj a b : bytes a -> bytes b -> length a = length b -> le_to_Z a = le_to_Z b -> a = b.
Proof.
  intros Ha Hb Hl E. rewrite <- (le_to_Z_to_le a Ha), <- (le_to_Z_to_le b Hb), Hl, E. reflexivity.
Qed.

Lemma le_to_Z_app a b : le_to_Z (a ++ b) = (le_to_Z a + 256 ^ Z.of_nat (length a) * le_to_Z b)%Z.
Proof.
  induction a as [|x a IH]; cbn [app le_to_Z length]; [lia|].
  rewrite IH, Nat2Z.inj_succ, Z.pow_succ_r by lia. lia.
Qed.

Lemma le_to_Z_repeat0 n : le_to_Z (repeat 0%N n) = 0%Z.
Proof. induction n; cbn [repeat le_to_Z]; lia. Qed.

Lemma le_to_N_to_le l : bytes l -> N_to_le (length l) (le_to_N l) = l.
Proof.
  induction 1 as [|b l Hb Hl IH]; cbn [le_to_N length N_to_le]; [reflexivity|].
  unfold byte_ok in Hb.
  replace ((b + 256 * le_to_N l) mod 256)%N with b by lia.
  replace ((b + 256 * le_to_N l) / 256)%N with (le_to_N l) by lia.
  now rewrite IH.
Qed.

Lemma N_to_le_to_N n z : (z < 256 ^ N.of_nat n)%N -> le_to_N (N_to_le n z) = z.
Proof.
  revert z; induction n as [|n IH]; intros z Hz; cbn [N_to_le le_to_N].
  - cbn in Hz. lia.
  - rewrite Nnat.Nat2N.inj_succ, N.pow_succ_r in Hz by lia.
    rewrite IH by lia. lia.
Qed.

(* ---- boolean equality on byte lists ---- *)
Fixpoint list_eqb (a b : list N) : bool :=
  match a, b with
  | [], [] => true
  | x :: a', y :: b' => (x =? y)%N && list_eqb a' b'
  | _, _ => false
  end.

Lemma list_eqb_spec a b : list_eqb a b = true <-> a = b.
Proof.
  revert b; induction a as [|x a IH]; intros [|y b]; cbn; try (split; congruence).
  rewrite andb_true_iff, N.eqb_eq, IH. split; [intros [-> ->]; auto | intros H; inversion H; auto].
Qed.

Lemma list_eqb_refl a : list_eqb a a = true.
Proof. now apply list_eqb_spec. Qed.

Lemma list_eqb_neq a b : list_eqb a b = false <-> a <> b.
Proof.
  rewrite <- list_eqb_spec. destruct (list_eqb a b); split; congruence.
Qed.

Fixpoint lists_eqb (a b : list (list N)) : bool :=
  match a, b with
  | [], [] => true
  | x :: a', y :: b' => list_eqb x y && lists_eqb a' b'
  | _, _ => false
  end.

(* ---- fixed-width concatenation is injective ---- *)
Lemma app_inj_length {A} (a a' b b' : list A) :
  length a = length a' -> a ++ b = a' ++ b' -> a = a' /\ b = b'.
Proof.
  revert a'; induction a as [|x a IH]; intros [|y a'] Hl E; cbn in *; try discriminate; auto.
  inversion E; subst. destruct (IH a') as [-> ->]; auto.
Qed.

(* ---- single-bit flips ---- *)
Definition flip_bit (i : nat) (l : list N) : list N :=
  firstn (i / 8) l ++ match skipn (i / 8) l with
                      | [] => [] | b :: r => N.lxor b (N.shiftl 1 (N.of_nat (i mod 8))) :: r end.

Lemma lxor_pow2_neq b k : N.lxor b (N.shiftl 1 k) <> b.
Proof.
  intros E. assert (H : N.lxor (N.lxor b (N.shiftl 1 k)) b = 0%N) by (rewrite E; apply N.lxor_nilpotent).
  rewrite (N.lxor_comm b), lxor_cancel_r in H.
  rewrite N.shiftl_1_l in H. pose proof (N.pow_nonzero 2 k ltac:(lia)). lia.
Qed.

Lemma flip_bit_neq i l : i < 8 * length l -> flip_bit i l <> l.
Proof.
  intros Hi E. unfold flip_bit in E.
  assert (Hlt : i / 8 < length l) by (apply Nat.div_lt_upper_bound; lia).
  rewrite <- (firstn_skipn (i / 8) l) in E at 3.
  apply app_inv_head in E.
  destruct (skipn (i / 8) l) as [|b r] eqn:S.
  - apply (f_equal (@length N)) in S. rewrite skipn_length in S. cbn [length] in S. lia.
  - inversion E as [Hb]. now apply lxor_pow2_neq in Hb.
Qed.

Lemma flip_bit_length i l : length (flip_bit i l) = length l.
Proof.
  unfold flip_bit. rewrite <- (firstn_skipn (i / 8) l) at 3. rewrite !app_length. f_equal.
  destruct (skipn (i / 8) l); reflexivity.
Qed.

(* ---- hex literals for case files: "0a1b" parses to a [hexstr]; [unhex] gives the byte list ---- *)
Inductive hexstr := HexStr (l : list Byte.byte).
Definition hs_parse (l : list Byte.byte) : option hexstr := Some (HexStr l).
Definition hs_print (h : hexstr) : list Byte.byte := match h with HexStr l => l end.
Declare Scope hex_scope.
Delimit Scope hex_scope with hex.
String Notation hexstr hs_parse hs_print : hex_scope.

Definition hexval (b : Byte.byte) : N :=
  let n := Byte.to_N b in
  if (n <? 58)%N then (n - 48)%N            (* '0'..'9' *)
  else if (n <? 71)%N then (n - 55)%N       (* 'A'..'F' *)
  else (n - 87)%N.                          (* 'a'..'f' *)
Fixpoint unhex_l (l : list Byte.byte) : list N :=
  match l with
  | a :: b :: r => (16 * hexval a + hexval b)%N :: unhex_l r
  | _ => []
  end.
Definition unhex (h : hexstr) : list N := unhex_l (hs_print h).

Example unhex_test : unhex "00ff1aB7"%hex = [0; 255; 26; 183]%N.
Proof. reflexivity. Qed.
