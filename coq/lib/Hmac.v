(* HMAC-SHA1 (RFC 2104, block size 64) over byte lists.  Executable and axiom-free. *)
From WS Require Import lib.Bytes lib.Sha1.
From Coq Require Import ZifyN ZifyNat ZifyBool.
From Coq.Strings Require String Ascii.
Import String.StringSyntax.
Local Delimit Scope string_scope with string.
Ltac Zify.zify_post_hook ::= Z.div_mod_to_equations.
Local Open Scope N_scope.

Definition hmac_ipad : list N := repeat 0x36 64.
Definition hmac_opad : list N := repeat 0x5c 64.

(* The 64-byte block key: keys longer than one block are hashed first, then zero-padded on the right. *)
Definition hmac_key (key : list N) : list N :=
  let k := if (64 <? length key)%nat then sha1 key else key in
  k ++ repeat 0 (64 - length k).

Definition hmac_sha1 (key msg : list N) : list N :=
  sha1 (xor_bytes (hmac_key key) hmac_opad ++ sha1 (xor_bytes (hmac_key key) hmac_ipad ++ msg)).

(* ---- basic facts, for all inputs; none of them looks inside sha1 ---- *)
Lemma hmac_sha1_unfold key msg :
  hmac_sha1 key msg =
  sha1 (xor_bytes (hmac_key key) hmac_opad ++ sha1 (xor_bytes (hmac_key key) hmac_ipad ++ msg)).
Proof. reflexivity. Qed.

Lemma hmac_key_unfold key :
  hmac_key key = (if (64 <? length key)%nat then sha1 key else key)
                 ++ repeat 0 (64 - length (if (64 <? length key)%nat then sha1 key else key)).
Proof. reflexivity. Qed.

Lemma hmac_key_length key : length (hmac_key key) = 64%nat.
Proof.
  unfold hmac_key. rewrite app_length, repeat_length.
  destruct (64 <? length key)%nat eqn:E; [rewrite sha1_length; reflexivity | lia].
Qed.

Lemma hmac_key_bytes key : bytes key -> bytes (hmac_key key).
Proof.
  intros H. unfold hmac_key. apply bytes_app. split; [|apply bytes_repeat0].
  destruct (64 <? length key)%nat; [apply sha1_bytes | exact H].
Qed.

Lemma hmac_key_short key : (length key <= 64)%nat -> hmac_key key = key ++ repeat 0 (64 - length key).
Proof. intros H. unfold hmac_key. destruct (64 <? length key)%nat eqn:E; [lia | reflexivity]. Qed.

Lemma hmac_key_long key : (64 < length key)%nat -> hmac_key key = sha1 key ++ repeat 0 44.
Proof.
  intros H. unfold hmac_key. destruct (64 <? length key)%nat eqn:E; [|lia].
  rewrite sha1_length. reflexivity.
Qed.

Lemma hmac_sha1_length key msg : length (hmac_sha1 key msg) = 20%nat.
Proof. apply sha1_length. Qed.

Lemma hmac_sha1_bytes key msg : bytes (hmac_sha1 key msg).
Proof. apply sha1_bytes. Qed.

Lemma hmac_sha1_bytesn key msg : bytesn 20 (hmac_sha1 key msg).
Proof. apply sha1_bytesn. Qed.

(* ---- RFC 2202 test cases 1-7 ---- *)
Example hmac_sha1_t1 :
  hmac_sha1 (repeat 0x0b 20) (bytes_of_string "Hi There"%string)
  = unhex "b617318655057264e28bc0b6fb378c8ef146be00"%hex.
Proof. vm_compute. reflexivity. Qed.
Example hmac_sha1_t2 :
  hmac_sha1 (bytes_of_string "Jefe"%string) (bytes_of_string "what do ya want for nothing?"%string)
  = unhex "effcdf6ae5eb2fa2d27416d5f184df9c259a7c79"%hex.
Proof. vm_compute. reflexivity. Qed.
Example hmac_sha1_t3 :
  hmac_sha1 (repeat 0xaa 20) (repeat 0xdd 50) = unhex "125d7342b9ac11cd91a39af48aa17b4f63f175d3"%hex.
Proof. vm_compute. reflexivity. Qed.
Example hmac_sha1_t4 :
  hmac_sha1 (unhex "0102030405060708090a0b0c0d0e0f10111213141516171819"%hex) (repeat 0xcd 50)
  = unhex "4c9007f4026250c6bc8414f9bf50c86c2d7235da"%hex.
Proof. vm_compute. reflexivity. Qed.
Example hmac_sha1_t5 :
  hmac_sha1 (repeat 0x0c 20) (bytes_of_string "Test With Truncation"%string)
  = unhex "4c1a03424b55e07fe7f27be1d58bb9324a9a5a04"%hex.
Proof. vm_compute. reflexivity. Qed.
Example hmac_sha1_t6 :
  hmac_sha1 (repeat 0xaa 80)
            (bytes_of_string "Test Using Larger Than Block-Size Key - Hash Key First"%string)
  = unhex "aa4ae5e15272d00e95705637ce8a3b55ed402112"%hex.
Proof. vm_compute. reflexivity. Qed.
Example hmac_sha1_t7 :
  hmac_sha1 (repeat 0xaa 80)
            (bytes_of_string "Test Using Larger Than Block-Size Key and Larger Than One Block-Size Data"%string)
  = unhex "e8e99d0f45237d786d6bbaa7965c7808bbff1a91"%hex.
Proof. vm_compute. reflexivity. Qed.
(* key length exactly at, and one past, the block size (expected values from python hmac) *)
Example hmac_sha1_key64 :
  hmac_sha1 (test_msg 64) (bytes_of_string "abc"%string) = unhex "89e392852da6b647490d3f287218824a2e2101b0"%hex.
Proof. vm_compute. reflexivity. Qed.
Example hmac_sha1_key65 :
  hmac_sha1 (test_msg 65) (bytes_of_string "abc"%string) = unhex "7636c08e7b7c0f0c391ca01d34ef4208399fbcf8"%hex.
Proof. vm_compute. reflexivity. Qed.

Print Assumptions hmac_sha1_unfold.
Print Assumptions hmac_key_length.
Print Assumptions hmac_key_bytes.
Print Assumptions hmac_key_short.
Print Assumptions hmac_key_long.
Print Assumptions hmac_sha1_length.
Print Assumptions hmac_sha1_bytes.
Print Assumptions hmac_sha1_bytesn.
Print Assumptions hmac_sha1_t7.
