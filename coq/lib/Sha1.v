(* SHA-1 (FIPS 180-4) over byte lists.  Executable (vm_compute) and axiom-free.
   Words are [N] values kept below 2^32 by explicit masking.  The generic pieces (32-bit word
   operations, Merkle-Damgard padding prefix, block splitting, test-string helper) are reused by
   Md5.v and Hmac.v. *)
From WS Require Import lib.Bytes.
From Coq Require Import ZifyN ZifyNat ZifyBool.
From Coq.Strings Require String Ascii.      (* not imported: String.length would shadow List.length *)
Import String.StringSyntax.
Local Delimit Scope string_scope with string.
Ltac Zify.zify_post_hook ::= Z.div_mod_to_equations.
Local Open Scope N_scope.

(* ---- 32-bit words ---- *)
Definition mask32 : N := 0xFFFFFFFF.
Definition w32 (x : N) : N := N.land x mask32.
Definition add32 (a b : N) : N := w32 (a + b).
Definition not32 (x : N) : N := N.lxor x mask32.                       (* for x < 2^32 *)
Definition rotl32 (n x : N) : N := w32 (N.lor (N.shiftl x n) (N.shiftr x (32 - n))).   (* x < 2^32, 0 < n < 32 *)

Definition be32 (w : N) : list N := rev (N_to_le 4 w).
Definition be64 (w : N) : list N := rev (N_to_le 8 w).

Fixpoint be_words (l : list N) : list N :=      (* big-endian 32-bit words; trailing 1..3 bytes dropped *)
  match l with
  | a :: b :: c :: d :: r => (a * 16777216 + b * 65536 + c * 256 + d) :: be_words r
  | _ => []
  end.

Lemma be32_length w : length (be32 w) = 4%nat.
Proof. unfold be32. now rewrite rev_length, N_to_le_length. Qed.

Lemma be32_bytes w : bytes (be32 w).
Proof. unfold be32, bytes. apply Forall_rev, N_to_le_bytes. Qed.

Lemma be64_length w : length (be64 w) = 8%nat.
Proof. unfold be64. now rewrite rev_length, N_to_le_length. Qed.

Lemma be64_bytes w : bytes (be64 w).
Proof. unfold be64, bytes. apply Forall_rev, N_to_le_bytes. Qed.

(* ---- padding and block splitting shared by SHA-1 and MD5 ---- *)
Definition md_pad_zeros (len : nat) : nat := ((119 - len mod 64) mod 64)%nat.
(* message, 0x80, then zeros up to 56 mod 64; the caller appends the 8-byte bit length *)
Definition md_pad_prefix (msg : list N) : list N := msg ++ 128 :: repeat 0 (md_pad_zeros (length msg)).

Fixpoint blocks64 (n : nat) (l : list N) : list (list N) :=    (* the first n 64-byte blocks of l *)
  match n with O => [] | S n' => firstn 64 l :: blocks64 n' (skipn 64 l) end.
Definition all_blocks64 (l : list N) : list (list N) := blocks64 (length l / 64) l.

(* ---- SHA-1 proper ---- *)
Definition sha1_pad (msg : list N) : list N := md_pad_prefix msg ++ be64 (8 * N.of_nat (length msg)).

(* Message schedule.  The window [w] holds W[t-1] :: W[t-2] :: ... (most recent first). *)
Definition sha1_sched_next (w : list N) : N :=
  rotl32 1 (N.lxor (N.lxor (nth 2 w 0) (nth 7 w 0)) (N.lxor (nth 13 w 0) (nth 15 w 0))).
Fixpoint sha1_sched_ext (n : nat) (w : list N) : list N :=
  match n with O => w | S n' => sha1_sched_ext n' (sha1_sched_next w :: w) end.
Definition sha1_schedule (block : list N) : list N :=          (* W[0..79] *)
  rev (sha1_sched_ext 64 (rev (be_words block))).

Definition sha1_state : Type := N * N * N * N * N.
Definition sha1_init : sha1_state := (0x67452301, 0xEFCDAB89, 0x98BADCFE, 0x10325476, 0xC3D2E1F0).

Definition sha1_f (t : nat) (x y z : N) : N :=
  if (t <? 20)%nat then N.lxor (N.land x y) (N.land (not32 x) z)                          (* Ch *)
  else if (t <? 40)%nat then N.lxor x (N.lxor y z)                                        (* Parity *)
  else if (t <? 60)%nat then N.lxor (N.land x y) (N.lxor (N.land x z) (N.land y z))       (* Maj *)
  else N.lxor x (N.lxor y z).                                                             (* Parity *)
Definition sha1_k (t : nat) : N :=
  if (t <? 20)%nat then 0x5A827999 else if (t <? 40)%nat then 0x6ED9EBA1
  else if (t <? 60)%nat then 0x8F1BBCDC else 0xCA62C1D6.

Fixpoint sha1_rounds (t : nat) (ws : list N) (s : sha1_state) : sha1_state :=
  match ws with
  | [] => s
  | w :: r =>
      let '(a, b, c, d, e) := s in
      sha1_rounds (S t) r (w32 (rotl32 5 a + sha1_f t b c d + e + sha1_k t + w), a, rotl32 30 b, c, d)
  end.

Definition sha1_block (s : sha1_state) (block : list N) : sha1_state :=      (* one 64-byte block *)
  let '(a, b, c, d, e) := s in
  let '(a', b', c', d', e') := sha1_rounds 0 (sha1_schedule block) s in
  (add32 a a', add32 b b', add32 c c', add32 d d', add32 e e').

Definition sha1_blocks (s : sha1_state) (data : list N) : sha1_state :=      (* whole blocks of data *)
  fold_left sha1_block (all_blocks64 data) s.

Definition sha1_digest (s : sha1_state) : list N :=
  let '(a, b, c, d, e) := s in concat (map be32 [a; b; c; d; e]).

Definition sha1 (msg : list N) : list N := sha1_digest (sha1_blocks sha1_init (sha1_pad msg)).

(* ---- basic facts, for all inputs ---- *)
Lemma sha1_digest_length s : length (sha1_digest s) = 20%nat.
Proof. destruct s as [[[[a b] c] d] e]. reflexivity. Qed.

Lemma sha1_digest_bytes s : bytes (sha1_digest s).
Proof.
  destruct s as [[[[a b] c] d] e]. unfold sha1_digest. apply bytes_concat.
  repeat (apply Forall_cons; [apply be32_bytes|]). apply Forall_nil.
Qed.

Lemma sha1_length m : length (sha1 m) = 20%nat.
Proof. apply sha1_digest_length. Qed.

Lemma sha1_bytes m : bytes (sha1 m).
Proof. apply sha1_digest_bytes. Qed.

Lemma sha1_bytesn m : bytesn 20 (sha1 m).
Proof. split; [apply sha1_length | apply sha1_bytes]. Qed.

Lemma sha1_pad_length m : (length (sha1_pad m) mod 64 = 0)%nat.
Proof.
  unfold sha1_pad, md_pad_prefix, md_pad_zeros.
  rewrite !app_length, be64_length. cbn [length]. rewrite repeat_length. lia.
Qed.

(* ---- test vectors ---- *)
Definition bytes_of_string (s : String.string) : list N :=
  map Ascii.N_of_ascii (String.list_ascii_of_string s).
Definition test_msg (n : nat) : list N := map (fun i => N.of_nat i mod 251) (seq 0 n).   (* byte i = i mod 251 *)

Example sha1_empty : sha1 [] = unhex "da39a3ee5e6b4b0d3255bfef95601890afd80709"%hex.
Proof. vm_compute. reflexivity. Qed.
Example sha1_abc : sha1 (bytes_of_string "abc"%string) = unhex "a9993e364706816aba3e25717850c26c9cd0d89d"%hex.
Proof. vm_compute. reflexivity. Qed.
Example sha1_two_blocks :
  sha1 (bytes_of_string "abcdbcdecdefdefgefghfghighijhijkijkljklmklmnlmnomnopnopq"%string)
  = unhex "84983e441c3bd26ebaae4aa1f95129e5e54670f1"%hex.
Proof. vm_compute. reflexivity. Qed.
Example sha1_1000a : sha1 (repeat 0x61 1000) = unhex "291e9a6c66994949b57ba5e650361e98fc36b1ba"%hex.
Proof. vm_compute. reflexivity. Qed.
Example sha1_len55 : sha1 (test_msg 55) = unhex "8ae2d46729cfe68ff927af5eec9c7d1b66d65ac2"%hex.
Proof. vm_compute. reflexivity. Qed.
Example sha1_len56 : sha1 (test_msg 56) = unhex "636e2ec698dac903498e648bd2f3af641d3c88cb"%hex.
Proof. vm_compute. reflexivity. Qed.
Example sha1_len63 : sha1 (test_msg 63) = unhex "6d942da0c4392b123528f2905c713a3ce28364bd"%hex.
Proof. vm_compute. reflexivity. Qed.
Example sha1_len64 : sha1 (test_msg 64) = unhex "c6138d514ffa2135bfce0ed0b8fac65669917ec7"%hex.
Proof. vm_compute. reflexivity. Qed.
Example sha1_len65 : sha1 (test_msg 65) = unhex "69bd728ad6e13cd76ff19751fde427b00e395746"%hex.
Proof. vm_compute. reflexivity. Qed.
Example sha1_len119 : sha1 (test_msg 119) = unhex "41c89d06001bab4ab78736b44efe7ce18ce6ae08"%hex.
Proof. vm_compute. reflexivity. Qed.
Example sha1_len120 : sha1 (test_msg 120) = unhex "d3dbd653bd8597b7475321b60a36891278e6a04a"%hex.
Proof. vm_compute. reflexivity. Qed.

Print Assumptions sha1_length.
Print Assumptions sha1_bytes.
Print Assumptions sha1_bytesn.
Print Assumptions sha1_pad_length.
Print Assumptions sha1_1000a.
