(* MD5 (RFC 1321) over byte lists.  Executable (vm_compute) and axiom-free.
   Reuses the 32-bit word operations, padding prefix and block splitting of Sha1.v. *)
From WS Require Import lib.Bytes lib.Sha1.
From Coq Require Import ZifyN ZifyNat ZifyBool.
From Coq.Strings Require String Ascii.
Import String.StringSyntax.
Local Delimit Scope string_scope with string.
Ltac Zify.zify_post_hook ::= Z.div_mod_to_equations.
Local Open Scope N_scope.

Fixpoint le_words (l : list N) : list N :=      (* little-endian 32-bit words; trailing 1..3 bytes dropped *)
  match l with
  | a :: b :: c :: d :: r => (a + b * 256 + c * 65536 + d * 16777216) :: le_words r
  | _ => []
  end.

Definition md5_pad (msg : list N) : list N := md_pad_prefix msg ++ le64 (8 * N.of_nat (length msg)).

(* T[i] = floor (2^32 * abs (sin (i+1))) paired with the rotation amount s[i], for i = 0..63 *)
Definition md5_table : list (N * N) :=
  [(0xd76aa478, 7); (0xe8c7b756, 12); (0x242070db, 17); (0xc1bdceee, 22);
   (0xf57c0faf, 7); (0x4787c62a, 12); (0xa8304613, 17); (0xfd469501, 22);
   (0x698098d8, 7); (0x8b44f7af, 12); (0xffff5bb1, 17); (0x895cd7be, 22);
   (0x6b901122, 7); (0xfd987193, 12); (0xa679438e, 17); (0x49b40821, 22);
   (0xf61e2562, 5); (0xc040b340, 9); (0x265e5a51, 14); (0xe9b6c7aa, 20);
   (0xd62f105d, 5); (0x02441453, 9); (0xd8a1e681, 14); (0xe7d3fbc8, 20);
   (0x21e1cde6, 5); (0xc33707d6, 9); (0xf4d50d87, 14); (0x455a14ed, 20);
   (0xa9e3e905, 5); (0xfcefa3f8, 9); (0x676f02d9, 14); (0x8d2a4c8a, 20);
   (0xfffa3942, 4); (0x8771f681, 11); (0x6d9d6122, 16); (0xfde5380c, 23);
   (0xa4beea44, 4); (0x4bdecfa9, 11); (0xf6bb4b60, 16); (0xbebfbc70, 23);
   (0x289b7ec6, 4); (0xeaa127fa, 11); (0xd4ef3085, 16); (0x04881d05, 23);
   (0xd9d4d039, 4); (0xe6db99e5, 11); (0x1fa27cf8, 16); (0xc4ac5665, 23);
   (0xf4292244, 6); (0x432aff97, 10); (0xab9423a7, 15); (0xfc93a039, 21);
   (0x655b59c3, 6); (0x8f0ccc92, 10); (0xffeff47d, 15); (0x85845dd1, 21);
   (0x6fa87e4f, 6); (0xfe2ce6e0, 10); (0xa3014314, 15); (0x4e0811a1, 21);
   (0xf7537e82, 6); (0xbd3af235, 10); (0x2ad7d2bb, 15); (0xeb86d391, 21)].

Definition md5_state : Type := N * N * N * N.
Definition md5_init : md5_state := (0x67452301, 0xefcdab89, 0x98badcfe, 0x10325476).

Definition md5_f (i : nat) (x y z : N) : N :=
  if (i <? 16)%nat then N.lor (N.land x y) (N.land (not32 x) z)          (* F *)
  else if (i <? 32)%nat then N.lor (N.land x z) (N.land y (not32 z))     (* G *)
  else if (i <? 48)%nat then N.lxor x (N.lxor y z)                       (* H *)
  else N.lxor y (N.lor x (not32 z)).                                     (* I *)
Definition md5_g (i : nat) : nat :=                                      (* message word used in step i *)
  (if i <? 16 then i else if i <? 32 then (5 * i + 1) mod 16
   else if i <? 48 then (3 * i + 5) mod 16 else (7 * i) mod 16)%nat.

(* Step i:  a' = d, d' = c, c' = b, b' = b + ((a + f(b,c,d) + X[g i] + T[i]) <<< s[i]) *)
Fixpoint md5_rounds (i : nat) (tbl : list (N * N)) (X : list N) (s : md5_state) : md5_state :=
  match tbl with
  | [] => s
  | (k, sh) :: r =>
      let '(a, b, c, d) := s in
      md5_rounds (S i) r X (d, add32 b (rotl32 sh (w32 (a + md5_f i b c d + nth (md5_g i) X 0 + k))), b, c)
  end.

Definition md5_block (s : md5_state) (block : list N) : md5_state :=        (* one 64-byte block *)
  let '(a, b, c, d) := s in
  let '(a', b', c', d') := md5_rounds 0 md5_table (le_words block) s in
  (add32 a a', add32 b b', add32 c c', add32 d d').

Definition md5_blocks (s : md5_state) (data : list N) : md5_state :=        (* whole blocks of data *)
  fold_left md5_block (all_blocks64 data) s.

Definition md5_digest (s : md5_state) : list N :=
  let '(a, b, c, d) := s in concat (map le32 [a; b; c; d]).

Definition md5 (msg : list N) : list N := md5_digest (md5_blocks md5_init (md5_pad msg)).

(* ---- basic facts, for all inputs ---- *)
Lemma md5_digest_length s : length (md5_digest s) = 16%nat.
Proof. destruct s as [[[a b] c] d]. reflexivity. Qed.

Lemma md5_digest_bytes s : bytes (md5_digest s).
Proof.
  destruct s as [[[a b] c] d]. unfold md5_digest. apply bytes_concat.
  repeat (apply Forall_cons; [apply N_to_le_bytes|]). apply Forall_nil.
Qed.

Lemma md5_length m : length (md5 m) = 16%nat.
Proof. apply md5_digest_length. Qed.

Lemma md5_bytes m : bytes (md5 m).
Proof. apply md5_digest_bytes. Qed.

Lemma md5_bytesn m : bytesn 16 (md5 m).
Proof. split; [apply md5_length | apply md5_bytes]. Qed.

(* ---- RFC 1321 test suite ---- *)
Example md5_t1 : md5 [] = unhex "d41d8cd98f00b204e9800998ecf8427e"%hex.
Proof. vm_compute. reflexivity. Qed.
Example md5_t2 : md5 (bytes_of_string "a"%string) = unhex "0cc175b9c0f1b6a831c399e269772661"%hex.
Proof. vm_compute. reflexivity. Qed.
Example md5_t3 : md5 (bytes_of_string "abc"%string) = unhex "900150983cd24fb0d6963f7d28e17f72"%hex.
Proof. vm_compute. reflexivity. Qed.
Example md5_t4 : md5 (bytes_of_string "message digest"%string) = unhex "f96b697d7cb7938d525a2f31aaf161d0"%hex.
Proof. vm_compute. reflexivity. Qed.
Example md5_t5 :
  md5 (bytes_of_string "abcdefghijklmnopqrstuvwxyz"%string) = unhex "c3fcd3d76192e4007dfb496cca67e13b"%hex.
Proof. vm_compute. reflexivity. Qed.
Example md5_t6 :
  md5 (bytes_of_string "ABCDEFGHIJKLMNOPQRSTUVWXYZabcdefghijklmnopqrstuvwxyz0123456789"%string)
  = unhex "d174ab98d277d9f5a5611c2c9f419d9f"%hex.
Proof. vm_compute. reflexivity. Qed.
Example md5_t7 :
  md5 (bytes_of_string "12345678901234567890123456789012345678901234567890123456789012345678901234567890"%string)
  = unhex "57edf4a22be3c955ac49da2e2107b67a"%hex.
Proof. vm_compute. reflexivity. Qed.
(* padding boundaries and a multi-block message (expected values from python hashlib) *)
Example md5_len55 : md5 (test_msg 55) = unhex "6912ee65fff2d9f9ce2508cddf8bcda0"%hex.
Proof. vm_compute. reflexivity. Qed.
Example md5_len56 : md5 (test_msg 56) = unhex "51fdd1acda72405dfdfa03fcb85896d7"%hex.
Proof. vm_compute. reflexivity. Qed.
Example md5_len64 : md5 (test_msg 64) = unhex "b2d3f56bc197fd985d5965079b5e7148"%hex.
Proof. vm_compute. reflexivity. Qed.
Example md5_len120 : md5 (test_msg 120) = unhex "b7ba1efc6022e9ed272f00b8831e26e6"%hex.
Proof. vm_compute. reflexivity. Qed.
Example md5_1000a : md5 (repeat 0x61 1000) = unhex "cabe45dcc9ae5b66ba86600cca6b8ba8"%hex.
Proof. vm_compute. reflexivity. Qed.

Print Assumptions md5_length.
Print Assumptions md5_bytes.
Print Assumptions md5_bytesn.
Print Assumptions md5_1000a.
