(* Randomness as an explicit tape: the bytes the CSPRNG will produce, in order. *)
From WS Require Import lib.Bytes.
Definition tape := list N.
Definition draw (n : nat) (t : tape) : list N * tape := (firstn n t, skipn n t).
Lemma draw_length n t : n <= length t -> length (fst (draw n t)) = n.
Proof. intros H. unfold draw; cbn [fst]. now rewrite firstn_length_le. Qed.
Lemma draw_app n t : fst (draw n t) ++ snd (draw n t) = t.
Proof. unfold draw; cbn [fst snd]. apply firstn_skipn. Qed.
Lemma draw_bytes n t : bytes t -> bytes (fst (draw n t)) /\ bytes (snd (draw n t)).
Proof. intros H; split; [apply bytes_firstn | apply bytes_skipn]; exact H. Qed.
