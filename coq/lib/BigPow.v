(* Square-and-multiply on Bignums' BigZ (machine-integer limbs): an accelerated evaluator for
   b^e mod m, used ONLY by the correspondence runner (corr/SrpBig.v), which
   proves it equal to the plain-Z powmod the theorems are about; that proof -
   and nothing in props/ - depends on the Uint63 primitive axioms of Coq's standard library. *)
From Coq Require Import ZArith.
From Bignums Require Import BigZ.

Fixpoint powmod_big_pos (b : bigZ) (e : positive) (m : bigZ) : bigZ :=
  match e with
  | xH => BigZ.modulo b m
  | xO e' => let r := powmod_big_pos b e' m in BigZ.modulo (BigZ.mul r r) m
  | xI e' => let r := powmod_big_pos b e' m in BigZ.modulo (BigZ.mul (BigZ.modulo (BigZ.mul r r) m) b) m
  end.

Definition powmod_big (b e m : Z) : Z :=
  match e with
  | Z0 => (1 mod m)%Z
  | Zpos p => BigZ.to_Z (powmod_big_pos (BigZ.of_Z b) p (BigZ.of_Z m))
  | Zneg _ => 0%Z
  end.
