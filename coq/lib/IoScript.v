(* Scripted std::io::Read / std::io::Write and the two std loops built on them.

   This file is a MODELLED DEPENDENCY (documented behaviour of std::io), not repository code.

   A reader is a script: the list of outcomes its successive `read(buf)` calls will have.
     Data bs  : the call has these bytes available.  It returns min(buf.len(), |bs|) of them; the
                bytes that did not fit stay at the head of the script for the next call.
                Data [] is a call returning Ok(0): end of file.
     Fail kd  : the call returns Err(kd).
   An exhausted script is end of file (every further call returns Ok(0)).

   std::io::Read::read_exact (default_read_exact):
       while !buf.is_empty() {
           match this.read(buf) {
               Ok(0) => break,
               Ok(n) => buf = &mut buf[n..],
               Err(ref e) if e.is_interrupted() => {}
               Err(e) => return Err(e),
           }
       }
       if !buf.is_empty() { Err(UnexpectedEof) } else { Ok(()) }

   A writer is the list of outcomes of its successive `write(buf)` calls.
     Accept n : the call takes min(n, buf.len()) bytes; Accept 0 is a call returning Ok(0).
     WFail kd : the call returns Err(kd).
   An exhausted writer script accepts everything it is offered (like Vec<u8>).

   std::io::Write::write_all:
       while !buf.is_empty() {
           match self.write(buf) {
               Ok(0) => return Err(WriteZero),
               Ok(n) => buf = &buf[n..],
               Err(ref e) if e.is_interrupted() => {}
               Err(e) => return Err(e),
           }
       }
       Ok(())
*)
From WS Require Import lib.Bytes lib.Res.

Inductive io_kind := Interrupted | UnexpectedEof | WriteZero | Other (code : N).

Definition io_kind_eqb (a b : io_kind) : bool :=
  match a, b with
  | Interrupted, Interrupted | UnexpectedEof, UnexpectedEof | WriteZero, WriteZero => true
  | Other x, Other y => (x =? y)%N
  | _, _ => false
  end.

Definition is_interrupted (k : io_kind) : bool := match k with Interrupted => true | _ => false end.

(* ---- readers ---- *)
Inductive rd_event := Data (bs : list N) | Fail (kd : io_kind).
Definition rscript := list rd_event.

(* one call of `read` on a buffer of [want] > 0 bytes: the rest of the script and the outcome *)
Definition reader_read (want : nat) (s : rscript) : rscript * res (list N) io_kind :=
  match s with
  | [] => ([], Ok [])
  | Data bs :: r =>
    if (length bs <=? want)%nat then (r, Ok bs)
    else (Data (skipn want bs) :: r, Ok (firstn want bs))
  | Fail kd :: r => (r, Err kd)
  end.

(* read_exact on a buffer of n bytes: the bytes and the rest of the script, or the error.
   Structural recursion on the script; proofs/HeaderIo.v shows that it satisfies the loop equation
   of std written with [reader_read]. *)
Fixpoint read_exact (n : nat) (s : rscript) {struct s} : res (list N * rscript) io_kind :=
  match n with
  | O => Ok ([], s)                                        (* empty buffer: no read call at all *)
  | S _ =>
    match s with
    | [] => Err UnexpectedEof
    | Fail Interrupted :: r => read_exact n r
    | Fail kd :: r => Err kd
    | Data [] :: r => Err UnexpectedEof
    | Data bs :: r =>
      if (length bs <=? n)%nat then
        match read_exact (n - length bs) r with
        | Ok (o, r') => Ok (bs ++ o, r')
        | Err kd => Err kd
        | Panic => Panic
        end
      else Ok (firstn n bs, Data (skipn n bs) :: r)
    end
  end.

(* ---- writers ---- *)
Inductive wr_event := Accept (n : nat) | WFail (kd : io_kind).
Definition wscript := list wr_event.

(* what the writer received, the rest of its script, and the result of write_all *)
Definition wres := (list N * wscript * res unit io_kind)%type.

Definition writer_write (buf : list N) (w : wscript) : wscript * res nat io_kind :=
  match w with
  | [] => ([], Ok (length buf))
  | Accept n :: r => (r, Ok (Nat.min n (length buf)))
  | WFail kd :: r => (r, Err kd)
  end.

Fixpoint write_all (buf : list N) (w : wscript) {struct w} : wres :=
  match buf with
  | [] => ([], w, Ok tt)                                   (* empty buffer: no write call at all *)
  | _ :: _ =>
    match w with
    | [] => (buf, [], Ok tt)
    | WFail Interrupted :: r => write_all buf r
    | WFail kd :: r => ([], r, Err kd)
    | Accept O :: r => ([], r, Err WriteZero)
    | Accept n :: r =>
      let k := Nat.min n (length buf) in
      let '(wr, r', x) := write_all (skipn k buf) r in (firstn k buf ++ wr, r', x)
    end
  end.

(* ---- the two shapes every wrapper of the header modules has ---- *)

(* `let buf = self.encrypt_..(..); write.write_all(&buf)?; Ok(())`
   the cipher call comes first; its new state is kept whatever the writer does *)
Definition write_after {H : Type} (r : nres (H * list N)) (w : wscript) : nres (H * wres) :=
  match r with
  | Ok (h, buf) => Ok (h, write_all buf w)
  | Err e => Err e
  | Panic => Panic
  end.

(* `let mut buf = [0; n]; reader.read_exact(&mut buf)?; Ok(self.decrypt_..(buf))`
   the cipher is not touched before read_exact has returned Ok *)
Definition read_then {H A : Type} (n : nat) (s : rscript) (h : H) (k : H -> list N -> nres (H * A))
  : nres (H * res (A * rscript) io_kind) :=
  match read_exact n s with
  | Ok (buf, rest) =>
    match k h buf with
    | Ok (h', a) => Ok (h', Ok (a, rest))
    | Err e => Err e
    | Panic => Panic
    end
  | Err kd => Ok (h, Err kd)
  | Panic => Panic
  end.

(* ---- vocabulary of the statements about scripts ---- *)

(* an event that neither ends nor fails a read_exact: a non-empty fragment, or an interruption *)
Definition clean (e : rd_event) : Prop :=
  match e with Data (_ :: _) => True | Fail Interrupted => True | _ => False end.
Definition payload (e : rd_event) : list N := match e with Data d => d | Fail _ => [] end.

(* the script hands over exactly the bytes bs, in any fragmentation, with any number of
   interruptions in between, and nothing else happens *)
Definition delivers (s : rscript) (bs : list N) : Prop :=
  Forall clean s /\ concat (map payload s) = bs.

(* what a script can continue with so that a read_exact still waiting for bytes fails with kd:
   its end or a zero-length read (end of file), or an error other than Interrupted *)
Definition stops (tail : rscript) (kd : io_kind) : Prop :=
  match tail with
  | [] => kd = UnexpectedEof
  | Data [] :: _ => kd = UnexpectedEof
  | Fail k :: _ => k = kd /\ kd <> Interrupted
  | Data (_ :: _) :: _ => False
  end.

(* write_all on a writer that remembers what it has been handed so far (for the bodies translated from
   the source by tools/extract_steps.py: the writer is a state threaded through the statements) *)
Definition io_write_all (buf : list N) (ws : list N * wscript) : (list N * wscript) * res unit io_kind :=
  let '(got, w', r) := write_all buf (snd ws) in ((fst ws ++ got, w'), r).
