(* Running a state-passing, possibly panicking call over a list of chunks. *)
From WS Require Import lib.Bytes lib.Res.

Fixpoint run_calls {S : Type} (f : S -> list N -> nres (S * list N)) (s : S) (chunks : list (list N))
  : nres (S * list N) :=
  match chunks with
  | [] => Ok (s, [])
  | c :: r => match f s c with
              | Ok (s', o) => match run_calls f s' r with
                              | Ok (s'', o') => Ok (s'', o ++ o')
                              | Err e => Err e | Panic => Panic end
              | Err e => Err e | Panic => Panic
              end
  end.

(* If one call on a ++ b equals the call on a followed by the call on b, then any chunking
   equals the single call on the concatenation. *)
Lemma run_calls_concat {S : Type} (f : S -> list N -> nres (S * list N)) :
  (forall s, f s [] = Ok (s, [])) ->
  (forall s a b, f s (a ++ b) =
     match f s a with
     | Ok (s', o) => match f s' b with Ok (s'', o') => Ok (s'', o ++ o') | Err e => Err e | Panic => Panic end
     | Err e => Err e | Panic => Panic end) ->
  forall chunks s, run_calls f s chunks = f s (concat chunks).
Proof.
  intros Hnil Happ chunks. induction chunks as [|c r IH]; intros s; cbn [run_calls concat].
  - now rewrite Hnil.
  - rewrite Happ. destruct (f s c) as [[s' o]| |]; try reflexivity. now rewrite IH.
Qed.
