From WS Require Import lib.Bytes lib.Res lib.Calls model.Rc4 model.Wrath corr.Generic.
Local Open Scope N_scope.

(* a header record on the case-file side: size as 4 bytes LE, opcode as 2 bytes LE *)
Fixpoint parse_hs (l : list N) : list (N * N) :=
  match l with
  | a :: b :: c :: d :: e :: f :: r => (le_to_N [a; b; c; d], le_to_N [e; f]) :: parse_hs r
  | _ => []
  end.
Definition enc_h (h : N * N) : list N := N_to_le 4 (fst h) ++ N_to_le 2 (snd h).
Definition enc_hs (hs : list (N * N)) : list N := concat (map enc_h hs).

(* op 3 script: tag 0 then 4 bytes = attempt_decrypt_server_header; tag 1 then 1 byte =
   decrypt_large_server_header; a truncated record or another tag ends the script.
   results: 0 ++ size(4 LE) ++ opcode(2 LE) for Header, the single byte 1 for AdditionalByteRequired,
   2 ++ size(4 LE) ++ opcode(2 LE) for decrypt_large_server_header *)
Fixpoint run_script (d : client_dec) (s : list N) : nres (list N) :=
  match s with
  | [] => Ok []
  | t :: rest =>
    if t =? 0 then
      match rest with
      | a :: b :: c :: e :: r =>
        match attempt_decrypt_server_header d [a; b; c; e] with
        | Ok (d', Header sz op) =>
          match run_script d' r with Ok o => Ok (0 :: enc_h (sz, op) ++ o) | Err x => Err x | Panic => Panic end
        | Ok (d', AdditionalByteRequired) =>
          match run_script d' r with Ok o => Ok (1 :: o) | Err x => Err x | Panic => Panic end
        | Err x => Err x | Panic => Panic
        end
      | _ => Ok []
      end
    else if t =? 1 then
      match rest with
      | b :: r =>
        match decrypt_large_server_header d b with
        | Ok (d', h) =>
          match run_script d' r with Ok o => Ok (2 :: enc_h h ++ o) | Err x => Err x | Panic => Panic end
        | Err x => Err x | Panic => Panic
        end
      | [] => Ok []
      end
    else Ok []
  end.

(* op 1: ServerEncrypterHalf::new(K), encrypt_server_header for each record in order
         in: K, records                 out: status, concatenated wire bytes
   op 2: ClientDecrypterHalf::new(K), two-step decoding of `count` headers
         in: K, wire, count (LE)        out: status, records, number of unread wire bytes (4 bytes LE)
         the wire running out before `count` headers are read gives the status st_err 1
   op 3: ClientDecrypterHalf::new(K) driven by a script
         in: K, script                  out: status, results
   any other op: no output *)
Definition run_C10 : runner := fun op a =>
  match op with
  | 1 => match server_enc_new (arg 0 a) with
         | Ok se => match encode_all se (parse_hs (arg 1 a)) with
                    | Ok (_, wire) => [st_ok; wire]
                    | _ => [st_panic]
                    end
         | _ => [st_panic]
         end
  | 2 => match client_dec_new (arg 0 a) with
         | Ok cd => match decode_two_step cd (arg 1 a) (N.to_nat (argN 2 a)) with
                    | Ok (_, hs, rest) => [st_ok; enc_hs hs; N_to_le 4 (N.of_nat (length rest))]
                    | Err _ => [st_err 1]
                    | Panic => [st_panic]
                    end
         | _ => [st_panic]
         end
  | 3 => match client_dec_new (arg 0 a) with
         | Ok cd => match run_script cd (arg 1 a) with
                    | Ok o => [st_ok; o]
                    | _ => [st_panic]
                    end
         | _ => [st_panic]
         end
  | _ => []
  end.
