From WS Require Import lib.Bytes lib.Res lib.Calls model.HeaderCipher model.Tbc corr.Generic.
Local Open Scope N_scope.

(* op 1: EncrypterHalf::new(K) then encrypt over a chunking   in: K, data, sizes   out: status, bytes, key, index, previous
   op 2: DecrypterHalf::new(K) then decrypt over a chunking   (same) *)
Definition run_C08 : runner := fun op a =>
  let r := match op with
           | 1 => let* h := encrypter_new (arg 0 a) in run_calls encrypt h (split_by (sizes_of (arg 2 a)) (arg 1 a))
           | _ => let* h := decrypter_new (arg 0 a) in run_calls decrypt h (split_by (sizes_of (arg 2 a)) (arg 1 a))
           end in
  match r with
  | Ok (h, out) => [st_ok; out; h_key h; [c_idx (h_st h)]; [c_prev (h_st h)]]
  | _ => [st_panic]
  end.
