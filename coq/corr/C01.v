From WS Require Export corr.Srp corr.SrpBig.
(* evaluated with the accelerated runner; corr/SrpBig.v proves run_SRP_big = run_SRP *)
Definition run_C01 := run_SRP_big.
