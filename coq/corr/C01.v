From WS Require Export corr.Srp.
Definition run_C01 := run_SRP.
