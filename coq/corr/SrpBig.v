(* Accelerated correspondence runner for the SRP operations.
   [run_SRP_abs] is obtained from the model's own runner by delta-unfolding it down to [powmod] and
   abstracting that one function out (no code is duplicated); [run_SRP_big] instantiates it with
   Bignums' machine-integer square-and-multiply.  [run_SRP_big_eq] proves the two runners equal, so
   a case file evaluated with run_SRP_big decides agreement with the plain-Z model the property
   theorems are about.
   Trusted for THIS TIE ONLY (never for a property theorem): the Uint63 primitive axioms of Coq's
   standard library (through Bignums' BigZ.spec_* lemmas) and functional extensionality (stdlib
   axiom), both reported by Print Assumptions below. *)
From WS Require Import lib.Bytes lib.Res lib.Tape lib.BigPow Consts model.Bigint model.Key model.Srp model.Server model.Client
  corr.Generic corr.Srp.
From Bignums Require Import BigZ.
From Coq Require Import FunctionalExtensionality.
Local Open Scope Z_scope.

Definition run_SRP_abs_be (be : backend) : (Z -> Z -> Z -> Z) -> runner :=
  ltac:(let t := eval cbv delta [run_SRP_be op_login op_client op_server into_server_batch
                                 from_username_and_password with_specific_salt into_proof with_specific_private_key
                                 into_server client_new calculate_password_verifier calculate_server_public_key
                                 calculate_S calculate_session_key calculate_client_public_key calculate_client_S
                                 modpow pow_mod_unwrap] in (run_SRP_be be) in
        let t := eval pattern powmod in t in
        match t with ?f powmod => exact f end).

Lemma run_SRP_abs_powmod be : run_SRP_abs_be be powmod = run_SRP_be be.
Proof. reflexivity. Qed.

Lemma powmod_big_pos_spec b e m :
  BigZ.to_Z (powmod_big_pos b e m) = powmod_pos (BigZ.to_Z b) e (BigZ.to_Z m).
Proof.
  induction e as [e IH|e IH|]; cbn [powmod_big_pos powmod_pos].
  - rewrite BigZ.spec_modulo, BigZ.spec_mul, BigZ.spec_modulo, BigZ.spec_mul, IH. reflexivity.
  - rewrite BigZ.spec_modulo, BigZ.spec_mul, IH. reflexivity.
  - apply BigZ.spec_modulo.
Qed.

Theorem powmod_big_eq b e m : powmod_big b e m = powmod b e m.
Proof.
  destruct e as [|p|p]; cbn [powmod_big powmod]; try reflexivity.
  rewrite powmod_big_pos_spec, !BigZ.spec_of_Z. reflexivity.
Qed.

Lemma powmod_big_fun : powmod_big = powmod.
Proof. extensionality b. extensionality e. extensionality m. apply powmod_big_eq. Qed.

Definition run_SRP_big_be (be : backend) : runner := run_SRP_abs_be be powmod_big.

Theorem run_SRP_big_eq be : run_SRP_big_be be = run_SRP_be be.
Proof. unfold run_SRP_big_be. rewrite powmod_big_fun. apply run_SRP_abs_powmod. Qed.

Definition run_SRP_big : runner := run_SRP_big_be Default.
Print Assumptions run_SRP_big_eq.
