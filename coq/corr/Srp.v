(* Correspondence runner shared by C01, C02, C03, C05, C14 and C19 (default back end). *)
From WS Require Import lib.Bytes lib.Res lib.Tape Consts model.Bigint model.Key model.Srp model.Server model.Client corr.Generic.
Local Open Scope N_scope.

Definition enc_pkerr (e : pk_error) : N := match e with PublicKeyIsZero => 0 | PublicKeyModLargeSafePrimeIsZero => 1 end.

(* into_server over a batch of presented proofs: K and M1 are computed once
   (proofs/SrpBatch.v: equal to calling into_server on each proof) *)
Definition into_server_batch (be : backend) (p : srp_proof) (A : list N) (ms : list (list N)) (t : tape)
  : nres (list (res (srp_server * list N * tape) match_err)) :=
  match calculate_session_key be A (pr_B p) (pr_v p) (pr_b p) with
  | Ok sk =>
      let m1 := calculate_client_proof (pr_user p) sk A (pr_B p) (pr_salt p) in
      Ok (map (fun m =>
            if negb (list_eqb m m1) then Err {| me_client_proof := m; me_server_proof := m1 |}
            else let '(chal, t') := draw (N.to_nat reconnect_challenge_data_length) t in
                 Ok ({| ss_user := pr_user p; ss_K := sk; ss_chal := chal |}, calculate_server_proof A m1 sk, t')) ms)
  | _ => Panic
  end.

Fixpoint chunks_of (n : nat) (fuel : nat) (l : list N) : list (list N) :=
  match fuel with
  | O => []
  | S f => match l with [] => [] | _ => firstn n l :: chunks_of n f (skipn n l) end
  end.
Definition split_every (n : nat) (l : list N) : list (list N) := chunks_of n (length l) l.

Definition enc_server_result (r : res (srp_server * list N * tape) match_err) : list N :=
  match r with
  | Ok (s, m2, _) => 0 :: m2 ++ ss_K s ++ ss_chal s
  | Err e => 1 :: me_client_proof e ++ me_server_proof e
  | Panic => [2]
  end.

Fixpoint run_hist (s : srp_server) (t : tape) (att : list (list N)) : list N * list N :=
  match att with
  | [] => ([], [])
  | x :: r => let '(b, s', t') := verify_reconnection_attempt s (firstn 16 x) (skipn 16 x) t in
              let '(vs, cs) := run_hist s' t' r in
              ((if b then 1 else 0) :: vs, ss_chal s' ++ cs)
  end.

Section Run.
Variable be : backend.

(* op 1: full login.  in: U, P, tape (salt 32, b 32, a 32, challenge 16)
         out: ok, v, B, A, M1, M2, K_server, K_client, challenge *)
Definition op_login (a : list (list N)) : list (list N) :=
  let U := arg 0 a in let P := arg 1 a in
  match from_username_and_password be U P (arg 2 a) with
  | Ok (vf, t1) =>
    match into_proof be (from_database_values (username_of vf) (password_verifier_of vf) (salt_of vf)) t1 with
    | Ok (pr, t2) =>
      match client_new be U P generator n_le (pr_B pr) (pr_salt pr) t2 with
      | Ok (cl, t3) =>
        match into_server be pr (cc_A cl) (cc_M1 cl) t3 with
        | Ok (srv, m2, _) =>
          match verify_server_proof cl m2 with
          | Ok c => [st_ok; vf_v vf; pr_B pr; cc_A cl; cc_M1 cl; m2; ss_K srv; sc_K c; ss_chal srv]
          | Err _ => [st_err 2]
          | Panic => [st_panic]
          end
        | Err _ => [st_err 1]
        | Panic => [st_panic]
        end
      | _ => [st_panic]
      end
    | _ => [st_panic]
    end
  | _ => [st_panic]
  end.

(* op 3: client with an announced group.  in: U, P, [g], n', B, salt, tape(32), presented M2s (concat)
         out: ok, A, M1, K, one byte per presented M2 (0 accepted / 1 refused), the computed M2 *)
Definition op_client (a : list (list N)) : list (list N) :=
  match client_new be (arg 0 a) (arg 1 a) (argN 2 a) (arg 3 a) (arg 4 a) (arg 5 a) (arg 6 a) with
  | Ok (cl, _) =>
      let verdicts := map (fun m => match verify_server_proof cl m with Ok _ => 0 | Err _ => 1 | Panic => 2 end)
                          (split_every 20 (arg 7 a)) in
      [st_ok; cc_A cl; cc_M1 cl; cc_K cl; verdicts; calculate_server_proof (cc_A cl) (cc_M1 cl) (cc_K cl)]
  | _ => [st_panic]
  end.

(* op 4: server with stored values.  in: U, v, salt, b (tape), A, presented M1s (concat), tape(16)
         out: ok, B, per presented proof the encoded result | err kind (own key invalid -> documented panic) *)
Definition op_server (a : list (list N)) : list (list N) :=
  match into_proof be (from_database_values (arg 0 a) (arg 1 a) (arg 2 a)) (arg 3 a) with
  | Ok (pr, _) =>
      match into_server_batch be pr (arg 4 a) (split_every 20 (arg 5 a)) (arg 6 a) with
      | Ok rs => [st_ok; pr_B pr; concat (map enc_server_result rs)]
      | _ => [st_panic]
      end
  | _ => [st_panic]
  end.
End Run.

Definition run_SRP_be (be : backend) : runner := fun op a =>
  match op with
  | 1 => op_login be a
  | 2 => match calculate_interleaved (arg 0 a) with Ok k => [st_ok; k] | _ => [st_panic] end
  | 3 => op_client be a
  | 4 => op_server be a
  | 6 => (* reconnect history. in: U, K, challenge, tape, attempts (36 bytes each). out: verdicts, challenges after each attempt *)
         let '(vs, cs) := run_hist {| ss_user := arg 0 a; ss_K := arg 1 a; ss_chal := arg 2 a |} (arg 3 a) (split_every 36 (arg 4 a)) in
         [st_ok; vs; cs]
  | 7 => (* client reconnect values. in: U, K, server challenge, tape(16). out: client challenge, proof *)
         let '((cd, pf), _) := calculate_reconnect_values {| sc_user := arg 0 a; sc_K := arg 1 a |} (arg 2 a) (arg 3 a) in
         [st_ok; cd; pf]
  | 8 => match calculate_server_public_key be (arg 0 a) (arg 1 a) with
         | Ok b => [st_ok; b] | Err e => [st_err (enc_pkerr e)] | Panic => [st_panic] end
  | 9 => match calculate_S be (arg 0 a) (arg 1 a) (arg 2 a) (arg 3 a) with Ok s => [st_ok; s] | _ => [st_panic] end
  | 10 => match calculate_client_S be (arg 0 a) (arg 1 a) (arg 2 a) (arg 3 a) (argN 4 a) (arg 5 a) with
          | Ok s => [st_ok; s] | _ => [st_panic] end
  | 11 => match from_username_and_password be (arg 0 a) (arg 1 a) (arg 2 a) with
          | Ok (vf, _) => [st_ok; vf_v vf; vf_salt vf; vf_user vf] | _ => [st_panic] end
  | 12 => match calculate_client_public_key be (arg 0 a) (argN 1 a) (arg 2 a) with
          | Ok k => [st_ok; k] | Err e => [st_err (enc_pkerr e)] | Panic => [st_panic] end
  (* bigint wrapper operations (hooks), C19 *)
  | 20 => [st_ok; to_bytes_le be (from_bytes_le (arg 0 a))]
  | 21 => match to_padded_32_byte_array_le be (from_bytes_le (arg 0 a)) with Ok x => [st_ok; x] | _ => [st_panic] end
  | 22 => match modpow be (Z.sub (from_bytes_le (arg 0 a)) (from_bytes_le (arg 1 a))) (from_bytes_le (arg 2 a)) (from_bytes_le (arg 3 a)) with
          | Ok r => [st_ok; to_bytes_le be r] | _ => [st_panic] end
  | 23 => match rem (Z.add (Z.mul (from_bytes_le (arg 0 a)) (from_bytes_le (arg 1 a))) (from_bytes_le (arg 2 a))) (from_bytes_le (arg 3 a)) with
          | Ok r => [st_ok; to_bytes_le be r] | _ => [st_panic] end
  | 24 => match rem (from_bytes_le (arg 0 a)) (from_bytes_le (arg 1 a)) with
          | Ok r => [st_ok; [if is_zero (from_bytes_le (arg 0 a)) then 1 else 0]; [if is_zero r then 1 else 0]]
          | _ => [st_panic] end
  | _ => [st_panic]
  end.
Definition run_SRP : runner := run_SRP_be Default.
