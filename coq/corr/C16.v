From WS Require Import lib.Bytes lib.Res model.Pin corr.Generic.
Local Open Scope N_scope.

(* op 1: remap_pin_grid (through the guarded hook remap_pin_grid_for_verif)
         in: seed (4 LE)                                   out: status, grid (10 bytes)
   op 2: calculate_hash
         in: pin (4 LE), seed (4 LE), server_salt (16), client_salt (16)
         out: status, [0]            for None
              status, [1], hash (20) for Some
   op 3: verify_client_pin_hash
         in: pin, seed, server_salt, client_salt, presented hash (20)
         out: status, [0 or 1]                                                              *)
Definition run_C16 : runner := fun op a =>
  match op with
  | 1 => match remap_pin_grid (argN 0 a) with
         | Ok g => [st_ok; g]
         | _ => [st_panic]
         end
  | 2 => match calculate_hash (argN 0 a) (argN 1 a) (arg 2 a) (arg 3 a) with
         | Ok None => [st_ok; [0]]
         | Ok (Some h) => [st_ok; [1]; h]
         | _ => [st_panic]
         end
  | _ => match verify_client_pin_hash (argN 0 a) (argN 1 a) (arg 2 a) (arg 3 a) (arg 4 a) with
         | Ok b => [st_ok; [if b then 1 else 0]]
         | _ => [st_panic]
         end
  end.
