From WS Require Import lib.Bytes lib.Res Consts model.Bigint model.Key corr.Generic.
Local Open Scope N_scope.

Definition enc_pk (r : res (list N) pk_error) : list (list N) :=
  match r with
  | Ok k => [st_ok; k]
  | Err PublicKeyIsZero => [st_err 0]
  | Err PublicKeyModLargeSafePrimeIsZero => [st_err 1]
  | Panic => [st_panic]
  end.

(* op 1: PublicKey::from_le_bytes(key) then as_le_bytes            in: key
   op 2: try_from_bigint(z) (hook: calculate_server_public_key is covered in C03; here z as bytes)
   op 3: client_try_from_bigint(z, n')                              in: z bytes, n' *)
Definition run_C04 : runner := fun op a =>
  match op with
  | 1 => enc_pk (pk_from_le_bytes (arg 0 a))
  | 3 => enc_pk (pk_client_try_from_bigint Default (le_to_Z (arg 0 a)) (arg 1 a))
  | _ => enc_pk (pk_try_from_bigint Default (le_to_Z (arg 0 a)))
  end.
