From WS Require Import lib.Bytes lib.Res lib.Calls model.Rc4 model.Wrath corr.Generic.
Local Open Scope N_scope.

(* op 1: Rc4::new(key) then apply_keystream over a chunking     in: key, data, sizes   out: status, bytes
   op 2: ClientEncrypterHalf::new(K) then encrypt over a chunking in: K,   data, sizes   out: status, bytes
   op 3: ServerDecrypterHalf::new(K) then decrypt   (same layout)
   op 4: ServerEncrypterHalf::new(K) then encrypt   (same layout)
   op 5: ClientDecrypterHalf::new(K) then decrypt   (same layout)
   any other op: no output (never equal to an implementation output) *)
Definition out_of {S : Type} (r : nres (S * list N)) : list (list N) :=
  match r with Ok (_, out) => [st_ok; out] | _ => [st_panic] end.

Definition run_half {H : Type} (new : list N -> nres H) (f : H -> list N -> nres (H * list N))
  (a : list (list N)) : list (list N) :=
  match new (arg 0 a) with
  | Ok h => out_of (run_calls f h (split_by (sizes_of (arg 2 a)) (arg 1 a)))
  | _ => [st_panic]
  end.

Definition run_C09 : runner := fun op a =>
  match op with
  | 1 => run_half rc4_new apply_keystream a
  | 2 => run_half client_enc_new ce_encrypt a
  | 3 => run_half server_dec_new sd_decrypt a
  | 4 => run_half server_enc_new se_encrypt a
  | 5 => run_half client_dec_new cd_decrypt a
  | _ => []
  end.
