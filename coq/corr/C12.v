(* Correspondence runner for C12.  Case layout (integers little-endian):

   op 1  a history on one session's crypto object
           arg 0 = [m; role]    m: 0 vanilla, 1 tbc, 2 wrath;  role (wrath only): 0 the client object
                                (ClientCrypto and its halves), 1 the server object, 2 the client object
                                with its receiving side at header level (a 4-byte Dec is
                                attempt_decrypt_server_header, a 1-byte Dec is
                                decrypt_large_server_header, output = size and opcode as 4 + 4
                                little-endian bytes per completed header; obs is preceded by the
                                header that decrypt_large_server_header(0) would complete: the stash)
           arg 1 = session key (40 bytes): the history starts on the combined object new(K)
           arg 2, 3, ... = the operations, one byte string cut into pieces of at most 2000 bytes
                   (Coq's string literals do not survive tens of kilobytes), records
                     tag len_lo len_hi b_1 .. b_len
                     tag 0 Enc (encrypt the chunk), 1 Dec, 2 Split, 3 Unsplit, 4 Clone (len = 0)
                   an operation that does not apply in the current state is skipped on both sides
           out: status, number of bytes produced by the Enc operations (4), by the Dec operations (4),
                shape ([0] combined, [1] halves), obs, and then all Enc output bytes followed by all
                Dec output bytes, cut into pieces of at most 2000 bytes
           status [0] ran to the end, [1; 0] an unsplit was refused, [2] panicked (then nothing else)
           obs = encrypter half then decrypter half:  vanilla  index, previous;
                 tbc  key (20), index, previous;  wrath  8 zero bytes sent through the half afterwards
   op 2  vanilla re-joining of halves of two sessions
           arg 0 = K1 (the encrypter half comes from new(K1)), arg 1 = K2 (the decrypter half from new(K2)),
           arg 2 = bytes first encrypted on the encrypter half, arg 3 = bytes first decrypted on the other
           out: [is_pair_of], [0] joined | [1] refused, and when joined the obs of the combined object
   any other op / selector: no output *)
From WS Require Import lib.Bytes lib.Res lib.Calls lib.IoScript model.HeaderCipher model.Rc4 model.HeaderIo
  corr.Generic corr.C11.
Local Open Scope N_scope.

Fixpoint parse_ops (fuel : nat) (l : list N) : list op :=
  match fuel with
  | O => []
  | S f =>
    match l with
    | t :: lo :: hi :: r =>
      let n := N.to_nat (lo + 256 * hi) in
      match t with
      | 0 => Enc (firstn n r) :: parse_ops f (skipn n r)
      | 1 => Dec (firstn n r) :: parse_ops f (skipn n r)
      | 2 => Split :: parse_ops f (skipn n r)
      | 3 => Unsplit :: parse_ops f (skipn n r)
      | 4 => Clone :: parse_ops f (skipn n r)
      | _ => []
      end
    | _ => []
    end
  end.

Fixpoint pieces (fuel n : nat) (l : list N) : list (list N) :=
  match fuel with
  | O => []
  | S f => match l with [] => [] | _ :: _ => firstn n l :: pieces f n (skipn n l) end
  end.

Definition shape {C E D} (o : @obj C E D) : list N := match o with Combined _ => [0] | Halves _ _ => [1] end.

Definition out_of_run {C E D} (obs : E * D -> list N) (split : C -> E * D)
  (r : res (@obj C E D * list N * list N) unit) : list (list N) :=
  match r with
  | Ok (o, oe, od) =>
    [st_ok; N_to_le 4 (N.of_nat (length oe)); N_to_le 4 (N.of_nat (length od)); shape o; obs (view split o)]
    ++ pieces (length (oe ++ od)) 2000 (oe ++ od)
  | Err _ => [st_err 0]
  | Panic => [st_panic]
  end.

(* what decrypt_large_server_header(0) would complete from the stashed four bytes *)
Definition stash_obs (d : W.client_dec) : list N :=
  match W.decrypt_large_server_header d 0 with Ok (_, so) => hdr_bytes so | _ => [] end.

Definition run_C12 : runner := fun op a =>
  match op with
  | 1 =>
    let m := nth 0 (arg 0 a) 9 in
    let role := nth 1 (arg 0 a) 9 in
    let K := arg 1 a in
    let opb := concat (skipn 2 a) in
    let ops := parse_ops (length opb) opb in
    match m with
    | 0 => out_of_run (fun p => v_obs (fst p) ++ v_obs (snd p)) V.split (v_run (Combined (V.crypto_new K)) ops)
    | 1 => match T.crypto_new K with
           | Ok c => out_of_run (fun p => t_obs (fst p) ++ t_obs (snd p)) T.split (t_run (Combined c) ops)
           | _ => [st_panic]
           end
    | 2 => if role =? 0 then
             match W.client_crypto_new K with
             | Ok c => out_of_run (fun p => probe W.ce_encrypt (fst p) ++ probe W.cd_decrypt (snd p)) W.cc_split
                                  (wc_run (Combined c) ops)
             | _ => [st_panic]
             end
           else if role =? 2 then
             match W.client_crypto_new K with
             | Ok c => out_of_run (fun p => stash_obs (snd p) ++ probe W.ce_encrypt (fst p) ++ probe W.cd_decrypt (snd p)) W.cc_split
                                  (wch_run (Combined c) ops)
             | _ => [st_panic]
             end
           else if role =? 1 then
             match W.server_crypto_new K with
             | Ok c => out_of_run (fun p => probe W.se_encrypt (fst p) ++ probe W.sd_decrypt (snd p)) W.sc_split
                                  (ws_run (Combined c) ops)
             | _ => [st_panic]
             end
           else []
    | _ => []
    end
  | 2 =>
    match V.encrypt (V.half_new (arg 0 a)) (arg 2 a), V.decrypt (V.half_new (arg 1 a)) (arg 3 a) with
    | Ok (e, _), Ok (d, _) =>
      [[if V.is_pair_of e d then 1 else 0]] ++
      match V.unsplit e d with
      | Ok c => [[0]; vc_obs c]
      | Err _ => [[1]]
      | Panic => [st_panic]
      end
    | _, _ => [st_panic]
    end
  | _ => []
  end.
