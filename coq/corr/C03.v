From WS Require Export corr.Srp.
Definition run_C03 := run_SRP.
