From WS Require Import lib.Bytes lib.Res model.NormalizedString corr.Generic.
Local Open Scope N_scope.

(* A string is shipped as its sequence of scalar values, three little-endian bytes each.

   op 1: NormalizedString::new     in: scalars
         out: ok, text bytes (as_ref), array (16 bytes), [length]
            | err 0                          StringTooLong
            | err 1, scalar (3 LE bytes)     CharacterNotAllowed(c)
            | panic
   op 2: == and cmp of two accepted strings     in: scalars1, scalars2
         out: ok, [1 if equal else 0], [0 Less | 1 Equal | 2 Greater]
            | err 0                          one of the two was refused
   op 3..6: from_str, from_string, TryFrom<&str>, TryFrom<String>     same layout as op 1          *)
Fixpoint scalars_of (l : list N) : list N :=
  match l with a :: b :: c :: r => (a + 256 * b + 65536 * c) :: scalars_of r | _ => [] end.

Definition out_new (r : res nstr ns_error) : list (list N) :=
  match r with
  | Ok t => match ns_as_ref t with
            | Ok txt => [st_ok; txt; ns_arr t; [ns_len t]]
            | _ => [st_panic]
            end
  | Err StringTooLong => [st_err 0]
  | Err (CharacterNotAllowed c) => [st_err 1; N_to_le 3 c]
  | Panic => [st_panic]
  end.

Definition cmp_code (c : comparison) : N := match c with Lt => 0 | Eq => 1 | Gt => 2 end.

Definition run_C13 : runner := fun op a =>
  match op with
  | 1 => out_new (ns_new (scalars_of (arg 0 a)))
  | 2 => match ns_new (scalars_of (arg 0 a)), ns_new (scalars_of (arg 1 a)) with
         | Ok t1, Ok t2 => [st_ok; [if ns_eqb t1 t2 then 1 else 0]; [cmp_code (ns_cmp t1 t2)]]
         | Panic, _ | _, Panic => [st_panic]
         | _, _ => [st_err 0]
         end
  | 3 => out_new (ns_from_str (scalars_of (arg 0 a)))
  | 4 => out_new (ns_from_string (scalars_of (arg 0 a)))
  | 5 => out_new (ns_try_from_str (scalars_of (arg 0 a)))
  | _ => out_new (ns_try_from_string (scalars_of (arg 0 a)))
  end.

(* hand-made cases: the runner decodes, runs and encodes as described *)
Definition selftest_C13 : list case := [
  (* Alice *)
  K 1 ["4100006c0000690000630000650000"%hex]
      ["00"%hex; "414c494345"%hex; "414c4943450000000000000000000000"%hex; "05"%hex];
  (* empty *)
  K 1 [""%hex] ["0100"%hex];
  (* U+00E9 *)
  K 1 ["e90000"%hex] ["0101"%hex; "e90000"%hex];
  (* a, U+10FFFF *)
  K 1 ["610000ffff10"%hex] ["0101"%hex; "ffff10"%hex];
  (* five U+20AC and U+00E9: 17 bytes *)
  K 1 ["ac2000ac2000ac2000ac2000ac2000e90000"%hex] ["0100"%hex];
  (* five U+20AC and A: 16 bytes *)
  K 1 ["ac2000ac2000ac2000ac2000ac2000410000"%hex] ["0101"%hex; "ac2000"%hex];
  (* ab = AB ; ab < ABC ; b > AZ *)
  K 2 ["610000620000"%hex; "410000420000"%hex] ["00"%hex; "01"%hex; "01"%hex];
  K 2 ["610000620000"%hex; "410000420000430000"%hex] ["00"%hex; "00"%hex; "00"%hex];
  K 2 ["620000"%hex; "4100005a0000"%hex] ["00"%hex; "00"%hex; "02"%hex];
  K 2 ["620000"%hex; ""%hex] ["0100"%hex];
  (* the other constructors *)
  K 3 ["7a0000"%hex] ["00"%hex; "5a"%hex; "5a000000000000000000000000000000"%hex; "01"%hex];
  K 4 ["7f0000"%hex] ["0101"%hex; "7f0000"%hex];
  K 5 ["7e0000"%hex] ["00"%hex; "7e"%hex; "7e000000000000000000000000000000"%hex; "01"%hex];
  K 6 ["200000"%hex] ["00"%hex; "20"%hex; "20000000000000000000000000000000"%hex; "01"%hex]
].

Example selftest_C13_passes : failing run_C13 selftest_C13 = [].
Proof. vm_compute. reflexivity. Qed.

(* a wrong expected output is flagged, so the check above is not vacuous *)
Example selftest_C13_detects :
  failing run_C13 [K 1 ["610000"%hex] ["00"%hex; "61"%hex; "61000000000000000000000000000000"%hex; "01"%hex]] = [0].
Proof. vm_compute. reflexivity. Qed.
