From WS Require Import lib.Bytes lib.Res model.Integrity corr.Generic.
Local Open Scope N_scope.
(* op 1 windows / op 2 mac: in: f1 f2 f3 f4 f5 salt key     op 3 generic: in: files salt key     op 4 reconnect: in: salt *)
Definition run_C17 : runner := fun op a =>
  match op with
  | 1 => [st_ok; login_integrity_check_windows (arg 0 a) (arg 1 a) (arg 2 a) (arg 3 a) (arg 4 a) (arg 5 a) (arg 6 a)]
  | 2 => [st_ok; login_integrity_check_mac (arg 0 a) (arg 1 a) (arg 2 a) (arg 3 a) (arg 4 a) (arg 5 a) (arg 6 a)]
  | 3 => [st_ok; login_integrity_check_generic (arg 0 a) (arg 1 a) (arg 2 a)]
  | _ => [st_ok; reconnect_integrity_check (arg 0 a)]
  end.
