From WS Require Import lib.Bytes lib.Res model.MatrixCard model.MatrixProof corr.Generic.
Local Open Scope N_scope.

(* op 1: MatrixCard::from_data, get_number_at_coordinates(x, y), to_printer()
         in: [digit_count], [height], [width], data, [x], [y]
         out: [1; 0]                                     from_data returned None
              status, cell digits (raw bytes), the String printed at index y*width + x as its ASCII
                bytes (empty if the printer has fewer cells), number of printed cells (4 LE)
              [2]                                        either call panicked
   op 2: MatrixCardVerifier::new(count, height, seed, width, _) then get_matrix_coordinates(round)
         for round = 0, 1, ..., 255
         in: [width], [height], [challenge_count], seed (8 LE)
         out: status, one string of 256 * 3 bytes: (0,0,0) for None, (1,x,y) for Some((x,y))
              [2]                                        new or any of the 256 calls panicked
   op 3: MatrixCardVerifier::new(count, height, seed, width, K), enter_value(d) for every entered
         digit d in order, into_proof()
         in: [count], [height], seed (8 LE), [width], K (40), entered digits
         out: status, proof (20)
              [2]                                        a call panicked
   op 4: MatrixCard::from_data(digit_count, height, width, data) then
         verify_matrix_card_hash(&card, count, seed, K, presented proof)
         in: [digit_count], [height], [width], data, [count], seed (8 LE), K (40), presented proof (20)
         out: [1; 0]                                     from_data returned None
              status, [0 or 1]
              [2]                                        verify_matrix_card_hash panicked      *)
Fixpoint rounds_out (count w h : N) (cs : list N) (rounds : list N) : option (list N) :=
  match rounds with
  | [] => Some []
  | r :: rest =>
    match get_matrix_coordinates count w h cs r, rounds_out count w h cs rest with
    | Ok None, Some o => Some (0 :: 0 :: 0 :: o)
    | Ok (Some (x, y)), Some o => Some (1 :: x :: y :: o)
    | _, _ => None
    end
  end.

Definition run_C18 : runner := fun op a =>
  match op with
  | 1 =>
    let w := argN 2 a in let x := argN 4 a in let y := argN 5 a in
    match from_data (argN 0 a) (argN 1 a) w (arg 3 a) with
    | None => [st_err 0]
    | Some c =>
      match get_number_at_coordinates c x y, printer_strings c with
      | Ok cell, Ok strs =>
        [st_ok; cell;
         match nth_error strs (N.to_nat (y * w + x)) with Some s => s | None => [] end;
         le32 (N.of_nat (length strs))]
      | _, _ => [st_panic]
      end
    end
  | 2 =>
    let w := argN 0 a in let h := argN 1 a in let count := argN 2 a in
    match generate_coordinates w h count (argN 3 a) with
    | Ok cs => match rounds_out count w h cs (map N.of_nat (seq 0 (N.to_nat 256))) with
               | Some o => [st_ok; o]
               | None => [st_panic]
               end
    | _ => [st_panic]
    end
  | 3 =>
    match client_proof_of (argN 0 a) (argN 1 a) (argN 2 a) (argN 3 a) (arg 4 a) (arg 5 a) with
    | Ok p => [st_ok; p]
    | _ => [st_panic]
    end
  | _ =>
    match from_data (argN 0 a) (argN 1 a) (argN 2 a) (arg 3 a) with
    | None => [st_err 0]
    | Some c =>
      match verify_matrix_card_hash c (argN 4 a) (argN 5 a) (arg 6 a) (arg 7 a) with
      | Ok b => [st_ok; [if b then 1 else 0]]
      | _ => [st_panic]
      end
    end
  end.
