From WS Require Export corr.Srp.
From WS Require Import model.Bigint.
Definition run_C19_default := run_SRP_be Default.
Definition run_C19_fast := run_SRP_be Fast.
Definition run_C19 := run_C19_default.
