From WS Require Export corr.Srp corr.SrpBig.
From WS Require Import model.Bigint.
(* evaluated with the accelerated runner; corr/SrpBig.v proves run_SRP_big_be be = run_SRP_be be *)
Definition run_C19_default := run_SRP_big_be Default.
Definition run_C19_fast := run_SRP_big_be Fast.
Definition run_C19 := run_C19_default.
