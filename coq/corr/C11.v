(* Correspondence runner for C11.  Case layout (all integers little-endian):

   every case:  arg 0 = selector [m; kind; facade]
                   m      0 vanilla, 1 tbc, 2 wrath
                   kind   0 server header, 1 client header
                          (vanilla/tbc: both kinds live on the same halves; wrath: kind 0 is
                           ServerEncrypterHalf / ClientDecrypterHalf, kind 1 is ClientEncrypterHalf /
                           ServerDecrypterHalf, and the facade is ServerCrypto or ClientCrypto
                           accordingly)
                   facade 0 the half, 1 the combined object
                arg 1 = session key (40 bytes): the object is made by new(K)
                arg 2 = `pre`: bytes first sent through the raw encrypt (ops 1, 3) or raw decrypt
                        (ops 2, 4) of the same object, to start from an arbitrary cipher state

   op 1  typed encrypt helper          arg 3 = size (4) ++ opcode (4)
           out: status, header bytes, obs
   op 2  typed decrypt helper          arg 3 = the array (4 or 6 bytes).  Wrath kind 0: 4 or 5 bytes;
           attempt_decrypt_server_header on the first four, and when it answers
           AdditionalByteRequired and a fifth byte is present, decrypt_large_server_header on it
           out: status, hrec, obs
   op 3  write_encrypted_X             arg 3 = size ++ opcode, arg 4 = writer script
           out: status, iores, bytes the writer received, obs
   op 4  read_and_decrypt_X            arg 3 = reader script, arg 4 = resume byte (empty or 1 byte)
           out: status, iores, hrec (empty on Err), number of unread data bytes left in the script
                (2 bytes; empty on Err), obs
                and, when the read returned Err and arg 4 holds a byte (Wrath kind 0 only):
                hrec of decrypt_large_server_header on that byte, obs after it
   any other op / selector: no output (never equal to an implementation output)

   status  [0] returned, [2] panicked (then nothing else)
   iores   [0] = Ok, [1; code] = Err(kind)
   kind codes: 0 Interrupted, 1 UnexpectedEof, 2 WriteZero, 3 + i = the i-th entry of the harness'
           fixed list of other io::ErrorKinds
   hrec    [0] ++ size (4) ++ opcode (4) = a header;  [1] = AdditionalByteRequired
   reader script: records  0 len b_1 .. b_len  (Data)  |  1 code  (Fail)
   writer script: records  0 n  (Accept n)             |  1 code  (WFail)
   obs (the cipher state made observable), the acting half, or enc half then dec half for a facade:
           vanilla  index, previous               tbc  key (20), index, previous
           wrath    the result of sending 8 zero bytes through the raw call afterwards *)
From WS Require Import lib.Bytes lib.Res lib.Calls lib.IoScript model.HeaderCipher model.Rc4 model.HeaderIo corr.Generic.
Local Open Scope N_scope.

Definition kind_of (c : N) : io_kind :=
  match c with 0 => Interrupted | 1 => UnexpectedEof | 2 => WriteZero | _ => Other (c - 3) end.
Definition code_of (k : io_kind) : N :=
  match k with Interrupted => 0 | UnexpectedEof => 1 | WriteZero => 2 | Other c => 3 + c end.

Fixpoint parse_rs (fuel : nat) (l : list N) : rscript :=
  match fuel with
  | O => []
  | S f =>
    match l with
    | 0 :: n :: r => Data (firstn (N.to_nat n) r) :: parse_rs f (skipn (N.to_nat n) r)
    | 1 :: k :: r => Fail (kind_of k) :: parse_rs f r
    | _ => []
    end
  end.
Fixpoint parse_ws (l : list N) : wscript :=
  match l with
  | 0 :: n :: r => Accept (N.to_nat n) :: parse_ws r
  | 1 :: k :: r => WFail (kind_of k) :: parse_ws r
  | _ => []
  end.
Definition left_in (s : rscript) : N :=
  N.of_nat (length (concat (map (fun e => match e with Data d => d | Fail _ => [] end) s))).

Definition iores_bytes {A} (x : res A io_kind) : list N :=
  match x with Ok _ => [0] | Err k => [1; code_of k] | Panic => [2] end.
Definition hrec (h : hdr) : list N := 0 :: N_to_le 4 (fst h) ++ N_to_le 4 (snd h).
Definition size_of (a : list N) : N := le_to_N (firstn 4 a).
Definition opcode_of (a : list N) : N := le_to_N (skipn 4 a).
Definition zeros8 : list N := repeat 0 8.

(* an encrypting endpoint and a decrypting endpoint, whatever object stands behind them *)
Record enc_ep (S : Type) := {
  ee_raw : S -> list N -> nres (S * list N);
  ee_hdr : S -> N -> N -> nres (S * list N);
  ee_write : S -> wscript -> N -> N -> nres (S * wres);
  ee_obs : S -> list N }.
Record dec_ep (S : Type) := {
  de_raw : S -> list N -> nres (S * list N);
  de_hdr : S -> list N -> nres (S * list N);                                   (* hrec *)
  de_read : S -> rscript -> nres (S * res (hdr * rscript) io_kind);
  de_resume : S -> N -> nres (S * list N);                                     (* hrec *)
  de_obs : S -> list N }.
Arguments ee_raw {S}. Arguments ee_hdr {S}. Arguments ee_write {S}. Arguments ee_obs {S}.
Arguments de_raw {S}. Arguments de_hdr {S}. Arguments de_read {S}. Arguments de_resume {S}. Arguments de_obs {S}.

Definition run_enc {S} (ep : enc_ep S) (s0 : nres S) (op : N) (a : list (list N)) : list (list N) :=
  match s0 with
  | Ok s =>
    match ee_raw ep s (arg 2 a) with
    | Ok (s1, _) =>
      match op with
      | 1 => match ee_hdr ep s1 (size_of (arg 3 a)) (opcode_of (arg 3 a)) with
             | Ok (s2, bytes) => [st_ok; bytes; ee_obs ep s2]
             | _ => [st_panic]
             end
      | _ => match ee_write ep s1 (parse_ws (arg 4 a)) (size_of (arg 3 a)) (opcode_of (arg 3 a)) with
             | Ok (s2, (wr, _, x)) => [st_ok; iores_bytes x; wr; ee_obs ep s2]
             | _ => [st_panic]
             end
      end
    | _ => [st_panic]
    end
  | _ => [st_panic]
  end.

Definition run_dec {S} (ep : dec_ep S) (s0 : nres S) (op : N) (a : list (list N)) : list (list N) :=
  match s0 with
  | Ok s =>
    match de_raw ep s (arg 2 a) with
    | Ok (s1, _) =>
      match op with
      | 2 => match de_hdr ep s1 (arg 3 a) with
             | Ok (s2, r) => [st_ok; r; de_obs ep s2]
             | _ => [st_panic]
             end
      | _ => match de_read ep s1 (parse_rs (length (arg 3 a)) (arg 3 a)) with
             | Ok (s2, Ok (h, rest)) => [st_ok; [0]; hrec h; N_to_le 2 (left_in rest); de_obs ep s2]
             | Ok (s2, Err k) =>
               match arg 4 a with
               | b :: _ => match de_resume ep s2 b with
                           | Ok (s3, r) => [st_ok; [1; code_of k]; []; []; de_obs ep s2; r; de_obs ep s3]
                           | _ => [st_panic]
                           end
               | [] => [st_ok; [1; code_of k]; []; []; de_obs ep s2]
               end
             | _ => [st_panic]
             end
      end
    | _ => [st_panic]
    end
  | _ => [st_panic]
  end.

Definition with_hrec {S} (r : nres (S * hdr)) : nres (S * list N) :=
  match r with Ok (s, h) => Ok (s, hrec h) | Err e => Err e | Panic => Panic end.
Definition no_resume {S} (s : S) (_ : N) : nres (S * list N) := Panic.

(* ---- observations ---- *)
Definition v_obs (h : V.half) : list N := [c_idx (V.h_st h); c_prev (V.h_st h)].
Definition vc_obs (c : V.crypto) : list N := v_obs (V.cr_enc c) ++ v_obs (V.cr_dec c).
Definition t_obs (h : T.half) : list N := T.h_key h ++ [c_idx (T.h_st h); c_prev (T.h_st h)].
Definition tc_obs (c : T.crypto) : list N := t_obs (T.cr_enc c) ++ t_obs (T.cr_dec c).
Definition probe {S} (f : S -> list N -> nres (S * list N)) (s : S) : list N :=
  match f s zeros8 with Ok (_, o) => o | _ => [] end.
Definition cc_obs (c : W.client_crypto) : list N := probe W.cc_encrypt c ++ probe W.cc_decrypt c.
Definition sc_obs (c : W.server_crypto) : list N := probe W.sc_encrypt c ++ probe W.sc_decrypt c.

(* ---- vanilla ---- *)
Definition v_enc_ep (kind : N) : enc_ep V.half :=
  if kind =? 0
  then {| ee_raw := V.encrypt; ee_hdr := V.encrypt_server_header; ee_write := v_write_encrypted_server_header; ee_obs := v_obs |}
  else {| ee_raw := V.encrypt; ee_hdr := V.encrypt_client_header; ee_write := v_write_encrypted_client_header; ee_obs := v_obs |}.
Definition vc_enc_ep (kind : N) : enc_ep V.crypto :=
  if kind =? 0
  then {| ee_raw := V.crypto_encrypt; ee_hdr := v_crypto_encrypt_server_header;
          ee_write := v_crypto_write_encrypted_server_header; ee_obs := vc_obs |}
  else {| ee_raw := V.crypto_encrypt; ee_hdr := v_crypto_encrypt_client_header;
          ee_write := v_crypto_write_encrypted_client_header; ee_obs := vc_obs |}.
Definition v_dec_ep (kind : N) : dec_ep V.half :=
  if kind =? 0
  then {| de_raw := V.decrypt; de_hdr := fun h d => with_hrec (V.decrypt_server_header h d);
          de_read := v_read_and_decrypt_server_header; de_resume := no_resume; de_obs := v_obs |}
  else {| de_raw := V.decrypt; de_hdr := fun h d => with_hrec (V.decrypt_client_header h d);
          de_read := v_read_and_decrypt_client_header; de_resume := no_resume; de_obs := v_obs |}.
Definition vc_dec_ep (kind : N) : dec_ep V.crypto :=
  if kind =? 0
  then {| de_raw := V.crypto_decrypt; de_hdr := fun c d => with_hrec (v_crypto_decrypt_server_header c d);
          de_read := v_crypto_read_and_decrypt_server_header; de_resume := no_resume; de_obs := vc_obs |}
  else {| de_raw := V.crypto_decrypt; de_hdr := fun c d => with_hrec (V.crypto_decrypt_client_header c d);
          de_read := v_crypto_read_and_decrypt_client_header; de_resume := no_resume; de_obs := vc_obs |}.

(* ---- tbc ---- *)
Definition t_enc_ep (kind : N) : enc_ep T.half :=
  if kind =? 0
  then {| ee_raw := T.encrypt; ee_hdr := T.encrypt_server_header; ee_write := t_write_encrypted_server_header; ee_obs := t_obs |}
  else {| ee_raw := T.encrypt; ee_hdr := T.encrypt_client_header; ee_write := t_write_encrypted_client_header; ee_obs := t_obs |}.
Definition tc_enc_ep (kind : N) : enc_ep T.crypto :=
  if kind =? 0
  then {| ee_raw := T.crypto_encrypt; ee_hdr := t_crypto_encrypt_server_header;
          ee_write := t_crypto_write_encrypted_server_header; ee_obs := tc_obs |}
  else {| ee_raw := T.crypto_encrypt; ee_hdr := t_crypto_encrypt_client_header;
          ee_write := t_crypto_write_encrypted_client_header; ee_obs := tc_obs |}.
Definition t_dec_ep (kind : N) : dec_ep T.half :=
  if kind =? 0
  then {| de_raw := T.decrypt; de_hdr := fun h d => with_hrec (t_decrypt_server_header h d);
          de_read := t_read_and_decrypt_server_header; de_resume := no_resume; de_obs := t_obs |}
  else {| de_raw := T.decrypt; de_hdr := fun h d => with_hrec (t_decrypt_client_header h d);
          de_read := t_read_and_decrypt_client_header; de_resume := no_resume; de_obs := t_obs |}.
Definition tc_dec_ep (kind : N) : dec_ep T.crypto :=
  if kind =? 0
  then {| de_raw := T.crypto_decrypt; de_hdr := fun c d => with_hrec (t_crypto_decrypt_server_header c d);
          de_read := t_crypto_read_and_decrypt_server_header; de_resume := no_resume; de_obs := tc_obs |}
  else {| de_raw := T.crypto_decrypt; de_hdr := fun c d => with_hrec (t_crypto_decrypt_client_header c d);
          de_read := t_crypto_read_and_decrypt_client_header; de_resume := no_resume; de_obs := tc_obs |}.

(* ---- wrath ---- *)
Definition wse_ep : enc_ep W.server_enc :=
  {| ee_raw := W.se_encrypt; ee_hdr := W.encrypt_server_header; ee_write := w_write_encrypted_server_header;
     ee_obs := probe W.se_encrypt |}.
Definition wce_ep : enc_ep W.client_enc :=
  {| ee_raw := W.ce_encrypt; ee_hdr := W.encrypt_client_header; ee_write := w_write_encrypted_client_header;
     ee_obs := probe W.ce_encrypt |}.
Definition wsc_enc_ep : enc_ep W.server_crypto :=
  {| ee_raw := W.sc_encrypt; ee_hdr := W.sc_encrypt_server_header; ee_write := sc_write_encrypted_server_header;
     ee_obs := sc_obs |}.
Definition wcc_enc_ep : enc_ep W.client_crypto :=
  {| ee_raw := W.cc_encrypt; ee_hdr := W.cc_encrypt_client_header; ee_write := cc_write_encrypted_client_header;
     ee_obs := cc_obs |}.

(* the array protocol for a server header: attempt on the first four bytes, the fifth if asked for *)
Definition two_step_array {S} (attempt : S -> list N -> nres (S * W.attempt)) (large : S -> N -> nres (S * hdr))
  (s : S) (data : list N) : nres (S * list N) :=
  match attempt s (firstn 4 data) with
  | Ok (s1, W.Header sz op) => Ok (s1, hrec (sz, op))
  | Ok (s1, W.AdditionalByteRequired) =>
    match skipn 4 data with
    | b :: _ => with_hrec (large s1 b)
    | [] => Ok (s1, [1])
    end
  | Err e => Err e | Panic => Panic
  end.

Definition wcd_ep : dec_ep W.client_dec :=
  {| de_raw := W.cd_decrypt;
     de_hdr := two_step_array W.attempt_decrypt_server_header W.decrypt_large_server_header;
     de_read := w_read_and_decrypt_server_header;
     de_resume := fun h b => with_hrec (W.decrypt_large_server_header h b);
     de_obs := probe W.cd_decrypt |}.
Definition wsd_ep : dec_ep W.server_dec :=
  {| de_raw := W.sd_decrypt; de_hdr := fun h d => with_hrec (W.decrypt_client_header h d);
     de_read := w_read_and_decrypt_client_header; de_resume := no_resume; de_obs := probe W.sd_decrypt |}.
Definition wcc_dec_ep : dec_ep W.client_crypto :=
  {| de_raw := W.cc_decrypt;
     de_hdr := two_step_array W.cc_attempt_decrypt_server_header W.cc_decrypt_large_server_header;
     de_read := cc_read_and_decrypt_server_header;
     de_resume := fun c b => with_hrec (W.cc_decrypt_large_server_header c b);
     de_obs := cc_obs |}.
Definition wsc_dec_ep : dec_ep W.server_crypto :=
  {| de_raw := W.sc_decrypt; de_hdr := fun c d => with_hrec (W.sc_decrypt_client_header c d);
     de_read := sc_read_and_decrypt_client_header; de_resume := no_resume; de_obs := sc_obs |}.

Definition t_enc_of (K : list N) : nres T.half := T.encrypter_new K.
Definition t_dec_of (K : list N) : nres T.half := T.decrypter_new K.

Definition run_C11 : runner := fun op a =>
  let m := nth 0 (arg 0 a) 9 in
  let kind := nth 1 (arg 0 a) 9 in
  let facade := nth 2 (arg 0 a) 9 in
  let K := arg 1 a in
  let enc := orb (op =? 1) (op =? 3) in
  let dec := orb (op =? 2) (op =? 4) in
  if negb (orb enc dec) then []
  else if negb (orb (kind =? 0) (kind =? 1)) then []
  else
  match m, facade with
  | 0, 0 => if enc then run_enc (v_enc_ep kind) (Ok (V.half_new K)) op a
            else run_dec (v_dec_ep kind) (Ok (V.half_new K)) op a
  | 0, 1 => if enc then run_enc (vc_enc_ep kind) (Ok (V.crypto_new K)) op a
            else run_dec (vc_dec_ep kind) (Ok (V.crypto_new K)) op a
  | 1, 0 => if enc then run_enc (t_enc_ep kind) (T.encrypter_new K) op a
            else run_dec (t_dec_ep kind) (T.decrypter_new K) op a
  | 1, 1 => if enc then run_enc (tc_enc_ep kind) (T.crypto_new K) op a
            else run_dec (tc_dec_ep kind) (T.crypto_new K) op a
  | 2, 0 => if enc then (if kind =? 0 then run_enc wse_ep (W.server_enc_new K) op a
                         else run_enc wce_ep (W.client_enc_new K) op a)
            else (if kind =? 0 then run_dec wcd_ep (W.client_dec_new K) op a
                  else run_dec wsd_ep (W.server_dec_new K) op a)
  | 2, 1 => if enc then (if kind =? 0 then run_enc wsc_enc_ep (W.server_crypto_new K) op a
                         else run_enc wcc_enc_ep (W.client_crypto_new K) op a)
            else (if kind =? 0 then run_dec wcc_dec_ep (W.client_crypto_new K) op a
                  else run_dec wsc_dec_ep (W.server_crypto_new K) op a)
  | _, _ => []
  end.
