From WS Require Import lib.Bytes lib.Res lib.Tape model.Vanilla model.Tbc model.Wrath model.Server model.WorldProof corr.Generic.
Local Open Scope N_scope.

(* in: [module: 0 vanilla / 1 tbc / 2 wrath]; tape (4 bytes, the own seed); U; K; other seed (4 LE) [; presented proof]
   op 1: ProofSeed::new + seed() + into_client_header_crypto      out: ok, seed (4 LE), proof
   op 2: ProofSeed::new + into_server_header_crypto                out: ok | err, client_proof, server_proof *)
Definition run_C06 : runner := fun op a =>
  let m := argN 0 a in
  let '(seed, _) := proof_seed_new (arg 1 a) in
  let U := arg 2 a in let K := arg 3 a in let other := argN 4 a in
  match op with
  | 1 =>
    let r := match m with
             | 0 => match vanilla_client seed U K other with Ok (p, _) => Some p | _ => None end
             | 1 => match tbc_client seed U K other with Ok (p, _) => Some p | _ => None end
             | _ => match wrath_client seed U K other with Ok (p, _) => Some p | _ => None end
             end in
    match r with Some p => [st_ok; le32 seed; p] | None => [st_panic] end
  | _ =>
    let enc {C} (r : res C match_err) := match r with
                                         | Ok _ => [st_ok]
                                         | Err e => [st_err 0; me_client_proof e; me_server_proof e]
                                         | Panic => [st_panic] end in
    match m with
    | 0 => enc (vanilla_server seed U K (arg 5 a) other)
    | 1 => enc (tbc_server seed U K (arg 5 a) other)
    | _ => enc (wrath_server seed U K (arg 5 a) other)
    end
  end.
