From WS Require Import lib.Bytes lib.Res lib.Calls model.HeaderCipher model.Vanilla corr.Generic.
Local Open Scope N_scope.

(* op 1: EncrypterHalf::encrypt over a chunking   in: key, data, sizes   out: status, bytes, index, previous
   op 2: DecrypterHalf::decrypt over a chunking   (same)                                              *)
Definition run_C07 : runner := fun op a =>
  let r := match op with
           | 1 => run_calls encrypt (half_new (arg 0 a)) (split_by (sizes_of (arg 2 a)) (arg 1 a))
           | _ => run_calls decrypt (half_new (arg 0 a)) (split_by (sizes_of (arg 2 a)) (arg 1 a))
           end in
  match r with
  | Ok (h, out) => [st_ok; out; [c_idx (h_st h)]; [c_prev (h_st h)]]
  | _ => [st_panic]
  end.
