From WS Require Export corr.Srp.
Definition run_C02 := run_SRP.
