From WS Require Export corr.Srp.
Definition run_C14 := run_SRP.
