(* Generic correspondence-case machinery: a case is an operation tag, its inputs and the
   implementation's outputs as byte strings; [failing] lists the indices on which the model's
   output differs from the implementation's. *)
From WS Require Import lib.Bytes lib.Res.
Local Open Scope N_scope.

Record case := K { k_op : N; k_in : list hexstr; k_out : list hexstr }.

Definition runner := N -> list (list N) -> list (list N).

Definition case_ok (run : runner) (c : case) : bool :=
  lists_eqb (run (k_op c) (map unhex (k_in c))) (map unhex (k_out c)).

Fixpoint failing_from (run : runner) (i : N) (cs : list case) : list N :=
  match cs with
  | [] => []
  | c :: r => if case_ok run c then failing_from run (i + 1) r else i :: failing_from run (i + 1) r
  end.
Definition failing (run : runner) (cs : list case) : list N := failing_from run 0 cs.

Definition model_out (run : runner) (cs : list case) (i : N) : list (list N) :=
  match nth_error cs (N.to_nat i) with Some c => run (k_op c) (map unhex (k_in c)) | None => [] end.

(* helpers for decoding inputs *)
Definition arg (n : nat) (l : list (list N)) : list N := nth n l [].
Definition argN (n : nat) (l : list (list N)) : N := le_to_N (arg n l).

(* chunk sizes are shipped as little-endian 16-bit pairs *)
Fixpoint sizes_of (l : list N) : list nat :=
  match l with a :: b :: r => N.to_nat (a + 256 * b) :: sizes_of r | _ => [] end.
Fixpoint split_by (sizes : list nat) (data : list N) : list (list N) :=
  match sizes with
  | [] => []
  | n :: r => firstn n data :: split_by r (skipn n data)
  end.

(* status encodings of outputs *)
Definition st_ok : list N := [0].
Definition st_err (k : N) : list N := [1; k].
Definition st_panic : list N := [2].
