From WS Require Export corr.Srp.
Definition run_C05 := run_SRP.
