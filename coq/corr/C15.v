From WS Require Import lib.Bytes lib.Res lib.Tape model.Random model.WorldProof model.Integrity corr.Generic.
Local Open Scope N_scope.
(* every op: in: tape [; count]     out: ok, value bytes, number of tape bytes consumed (4 LE)
   1 ProofSeed::new (any module)  2 get_pin_grid_seed  3 get_pin_salt  4 get_matrix_card_seed
   5 integrity get_salt_value     6 MatrixCard::new digits (count = number of digits, 2 LE) *)
Definition consumed (t t' : tape) : list N := N_to_le 4 (N.of_nat (length t - length t')).
Definition run_C15 : runner := fun op a =>
  let t := arg 0 a in
  match op with
  | 1 => let '(s, t') := proof_seed_new t in [st_ok; le32 s; consumed t t']
  | 2 => let '(s, t') := get_pin_grid_seed t in [st_ok; le32 s; consumed t t']
  | 3 => let '(s, t') := get_pin_salt t in [st_ok; s; consumed t t']
  | 4 => let '(s, t') := get_matrix_card_seed t in [st_ok; le64 s; consumed t t']
  | 5 => let '(s, t') := Integrity.get_salt_value t in [st_ok; s; consumed t t']
  | _ => match fill_matrix_card_values (N.to_nat (argN 1 a)) t with
         | Some (ds, t') => [st_ok; ds; consumed t t']
         | None => [st_panic]
         end
  end.
