(* Model of the free functions `encrypt` / `decrypt` in
   src/vanilla_header/{encrypt,decrypt}.rs and src/tbc_header/{encrypt,decrypt}.rs.
   The four Rust functions differ only in the constant used for the index modulus
   (SESSION_KEY_LENGTH = 40 / PROOF_LENGTH = 20) and the key array length.

     for unencrypted in data {
         let encrypted = (unencrypted ^ session_key[index]).wrapping_add(previous_value);
         index = (index + 1) % LEN;
         unencrypted = encrypted;  previous_value = encrypted;
     }
   `session_key[..]` panics when out of range; `index + 1` is a plain u8 addition that panics on
   overflow in a debug build.  Both are explicit: [None] is the panic. *)
From WS Require Import lib.Bytes.
Local Open Scope N_scope.

Record cstate := { c_idx : N; c_prev : N }.

Fixpoint enc_loop (klen : N) (key : list N) (s : cstate) (data : list N) : option (cstate * list N) :=
  match data with
  | [] => Some (s, [])
  | x :: r =>
    match nth_error key (N.to_nat (c_idx s)) with
    | None => None
    | Some k =>
      let y := (N.lxor x k + c_prev s) mod 256 in
      if 255 <? c_idx s + 1 then None
      else if klen =? 0 then None
      else match enc_loop klen key {| c_idx := (c_idx s + 1) mod klen; c_prev := y |} r with
           | None => None
           | Some (s', out) => Some (s', y :: out)
           end
    end
  end.

Fixpoint dec_loop (klen : N) (key : list N) (s : cstate) (data : list N) : option (cstate * list N) :=
  match data with
  | [] => Some (s, [])
  | y :: r =>
    match nth_error key (N.to_nat (c_idx s)) with
    | None => None
    | Some k =>
      let x := N.lxor ((y + 256 - c_prev s) mod 256) k in      (* wrapping_sub then xor *)
      if 255 <? c_idx s + 1 then None
      else if klen =? 0 then None
      else match dec_loop klen key {| c_idx := (c_idx s + 1) mod klen; c_prev := y |} r with
           | None => None
           | Some (s', out) => Some (s', x :: out)
           end
    end
  end.
