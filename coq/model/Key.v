(* Model of src/key.rs: public-key check, conversions from big integers, the leading-zero
   strip of the secret. *)
From WS Require Import lib.Bytes lib.Res Consts model.Bigint.
Local Open Scope Z_scope.

Inductive pk_error := PublicKeyIsZero | PublicKeyModLargeSafePrimeIsZero.

(* check_public_key (after the repair a367a59): whole-array comparison with zero and with N *)
Definition check_public_key (key : list N) : res unit pk_error :=
  if list_eqb key (repeat 0%N (N.to_nat public_key_length)) then Err PublicKeyIsZero
  else if list_eqb key n_le then Err PublicKeyModLargeSafePrimeIsZero
  else Ok tt.

(* PublicKey::from_le_bytes *)
Definition pk_from_le_bytes (key : list N) : res (list N) pk_error :=
  match check_public_key key with Ok _ => Ok key | Err e => Err e | Panic => Panic end.

(* PublicKey::try_from_bigint *)
Definition pk_try_from_bigint (be : backend) (z : Z) : res (list N) pk_error :=
  match pad_to (N.to_nat public_key_length) (to_bytes_le be z) with
  | Ok key => pk_from_le_bytes key
  | _ => Panic
  end.

(* PublicKey::client_try_from_bigint b large_safe_prime *)
Definition pk_client_try_from_bigint (be : backend) (z : Z) (n' : list N) : res (list N) pk_error :=
  if is_zero z then Err PublicKeyIsZero
  else match rem z (from_bytes_le n') with
       | Ok r => if is_zero r then Err PublicKeyModLargeSafePrimeIsZero
                 else match pad_to (N.to_nat public_key_length) (to_bytes_le be z) with
                      | Ok key => Ok key
                      | _ => Panic
                      end
       | _ => Panic
       end.

(* impl From<bigint::Integer> for $name (SKey, ...): unchecked padded copy *)
Definition key_from_bigint (be : backend) (len : nat) (z : Z) : nres (list N) := pad_to len (to_bytes_le be z).

(* SKey::as_equal_slice (after the repair 0562141: the scan is bounded by the slice length) *)
Fixpoint lead_zeros (l : list N) : nat :=
  match l with 0%N :: r => S (lead_zeros r) | _ => O end.
Definition as_equal_slice (s : list N) : nres (list N) :=
  let lead := lead_zeros s in
  let lead := if Nat.odd lead then S lead else lead in
  if (length s <? lead)%nat then Panic else Ok (skipn lead s).

(* the pinned 0.7.0 scan, kept for the refuted lemma: runs off the end when every byte is zero *)
Definition as_equal_slice_v070 (s : list N) : nres (list N) :=
  let lead := lead_zeros s in
  if (length s <=? lead)%nat then Panic
  else let lead := if Nat.odd lead then S lead else lead in
       if (length s <? lead)%nat then Panic else Ok (skipn lead s).
