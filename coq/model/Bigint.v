(* Model of src/bigint.rs: the `Integer` wrapper over the two big-integer back ends.
   Values are mathematical integers (Z); the back ends differ in the byte encoding of zero and
   in the panic conditions of modpow.  Modelled dependencies (num-bigint 0.4, rug/GMP):
     from_bytes_le        little-endian magnitude, non-negative
     to_bytes_le          num-bigint: magnitude bytes, [0] for zero;  rug to_digits: [] for zero
     modpow               num-bigint: panics on zero modulus or negative exponent, result in [0,m)
     secure_pow_mod       rug: panics unless exponent > 0 and modulus odd (used only then; pow_mod otherwise)
     * + -                exact
     %                    truncated remainder (sign of the dividend); panics on a zero divisor   *)
From WS Require Import lib.Bytes lib.Res.
Local Open Scope Z_scope.

Inductive backend := Default | Fast.

(* square-and-multiply, so that the model runs; equal to b^e mod m (proofs/Bigint.v) *)
Fixpoint powmod_pos (b : Z) (e : positive) (m : Z) : Z :=
  match e with
  | xH => b mod m
  | xO e' => let r := powmod_pos b e' m in (r * r) mod m
  | xI e' => let r := powmod_pos b e' m in ((r * r) mod m * b) mod m
  end.
Definition powmod (b e m : Z) : Z :=
  match e with Z0 => 1 mod m | Zpos p => powmod_pos b p m | Zneg _ => 0 end.

Definition from_bytes_le (v : list N) : Z := le_to_Z v.

Definition nbytes (z : Z) : nat := Z.to_nat (Z.log2 z / 8 + 1).
Definition to_bytes_le (be : backend) (z : Z) : list N :=
  let a := Z.abs z in
  if a =? 0 then match be with Default => [0%N] | Fast => [] end
  else Z_to_le (nbytes a) a.

(* rug pow_mod(..).unwrap(): GMP mpz_powm; panics on a zero modulus; a negative exponent needs a
   modular inverse (never reached: exponents come from from_bytes_le) and is rendered as Panic *)
Definition pow_mod_unwrap (b e m : Z) : nres Z :=
  if (m =? 0) || (e <? 0) then Panic else Ok (powmod b e m).

Definition modpow (be : backend) (b e m : Z) : nres Z :=
  match be with
  | Default => if (m =? 0) || (e <? 0) then Panic else Ok (powmod b e m)
  | Fast => (* after the repair: secure_pow_mod only when its preconditions hold *)
            if (e <=? 0) || Z.even m then pow_mod_unwrap b e m else Ok (powmod b e m)
  end.

(* the pinned 0.7.0 fast-math body: secure_pow_mod unconditionally, which panics unless the
   exponent is positive and the modulus odd (finding F6) *)
Definition modpow_fast_v070 (b e m : Z) : nres Z :=
  if (e <=? 0) || Z.even m || (m <=? 0) then Panic else Ok (powmod b e m).

Definition rem (a b : Z) : nres Z := if b =? 0 then Panic else Ok (Z.rem a b).

Definition is_zero (z : Z) : bool := z =? 0.

(* array[0..value.len()].clone_from_slice(&value) into a zeroed array of `len` bytes:
   panics when the value has more than `len` bytes *)
Definition pad_to (len : nat) (v : list N) : nres (list N) :=
  if (len <? length v)%nat then Panic else Ok (v ++ repeat 0%N (len - length v)).

Definition to_padded_32_byte_array_le (be : backend) (z : Z) : nres (list N) :=
  pad_to 32 (to_bytes_le be z).
