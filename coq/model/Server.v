(* Model of src/server.rs: the server-side typestate API.  Usernames are carried as their
   as_ref() text.  Randomness is an explicit tape (lib/Tape.v). *)
From WS Require Import lib.Bytes lib.Res lib.Tape lib.Sha1 Consts model.Bigint model.Key model.Srp.
Local Open Scope Z_scope.

Record match_err := { me_client_proof : list N; me_server_proof : list N }.
Definition lift {A E} (r : nres A) : res A E :=
  match r with Ok a => Ok a | Err e => match e with end | Panic => Panic end.

Record verifier := { vf_user : list N; vf_v : list N; vf_salt : list N }.
Record srp_proof := { pr_user : list N; pr_B : list N; pr_salt : list N; pr_b : list N; pr_v : list N }.
Record srp_server := { ss_user : list N; ss_K : list N; ss_chal : list N }.

Section Backend.
Variable be : backend.

(* SrpVerifier::from_database_values *)
Definition from_database_values (username v salt : list N) : verifier :=
  {| vf_user := username; vf_v := v; vf_salt := salt |}.

(* SrpVerifier::with_specific_salt / from_username_and_password (Salt::randomized draws 32 bytes) *)
Definition with_specific_salt (username password salt : list N) : nres verifier :=
  let* v := calculate_password_verifier be username password salt in
  Ok (from_database_values username v salt).
Definition from_username_and_password (username password : list N) (t : tape) : nres (verifier * tape) :=
  let '(salt, t') := draw (N.to_nat salt_length) t in
  let* vf := with_specific_salt username password salt in
  Ok (vf, t').

(* accessors *)
Definition username_of (vf : verifier) := vf_user vf.
Definition password_verifier_of (vf : verifier) := vf_v vf.
Definition salt_of (vf : verifier) := vf_salt vf.

(* SrpVerifier::with_specific_private_key / into_proof (the `expect` is the documented panic) *)
Definition with_specific_private_key (vf : verifier) (b : list N) : res srp_proof pk_error :=
  match calculate_server_public_key be (vf_v vf) b with
  | Ok B => Ok {| pr_user := vf_user vf; pr_B := B; pr_salt := vf_salt vf; pr_b := b; pr_v := vf_v vf |}
  | Err e => Err e
  | Panic => Panic
  end.
Definition into_proof (vf : verifier) (t : tape) : nres (srp_proof * tape) :=
  let '(b, t') := draw (N.to_nat private_key_length) t in
  match with_specific_private_key vf b with
  | Ok p => Ok (p, t')
  | _ => Panic
  end.

(* SrpProof::into_server; `A` is a PublicKey, i.e. it already passed PublicKey::from_le_bytes.
   The reconnect challenge is drawn only on success. *)
Definition into_server (p : srp_proof) (A client_proof : list N) (t : tape)
  : res (srp_server * list N * tape) match_err :=
  let* K := lift (calculate_session_key be A (pr_B p) (pr_v p) (pr_b p)) in
  let server_calculated := calculate_client_proof (pr_user p) K A (pr_B p) (pr_salt p) in
  if negb (list_eqb client_proof server_calculated) then
    Err {| me_client_proof := client_proof; me_server_proof := server_calculated |}
  else
    let server_proof := calculate_server_proof A server_calculated K in
    let '(chal, t') := draw (N.to_nat reconnect_challenge_data_length) t in
    Ok ({| ss_user := pr_user p; ss_K := K; ss_chal := chal |}, server_proof, t').

(* SrpServer::verify_reconnection_attempt: the challenge is re-randomised unconditionally,
   after the comparison *)
Definition verify_reconnection_attempt (s : srp_server) (client_data client_proof : list N) (t : tape)
  : bool * srp_server * tape :=
  let server_proof := calculate_reconnect_proof (ss_user s) client_data (ss_chal s) (ss_K s) in
  let verdict := list_eqb server_proof client_proof in
  let '(chal, t') := draw (N.to_nat reconnect_challenge_data_length) t in
  (verdict, {| ss_user := ss_user s; ss_K := ss_K s; ss_chal := chal |}, t').
End Backend.
