(* Model of src/wrath_header/{inner_crypto/mod.rs, encrypt.rs, decrypt.rs, mod.rs}:
   InnerCrypto, the four halves, the combined objects.  The Read/Write wrappers
   (the read_and_decrypt_... and write_encrypted_... functions) are not modelled here.

   Fixed-size array parameters ([u8; 4], [u8; 6], session key [u8; 40]) are lists; a call whose list
   has another length is outside the Rust type and the model answers [Panic] for it (the dead
   branch of a pattern match), so the no-panic theorems carry the length as a hypothesis.
   u32 / u16 parameters are [N]; the byte extractions reduce mod 256 exactly as to_be_bytes /
   to_le_bytes do on in-range values. *)
From WS Require Import lib.Bytes lib.Res lib.Hmac Consts model.Rc4.
From WS Require model.Vanilla.
Local Open Scope N_scope.

(* ---- inner_crypto/mod.rs ---- *)

(* InnerCrypto::new(session_key, key): Hmac::<Sha1>::new_from_slice(key) (cannot fail: HMAC accepts
   every key length, so the unwrap() is not a panic source), update(session_key), finalize; the
   20-byte tag keys RC4, and 1024 zero bytes are run through the cipher and thrown away. *)
Definition inner_new (session_key dirkey : list N) : nres rc4 :=
  match rc4_new (hmac_sha1 dirkey session_key) with
  | Ok r =>
    match apply_keystream r (repeat 0 (N.to_nat Consts.wrath_drop)) with
    | Ok (r', _) => Ok r'
    | Err e => Err e
    | Panic => Panic
    end
  | Err e => Err e
  | Panic => Panic
  end.

(* InnerCrypto::apply *)
Definition inner_apply (r : rc4) (data : list N) : nres (rc4 * list N) := apply_keystream r data.

(* ---- encrypt.rs ---- *)
Record server_enc := { se_rc4 : rc4; se_buf : list N }.        (* server_header: [u8; 5] *)
Record client_enc := { ce_rc4 : rc4 }.

Definition server_enc_new (session_key : list N) : nres server_enc :=
  match inner_new session_key Consts.wrath_R with
  | Ok r => Ok {| se_rc4 := r; se_buf := repeat 0 (N.to_nat Consts.wrath_server_header_max_length) |}
  | Err e => Err e | Panic => Panic
  end.
Definition client_enc_new (session_key : list N) : nres client_enc :=
  match inner_new session_key Consts.wrath_S with
  | Ok r => Ok {| ce_rc4 := r |}
  | Err e => Err e | Panic => Panic
  end.

Definition se_encrypt (h : server_enc) (data : list N) : nres (server_enc * list N) :=
  match inner_apply (se_rc4 h) data with
  | Ok (r, out) => Ok ({| se_rc4 := r; se_buf := se_buf h |}, out)
  | Err e => Err e | Panic => Panic
  end.
Definition ce_encrypt (h : client_enc) (data : list N) : nres (client_enc * list N) :=
  match inner_apply (ce_rc4 h) data with
  | Ok (r, out) => Ok ({| ce_rc4 := r |}, out)
  | Err e => Err e | Panic => Panic
  end.

(* u32::to_be_bytes: (b0, b1, b2, b3), most significant first *)
Definition u32_be (w : N) : N * N * N * N :=
  (w / 16777216 mod 256, w / 65536 mod 256, w / 256 mod 256, w mod 256).
Definition set_large_header (v : N) : N := N.lor v 128.

(* the local `header` arrays of the two branches, before encryption *)
Definition large_header_plain (size opcode : N) : list N :=
  let '(_, s1, s2, s3) := u32_be size in            (* size[0] is dropped without a check *)
  [set_large_header s1; s2; s3] ++ le16 opcode.
Definition small_header_plain (size opcode : N) : list N :=
  let '(_, _, s2, s3) := u32_be size in
  [s2; s3] ++ le16 opcode.

(* self.server_header[k] = header[k] for k < header.len(); the rest of the buffer keeps its old value *)
Definition copy_into (src buf : list N) : list N := src ++ skipn (length src) buf.

(* encrypt_server_header: the new state and the returned slice *)
Definition encrypt_server_header (h : server_enc) (size opcode : N) : nres (server_enc * list N) :=
  if 0x7FFF <? size then
    match se_encrypt h (large_header_plain size opcode) with
    | Ok (h', out) =>
      let buf := copy_into out (se_buf h') in
      Ok ({| se_rc4 := se_rc4 h'; se_buf := buf |}, buf)                        (* &self.server_header *)
    | Err e => Err e | Panic => Panic
    end
  else
    match se_encrypt h (small_header_plain size opcode) with
    | Ok (h', out) =>
      let buf := copy_into out (se_buf h') in
      Ok ({| se_rc4 := se_rc4 h'; se_buf := buf |},
          firstn (N.to_nat Consts.wrath_server_header_min_length) buf)          (* &self.server_header[0..4] *)
    | Err e => Err e | Panic => Panic
    end.

(* encrypt_client_header(size: u16, opcode: u32) -> [u8; 6] *)
Definition client_header_plain (size opcode : N) : list N := be16 size ++ le32 opcode.
Definition encrypt_client_header (h : client_enc) (size opcode : N) : nres (client_enc * list N) :=
  ce_encrypt h (client_header_plain size opcode).

(* ---- decrypt.rs ---- *)
Record server_dec := { sd_rc4 : rc4 }.
Record client_dec := { cd_rc4 : rc4; cd_hdr : list N }.        (* header: [u8; 4] *)

Definition server_dec_new (session_key : list N) : nres server_dec :=
  match inner_new session_key Consts.wrath_S with
  | Ok r => Ok {| sd_rc4 := r |}
  | Err e => Err e | Panic => Panic
  end.
Definition client_dec_new (session_key : list N) : nres client_dec :=
  match inner_new session_key Consts.wrath_R with
  | Ok r => Ok {| cd_rc4 := r; cd_hdr := repeat 0 (N.to_nat Consts.wrath_server_header_min_length) |}
  | Err e => Err e | Panic => Panic
  end.

Definition sd_decrypt (h : server_dec) (data : list N) : nres (server_dec * list N) :=
  match inner_apply (sd_rc4 h) data with
  | Ok (r, out) => Ok ({| sd_rc4 := r |}, out)
  | Err e => Err e | Panic => Panic
  end.
Definition cd_decrypt (h : client_dec) (data : list N) : nres (client_dec * list N) :=
  match inner_apply (cd_rc4 h) data with
  | Ok (r, out) => Ok ({| cd_rc4 := r; cd_hdr := cd_hdr h |}, out)
  | Err e => Err e | Panic => Panic
  end.

(* decrypt_client_header(data: [u8; 6]) -> ClientHeader (the Vanilla type and parser) *)
Definition decrypt_client_header (h : server_dec) (data : list N) : nres (server_dec * (N * N)) :=
  match sd_decrypt h data with
  | Ok (h', out) => match WS.model.Vanilla.client_header_from_array out with Some hd => Ok (h', hd) | None => Panic end
  | Err e => Err e | Panic => Panic
  end.

(* mod.rs: ServerHeader::from_small_array / from_large_array, as (size, opcode) *)
Definition clear_large_header (v : N) : N := N.land v 127.
Definition large_header (v : N) : bool := negb (N.land v 128 =? 0).
Definition from_small_array (b0 b1 b2 b3 : N) : N * N := (b0 * 256 + b1, b2 + 256 * b3).
Definition from_large_array (b0 b1 b2 b3 b4 : N) : N * N :=
  (clear_large_header b0 * 65536 + b1 * 256 + b2, b3 + 256 * b4).

Inductive attempt := Header (size opcode : N) | AdditionalByteRequired.

(* attempt_decrypt_server_header(buf: [u8; 4]): decrypts FIRST, then looks at the marker bit; the
   stash is written only on the long path *)
Definition attempt_decrypt_server_header (h : client_dec) (buf : list N) : nres (client_dec * attempt) :=
  match cd_decrypt h buf with
  | Ok (h', [b0; b1; b2; b3]) =>
    if large_header b0
    then Ok ({| cd_rc4 := cd_rc4 h'; cd_hdr := [b0; b1; b2; b3] |}, AdditionalByteRequired)
    else Ok (h', let '(sz, op) := from_small_array b0 b1 b2 b3 in Header sz op)
  | Ok _ => Panic                                      (* buf is not a [u8; 4] *)
  | Err e => Err e | Panic => Panic
  end.

(* decrypt_large_server_header(byte): no check that an attempt came first; whatever the stash holds
   (zeros after `new`, or the previous long header) is combined with the freshly decrypted byte *)
Definition decrypt_large_server_header (h : client_dec) (byte : N) : nres (client_dec * (N * N)) :=
  match cd_decrypt h [byte] with
  | Ok (h', [b4]) =>
    match cd_hdr h' with
    | [h0; h1; h2; h3] => Ok (h', from_large_array h0 h1 h2 h3 b4)
    | _ => Panic                                       (* stash is not a [u8; 4] *)
    end
  | Ok _ => Panic
  | Err e => Err e | Panic => Panic
  end.

(* ---- mod.rs: ClientCrypto / ServerCrypto are plain pairs of halves ---- *)
Record client_crypto := { cc_dec : client_dec; cc_enc : client_enc }.
Record server_crypto := { sc_dec : server_dec; sc_enc : server_enc }.

Definition client_crypto_new (session_key : list N) : nres client_crypto :=
  match client_dec_new session_key, client_enc_new session_key with
  | Ok d, Ok e => Ok {| cc_dec := d; cc_enc := e |}
  | _, _ => Panic
  end.
Definition server_crypto_new (session_key : list N) : nres server_crypto :=
  match server_dec_new session_key, server_enc_new session_key with
  | Ok d, Ok e => Ok {| sc_dec := d; sc_enc := e |}
  | _, _ => Panic
  end.
Definition cc_split (c : client_crypto) : client_enc * client_dec := (cc_enc c, cc_dec c).
Definition sc_split (c : server_crypto) : server_enc * server_dec := (sc_enc c, sc_dec c).

(* the facades delegate to the halves *)
Definition lift_enc {C H A} (get : C -> H) (set : C -> H -> C) (f : H -> nres (H * A)) (c : C) : nres (C * A) :=
  match f (get c) with
  | Ok (h, a) => Ok (set c h, a)
  | Err e => Err e | Panic => Panic
  end.
Definition cc_set_enc c e := {| cc_dec := cc_dec c; cc_enc := e |}.
Definition cc_set_dec c d := {| cc_dec := d; cc_enc := cc_enc c |}.
Definition sc_set_enc c e := {| sc_dec := sc_dec c; sc_enc := e |}.
Definition sc_set_dec c d := {| sc_dec := d; sc_enc := sc_enc c |}.

Definition cc_encrypt c data := lift_enc cc_enc cc_set_enc (fun h => ce_encrypt h data) c.
Definition cc_encrypt_client_header c size opcode :=
  lift_enc cc_enc cc_set_enc (fun h => encrypt_client_header h size opcode) c.
Definition cc_decrypt c data := lift_enc cc_dec cc_set_dec (fun h => cd_decrypt h data) c.
Definition cc_attempt_decrypt_server_header c buf :=
  lift_enc cc_dec cc_set_dec (fun h => attempt_decrypt_server_header h buf) c.
Definition cc_decrypt_large_server_header c byte :=
  lift_enc cc_dec cc_set_dec (fun h => decrypt_large_server_header h byte) c.

Definition sc_encrypt c data := lift_enc sc_enc sc_set_enc (fun h => se_encrypt h data) c.
Definition sc_encrypt_server_header c size opcode :=
  lift_enc sc_enc sc_set_enc (fun h => encrypt_server_header h size opcode) c.
Definition sc_decrypt c data := lift_enc sc_dec sc_set_dec (fun h => sd_decrypt h data) c.
(* ServerCrypto::decrypt_client_header re-implements decrypt + ClientHeader::from_array *)
Definition sc_decrypt_client_header (c : server_crypto) (data : list N) : nres (server_crypto * (N * N)) :=
  match sc_decrypt c data with
  | Ok (c', out) => match WS.model.Vanilla.client_header_from_array out with Some hd => Ok (c', hd) | None => Panic end
  | Err e => Err e | Panic => Panic
  end.

(* ---- drivers for sequences of headers (not repository code: the caller loops that the API
        documentation prescribes; used by the C10 statements and by the correspondence runner) ---- *)

(* encode the headers in order on one ServerEncrypterHalf; the concatenated wire bytes *)
Fixpoint encode_all (e : server_enc) (hs : list (N * N)) : nres (server_enc * list N) :=
  match hs with
  | [] => Ok (e, [])
  | (sz, op) :: r =>
    match encrypt_server_header e sz op with
    | Ok (e', w) =>
      match encode_all e' r with
      | Ok (e'', w') => Ok (e'', w ++ w')
      | Err x => Err x | Panic => Panic
      end
    | Err x => Err x | Panic => Panic
    end
  end.

(* decode n headers with the two-step client API: read 4 bytes, attempt; on AdditionalByteRequired
   read one more byte and call decrypt_large_server_header.  [Err tt] = the wire ran out. *)
Fixpoint decode_two_step (d : client_dec) (wire : list N) (n : nat) {struct n}
  : res (client_dec * list (N * N) * list N) unit :=
  match n with
  | O => Ok (d, [], wire)
  | S m =>
    match wire with
    | a :: b :: c :: e :: rest =>
      match attempt_decrypt_server_header d [a; b; c; e] with
      | Ok (d', Header sz op) =>
        match decode_two_step d' rest m with
        | Ok (d'', hs, w) => Ok (d'', (sz, op) :: hs, w)
        | Err x => Err x | Panic => Panic
        end
      | Ok (d', AdditionalByteRequired) =>
        match rest with
        | f :: rest' =>
          match decrypt_large_server_header d' f with
          | Ok (d'', h) =>
            match decode_two_step d'' rest' m with
            | Ok (d3, hs, w) => Ok (d3, h :: hs, w)
            | Err x => Err x | Panic => Panic
            end
          | Err x => match x with end | Panic => Panic
          end
        | [] => Err tt
        end
      | Err x => match x with end | Panic => Panic
      end
    | _ => Err tt
    end
  end.
