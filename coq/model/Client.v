(* Model of src/client.rs. *)
From WS Require Import lib.Bytes lib.Res lib.Tape lib.Sha1 Consts model.Bigint model.Key model.Srp model.Server.
Local Open Scope Z_scope.

Record client_chal := { cc_user : list N; cc_M1 : list N; cc_A : list N; cc_K : list N }.
Record srp_client := { sc_user : list N; sc_K : list N }.

Section Backend.
Variable be : backend.

(* SrpClientChallenge::new; `B` is a PublicKey (checked against the built-in modulus by its
   constructor, whatever group is announced).  The `expect` on the client's own key is the
   documented panic. *)
Definition client_new (username password : list N) (g : N) (n' B salt : list N) (t : tape)
  : nres (client_chal * tape) :=
  let '(a, t') := draw (N.to_nat private_key_length) t in
  match calculate_client_public_key be a g n' with
  | Ok A =>
    let x := calculate_x username password salt in
    let u := calculate_u A B in
    let* secret := calculate_client_S be B x a u g n' in
    let* K := calculate_interleaved secret in
    let M1 := calculate_client_proof_with_custom_value username K A B salt n' g in
    Ok ({| cc_user := username; cc_M1 := M1; cc_A := A; cc_K := K |}, t')
  | _ => Panic
  end.

(* SrpClientChallenge::verify_server_proof: on mismatch client_proof = the value the client
   computed, server_proof = the value presented *)
Definition verify_server_proof (c : client_chal) (server_proof : list N) : res srp_client match_err :=
  let expected := calculate_server_proof (cc_A c) (cc_M1 c) (cc_K c) in
  if negb (list_eqb server_proof expected) then
    Err {| me_client_proof := expected; me_server_proof := server_proof |}
  else Ok {| sc_user := cc_user c; sc_K := cc_K c |}.

(* SrpClient::calculate_reconnect_values: a fresh 16-byte client challenge per call *)
Definition calculate_reconnect_values (c : srp_client) (server_challenge : list N) (t : tape)
  : (list N * list N) * tape :=
  let '(cd, t') := draw (N.to_nat reconnect_challenge_data_length) t in
  ((cd, calculate_reconnect_proof (sc_user c) cd server_challenge (sc_K c)), t').
End Backend.
