(* Model of src/srp_internal.rs and src/srp_internal_client.rs, one definition per Rust function,
   same order of operations, parametrised by the big-integer back end. *)
From WS Require Import lib.Bytes lib.Res lib.Sha1 Consts model.Bigint model.Key.
Local Open Scope Z_scope.

Section Backend.
Variable be : backend.

Definition generator_z : Z := Z.of_N generator.           (* Generator::default().to_bigint() *)
Definition k_z : Z := Z.of_N k_value.                     (* KValue::bigint() *)
Definition lsp_z : Z := from_bytes_le n_le.               (* LargeSafePrime::default().to_bigint() *)

(* calculate_x: username/password are the as_ref() texts *)
Definition calculate_x (username password salt : list N) : list N :=
  let p := sha1 (username ++ [58%N] ++ password) in
  sha1 (salt ++ p).

Definition calculate_password_verifier (username password salt : list N) : nres (list N) :=
  let x := from_bytes_le (calculate_x username password salt) in
  let* v := modpow be generator_z x lsp_z in
  to_padded_32_byte_array_le be v.

Definition calculate_server_public_key (verifier b : list N) : res (list N) pk_error :=
  match modpow be generator_z (from_bytes_le b) lsp_z with
  | Ok gb => match rem (k_z * from_bytes_le verifier + gb) lsp_z with
             | Ok r => pk_try_from_bigint be r
             | _ => Panic end
  | _ => Panic
  end.

Definition calculate_u (A B : list N) : list N := sha1 (A ++ B).

Definition calculate_S (A verifier u b : list N) : nres (list N) :=
  let* vu := modpow be (from_bytes_le verifier) (from_bytes_le u) lsp_z in
  let* s := modpow be (from_bytes_le A * vu) (from_bytes_le b) lsp_z in
  key_from_bigint be (N.to_nat s_length) s.

(* calculate_interleaved: two 16-byte buffers filled through step_by(2), hashed as [..len/2] *)
Fixpoint step2 (l : list N) : list N :=
  match l with a :: _ :: r => a :: step2 r | [a] => [a] | [] => [] end.
Definition fill16 (l : list N) : nres (list N) :=
  if (N.to_nat s_length / 2 <? length l)%nat then Panic
  else Ok (l ++ repeat 0%N (N.to_nat s_length / 2 - length l)).
Fixpoint zip_write (g h : list N) : list N :=
  match g, h with x :: g', y :: h' => x :: y :: zip_write g' h' | _, _ => [] end.
Definition calculate_interleaved (secret : list N) : nres (list N) :=
  let* s := as_equal_slice secret in
  let* E := fill16 (step2 s) in
  let G := sha1 (firstn (length s / 2) E) in
  let* F := fill16 (step2 (tl s)) in
  let H := sha1 (firstn (length s / 2) F) in
  let r := zip_write G H in
  (* result[i*2], result[i*2+1] for i < 20 into a 40-byte array *)
  if (N.to_nat session_key_length <? length r)%nat then Panic
  else Ok (r ++ repeat 0%N (N.to_nat session_key_length - length r)).

Definition calculate_session_key (A B verifier b : list N) : nres (list N) :=
  let u := calculate_u A B in
  let* secret := calculate_S A verifier u b in
  calculate_interleaved secret.

Definition calculate_server_proof (A M1 K : list N) : list N := sha1 (A ++ M1 ++ K).

Definition calculate_xor_hash (n_bytes : list N) (g : N) : list N :=
  xor_bytes (sha1 n_bytes) (sha1 [g]).

Definition calculate_client_proof (username K A B salt : list N) : list N :=
  sha1 (xor_hash ++ sha1 username ++ salt ++ A ++ B ++ K).

Definition calculate_reconnect_proof (username client_data server_data K : list N) : list N :=
  sha1 (username ++ client_data ++ server_data ++ K).

(* ---- srp_internal_client.rs ---- *)
Definition calculate_client_public_key (a : list N) (g : N) (n' : list N) : res (list N) pk_error :=
  match modpow be (Z.of_N g) (from_bytes_le a) (from_bytes_le n') with
  | Ok A => pk_client_try_from_bigint be A n'
  | _ => Panic
  end.

Definition calculate_client_S (B x a u : list N) (g : N) (n' : list N) : nres (list N) :=
  let nz := from_bytes_le n' in
  let* gx := modpow be (Z.of_N g) (from_bytes_le x) nz in
  let* s := modpow be (from_bytes_le B - k_z * gx)
                      (from_bytes_le a + from_bytes_le u * from_bytes_le x) nz in
  to_padded_32_byte_array_le be s.

Definition calculate_client_proof_with_custom_value (username K A B salt n' : list N) (g : N) : list N :=
  sha1 (calculate_xor_hash n' g ++ sha1 username ++ salt ++ A ++ B ++ K).
End Backend.
