(* Model of src/vanilla_header/{encrypt,decrypt,mod}.rs: halves, combined object, typed helpers. *)
From WS Require Import lib.Bytes lib.Res Consts model.HeaderCipher.
Local Open Scope N_scope.

Record half := { h_key : list N; h_st : cstate }.

Definition half_new (session_key : list N) : half :=
  {| h_key := session_key; h_st := {| c_idx := 0; c_prev := 0 |} |}.

(* EncrypterHalf::encrypt / DecrypterHalf::decrypt *)
Definition encrypt (h : half) (data : list N) : nres (half * list N) :=
  match enc_loop session_key_length (h_key h) (h_st h) data with
  | None => Panic
  | Some (s, out) => Ok ({| h_key := h_key h; h_st := s |}, out)
  end.

Definition decrypt (h : half) (data : list N) : nres (half * list N) :=
  match dec_loop session_key_length (h_key h) (h_st h) data with
  | None => Panic
  | Some (s, out) => Ok ({| h_key := h_key h; h_st := s |}, out)
  end.

(* wire layouts: size big-endian u16, opcode little-endian u16 / u32 *)
Definition server_header_bytes (size opcode : N) : list N := be16 size ++ le16 opcode.
Definition client_header_bytes (size opcode : N) : list N := be16 size ++ le32 opcode.

(* ServerHeader::from_array / ClientHeader::from_array *)
Definition server_header_from_array (b : list N) : option (N * N) :=
  match b with
  | [b0; b1; b2; b3] => Some (b0 * 256 + b1, b2 + 256 * b3)
  | _ => None
  end.
Definition client_header_from_array (b : list N) : option (N * N) :=
  match b with
  | [b0; b1; b2; b3; b4; b5] => Some (b0 * 256 + b1, b2 + 256 * b3 + 65536 * b4 + 16777216 * b5)
  | _ => None
  end.

Definition encrypt_server_header (h : half) (size opcode : N) := encrypt h (server_header_bytes size opcode).
Definition encrypt_client_header (h : half) (size opcode : N) := encrypt h (client_header_bytes size opcode).

Definition decrypt_server_header (h : half) (data : list N) : nres (half * (N * N)) :=
  match decrypt h data with
  | Ok (h', out) => match server_header_from_array out with Some hd => Ok (h', hd) | None => Panic end
  | Err e => Err e | Panic => Panic
  end.
Definition decrypt_client_header (h : half) (data : list N) : nres (half * (N * N)) :=
  match decrypt h data with
  | Ok (h', out) => match client_header_from_array out with Some hd => Ok (h', hd) | None => Panic end
  | Err e => Err e | Panic => Panic
  end.

(* HeaderCrypto: a plain pair of halves *)
Record crypto := { cr_dec : half; cr_enc : half }.
Definition crypto_new (session_key : list N) : crypto :=
  {| cr_dec := half_new session_key; cr_enc := half_new session_key |}.
Definition split (c : crypto) : half * half := (cr_enc c, cr_dec c).
Definition is_pair_of (e d : half) : bool := list_eqb (h_key e) (h_key d).
Definition unsplit (e d : half) : res crypto unit :=
  if is_pair_of e d then Ok {| cr_dec := d; cr_enc := e |} else Err tt.

Definition crypto_encrypt (c : crypto) (data : list N) : nres (crypto * list N) :=
  match encrypt (cr_enc c) data with
  | Ok (e, out) => Ok ({| cr_dec := cr_dec c; cr_enc := e |}, out)
  | Err e => Err e | Panic => Panic
  end.
Definition crypto_decrypt (c : crypto) (data : list N) : nres (crypto * list N) :=
  match decrypt (cr_dec c) data with
  | Ok (d, out) => Ok ({| cr_dec := d; cr_enc := cr_enc c |}, out)
  | Err e => Err e | Panic => Panic
  end.
(* HeaderCrypto::decrypt_client_header re-implements the parse instead of delegating *)
Definition crypto_decrypt_client_header (c : crypto) (data : list N) : nres (crypto * (N * N)) :=
  match crypto_decrypt c data with
  | Ok (c', [b0; b1; b2; b3; b4; b5]) =>
      Ok (c', (b0 * 256 + b1, b2 + 256 * b3 + 65536 * b4 + 16777216 * b5))
  | Ok _ => Panic
  | Err e => Err e | Panic => Panic
  end.
