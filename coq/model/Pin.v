(* Model of src/pin.rs: pin_to_bytes, remap_pin_grid, calculate_hash, verify_client_pin_hash.
   Arrays are lists with checked accesses, every possible panic is [Panic].  Definitions only. *)
From WS Require Import lib.Bytes lib.Res lib.Sha1 Consts model.Arr.
Local Open Scope N_scope.

(* fn pin_to_bytes(mut pin: u32, out_pin_array: &mut [u8; 10]) -> &mut [u8]

     let mut i = 0;
     while pin != 0 { out_pin_array[i] = (pin % 10) as u8; pin /= 10; i += 1; }

   The loop is bounded by the array: the write at i = 10 panics, so fuel = 10 + 1 iterations with
   out-of-fuel = Panic is the same function (the fuel is never the reason for a Panic:
   proofs/Pin.v, [pin_loop_fuel]). *)
Fixpoint pin_loop (fuel : nat) (pin : N) (arr : list N) (i : nat) : nres (list N * nat) :=
  match fuel with
  | O => Panic
  | S f =>
    if pin =? 0 then Ok (arr, i)
    else match set_nth i ((pin mod 10) mod 256) arr with      (* (pin % 10) as u8 *)
         | None => Panic
         | Some arr' => pin_loop f (pin / 10) arr' (S i)
         end
  end.

(*   out_pin_array[0..i].reverse();  &mut out_pin_array[0..i]  *)
Definition pin_to_bytes (pin : N) (out_pin_array : list N) : nres (list N) :=
  let* (arr, i) := pin_loop (S (length out_pin_array)) pin out_pin_array 0 in
  match slice arr 0 (N.of_nat i) with
  | None => Panic
  | Some s => Ok (rev s)
  end.

(* fn remap_pin_grid(mut pin_grid_seed: u32) -> [u8; 10]

     let mut grid = [0, 1, .., 9];  let mut remapped_grid = grid;
     for (remapped_index, i) in (1..=MAX_PIN_LENGTH as u32).rev().enumerate() {
         let remainder = pin_grid_seed % i;                       (Panic if i = 0)
         pin_grid_seed /= i;
         remapped_grid[remapped_index] = grid[remainder as usize];
         let copy_size = i - remainder - 1;                       (u32 subtraction)
         for i in 0..copy_size as usize { grid[remainder + i] = grid[remainder + i + 1]; }
     }                                                                                       *)
Fixpoint remap_loop (is : list N) (remapped_index : nat) (seed : N) (grid remapped : list N)
  : nres (list N) :=
  match is with
  | [] => Ok remapped
  | i :: rest =>
    if i =? 0 then Panic else
    let remainder := seed mod i in
    let seed' := seed / i in
    match nth_error grid (N.to_nat remainder) with
    | None => Panic
    | Some v =>
      match set_nth remapped_index v remapped with
      | None => Panic
      | Some remapped' =>
        if i <? remainder + 1 then Panic else
        let copy_size := i - remainder - 1 in
        match shift_left (N.to_nat copy_size) (N.to_nat remainder) grid with
        | None => Panic
        | Some grid' => remap_loop rest (S remapped_index) seed' grid' remapped'
        end
      end
    end
  end.

(* (1..=MAX_PIN_LENGTH).rev() = MAX_PIN_LENGTH, ..., 2, 1 *)
Definition countdown (n : nat) : list N := rev (map N.of_nat (seq 1 n)).

Definition initial_grid : list N := [0; 1; 2; 3; 4; 5; 6; 7; 8; 9].

Definition remap_pin_grid (pin_grid_seed : N) : nres (list N) :=
  remap_loop (countdown (N.to_nat max_pin_length)) 0 pin_grid_seed initial_grid initial_grid.

(* remapped_pin_grid.iter().enumerate().find(|(_, a)| **a == *b).unwrap()  then  *b = i as u8 *)
Fixpoint find_index (b : N) (l : list N) (i : N) : option N :=
  match l with
  | [] => None
  | a :: r => if a =? b then Some i else find_index b r (i + 1)
  end.

(* for b in &mut *bytes { ... } with a body that can panic *)
Fixpoint map_res {A B : Type} (f : A -> nres B) (l : list A) : nres (list B) :=
  match l with
  | [] => Ok []
  | x :: r => let* y := f x in let* r' := map_res f r in Ok (y :: r')
  end.

Definition remap_digit (grid : list N) (b : N) : nres N :=
  match find_index b grid 0 with None => Panic | Some i => Ok (i mod 256) end.

(* *b += 0x30 on a u8 *)
Definition to_ascii (b : N) : nres N := if 255 <? b + 48 then Panic else Ok (b + 48).

(* pub fn calculate_hash(pin: u32, pin_grid_seed: u32, server_salt: &[u8; 16], client_salt: &[u8; 16])
     -> Option<[u8; 20]> *)
Definition calculate_hash (pin pin_grid_seed : N) (server_salt client_salt : list N)
  : nres (option (list N)) :=
  let* bytes := pin_to_bytes pin (repeat 0 (N.to_nat max_pin_length)) in
  let len := N.of_nat (length bytes) in
  if (len <? min_pin_length) || (max_pin_length <? len) then Ok None else
  let* remapped_pin_grid := remap_pin_grid pin_grid_seed in
  let* bytes1 := map_res (remap_digit remapped_pin_grid) bytes in
  let* bytes2 := map_res to_ascii bytes1 in
  let sha1_inner := sha1 (server_salt ++ bytes2) in
  Ok (Some (sha1 (client_salt ++ sha1_inner))).

(* pub fn verify_client_pin_hash(pin, pin_grid_seed, server_salt, client_salt, client_pin_hash) -> bool *)
Definition verify_client_pin_hash (pin pin_grid_seed : N) (server_salt client_salt client_pin_hash : list N)
  : nres bool :=
  let* r := calculate_hash pin pin_grid_seed server_salt client_salt in
  match r with
  | Some server_pin_hash => Ok (list_eqb server_pin_hash client_pin_hash)
  | None => Ok false
  end.
