(* Model of src/rc4.rs, as written.

     struct Rc4 { state: [u8; 256], i: u8, j: u8 }

   The array is a list; every `self.state[..]` and `self.state.swap(..)` is a CHECKED access
   ([nth_error]) whose miss is the Rust out-of-bounds panic, so "no index is ever out of range" is
   a theorem (proofs/Rc4.v) about the invariant  length = 256, i < 256, j < 256  and not an
   assumption of the model.  `u8::wrapping_add` is [(_ + _) mod 256]. *)
From WS Require Import lib.Bytes lib.Res.
Local Open Scope N_scope.

Record rc4 := { st : list N; ri : N; rj : N }.

(* self.state[n] *)
Definition get (l : list N) (n : N) : option N := nth_error l (N.to_nat n).

Fixpoint upd (n : nat) (v : N) (l : list N) : list N :=
  match l, n with
  | [], _ => []
  | _ :: r, O => v :: r
  | x :: r, S m => x :: upd m v r
  end.

(* <[u8]>::swap(a, b): panics when either index is out of bounds *)
Definition swap (l : list N) (a b : N) : option (list N) :=
  match get l a, get l b with
  | Some x, Some y => Some (upd (N.to_nat b) x (upd (N.to_nat a) y l))
  | _, _ => None
  end.

(* key.iter().cycle(), first n items.  core::iter::Cycle keeps the original iterator and a working
   copy; when the working copy is exhausted it is replaced by a fresh clone, and if that clone is
   exhausted too (empty key) the cycle ends: an EMPTY key yields nothing at all. *)
Fixpoint cycle_aux (key cur : list N) (n : nat) : list N :=
  match n with
  | O => []
  | S m =>
    match cur with
    | k :: cur' => k :: cycle_aux key cur' m
    | [] => match key with
            | [] => []
            | k :: cur' => k :: cycle_aux key cur' m
            end
    end
  end.
Definition cycle (key : list N) (n : nat) : list N := cycle_aux key key n.

(* the for_each body of key_scheduling_algorithm over the zipped (i, k) pairs; j is a u8 *)
Fixpoint ksa_loop (pairs : list (nat * N)) (s : list N) (j : N) : option (list N) :=
  match pairs with
  | [] => Some s
  | (i, k) :: r =>
    match get s (N.of_nat i) with
    | None => None
    | Some si =>
      let j' := ((j + si) mod 256 + k) mod 256 in          (* j.wrapping_add(state[i]).wrapping_add(k) *)
      match swap s (N.of_nat i) j' with
      | None => None
      | Some s' => ksa_loop r s' j'
      end
    end
  end.

(* state[i] = i as u8 for i in 0..256 *)
Definition identity_state : list N := map (fun i => N.of_nat i mod 256) (seq 0 256).

(* Rc4::new: zip stops at the shorter side, so an empty key performs no swap *)
Definition rc4_new (key : list N) : nres rc4 :=
  match ksa_loop (combine (seq 0 256) (cycle key 256)) identity_state 0 with
  | Some s => Ok {| st := s; ri := 0; rj := 0 |}
  | None => Panic
  end.

(* pseudo_random_generation: returns the new state and the keystream byte *)
Definition pseudo_random_generation (r : rc4) : option (rc4 * N) :=
  let i := (ri r + 1) mod 256 in                          (* self.i.wrapping_add(1) *)
  match get (st r) i with                                  (* self.s_i() *)
  | None => None
  | Some si =>
    let j := (rj r + si) mod 256 in                        (* self.j.wrapping_add(self.s_i()) *)
    match swap (st r) i j with
    | None => None
    | Some s =>
      match get s i, get s j with                          (* s_i(), s_j() after the swap *)
      | Some a, Some b =>
        match get s ((a + b) mod 256) with                 (* state[s_i.wrapping_add(s_j)] *)
        | Some v => Some ({| st := s; ri := i; rj := j |}, v)
        | None => None
        end
      | _, _ => None
      end
    end
  end.

(* apply_keystream: for s in stream { *s ^= prg() } *)
Fixpoint apply_keystream (r : rc4) (data : list N) : nres (rc4 * list N) :=
  match data with
  | [] => Ok (r, [])
  | x :: rest =>
    match pseudo_random_generation r with
    | None => Panic
    | Some (r', v) =>
      match apply_keystream r' rest with
      | Ok (r'', out) => Ok (r'', N.lxor x v :: out)
      | Err e => Err e
      | Panic => Panic
      end
    end
  end.
