(* Model of the remaining entry points of the three header modules (C11) and of the object
   life cycle split / unsplit / clone (C12).

   model/Vanilla.v, model/Tbc.v, model/Wrath.v already hold the halves, the raw calls, the typed
   array helpers and the combined objects.  Here, per module and role, as written in the Rust:

     write_encrypted_X(&mut self, write, size, opcode)      src/M_header/encrypt.rs
         let buf = self.encrypt_X(size, opcode);  write.write_all(&buf)?;  Ok(())
     read_and_decrypt_X(&mut self, reader)                  src/M_header/decrypt.rs
         let mut buf = [0; n];  reader.read_exact(&mut buf)?;  Ok(self.decrypt_X(buf))
     wrath ClientDecrypterHalf::read_and_decrypt_server_header
         read_exact 4 bytes; attempt_decrypt_server_header; on AdditionalByteRequired
         read_exact 1 byte; decrypt_large_server_header
     the methods of HeaderCrypto / ClientCrypto / ServerCrypto (src/M_header/mod.rs), each
         delegating to self.encrypt / self.decrypt
     tbc DecrypterHalf::decrypt_server_header / decrypt_client_header (not in model/Tbc.v)

   A method on `&mut self` that returns io::Result returns the new state next to the result: the
   object survives an Err.  Readers and writers are the scripts of lib/IoScript.v. *)
From WS Require Import lib.Bytes lib.Res lib.IoScript Consts model.HeaderCipher model.Rc4.
From WS Require model.Vanilla model.Tbc model.Wrath.
Local Open Scope N_scope.

Module V := WS.model.Vanilla.
Module T := WS.model.Tbc.
Module W := WS.model.Wrath.

Definition hdr := (N * N)%type.       (* (size, opcode) *)

(* ================================================================ vanilla ==================== *)

(* EncrypterHalf *)
Definition v_write_encrypted_server_header (h : V.half) (w : wscript) (size opcode : N) : nres (V.half * wres) :=
  write_after (V.encrypt_server_header h size opcode) w.
Definition v_write_encrypted_client_header (h : V.half) (w : wscript) (size opcode : N) : nres (V.half * wres) :=
  write_after (V.encrypt_client_header h size opcode) w.

(* DecrypterHalf *)
Definition v_read_and_decrypt_server_header (h : V.half) (s : rscript) : nres (V.half * res (hdr * rscript) io_kind) :=
  read_then (N.to_nat vanilla_server_header_length) s h V.decrypt_server_header.
Definition v_read_and_decrypt_client_header (h : V.half) (s : rscript) : nres (V.half * res (hdr * rscript) io_kind) :=
  read_then (N.to_nat vanilla_client_header_length) s h V.decrypt_client_header.

(* HeaderCrypto: `self.encrypt.m(..)` / `self.decrypt.m(..)` *)
Definition v_on_enc {A} (f : V.half -> nres (V.half * A)) (c : V.crypto) : nres (V.crypto * A) :=
  match f (V.cr_enc c) with
  | Ok (e, a) => Ok ({| V.cr_dec := V.cr_dec c; V.cr_enc := e |}, a)
  | Err x => Err x | Panic => Panic
  end.
Definition v_on_dec {A} (f : V.half -> nres (V.half * A)) (c : V.crypto) : nres (V.crypto * A) :=
  match f (V.cr_dec c) with
  | Ok (d, a) => Ok ({| V.cr_dec := d; V.cr_enc := V.cr_enc c |}, a)
  | Err x => Err x | Panic => Panic
  end.

Definition v_crypto_encrypt_server_header c size opcode := v_on_enc (fun e => V.encrypt_server_header e size opcode) c.
Definition v_crypto_encrypt_client_header c size opcode := v_on_enc (fun e => V.encrypt_client_header e size opcode) c.
Definition v_crypto_write_encrypted_server_header c w size opcode :=
  v_on_enc (fun e => v_write_encrypted_server_header e w size opcode) c.
Definition v_crypto_write_encrypted_client_header c w size opcode :=
  v_on_enc (fun e => v_write_encrypted_client_header e w size opcode) c.
Definition v_crypto_decrypt_server_header c data := v_on_dec (fun d => V.decrypt_server_header d data) c.
(* HeaderCrypto::decrypt_client_header does not delegate: V.crypto_decrypt_client_header *)
Definition v_crypto_read_and_decrypt_server_header c s := v_on_dec (fun d => v_read_and_decrypt_server_header d s) c.
Definition v_crypto_read_and_decrypt_client_header c s := v_on_dec (fun d => v_read_and_decrypt_client_header d s) c.

(* ================================================================ tbc ======================== *)

(* DecrypterHalf::decrypt_server_header / decrypt_client_header; ServerHeader and ClientHeader are
   the Vanilla types (`pub use crate::vanilla_header::{ClientHeader, ServerHeader}`) *)
Definition t_decrypt_server_header (h : T.half) (data : list N) : nres (T.half * hdr) :=
  match T.decrypt h data with
  | Ok (h', out) => match V.server_header_from_array out with Some hd => Ok (h', hd) | None => Panic end
  | Err e => Err e | Panic => Panic
  end.
Definition t_decrypt_client_header (h : T.half) (data : list N) : nres (T.half * hdr) :=
  match T.decrypt h data with
  | Ok (h', out) => match V.client_header_from_array out with Some hd => Ok (h', hd) | None => Panic end
  | Err e => Err e | Panic => Panic
  end.

Definition t_write_encrypted_server_header (h : T.half) (w : wscript) (size opcode : N) : nres (T.half * wres) :=
  write_after (T.encrypt_server_header h size opcode) w.
Definition t_write_encrypted_client_header (h : T.half) (w : wscript) (size opcode : N) : nres (T.half * wres) :=
  write_after (T.encrypt_client_header h size opcode) w.
Definition t_read_and_decrypt_server_header (h : T.half) (s : rscript) : nres (T.half * res (hdr * rscript) io_kind) :=
  read_then 4 s h t_decrypt_server_header.
Definition t_read_and_decrypt_client_header (h : T.half) (s : rscript) : nres (T.half * res (hdr * rscript) io_kind) :=
  read_then 6 s h t_decrypt_client_header.

Definition t_on_enc {A} (f : T.half -> nres (T.half * A)) (c : T.crypto) : nres (T.crypto * A) :=
  match f (T.cr_enc c) with
  | Ok (e, a) => Ok ({| T.cr_dec := T.cr_dec c; T.cr_enc := e |}, a)
  | Err x => Err x | Panic => Panic
  end.
Definition t_on_dec {A} (f : T.half -> nres (T.half * A)) (c : T.crypto) : nres (T.crypto * A) :=
  match f (T.cr_dec c) with
  | Ok (d, a) => Ok ({| T.cr_dec := d; T.cr_enc := T.cr_enc c |}, a)
  | Err x => Err x | Panic => Panic
  end.

Definition t_crypto_encrypt_server_header c size opcode := t_on_enc (fun e => T.encrypt_server_header e size opcode) c.
Definition t_crypto_encrypt_client_header c size opcode := t_on_enc (fun e => T.encrypt_client_header e size opcode) c.
Definition t_crypto_write_encrypted_server_header c w size opcode :=
  t_on_enc (fun e => t_write_encrypted_server_header e w size opcode) c.
Definition t_crypto_write_encrypted_client_header c w size opcode :=
  t_on_enc (fun e => t_write_encrypted_client_header e w size opcode) c.
Definition t_crypto_decrypt_server_header c data := t_on_dec (fun d => t_decrypt_server_header d data) c.
Definition t_crypto_decrypt_client_header c data := t_on_dec (fun d => t_decrypt_client_header d data) c.
Definition t_crypto_read_and_decrypt_server_header c s := t_on_dec (fun d => t_read_and_decrypt_server_header d s) c.
Definition t_crypto_read_and_decrypt_client_header c s := t_on_dec (fun d => t_read_and_decrypt_client_header d s) c.

(* ================================================================ wrath ====================== *)

(* ClientEncrypterHalf / ServerEncrypterHalf *)
Definition w_write_encrypted_client_header (h : W.client_enc) (w : wscript) (size opcode : N) : nres (W.client_enc * wres) :=
  write_after (W.encrypt_client_header h size opcode) w.
(* `let buf = self.encrypt_server_header(size, opcode); write.write_all(buf)?` : buf is the
   returned slice, 4 or 5 bytes *)
Definition w_write_encrypted_server_header (h : W.server_enc) (w : wscript) (size opcode : N) : nres (W.server_enc * wres) :=
  write_after (W.encrypt_server_header h size opcode) w.

(* ServerDecrypterHalf; [u8; CLIENT_HEADER_LENGTH] = 2 + 4 bytes (size_of u16 + size_of u32; the
   tbc and wrath length constants are not among the extracted ones, the array lengths are the
   literals 4 and 6 fixed by the Rust types) *)
Definition w_read_and_decrypt_client_header (h : W.server_dec) (s : rscript) : nres (W.server_dec * res (hdr * rscript) io_kind) :=
  read_then 6 s h W.decrypt_client_header.

(* ClientDecrypterHalf::read_and_decrypt_server_header: the literal 4, then the literal 1 *)
Definition w_read_and_decrypt_server_header (h : W.client_dec) (s : rscript)
  : nres (W.client_dec * res (hdr * rscript) io_kind) :=
  match read_exact 4 s with
  | Ok (buf, rest) =>
    match W.attempt_decrypt_server_header h buf with
    | Ok (h1, W.Header sz op) => Ok (h1, Ok ((sz, op), rest))
    | Ok (h1, W.AdditionalByteRequired) =>
      match read_exact 1 rest with
      | Ok ([b], rest') =>
        match W.decrypt_large_server_header h1 b with
        | Ok (h2, hd) => Ok (h2, Ok (hd, rest'))
        | Err e => Err e | Panic => Panic
        end
      | Ok _ => Panic                                   (* read_exact on [u8; 1] fills one byte *)
      | Err kd => Ok (h1, Err kd)                       (* the attempt has been made: h1, not h *)
      | Panic => Panic
      end
    | Err e => Err e | Panic => Panic
    end
  | Err kd => Ok (h, Err kd)
  | Panic => Panic
  end.

(* ClientCrypto / ServerCrypto *)
Definition cc_write_encrypted_client_header c w size opcode :=
  W.lift_enc W.cc_enc W.cc_set_enc (fun h => w_write_encrypted_client_header h w size opcode) c.
Definition cc_read_and_decrypt_server_header c s :=
  W.lift_enc W.cc_dec W.cc_set_dec (fun h => w_read_and_decrypt_server_header h s) c.
Definition sc_write_encrypted_server_header c w size opcode :=
  W.lift_enc W.sc_enc W.sc_set_enc (fun h => w_write_encrypted_server_header h w size opcode) c.
Definition sc_read_and_decrypt_client_header c s :=
  W.lift_enc W.sc_dec W.sc_set_dec (fun h => w_read_and_decrypt_client_header h s) c.

(* ================================================================ C12: object life cycle ===== *)

(* Not repository code: a driver for arbitrary call sequences on one session's crypto object.
   An operation that does not apply in the current state (Split on halves, Unsplit on a combined
   object or in a module without unsplit) is skipped.  Unsplit consumes both halves: when it
   refuses, nothing is left to continue with and the run ends with [Err tt].
   Clone continues with the clone; `#[derive(Clone)]` copies every field, which on immutable model
   values is the identity. *)
Inductive op := Enc (bs : list N) | Dec (bs : list N) | Split | Unsplit | Clone.

Section Machine.
  Context {C E D : Type}.
  Variable c_enc : C -> list N -> nres (C * list N).      (* X::encrypt on the combined object *)
  Variable c_dec : C -> list N -> nres (C * list N).
  Variable h_enc : E -> list N -> nres (E * list N).      (* EncrypterHalf::encrypt *)
  Variable h_dec : D -> list N -> nres (D * list N).
  Variable split : C -> E * D.
  Variable unsplit : option (E -> D -> res C unit).

  Inductive obj := Combined (c : C) | Halves (e : E) (d : D).

  Definition clone_obj (o : obj) : obj := o.

  (* one operation: the new object, the bytes produced for the sending direction, and for the
     receiving direction *)
  Definition step (o : obj) (x : op) : res (obj * list N * list N) unit :=
    match x, o with
    | Enc bs, Combined c =>
      match c_enc c bs with Ok (c', out) => Ok (Combined c', out, []) | Err e => match e with end | Panic => Panic end
    | Enc bs, Halves e d =>
      match h_enc e bs with Ok (e', out) => Ok (Halves e' d, out, []) | Err x => match x with end | Panic => Panic end
    | Dec bs, Combined c =>
      match c_dec c bs with Ok (c', out) => Ok (Combined c', [], out) | Err e => match e with end | Panic => Panic end
    | Dec bs, Halves e d =>
      match h_dec d bs with Ok (d', out) => Ok (Halves e d', [], out) | Err x => match x with end | Panic => Panic end
    | Split, Combined c => let '(e, d) := split c in Ok (Halves e d, [], [])
    | Split, Halves _ _ => Ok (o, [], [])
    | Unsplit, Halves e d =>
      match unsplit with
      | Some f => match f e d with Ok c => Ok (Combined c, [], []) | Err _ => Err tt | Panic => Panic end
      | None => Ok (o, [], [])
      end
    | Unsplit, Combined _ => Ok (o, [], [])
    | Clone, _ => Ok (clone_obj o, [], [])
    end.

  Fixpoint run (o : obj) (ops : list op) : res (obj * list N * list N) unit :=
    match ops with
    | [] => Ok (o, [], [])
    | x :: r =>
      match step o x with
      | Ok (o', oe, od) =>
        match run o' r with
        | Ok (o'', oe', od') => Ok (o'', oe ++ oe', od ++ od')
        | Err u => Err u | Panic => Panic
        end
      | Err u => Err u | Panic => Panic
      end
    end.

  (* the two halves an object consists of *)
  Definition view (o : obj) : E * D := match o with Combined c => split c | Halves e d => (e, d) end.
End Machine.

(* the chunks of one direction, in order *)
Fixpoint encs (ops : list op) : list (list N) :=
  match ops with [] => [] | Enc bs :: r => bs :: encs r | _ :: r => encs r end.
Fixpoint decs (ops : list op) : list (list N) :=
  match ops with [] => [] | Dec bs :: r => bs :: decs r | _ :: r => decs r end.
Definition is_clone (x : op) : bool := match x with Clone => true | _ => false end.

(* the four machines *)
Definition v_run := run V.crypto_encrypt V.crypto_decrypt V.encrypt V.decrypt V.split (Some V.unsplit).
Definition t_run := run T.crypto_encrypt T.crypto_decrypt T.encrypt T.decrypt T.split None.
Definition wc_run := run W.cc_encrypt W.cc_decrypt W.ce_encrypt W.cd_decrypt W.cc_split None.
Definition ws_run := run W.sc_encrypt W.sc_decrypt W.se_encrypt W.sd_decrypt W.sc_split None.

(* A fifth machine: the Wrath client object with its receiving direction driven at HEADER level.  A
   Dec operation of 4 bytes is attempt_decrypt_server_header, one of 1 byte is
   decrypt_large_server_header (which reads the four bytes stashed by the attempt), any other length
   is the raw decrypt; a completed header is reported as size and opcode, 4 little-endian bytes
   each, a pending one as nothing.  The stash is part of the state that split and clone must carry. *)
Definition hdr_bytes (h : N * N) : list N := N_to_le 4 (fst h) ++ N_to_le 4 (snd h).
Definition cd_receive (h : W.client_dec) (bs : list N) : nres (W.client_dec * list N) :=
  match bs with
  | [_; _; _; _] =>
    match W.attempt_decrypt_server_header h bs with
    | Ok (h', W.Header s o) => Ok (h', hdr_bytes (s, o))
    | Ok (h', W.AdditionalByteRequired) => Ok (h', [])
    | Err e => Err e | Panic => Panic
    end
  | [b] =>
    match W.decrypt_large_server_header h b with
    | Ok (h', so) => Ok (h', hdr_bytes so)
    | Err e => Err e | Panic => Panic
    end
  | _ => W.cd_decrypt h bs
  end.
Definition cc_receive (c : W.client_crypto) (bs : list N) : nres (W.client_crypto * list N) :=
  W.lift_enc W.cc_dec W.cc_set_dec (fun h => cd_receive h bs) c.
Definition wch_run := run W.cc_encrypt cc_receive W.ce_encrypt cd_receive W.cc_split None.

Definition v_obj := @obj V.crypto V.half V.half.
Definition t_obj := @obj T.crypto T.half T.half.
Definition wc_obj := @obj W.client_crypto W.client_enc W.client_dec.
Definition ws_obj := @obj W.server_crypto W.server_enc W.server_dec.
Definition v_view : v_obj -> V.half * V.half := view V.split.
Definition t_view : t_obj -> T.half * T.half := view T.split.
Definition wc_view : wc_obj -> W.client_enc * W.client_dec := view W.cc_split.
Definition ws_view : ws_obj -> W.server_enc * W.server_dec := view W.sc_split.
