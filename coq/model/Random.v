(* Model of the convenience generators that draw from the thread RNG:
   pin.rs (get_pin_grid_seed, get_pin_salt), matrix_card.rs (get_matrix_card_seed,
   fill_matrix_card_values via Uniform::from(0..=9)), integrity.rs (get_salt_value),
   the three ProofSeed::default.  The RNG is the explicit tape; integer draws take 4 / 8 bytes
   little-endian (the shim's composition).  Modelled dependency: rand 0.8 UniformInt<u8>::sample
   (widening multiply by the range on a u32 word, rejection zone). *)
From WS Require Import lib.Bytes lib.Res lib.Tape Consts.
Local Open Scope N_scope.

Definition next_u32 (t : tape) : N * tape := let '(b, t') := draw 4 t in (le_to_N b, t').
Definition next_u64 (t : tape) : N * tape := let '(b, t') := draw 8 t in (le_to_N b, t').

Definition get_pin_grid_seed (t : tape) : N * tape := next_u32 t.
Definition get_pin_salt (t : tape) : list N * tape := draw (N.to_nat pin_salt_size) t.
Definition get_matrix_card_seed (t : tape) : N * tape := next_u64 t.
Definition get_integrity_salt (t : tape) : list N * tape := draw (N.to_nat integrity_salt_length) t.

(* Uniform::new_inclusive(low, high) for u8 over the u32 "large" type *)
Definition uniform_range (low high : N) : N := (high - low + 1) mod 256.
Definition uniform_reject (range : N) : N := if range =? 0 then 0 else (4294967296 - range) mod range.

(* UniformInt::sample: loop { v = next_u32; (hi, lo) = v.wmul(range); if lo <= zone { return low + hi } }.
   fuel bounds the loop by the tape (an exhausted tape is not a normal outcome: None) *)
Fixpoint uniform_sample (fuel : nat) (low range z : N) (t : tape) : option (N * tape) :=
  match fuel with
  | O => None
  | S f =>
    if (length t <? 4)%nat then None
    else let '(v, t') := next_u32 t in
         let p := v * range in
         if p mod 4294967296 <=? 4294967295 - z then Some ((low + p / 4294967296) mod 256, t')
         else uniform_sample f low range z t'
  end.

(* fill_matrix_card_values: one sample per cell digit *)
Fixpoint fill_matrix_card_values (n : nat) (t : tape) : option (list N * tape) :=
  match n with
  | O => Some ([], t)
  | S n' =>
    let range := uniform_range min_matrix_card_value max_matrix_card_value in
    match uniform_sample (S (length t)) min_matrix_card_value range (uniform_reject range) t with
    | None => None
    | Some (d, t') => match fill_matrix_card_values n' t' with
                      | None => None
                      | Some (ds, t'') => Some (d :: ds, t'')
                      end
    end
  end.
