(* LEGACY: the pinned 0.7.0 `check_public_key`, before the repair a367a59.  Not tied to the code
   any more; kept so that the defect it had stays stated and machine-checked. *)
From WS Require Import lib.Bytes lib.Res Consts model.Key.

Fixpoint all_zero_or_n (key n : list N) : bool :=
  match key, n with
  | k :: key', b :: n' => if negb (k =? b)%N && negb (k =? 0)%N then false else all_zero_or_n key' n'
  | _, _ => true
  end.
Definition check_public_key_v070 (key : list N) : res unit pk_error :=
  if all_zero_or_n key n_le then
    match key with
    | 0%N :: _ => Err PublicKeyIsZero
    | _ => Err PublicKeyModLargeSafePrimeIsZero
    end
  else Ok tt.
