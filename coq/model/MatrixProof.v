(* Model of the cryptographic part of src/matrix_card.rs (feature `matrix-card`):
   MatrixCardVerifier::{new, get_matrix_coordinates, enter_value, into_proof} and
   verify_matrix_card_hash, as written.  The geometric part (generate_coordinates,
   get_matrix_coordinates, MatrixCard) is model/MatrixCard.v, Rc4 is model/Rc4.v, MD5 / HMAC-SHA1
   are the executable lib/Md5.v / lib/Hmac.v.

   struct MatrixCardVerifier { challenge_count: u8, height: u8, width: u8, coordinates: Vec<u8>,
                               hmac: Hmac<Sha1>, rc4: Rc4 }

   The streaming HMAC object is modelled by its key and the message fed so far:
   `update(a); update(b)` is `update(a ++ b)` (a modelled dependency on the hmac crate, exercised by
   the correspondence), `finalize_fixed` is hmac_sha1 key message.  Definitions only. *)
From WS Require Import lib.Bytes lib.Res lib.Md5 lib.Hmac model.Arr model.Rc4 model.MatrixCard.
Local Open Scope N_scope.

Record verifier := {
  v_count : N; v_height : N; v_width : N; v_coordinates : list N;
  v_hmac_key : list N; v_hmac_msg : list N;
  v_rc4 : rc4 }.

(* pub fn new(challenge_count: u8, height: u8, seed: u64, width: u8, session_key: &[u8; 40]) -> Self
     let coordinates = generate_coordinates(width, height, challenge_count, seed);
     let mut md5 = Context::new(); md5.consume(&seed.to_le_bytes()); md5.consume(&session_key);
     let md5 = md5.compute().0;
     let rc4 = Rc4::new(&md5);
     let hmac = Hmac::<Sha1>::new_from_slice(&md5).unwrap();      (HMAC accepts a key of any length)  *)
Definition verifier_new (challenge_count height seed width : N) (session_key : list N) : nres verifier :=
  let* coordinates := generate_coordinates width height challenge_count seed in
  let md5_ := md5 (le64 seed ++ session_key) in
  let* rc4_ := rc4_new md5_ in
  Ok {| v_count := challenge_count; v_height := height; v_width := width; v_coordinates := coordinates;
        v_hmac_key := md5_; v_hmac_msg := []; v_rc4 := rc4_ |}.

(* pub fn get_matrix_coordinates(&mut self, round: u8) -> Option<(u8, u8)> *)
Definition v_get_matrix_coordinates (v : verifier) (round : N) : nres (option (N * N)) :=
  get_matrix_coordinates (v_count v) (v_width v) (v_height v) (v_coordinates v) round.

(* pub fn enter_value(&mut self, value: u8)
     let value = &mut [value];
     self.rc4.apply_keystream(value.as_mut_slice());
     self.hmac.update(value);                                                                  *)
Definition enter_value (v : verifier) (value : N) : nres verifier :=
  let* (rc4_, out) := apply_keystream (v_rc4 v) [value] in
  Ok {| v_count := v_count v; v_height := v_height v; v_width := v_width v;
        v_coordinates := v_coordinates v;
        v_hmac_key := v_hmac_key v; v_hmac_msg := v_hmac_msg v ++ out; v_rc4 := rc4_ |}.

(* pub fn into_proof(self) -> [u8; 20]       self.hmac.finalize_fixed().into() *)
Definition into_proof (v : verifier) : list N := hmac_sha1 (v_hmac_key v) (v_hmac_msg v).

(* for digit in digits { v.enter_value(digit); } *)
Fixpoint enter_values (v : verifier) (digits : list N) : nres verifier :=
  match digits with
  | [] => Ok v
  | d :: rest => let* v' := enter_value v d in enter_values v' rest
  end.

(* for round in 0..challenge_count {
       let (x, y) = v.get_matrix_coordinates(round).unwrap();                   (Panic if None)
       for digit in matrix_card.get_number_at_coordinates(x, y) { v.enter_value(digit); }
   }                                                                                           *)
Fixpoint verify_rounds (c : card) (v : verifier) (rounds : list N) : nres verifier :=
  match rounds with
  | [] => Ok v
  | round :: rest =>
    let* o := v_get_matrix_coordinates v round in
    match o with
    | None => Panic
    | Some (x, y) =>
      let* cell := get_number_at_coordinates c x y in
      let* v' := enter_values v cell in
      verify_rounds c v' rest
    end
  end.

(* 0..challenge_count *)
Definition rounds_of (challenge_count : N) : list N := map N.of_nat (seq 0 (N.to_nat challenge_count)).

(* pub fn verify_matrix_card_hash(matrix_card: &MatrixCard, challenge_count: u8, seed: u64,
       session_key: &[u8; 40], client_proof: &[u8; 20]) -> bool
     let mut v = MatrixCardVerifier::new(challenge_count, matrix_card.height(), seed, matrix_card.width(), session_key);
     (the loop above)
     let server_proof = v.into_proof();
     server_proof == *client_proof                                                             *)
Definition verify_matrix_card_hash (c : card) (challenge_count seed : N) (session_key client_proof : list N)
  : nres bool :=
  let* v := verifier_new challenge_count (c_height c) seed (c_width c) session_key in
  let* v' := verify_rounds c v (rounds_of challenge_count) in
  Ok (list_eqb (into_proof v') client_proof).

(* ---- the honest client (the client workflow of the module documentation, for every round):
   a fresh verifier with the same parameters; for each round it asks for the coordinates, reads the
   cell PRINTED at row y, column x (item y * width + x of the printer output) and enters its digits
   one at a time.  This is a scenario, not a function of the crate. *)
Fixpoint client_rounds (printed : list (list N)) (v : verifier) (rounds : list N) : nres verifier :=
  match rounds with
  | [] => Ok v
  | round :: rest =>
    let* o := v_get_matrix_coordinates v round in
    match o with
    | None => Panic
    | Some (x, y) =>
      match nth_error printed (N.to_nat (y * v_width v + x)) with
      | None => Panic
      | Some cell => let* v' := enter_values v cell in client_rounds printed v' rest
      end
    end
  end.

Definition honest_client (printed : list (list N)) (challenge_count height seed width : N)
  (session_key : list N) : nres (list N) :=
  let* v := verifier_new challenge_count height seed width session_key in
  let* v' := client_rounds printed v (rounds_of challenge_count) in
  Ok (into_proof v').

(* a client that enters an arbitrary digit sequence, one enter_value call per digit *)
Definition client_proof_of (challenge_count height seed width : N) (session_key digits : list N)
  : nres (list N) :=
  let* v := verifier_new challenge_count height seed width session_key in
  let* v' := enter_values v digits in
  Ok (into_proof v').
