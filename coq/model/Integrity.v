(* Model of src/integrity.rs.  The hmac crate's streaming interface is modelled as a state that
   accumulates the message: `update(a); update(b)` feeds `a ++ b` (modelled dependency, exercised
   by the correspondence with every way of cutting the same bytes). *)
From WS Require Import lib.Bytes lib.Res lib.Tape lib.Sha1 lib.Hmac Consts.
Local Open Scope N_scope.

Record hmac_state := { hm_key : list N; hm_msg : list N }.
Definition hmac_new (key : list N) : hmac_state := {| hm_key := key; hm_msg := [] |}.
Definition hmac_update (h : hmac_state) (data : list N) : hmac_state :=
  {| hm_key := hm_key h; hm_msg := hm_msg h ++ data |}.
Definition hmac_finalize (h : hmac_state) : list N := hmac_sha1 (hm_key h) (hm_msg h).

(* finalise(seed, checksum) = SHA-1(seed | checksum) *)
Definition finalise (seed checksum : list N) : list N := sha1 (seed ++ checksum).

Definition checksum (seed wow_exe fmod_dll ijl15_dll dbghelp_dll unicows_dll : list N) : list N :=
  let h := hmac_new seed in
  let h := hmac_update h wow_exe in
  let h := hmac_update h fmod_dll in
  let h := hmac_update h ijl15_dll in
  let h := hmac_update h dbghelp_dll in
  let h := hmac_update h unicows_dll in
  hmac_finalize h.

Definition login_integrity_check_generic (all_files checksum_salt client_public_key : list N) : list N :=
  let h := hmac_update (hmac_new checksum_salt) all_files in
  finalise client_public_key (hmac_finalize h).

Definition login_integrity_check_windows (wow_exe fmod_dll ijl15_dll dbghelp_dll unicows_dll checksum_salt client_public_key : list N) : list N :=
  finalise client_public_key (checksum checksum_salt wow_exe fmod_dll ijl15_dll dbghelp_dll unicows_dll).

Definition login_integrity_check_mac (world_of_warcraft info_plist objects_xib wow_icns pkg_info checksum_salt client_public_key : list N) : list N :=
  let h := hmac_new checksum_salt in
  let h := hmac_update h world_of_warcraft in
  let h := hmac_update h info_plist in
  let h := hmac_update h objects_xib in
  let h := hmac_update h wow_icns in
  let h := hmac_update h pkg_info in
  finalise client_public_key (hmac_finalize h).

Definition reconnect_integrity_check (proof_salt : list N) : list N :=
  finalise proof_salt (repeat 0 (N.to_nat sha1_hash_length)).

(* get_salt_value: 16 fresh bytes *)
Definition get_salt_value (t : tape) : list N * tape := draw (N.to_nat integrity_salt_length) t.
