(* LEGACY models: the code of the pinned tree v0.7.0 BEFORE the repairs
     "fix: matrix card lookup addresses the cell printed at row y, column x"
     "fix: get_matrix_coordinates returns None for round == challenge_count".
   These definitions are NOT tied to the current code by any correspondence check; they exist only
   so that the refutation lemmas C18_lookup_v070_refuted / C18_round_v070_refuted keep recording
   what was wrong.  Definitions only. *)
From WS Require Import lib.Bytes lib.Res model.Arr model.MatrixCard.
Local Open Scope N_scope.

(*   let start = x as usize * y as usize;
     let end = start + self.digit_count as usize;
     &self.data[start..end]                                                                  *)
Definition get_number_at_coordinates_v070 (c : card) (x y : N) : nres (list N) :=
  let start := x * y in
  let end_ := start + c_digits c in
  of_option (slice (c_data c) start end_).

(*   if round > self.challenge_count { return None; }      (the rest as in the current code) *)
Definition get_matrix_coordinates_v070 (challenge_count width height : N) (coordinates : list N) (round : N)
  : nres (option (N * N)) :=
  if challenge_count <? round then Ok None else
  match nth_error coordinates (N.to_nat round) with
  | None => Panic
  | Some coord =>
    if width =? 0 then Panic else
    let x := coord mod width in
    let y := coord / width in
    if height <=? y then Ok None else Ok (Some (x, y))
  end.
