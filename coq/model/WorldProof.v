(* Model of the world-login proof: src/vanilla_header/internal.rs (the shared proof function) and
   ProofSeed::{new, seed, into_client_header_crypto, into_server_header_crypto} of the three
   expansion modules, each modelled from its own source (they differ in the crypto object built). *)
From WS Require Import lib.Bytes lib.Res lib.Tape lib.Sha1 Consts model.Vanilla model.Tbc model.Wrath model.Server.
Local Open Scope N_scope.

(* calculate_world_server_proof(username, session_key, server_seed, client_seed) *)
Definition calculate_world_server_proof (username session_key : list N) (server_seed client_seed : N) : list N :=
  sha1 (username ++ le32 0 ++ le32 client_seed ++ le32 server_seed ++ session_key).

(* ProofSeed::new / default: thread_rng().next_u32(), 4 tape bytes little-endian *)
Definition proof_seed_new (t : tape) : N * tape := let '(b, t') := draw 4 t in (le_to_N b, t').

Section Module.
Context {C : Type} (new_client new_server : list N -> nres C).

Definition into_client_header_crypto (seed : N) (username session_key : list N) (server_seed : N)
  : nres (list N * C) :=
  let proof := calculate_world_server_proof username session_key server_seed seed in
  let* c := new_client session_key in
  Ok (proof, c).

Definition into_server_header_crypto (seed : N) (username session_key client_proof : list N) (client_seed : N)
  : res C match_err :=
  let server_proof := calculate_world_server_proof username session_key seed client_seed in
  if negb (list_eqb server_proof client_proof) then
    Err {| me_client_proof := client_proof; me_server_proof := server_proof |}
  else lift (new_server session_key).
End Module.

(* the three modules *)
Definition vanilla_client := into_client_header_crypto (fun k => Ok (Vanilla.crypto_new k)).
Definition vanilla_server := into_server_header_crypto (fun k => Ok (Vanilla.crypto_new k)).
Definition tbc_client := into_client_header_crypto Tbc.crypto_new.
Definition tbc_server := into_server_header_crypto Tbc.crypto_new.
Definition wrath_client := into_client_header_crypto Wrath.client_crypto_new.
Definition wrath_server := into_server_header_crypto Wrath.server_crypto_new.
