(* Model of src/tbc_header/{encrypt,decrypt,mod}.rs.  The key derivation is duplicated in the two
   halves in the Rust source, each with its own copy of the seed; they are modelled separately,
   each from its own extracted constant (Consts.tbc_seed_enc / tbc_seed_dec). *)
From WS Require Import lib.Bytes lib.Res lib.Hmac Consts model.HeaderCipher.
Local Open Scope N_scope.

Record half := { h_key : list N; h_st : cstate }.

(* `key.finalize().into_bytes().as_slice().try_into().unwrap()` into [u8; PROOF_LENGTH] *)
Definition into_key_array (k : list N) : nres (list N) :=
  if (length k =? N.to_nat proof_length)%nat then Ok k else Panic.

Definition encrypter_new (session_key : list N) : nres half :=
  let* k := into_key_array (hmac_sha1 tbc_seed_enc session_key) in
  Ok {| h_key := k; h_st := {| c_idx := 0; c_prev := 0 |} |}.
Definition decrypter_new (session_key : list N) : nres half :=
  let* k := into_key_array (hmac_sha1 tbc_seed_dec session_key) in
  Ok {| h_key := k; h_st := {| c_idx := 0; c_prev := 0 |} |}.

Definition encrypt (h : half) (data : list N) : nres (half * list N) :=
  match enc_loop proof_length (h_key h) (h_st h) data with
  | None => Panic
  | Some (s, out) => Ok ({| h_key := h_key h; h_st := s |}, out)
  end.
Definition decrypt (h : half) (data : list N) : nres (half * list N) :=
  match dec_loop proof_length (h_key h) (h_st h) data with
  | None => Panic
  | Some (s, out) => Ok ({| h_key := h_key h; h_st := s |}, out)
  end.

Definition server_header_bytes (size opcode : N) : list N := be16 size ++ le16 opcode.
Definition client_header_bytes (size opcode : N) : list N := be16 size ++ le32 opcode.
Definition encrypt_server_header (h : half) (size opcode : N) := encrypt h (server_header_bytes size opcode).
Definition encrypt_client_header (h : half) (size opcode : N) := encrypt h (client_header_bytes size opcode).

Record crypto := { cr_dec : half; cr_enc : half }.
Definition crypto_new (session_key : list N) : nres crypto :=
  let* d := decrypter_new session_key in
  let* e := encrypter_new session_key in
  Ok {| cr_dec := d; cr_enc := e |}.
Definition split (c : crypto) : half * half := (cr_enc c, cr_dec c).
Definition crypto_encrypt (c : crypto) (data : list N) : nres (crypto * list N) :=
  match encrypt (cr_enc c) data with
  | Ok (e, out) => Ok ({| cr_dec := cr_dec c; cr_enc := e |}, out)
  | Err e => Err e | Panic => Panic
  end.
Definition crypto_decrypt (c : crypto) (data : list N) : nres (crypto * list N) :=
  match decrypt (cr_dec c) data with
  | Ok (d, out) => Ok ({| cr_dec := d; cr_enc := cr_enc c |}, out)
  | Err e => Err e | Panic => Panic
  end.
