(* Model of the geometric part of src/matrix_card.rs (feature `matrix-card`): MatrixCard
   (from_data, get_number_at_coordinates, to_printer), generate_coordinates and
   MatrixCardVerifier::get_matrix_coordinates.  The proof value (MD5, RC4, HMAC-SHA1) is modelled
   elsewhere.  Arrays and Vecs are lists with checked accesses; u8 arithmetic is checked (the
   debug-build semantics; in release `width * height` wraps instead), every possible panic is
   [Panic].  Definitions only. *)
From WS Require Import lib.Bytes lib.Res Consts model.Arr.
Local Open Scope N_scope.

Record card := { c_digits : N; c_width : N; c_height : N; c_data : list N }.

(* pub fn get_matrix_card_size(digit_count: u8, height: u8, width: u8) -> usize
   three u8 values widened to usize: the product is below 2^24, no overflow on any target *)
Definition get_matrix_card_size (digit_count height width : N) : N := digit_count * height * width.

(* pub fn from_data(digit_count: u8, height: u8, width: u8, data: Vec<u8>) -> Option<Self> *)
Definition from_data (digit_count height width : N) (data : list N) : option card :=
  if N.of_nat (length data) =? get_matrix_card_size digit_count height width
  then Some {| c_digits := digit_count; c_width := width; c_height := height; c_data := data |}
  else None.

(* pub fn get_number_at_coordinates(&self, x: u8, y: u8) -> &[u8]
     let start = (y as usize * self.width as usize + x as usize) * self.digit_count as usize;
     let end = start + self.digit_count as usize;
     &self.data[start..end]                                                                  *)
Definition get_number_at_coordinates (c : card) (x y : N) : nres (list N) :=
  let start := (y * c_width c + x) * c_digits c in
  let end_ := start + c_digits c in
  of_option (slice (c_data c) start end_).

(* slice::chunks(n): consecutive pieces of n elements, the last one possibly shorter; panics when
   n = 0.  The fuel is the length of the slice, which suffices because every piece but the last
   consumes n >= 1 elements. *)
Fixpoint chunks_fuel (fuel n : nat) (l : list N) : list (list N) :=
  match fuel with
  | O => []
  | S f => match l with
           | [] => []
           | _ :: _ => firstn n l :: chunks_fuel f n (skipn n l)
           end
  end.
Definition chunks (n : N) (l : list N) : nres (list (list N)) :=
  if n =? 0 then Panic else Ok (chunks_fuel (length l) (N.to_nat n) l).

(* pub fn to_printer(&self) -> MatrixCardPrinter: the cells in printing order, as raw digits *)
Definition printer_cells (c : card) : nres (list (list N)) := chunks (c_digits c) (c_data c).

(* MatrixCardPrinter::next: each byte of a cell is appended as `b.to_string()` (decimal, no padding) *)
Definition u8_to_string (b : N) : list N :=
  if b <? 10 then [48 + b]
  else if b <? 100 then [48 + b / 10; 48 + b mod 10]
  else [48 + b / 100; 48 + (b / 10) mod 10; 48 + b mod 10].
Definition print_cell (cell : list N) : list N := concat (map u8_to_string cell).
Definition printer_strings (c : card) : nres (list (list N)) :=
  let* cells := printer_cells c in Ok (map print_cell cells).

(* for i in 1..matrix_size { matrix_indices[i as usize] = i; } *)
Fixpoint fill_loop (is : list nat) (v : list N) : option (list N) :=
  match is with
  | [] => Some v
  | i :: r => match set_nth i (N.of_nat i) v with
              | None => None
              | Some v' => fill_loop r v'
              end
  end.

(* for i in 0..challenge_count {
       let count = matrix_size - i;                                   (u8 subtraction)
       let index = seed % count as u64;                               (Panic if count = 0)
       coordinates[i as usize] = matrix_indices[index as usize];
       for j in index..(count as u64 - 1) { matrix_indices[j as usize] = matrix_indices[j as usize + 1]; }
       seed /= count as u64;
   }                                                                                         *)
Fixpoint gen_loop (is : list N) (matrix_size seed : N) (matrix_indices coordinates : list N)
  : nres (list N) :=
  match is with
  | [] => Ok coordinates
  | i :: rest =>
    if matrix_size <? i then Panic else
    let count := matrix_size - i in
    if count =? 0 then Panic else
    let index := seed mod count in
    match nth_error matrix_indices (N.to_nat index) with
    | None => Panic
    | Some v =>
      match set_nth (N.to_nat i) v coordinates with
      | None => Panic
      | Some coordinates' =>
        match shift_left (N.to_nat (count - 1 - index)) (N.to_nat index) matrix_indices with
        | None => Panic
        | Some matrix_indices' => gen_loop rest matrix_size (seed / count) matrix_indices' coordinates'
        end
      end
    end
  end.

(* fn generate_coordinates(width: u8, height: u8, challenge_count: u8, mut seed: u64) -> Vec<u8>
     let mut coordinates = vec![0_u8; challenge_count.into()];
     let matrix_size = width * height;                                (u8 multiplication)
     let mut matrix_indices = vec![0_u8; matrix_size.into()];                                 *)
Definition generate_coordinates (width height challenge_count seed : N) : nres (list N) :=
  let coordinates := repeat 0 (N.to_nat challenge_count) in
  if 255 <? width * height then Panic else
  let matrix_size := width * height in
  let matrix_indices := repeat 0 (N.to_nat matrix_size) in
  match fill_loop (seq 1 (N.to_nat matrix_size - 1)) matrix_indices with
  | None => Panic
  | Some matrix_indices' =>
    gen_loop (map N.of_nat (seq 0 (N.to_nat challenge_count))) matrix_size seed matrix_indices' coordinates
  end.

(* pub fn get_matrix_coordinates(&mut self, round: u8) -> Option<(u8, u8)>
     if round >= self.challenge_count { return None; }
     let coord = self.coordinates[round as usize];
     let x = coord % self.width;  let y = coord / self.width;         (Panic if width = 0)
     if y >= self.height { return None; }
     Some((x, y))                                                                             *)
Definition get_matrix_coordinates (challenge_count width height : N) (coordinates : list N) (round : N)
  : nres (option (N * N)) :=
  if challenge_count <=? round then Ok None else
  match nth_error coordinates (N.to_nat round) with
  | None => Panic
  | Some coord =>
    if width =? 0 then Panic else
    let x := coord mod width in
    let y := coord / width in
    if height <=? y then Ok None else Ok (Some (x, y))
  end.

(* the geometric fields of MatrixCardVerifier::new(challenge_count, height, seed, width, _) followed
   by get_matrix_coordinates(round) *)
Definition verifier_coordinates (challenge_count height seed width round : N) : nres (option (N * N)) :=
  let* coordinates := generate_coordinates width height challenge_count seed in
  get_matrix_coordinates challenge_count width height coordinates round.
