(* Model of src/normalized_string.rs (and the NormalizedStringError enum of src/error.rs).

     pub struct NormalizedString { s: [u8; 16], length: u8 }      derive(PartialEq, Eq, Hash, Ord, PartialOrd)

     fn inner(s: &str) -> Result<NormalizedString, NormalizedStringError> {
         if s.len() > MAXIMUM_STRING_LENGTH_IN_BYTES as usize || s.is_empty() { return Err(StringTooLong); }
         let mut array = [0_u8; 16];
         for (i, c) in s.chars().enumerate() {
             if !c.is_ascii() || c.is_ascii_control() { return Err(CharacterNotAllowed(c)); }
             array[i] = c.to_ascii_uppercase() as u8;
         }
         Ok(NormalizedString { s: array, length: s.len() as u8 })
     }

   A Rust string is a list of Unicode scalar values (code points as [N]); its `len()` is the number
   of UTF-8 bytes, [str_len].  `s.chars().enumerate()` is structural recursion with the index [i]
   counting characters, not bytes.  `array[i] = ..` is a bounds-checked write: out of range is
   [Panic].  `as u8` is [mod 256].  This file contains no proofs. *)
From WS Require Import lib.Bytes lib.Res Consts.
Local Open Scope N_scope.

Inductive ns_error := StringTooLong | CharacterNotAllowed (c : N).
Record nstr := { ns_arr : list N; ns_len : N }.

(* ---- modelled std functions ---- *)
(* char::len_utf8 *)
Definition len_utf8 (c : N) : nat :=
  if c <? 0x80 then 1 else if c <? 0x800 then 2 else if c <? 0x10000 then 3 else 4.
(* str::len : number of UTF-8 bytes *)
Fixpoint str_len (s : list N) : nat :=
  match s with [] => O | c :: r => (len_utf8 c + str_len r)%nat end.
(* char::is_ascii : the code point is <= 0x7F *)
Definition is_ascii (c : N) : bool := c <=? 0x7F.
(* char::is_ascii_control : '\0'..='\x1F' | '\x7F' *)
Definition is_ascii_control (c : N) : bool := (c <=? 0x1F) || (c =? 0x7F).
(* char::is_ascii_lowercase : 'a'..='z' *)
Definition is_ascii_lowercase (c : N) : bool := (97 <=? c) && (c <=? 122).
(* char::to_ascii_uppercase : for a lowercase ASCII letter the u8 with bit 5 flipped, else the char *)
Definition to_ascii_uppercase (c : N) : N := if is_ascii_lowercase c then N.lxor c 0x20 else c.

(* array[i] = v, bounds-checked *)
Fixpoint write (i : nat) (v : N) (a : list N) : option (list N) :=
  match a, i with
  | [], _ => None
  | _ :: r, O => Some (v :: r)
  | x :: r, S j => match write j v r with Some r' => Some (x :: r') | None => None end
  end.

(* ---- NormalizedString::new ---- *)
Fixpoint ns_loop (i : nat) (cs : list N) (array : list N) : res (list N) ns_error :=
  match cs with
  | [] => Ok array
  | c :: r =>
    if negb (is_ascii c) || is_ascii_control c then Err (CharacterNotAllowed c)
    else match write i (to_ascii_uppercase c mod 256) array with
         | None => Panic
         | Some array' => ns_loop (S i) r array'
         end
  end.

Definition ns_new (s : list N) : res nstr ns_error :=
  if (max_string_length <? N.of_nat (str_len s)) || (str_len s =? 0)%nat then Err StringTooLong
  else match ns_loop 0 s (repeat 0 (N.to_nat max_string_length)) with
       | Ok array => Ok {| ns_arr := array; ns_len := N.of_nat (str_len s) mod 256 |}
       | Err e => Err e
       | Panic => Panic
       end.

(* the other constructors; `impl AsRef<str>` / `impl Into<String>` / `String` carry the same text *)
Definition ns_from_str (s : list N) : res nstr ns_error := ns_new s.
Definition ns_from_string (s : list N) : res nstr ns_error := ns_new s.
Definition ns_try_from_str (s : list N) : res nstr ns_error := ns_new s.
Definition ns_try_from_string (s : list N) : res nstr ns_error := ns_new s.

(* ---- AsRef<str> : core::str::from_utf8(&self.s[..self.length as usize]).unwrap() ----
   [ns_text] is the slice itself.  [ns_as_ref] adds the two places where the Rust can panic: the
   range end beyond the array, and `unwrap` on a from_utf8 error.  from_utf8 is modelled exactly
   on ASCII input only (the bytes are then the characters); any byte >= 0x80 is rendered as
   [Panic], so a proof of [Ok] shows that the exact part of the model was used. *)
Definition ns_text (t : nstr) : list N := firstn (N.to_nat (ns_len t)) (ns_arr t).

Definition ns_as_ref (t : nstr) : nres (list N) :=
  if (length (ns_arr t) <? N.to_nat (ns_len t))%nat then Panic
  else if forallb (fun b => b <? 0x80) (ns_text t) then Ok (ns_text t)
  else Panic.

(* Display::fmt : f.write_str(self.as_ref()); the value is what is written *)
Definition ns_display (t : nstr) : nres (list N) := ns_as_ref t.

(* ---- derived PartialEq / Ord : field by field in declaration order, array first ----
   [u8; 16] compares as a slice: element by element, a strict prefix is Less. *)
Fixpoint arr_cmp (a b : list N) : comparison :=
  match a, b with
  | [], [] => Eq
  | [], _ :: _ => Lt
  | _ :: _, [] => Gt
  | x :: a', y :: b' => match x ?= y with Eq => arr_cmp a' b' | c => c end
  end.

Definition ns_eqb (t1 t2 : nstr) : bool :=
  list_eqb (ns_arr t1) (ns_arr t2) && (ns_len t1 =? ns_len t2).

Definition ns_cmp (t1 t2 : nstr) : comparison :=
  match arr_cmp (ns_arr t1) (ns_arr t2) with
  | Eq => ns_len t1 ?= ns_len t2
  | c => c
  end.
