(* Checked array primitives shared by the models of src/pin.rs and src/matrix_card.rs.
   A Rust array / Vec is a list; every index expression `a[i]` is a checked access and a miss is
   [None], which the callers turn into [Panic].  Definitions only. *)
From WS Require Import lib.Bytes.
Local Open Scope N_scope.

(* a[n] = v *)
Fixpoint set_nth {A : Type} (n : nat) (v : A) (l : list A) : option (list A) :=
  match l, n with
  | [], _ => None
  | _ :: r, O => Some (v :: r)
  | x :: r, S m => match set_nth m v r with Some r' => Some (x :: r') | None => None end
  end.

(* for k in 0..n { a[pos + k] = a[pos + k + 1]; }      the in-place left shift of both files:
     pin.rs          for i in 0..copy_size as usize { grid[remainder + i] = grid[remainder + i + 1]; }
     matrix_card.rs  for j in index..(count as u64 - 1) { matrix_indices[j] = matrix_indices[j + 1]; }
   The read happens before the write, both are checked. *)
Fixpoint shift_left {A : Type} (n pos : nat) (a : list A) : option (list A) :=
  match n with
  | O => Some a
  | S n' =>
    match nth_error a (S pos) with
    | None => None
    | Some v => match set_nth pos v a with
                | None => None
                | Some a' => shift_left n' (S pos) a'
                end
    end
  end.

(* a[s..e]: panics when s > e or e > a.len() *)
Definition slice {A : Type} (a : list A) (s e : N) : option (list A) :=
  if (e <? s) || (N.of_nat (length a) <? e) then None
  else Some (firstn (N.to_nat (e - s)) (skipn (N.to_nat s) a)).
