(* The big-integer LIBRARY calls that src/bigint.rs makes, as modelled dependencies (Gallina functions over Z; no
   axioms).  tools/extract_bigint.py renders the wrapper bodies of src/bigint.rs over these names for each back
   end (coq/BigintShim.v); proofs/steps/BigintShim.v proves the rendered wrappers equal to model/Bigint.v.
   What is TRUSTED here is that the functions below describe the libraries (num-bigint 0.4: BigInt::from_bytes_le,
   to_bytes_le, modpow, the operators; rug 1.x / GMP: Integer::from_digits, to_digits, pow_mod, secure_pow_mod, cmp0,
   is_even, the operators) - DESIGN.md section 5; each is also exercised against the real library by the C19
   correspondence (harness-fast links GMP, harness links num-bigint). *)
From Coq Require Import List ZArith NArith Bool.
From WS Require Import lib.Bytes lib.Res model.Bigint.
Import ListNotations.
Local Open Scope Z_scope.

Inductive sign := Sign_Minus | Sign_NoSign | Sign_Plus.
Inductive order := Order_LsfLe | Order_MsfBe.

Definition comparison_eqb (a b : comparison) : bool :=
  match a, b with Eq, Eq | Lt, Lt | Gt, Gt => true | _, _ => false end.

(* From<u8> of both libraries *)
Definition lib_from_u8 (v : N) : Z := Z.of_N v.
(* `%` of both libraries: truncated, sign of the dividend; division by zero panics *)
Definition lib_rem (a b : Z) : nres Z := if b =? 0 then Panic else Ok (Z.rem a b).
(* Option / Result ::unwrap *)
Definition lib_unwrap {A} (o : option A) : nres A := match o with Some a => Ok a | None => Panic end.
(* rug Integer::cmp0 *)
Definition lib_cmp0 (z : Z) : comparison := z ?= 0.

(* num-bigint *)
Definition nb_from_bytes_le (s : sign) (v : list N) : Z :=
  match s with Sign_Plus => le_to_Z v | Sign_Minus => - le_to_Z v | Sign_NoSign => 0 end.
Definition nb_to_bytes_le (z : Z) : sign * list N :=
  ((if z =? 0 then Sign_NoSign else if z <? 0 then Sign_Minus else Sign_Plus),
   (let a := Z.abs z in if a =? 0 then [0%N] else Z_to_le (nbytes a) a)).
Definition nb_modpow (b e m : Z) : nres Z := if (m =? 0) || (e <? 0) then Panic else Ok (powmod b e m).

(* rug / GMP *)
Definition gmp_digits (z : Z) : list N := let a := Z.abs z in if a =? 0 then [] else Z_to_le (nbytes a) a.
Definition gmp_from_digits (v : list N) (o : order) : Z := match o with Order_LsfLe => le_to_Z v | Order_MsfBe => le_to_Z (rev v) end.
Definition gmp_to_digits (z : Z) (o : order) : list N := match o with Order_LsfLe => gmp_digits z | Order_MsfBe => rev (gmp_digits z) end.
(* pow_mod: mpz_powm; a zero modulus is a division by zero inside GMP (panic); a negative exponent needs a modular
   inverse and answers Err when there is none (never reached: exponents come from from_digits) - rendered as None *)
Definition gmp_pow_mod (b e m : Z) : nres (option Z) :=
  if m =? 0 then Panic else if e <? 0 then Ok None else Ok (Some (powmod b e m)).
(* secure_pow_mod: panics unless the exponent is positive and the modulus odd *)
Definition gmp_secure_pow_mod (b e m : Z) : nres Z := if (e <=? 0) || Z.even m then Panic else Ok (powmod b e m).
