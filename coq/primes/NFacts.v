(* Closed numeric facts about the built-in modulus, stated over the constants extracted from
   /repo/src/primes.rs (Consts.v).  A changed constant breaks these obligations. *)
From WS Require Import lib.Bytes Consts primes.PockZ.
From Coq Require Import Znumtheory.
Local Open Scope Z_scope.

Definition Nz : Z := le_to_Z n_le.

Lemma Nz_value : Nz = N_wow. Proof. reflexivity. Qed.
Lemma n_le_length : length n_le = 32%nat. Proof. reflexivity. Qed.
Lemma n_le_bytes : bytes n_le. Proof. apply bytesb_spec. reflexivity. Qed.
Lemma n_be_rev : rev n_be = n_le. Proof. reflexivity. Qed.
Lemma Nz_pos : 0 < Nz. Proof. reflexivity. Qed.
Lemma Nz_lt : Nz < 2 ^ 256. Proof. reflexivity. Qed.
Lemma Nz_double : 2 ^ 256 < 2 * Nz. Proof. reflexivity. Qed.
Lemma Nz_odd : Z.odd Nz = true. Proof. reflexivity. Qed.
Theorem Nz_prime : prime Nz. Proof. rewrite Nz_value. exact N_wow_prime. Qed.
Lemma generator_value : generator = 7%N. Proof. reflexivity. Qed.
Lemma k_value_value : k_value = 3%N. Proof. reflexivity. Qed.
Lemma g_coprime : Z.gcd (Z.of_N generator) Nz = 1. Proof. reflexivity. Qed.
