(* Transport to Z, executable certificate checker, primality of the WoW modulus. *)
From mathcomp Require Import all_ssreflect ssrZ.
From Coq Require Import ZArith Znumtheory Lia List.
From WS Require Import primes.Pock.
Set Implicit Arguments.
Unset Strict Implicit.
Unset Printing Implicit Defensive.
Local Open Scope Z_scope.
Notation natprime := mathcomp.ssreflect.prime.prime.
Notation Zprime := Znumtheory.prime.

(* ---- nat <-> Z bridges (statement level only; nothing here is ever computed on nat) ---- *)
Lemma expn_pow (x e : nat) : Z.of_nat (expn x e) = Z.of_nat x ^ Z.of_nat e.
Proof.
elim: e => [|e IH]; first by rewrite expn0.
by rewrite expnS Nat2Z.inj_mul IH Nat2Z.inj_succ Z.pow_succ_r; last exact: Nat2Z.is_nonneg.
Qed.

Lemma ltn_lt (a b : nat) : (a < b)%nat -> Z.of_nat a < Z.of_nat b.
Proof. by move/ltP=> ?; apply/Nat2Z.inj_lt. Qed.

Lemma modn_mod (m d : nat) : (0 < d)%nat -> Z.of_nat (m %% d) = Z.of_nat m mod Z.of_nat d.
Proof.
move=> d_gt0; apply: (Z.mod_unique_pos _ _ (Z.of_nat (m %/ d))).
  split; first exact: Nat2Z.is_nonneg.
  by apply: ltn_lt; rewrite ltn_mod.
by rewrite {1}(divn_eq m d) Nat2Z.inj_add Nat2Z.inj_mul Z.mul_comm.
Qed.

Lemma dvdn_divide (d m : nat) : (d %| m)%nat -> (Z.of_nat d | Z.of_nat m).
Proof. by case/dvdnP=> k ->; exists (Z.of_nat k); rewrite Nat2Z.inj_mul. Qed.

Lemma divide_dvdn (d m : Z) : 0 <= d -> 0 <= m -> (d | m) -> (Z.to_nat d %| Z.to_nat m)%nat.
Proof.
move=> d0 m0 [k def_m].
have [d_eq0|d_pos] : d = 0 \/ 0 < d by lia.
  by subst d; rewrite def_m Z.mul_0_r.
have k0 : 0 <= k by nia.
by apply/dvdnP; exists (Z.to_nat k); rewrite def_m Z2Nat.inj_mul.
Qed.

Lemma Zprime_natprime p : Zprime p -> natprime (Z.to_nat p).
Proof.
move=> p_pr; have p_gt1 := prime_ge_2 _ p_pr.
apply/primeP; split; first by apply/ltP; lia.
move=> d /dvdn_divide; rewrite Z2Nat.id; last lia.
move/(prime_divisors _ p_pr) => H; apply/orP.
have d0 := Nat2Z.is_nonneg d.
by case: H => [|[|[|]]] H; solve [lia | left; apply/eqP; lia | right; apply/eqP; lia].
Qed.

Lemma natprime_Zprime p : 0 <= p -> natprime (Z.to_nat p) -> Zprime p.
Proof.
move=> p0 p_pr; apply/prime_alt; split.
  by have /ltP := prime_gt1 p_pr; lia.
move=> m [m_gt1 m_ltp] m_dv.
have m0 : 0 <= m by lia.
have dv := divide_dvdn m0 p0 m_dv.
by move/primeP: p_pr => [_ /(_ _ dv)] /orP[] /eqP; lia.
Qed.

(* ---- executable checker on Z ---- *)
Fixpoint powmod_pos (b : Z) (e : positive) (m : Z) : Z :=
  match e with
  | xH => b mod m
  | xO e' => let r := powmod_pos b e' m in (r * r) mod m
  | xI e' => let r := powmod_pos b e' m in ((r * r) mod m * b) mod m
  end.
Definition powmod (b e m : Z) : Z :=
  match e with Z0 => 1 mod m | Zpos p => powmod_pos b p m | Zneg _ => 0 end.

Lemma powmod_pos_spec b e m : 0 < m -> powmod_pos b e m = (b ^ Zpos e) mod m.
Proof.
move=> m_pos; elim: e => [e IH|e IH|]; rewrite [powmod_pos _ _ _]/=.
- rewrite IH; have -> : Zpos e~1 = Zpos e + Zpos e + 1 by lia.
  rewrite !Z.pow_add_r; try lia.
  by rewrite Z.pow_1_r -Zmult_mod Zmult_mod_idemp_l.
- rewrite IH; have -> : Zpos e~0 = Zpos e + Zpos e by lia.
  by rewrite Z.pow_add_r; try lia; rewrite -Zmult_mod.
- by rewrite Z.pow_1_r.
Qed.

Lemma powmod_spec b e m : 0 < m -> 0 <= e -> powmod b e m = (b ^ e) mod m.
Proof.
by case: e => [|e|e] m_pos e0 //=; exact: powmod_pos_spec.
Qed.

(* ---- trial division for small primes ---- *)
Fixpoint no_divisor_from (fuel : nat) (d n : Z) : bool :=
  match fuel with
  | O => false
  | S f => if n <? d * d then true
           else if n mod d =? 0 then false
           else no_divisor_from f (d + 1) n
  end.
Definition small_prime (n : Z) : bool := (1 <? n) && no_divisor_from (Z.to_nat (Z.sqrt n) + 2) 2 n.

Lemma no_divisor_from_ok fuel d n :
  1 < d -> no_divisor_from fuel d n = true ->
  forall k, d <= k -> k * k <= n -> ~ (k | n).
Proof.
elim: fuel d => [|f IH] d d_gt1 //=.
case: Z.ltb_spec => [lt_n _ k le_dk le_kk|le_dd]; first by nia.
case: Z.eqb_spec => // nd /IH H k le_dk le_kk.
have [<-|lt_dk] : d = k \/ d + 1 <= k by lia.
  by move=> /Zdivide_mod.
by apply: H => //; lia.
Qed.

Lemma small_prime_ok n : small_prime n = true -> Zprime n.
Proof.
case/andP=> /Z.ltb_lt n_gt1 nodiv; apply/prime_alt; split=> // m [m_gt1 m_ltn] [k def_n].
have k_gt1 : 1 < k by nia.
have [le_mk|le_km] : m * m <= n \/ k * k <= n by nia.
  by apply: (no_divisor_from_ok _ nodiv (k := m)) => //; [lia | exists k].
by apply: (no_divisor_from_ok _ nodiv (k := k)) => //; [lia | exists m; lia].
Qed.

(* ---- certificate checker ---- *)
Import ListNotations.
Definition check_one (n : Z) (qa : Z * Z) : bool :=
  let '(q, a) := qa in
  (1 <? q) && ((n - 1) mod q =? 0) && (0 <? a) &&
  (powmod a (n - 1) n =? 1) && (Z.gcd (powmod a ((n - 1) / q) n - 1) n =? 1).

Fixpoint distinct (l : list Z) : bool :=
  match l with nil => true | x :: r => negb (existsb (Z.eqb x) r) && distinct r end.

Definition zprod (l : list Z) : Z := fold_right Z.mul 1 l.

Definition check (n : Z) (qas : list (Z * Z)) : bool :=
  (1 <? n) && distinct (List.map fst qas) && (n <? zprod (List.map fst qas) ^ 2) && forallb (check_one n) qas.

Definition tonat (qa : Z * Z) : nat * nat := (Z.to_nat qa.1, Z.to_nat qa.2).

Lemma prodn_zprod (l : list Z) : (forall q, In q l -> 0 <= q) ->
  Z.of_nat (\prod_(q <- List.map Z.to_nat l) q) = zprod l.
Proof.
elim: l => [|x l IH] pos; first by rewrite big_nil.
rewrite /= big_cons Nat2Z.inj_mul IH; last by move=> q ?; apply: pos; right.
by rewrite Z2Nat.id //; apply: pos; left.
Qed.

Lemma predn_sub1 n : 1 < n -> (Z.to_nat n).-1 = Z.to_nat (n - 1).
Proof. by move=> ?; rewrite Z2Nat.inj_sub // -subn1; congr subn. Qed.

Lemma In_mem (T : eqType) (x : T) (l : list T) : In x l <-> x \in l.
Proof.
elim: l => [|y l IH] /=; first by rewrite seq.in_nil; split.
rewrite seq.in_cons; split.
  by case=> [->|/IH ->]; rewrite ?eqxx ?orbT.
by case/orP=> [/eqP ->|/IH]; [left | right].
Qed.

Lemma uniq_tonat (l : list Z) :
  (forall q, In q l -> 0 <= q) -> distinct l -> uniq (List.map Z.to_nat l).
Proof.
elim: l => [|x l IH] //= pos /andP[nin dl].
rewrite IH ?andbT //; last by move=> q ?; apply: pos; right.
apply/negP=> /mapP[y /In_mem y_in eq_xy].
have xy : x = y.
  by apply: Z2Nat.inj => //; [apply: pos; left | apply: pos; right].
case/negP: nin; apply/existsb_exists; exists y; split=> //.
by apply/Z.eqb_eq.
Qed.

Theorem pocklington_Z n qas :
  check n qas = true -> (forall q, In q (List.map fst qas) -> Zprime q) -> Zprime n.
Proof.
case/andP=> /andP[/andP[/Z.ltb_lt n_gt1 dist] /Z.ltb_lt ltF] /forallb_forall chk qs_pr.
have n0 : 0 <= n by lia.
apply: natprime_Zprime => //.
have q_pos q : In q (List.map fst qas) -> 1 < q.
  by move/qs_pr/prime_ge_2; lia.
have n1E := predn_sub1 n_gt1.
have nn_gt1 : (1 < Z.to_nat n)%nat by apply/ltP; lia.
have mapE : [seq i.1 | i <- List.map tonat qas] = List.map Z.to_nat (List.map fst qas).
  by elim: (qas) => [|[q a] l IH] //=; rewrite IH.
apply: (@pocklington (Z.to_nat n) (List.map tonat qas)) => //; rewrite ?mapE.
- by apply: uniq_tonat => // q /q_pos; lia.
- apply/allP=> q /In_mem /in_map_iff[z [<- z_in]].
  exact/Zprime_natprime/qs_pr.
- apply/allP=> q /In_mem /in_map_iff[z [<- z_in]].
  have /in_map_iff[[z' a] [/= ez qa_in]] := z_in; subst z'.
  have := chk _ qa_in; rewrite /check_one => /andP[/andP[/andP[/andP[_ /Z.eqb_eq dv] _] _] _].
  rewrite n1E; apply: divide_dvdn; [by have := q_pos _ z_in; lia | lia |].
  by apply: Zmod_divide => //; have := q_pos _ z_in; lia.
- apply/ltP/Nat2Z.inj_lt; rewrite expn_pow prodn_zprod ?Z2Nat.id //.
  by move=> q /q_pos; lia.
- move=> [q' a'] /In_mem /in_map_iff[[q a] [[<- <-] qa_in]] /=.
  have q_in : In q (List.map fst qas) by apply/in_map_iff; exists (q, a).
  have q_gt1 := q_pos _ q_in.
  have := chk _ qa_in; rewrite /check_one.
  case/andP=> /andP[/andP[/andP[_ /Z.eqb_eq dv] /Z.ltb_lt a_pos] /Z.eqb_eq an1] /Z.eqb_eq co.
  rewrite n1E; split.
    have pos : (0 < Z.to_nat n)%nat by exact: ltnW.
    apply: Nat2Z.inj; rewrite !(modn_mod _ pos) expn_pow !Z2Nat.id; try lia.
    rewrite -powmod_spec; try lia.
    by rewrite an1 Z.mod_1_l.
  move=> r r_pr r_dv_n; apply/negP=> r_dv.
  have r_gt1 : (1 < r)%nat := prime_gt1 r_pr.
  have /dvdn_divide := r_dv_n; rewrite Z2Nat.id // => zr_dv_n.
  have [c def_c] : (q | n - 1) by apply: Zmod_divide => //; lia.
  have c0 : 0 <= c by nia.
  have divE : (n - 1) / q = c by rewrite def_c Z.div_mul //; lia.
  have e_nat : (Z.to_nat (n - 1) %/ Z.to_nat q)%nat = Z.to_nat c.
    have q0 : 0 <= q by lia.
    rewrite def_c (Z2Nat.inj_mul c q c0 q0) mulnK //.
    by apply/ltP; lia.
  move: r_dv; rewrite e_nat => /dvdn_divide.
  have A_pos : (0 < expn (Z.to_nat a) (Z.to_nat c))%nat by rewrite expn_gt0; apply/orP; left; apply/ltP; lia.
  rewrite (Nat2Z.inj_sub _ 1 (elimT leP A_pos)).
  have a0 : 0 <= a by lia.
  rewrite expn_pow (Z2Nat.id a a0) (Z2Nat.id c c0).
  move=> zr_dv.
  have zr_dv_pm : (Z.of_nat r | powmod a ((n - 1) / q) n - 1).
    rewrite divE powmod_spec; try lia.
    rewrite Zmod_eq; last lia.
    have -> : a ^ c - a ^ c / n * n - 1 = (a ^ c - 1) - (a ^ c / n) * n by ring.
    by apply: Z.divide_sub_r => //; apply: Z.divide_mul_r.
  have : (Z.of_nat r | 1) by rewrite -co; apply: Z.gcd_greatest.
  by move/Z.divide_1_r_nonneg => /(_ (Nat2Z.is_nonneg r)) r1; move/ltP: r_gt1; lia.
Qed.
Print Assumptions pocklington_Z.

(* ---- the certificate for the WoW modulus ---- *)
Definition N_wow := 0x894B645E89E1535BBDAD5B8B290650530801B18EBFBF5E8FAB3C82872A3E9BB7.
Definition p23 := 6993499.
Definition p32 := 2194081313.
Definition p42 := 3345116454683.
Definition p43 := 6099546050141.
Definition p51 := 1573682880936379.
Definition p141 := 2279079126837977412406933585396045119937459.
Definition p255 := 31050033254578008671034748070451474931624879168000398464283220585146864324059.

Lemma p23_prime : Zprime p23. Proof. by apply: small_prime_ok; vm_compute. Qed.
Lemma p32_prime : Zprime p32. Proof. by apply: small_prime_ok; vm_compute. Qed.
Lemma p42_prime : Zprime p42.
Proof. apply: (@pocklington_Z _ [(p23, 2)]); first by vm_compute. by move=> q /= [<-|[]]; exact: p23_prime. Qed.
Lemma p43_prime : Zprime p43.
Proof. apply: (@pocklington_Z _ [(p32, 2)]); first by vm_compute. by move=> q /= [<-|[]]; exact: p32_prime. Qed.
Lemma p51_prime : Zprime p51.
Proof. apply: (@pocklington_Z _ [(p43, 2)]); first by vm_compute. by move=> q /= [<-|[]]; exact: p43_prime. Qed.
Lemma p141_prime : Zprime p141.
Proof.
apply: (@pocklington_Z _ [(p51, 2); (p42, 2)]); first by vm_compute.
by move=> q /= [<-|[<-|[]]]; [exact: p51_prime | exact: p42_prime].
Qed.
Lemma p255_prime : Zprime p255.
Proof. apply: (@pocklington_Z _ [(p141, 2)]); first by vm_compute. by move=> q /= [<-|[]]; exact: p141_prime. Qed.
Theorem N_wow_prime : Zprime N_wow.
Proof. apply: (@pocklington_Z _ [(p255, 2)]); first by vm_compute. by move=> q /= [<-|[]]; exact: p255_prime. Qed.
Print Assumptions N_wow_prime.
