(* Pocklington's criterion over MathComp nat (abstract; never computed). *)
From mathcomp Require Import all_ssreflect.
Set Implicit Arguments.
Unset Strict Implicit.
Unset Printing Implicit Defensive.

(* valuation lemma: a divisor of m that does not divide m/q carries the full q-part of m *)
Lemma dvdn_divq_or_full q d m :
  prime q -> 0 < m -> q %| m -> d %| m -> ~~ (d %| m %/ q) -> q ^ logn q m %| d.
Proof.
move=> q_pr m_gt0 q_dv_m d_dv_m nd.
have d_gt0 : 0 < d by apply: dvdn_gt0 d_dv_m.
have [d' co_q_d' def_d] := pfactor_coprime q_pr d_gt0.
have [m' co_q_m' def_m] := pfactor_coprime q_pr m_gt0.
set e := logn q d in def_d; set f := logn q m in def_m *.
have le_ef : e <= f by apply: dvdn_leq_log.
case: (ltngtP e f) le_ef => // [lt_ef _|eq_ef _]; last by rewrite def_d eq_ef dvdn_mull.
case/negP: nd.
have f_gt0 : 0 < f by apply: leq_ltn_trans lt_ef.
have def_mq : m %/ q = m' * q ^ f.-1.
  by rewrite def_m -{1}(prednK f_gt0) expnS mulnCA mulKn ?prime_gt0.
rewrite def_mq def_d dvdn_mul //; last by rewrite dvdn_exp2l // -ltnS prednK.
have: d' %| m' * q ^ f by rewrite -def_m (dvdn_trans _ d_dv_m) // def_d dvdn_mulr.
by rewrite Gauss_dvdl // coprimeXr // coprime_sym.
Qed.

Section Order.
Variables (p a : nat).
Hypothesis p_pr : prime p.

Lemma exp_mod1_dvd d k :
  0 < d -> a ^ d = 1 %[mod p] -> (forall j, 0 < j < d -> a ^ j != 1 %[mod p]) ->
  a ^ k = 1 %[mod p] -> d %| k.
Proof.
move=> d_gt0 ad1 dmin ak1.
have e : a ^ (k %% d) = a ^ k %[mod p].
  rewrite {2}(divn_eq k d) expnD (mulnC (k %/ d)) expnM -modnMml -(modnXm (k %/ d) p (a ^ d)) ad1 modnXm exp1n.
  by rewrite modnMml mul1n.
rewrite /dvdn; apply/negPn/negP => r_ne0.
have := dmin (k %% d); rewrite lt0n r_ne0 ltn_mod d_gt0 => /(_ isT).
by rewrite e ak1 eqxx.
Qed.
End Order.

(* one prime factor q of n-1, witness a: every prime divisor p of n has q^v | p-1 *)
Lemma pock_step n p q a :
  1 < n -> prime p -> p %| n -> prime q -> q %| n.-1 ->
  a ^ n.-1 = 1 %[mod n] -> (forall r, prime r -> r %| n -> ~~ (r %| a ^ (n.-1 %/ q) - 1)) ->
  q ^ logn q n.-1 %| p.-1.
Proof.
move=> n_gt1 p_pr p_dv_n q_pr q_dv an1 co.
have p_gt1 := prime_gt1 p_pr.
have p_gt0 : 0 < p by apply: ltnW.
have n1_gt0 : 0 < n.-1 by rewrite -subn1 subn_gt0.
have an1p : a ^ n.-1 = 1 %[mod p].
  by rewrite -(modn_dvdm _ p_dv_n) an1 modn_dvdm.
(* the order of a mod p *)
have exP : exists k, (0 < k) && (a ^ k == 1 %[mod p]) by exists n.-1; rewrite n1_gt0 an1p eqxx.
case: (ex_minnP exP) => d /andP[d_gt0 /eqP ad1] dmin.
have dminP j : 0 < j < d -> a ^ j != 1 %[mod p].
  case/andP=> j_gt0 lt_jd; apply/negP=> aj1.
  by have := dmin j; rewrite j_gt0 aj1 leqNgt lt_jd => /(_ isT).
have d_dv k : a ^ k = 1 %[mod p] -> d %| k := exp_mod1_dvd d_gt0 ad1 dminP.
have co_ap : coprime a p.
  rewrite coprime_sym prime_coprime //; apply/negP=> p_dv_a.
  have: a ^ n.-1 %% p = 0 by apply/eqP; rewrite -/(dvdn _ _) dvdn_exp.
  by rewrite an1p modn_small.
(* Fermat *)
have a_gt0 : 0 < a.
  by case: (a) co_ap => //; rewrite /coprime gcd0n => /eqP p1; rewrite p1 in p_gt1.
have ap1 : a ^ p.-1 = 1 %[mod p].
  have := fermat_little a p_pr => /eqP; rewrite eqn_mod_dvd; last first.
    by rewrite -{1}(expn1 a) leq_pexp2l // prime_gt0.
  rewrite -[in a ^ p](prednK p_gt0) expnS.
  have -> : a * a ^ p.-1 - a = a * (a ^ p.-1 - 1) by rewrite mulnBr muln1.
  rewrite Gauss_dvdr; last by rewrite coprime_sym.
  by rewrite -eqn_mod_dvd ?expn_gt0 ?a_gt0 // => /eqP.
have d_dv_n1 : d %| n.-1 := d_dv _ an1p.
have d_dv_p1 : d %| p.-1 := d_dv _ ap1.
apply: dvdn_trans d_dv_p1.
apply: dvdn_divq_or_full => //.
apply/negP=> /dvdnP[c def_c].
have aq1 : a ^ (n.-1 %/ q) = 1 %[mod p].
  by rewrite def_c mulnC expnM -modnXm ad1 modnXm exp1n.
have p_dv : p %| a ^ (n.-1 %/ q) - 1.
  by rewrite -eqn_mod_dvd ?expn_gt0 ?a_gt0 //; apply/eqP.
by have := co p p_pr p_dv_n; rewrite p_dv.
Qed.

(* product of distinct primes dividing m divides m *)
Lemma prod_primes_dvd (qs : seq nat) m :
  uniq qs -> all prime qs -> all (fun q => q %| m) qs -> \prod_(q <- qs) q %| m.
Proof.
elim: qs => [|q qs IH] /=; first by rewrite big_nil dvd1n.
case/andP=> q_notin uq /andP[q_pr qs_pr] /andP[q_dv qs_dv].
rewrite big_cons Gauss_dvd ?q_dv ?IH //.
rewrite big_seq; elim/big_ind: _ => [|x y cx cy|r r_in]; rewrite ?coprimen1 ?coprimeMr ?cx ?cy //.
have r_pr : prime r by apply: (allP qs_pr).
rewrite prime_coprime // dvdn_prime2 //.
by apply: contraNneq q_notin => ->.
Qed.

Theorem pocklington n (qas : seq (nat * nat)) :
  1 < n ->
  let qs := map fst qas in
  let F := \prod_(q <- qs) q in
  uniq qs -> all prime qs -> all (fun q => q %| n.-1) qs -> n < F ^ 2 ->
  (forall qa, qa \in qas -> qa.2 ^ n.-1 = 1 %[mod n] /\
     forall r, prime r -> r %| n -> ~~ (r %| qa.2 ^ (n.-1 %/ qa.1) - 1)) ->
  prime n.
Proof.
move=> n_gt1 qs F uq qs_pr qs_dv ltnF cert.
apply: ltn_pdiv2_prime; first exact: ltnW.
have p_pr := pdiv_prime n_gt1; have p_dv := pdiv_dvd n.
set p := pdiv n in p_pr p_dv *.
have F_dv : F %| p.-1.
  apply: prod_primes_dvd => //; apply/allP=> q /mapP[[q' a] qa_in /= ->].
  have q_in : q' \in qs by apply/mapP; exists (q', a).
  have q_pr : prime q' := allP qs_pr _ q_in.
  have q_dv : q' %| n.-1 := allP qs_dv _ q_in.
  have [an1 co] := cert _ qa_in.
  have := pock_step n_gt1 p_pr p_dv q_pr q_dv an1 co.
  apply: dvdn_trans; rewrite -{1}(expn1 q') dvdn_exp2l // logn_gt0 mem_primes q_pr q_dv andbT.
  by rewrite -subn1 subn_gt0.
have p1_gt0 : 0 < p.-1 by rewrite -subn1 subn_gt0 prime_gt1.
have leFp : F < p by rewrite -(prednK (prime_gt0 p_pr)) ltnS dvdn_leq.
by apply: ltn_trans ltnF _; rewrite ltn_exp2r.
Qed.
Print Assumptions pocklington.
