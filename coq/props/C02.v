(* C02 — wrong credentials or any altered handshake value are always rejected. *)
From WS Require Import lib.Bytes lib.Res lib.Tape lib.Sha1 Consts model.Bigint model.Key model.Srp model.Server model.Client
  spec.Srp6 proofs.Handshake primes.NFacts.
Local Open Scope Z_scope.

(* The server accepts a proof iff it equals the value determined by (user, salt, A, B, K(A,v,b));
   on refusal the error carries both proofs and no server object exists (by the type of res). *)
Theorem C02_server_iff : forall pr A m t, length A = 32%nat ->
  (m = server_M1 pr A ->
     exists srv t', into_server Default pr A m t = Ok (srv, sp_M2 A (server_M1 pr A) (server_K pr A), t') /\
                    ss_K srv = server_K pr A /\ ss_user srv = pr_user pr) /\
  (m <> server_M1 pr A ->
     into_server Default pr A m t = Err {| me_client_proof := m; me_server_proof := server_M1 pr A |}).
Proof. exact server_iff. Qed.

(* The client accepts M2 iff it equals H(A | M1 | K); on refusal client_proof = the value it
   computed and server_proof = the value presented. *)
Theorem C02_client_iff : forall c m,
  (m = sp_M2 (cc_A c) (cc_M1 c) (cc_K c) -> verify_server_proof c m = Ok {| sc_user := cc_user c; sc_K := cc_K c |}) /\
  (m <> sp_M2 (cc_A c) (cc_M1 c) (cc_K c) ->
     verify_server_proof c m = Err {| me_client_proof := sp_M2 (cc_A c) (cc_M1 c) (cc_K c); me_server_proof := m |}).
Proof. exact client_iff. Qed.

(* every one of the 160 single-bit changes is a different 20-byte proof, hence refused *)
Theorem C02_bitflip : forall i m, length m = 20%nat -> (i < 160)%nat ->
  flip_bit i m <> m /\ length (flip_bit i m) = 20%nat.
Proof. exact bitflip. Qed.

Theorem C02_server_refuses_bitflip : forall pr A t i, length A = 32%nat -> (i < 160)%nat ->
  into_server Default pr A (flip_bit i (server_M1 pr A)) t =
  Err {| me_client_proof := flip_bit i (server_M1 pr A); me_server_proof := server_M1 pr A |}.
Proof. exact server_refuses_bitflip. Qed.

(* M1 binds username, salt, A, B and K: two accepted proofs with any differing field are an
   explicit SHA-1 collision (refusal outright would assert collision-freeness of SHA-1) *)
Theorem C02_binding : forall g n U salt A B K U' salt' A' B' K',
  length salt = 32%nat -> length salt' = 32%nat -> length A = 32%nat -> length A' = 32%nat ->
  length B = 32%nat -> length B' = 32%nat ->
  sp_M1 g n U salt A B K = sp_M1 g n U' salt' A' B' K' ->
  (U = U' /\ salt = salt' /\ A = A' /\ B = B' /\ K = K') \/ collision.
Proof. exact M1_binding. Qed.

Theorem C02_binding_M2 : forall A M1 K A' M1' K',
  length A = 32%nat -> length A' = 32%nat -> length M1 = 20%nat -> length M1' = 20%nat ->
  sp_M2 A M1 K = sp_M2 A' M1' K' -> (A = A' /\ M1 = M1' /\ K = K') \/ collision.
Proof. exact M2_binding. Qed.

Print Assumptions C02_server_iff.
Print Assumptions C02_client_iff.
Print Assumptions C02_bitflip.
Print Assumptions C02_server_refuses_bitflip.
Print Assumptions C02_binding.
Print Assumptions C02_binding_M2.
