(* C08 — TBC header cipher: HMAC-derived 20-byte key, same recurrence, exact inverse. *)
From WS Require Import lib.Bytes lib.Res lib.Calls lib.Hmac Consts spec.HeaderCipher model.HeaderCipher model.Tbc
  proofs.HeaderCipher proofs.Tbc.
Local Open Scope N_scope.

(* both halves key themselves with HMAC-SHA1(TBC seed, session key): the two separately coded
   derivations (each from its own seed literal in the source) agree, and never panic *)
Theorem C08_key : forall K,
  encrypter_new K = Ok (mk_half (hmac_sha1 tbc_seed K) 0 0) /\
  decrypter_new K = Ok (mk_half (hmac_sha1 tbc_seed K) 0 0).
Proof. exact new_spec. Qed.

Theorem C08_seeds : tbc_seed_enc = tbc_seed /\ tbc_seed_dec = tbc_seed.
Proof. exact seeds_equal. Qed.

Theorem C08_enc_calls : forall K chunks, exists h,
  encrypter_new K = Ok h /\
  run_calls encrypt h chunks =
  Ok (mk_half (tbc_key K) (N.of_nat (length (concat chunks) mod 20)) (last (encrypt_stream (tbc_key K) (concat chunks)) 0),
      encrypt_stream (tbc_key K) (concat chunks)).
Proof. exact enc_calls. Qed.

Theorem C08_dec_calls : forall K chunks, exists h,
  decrypter_new K = Ok h /\
  run_calls decrypt h chunks =
  Ok (mk_half (tbc_key K) (N.of_nat (length (concat chunks) mod 20)) (last (concat chunks) 0),
      decrypt_stream (tbc_key K) (concat chunks)).
Proof. exact dec_calls. Qed.

Theorem C08_roundtrip : forall K xs cs1 cs2, bytes xs ->
  concat cs1 = xs -> concat cs2 = encrypt_stream (tbc_key K) xs ->
  exists e d he hd,
    encrypter_new K = Ok e /\ decrypter_new K = Ok d /\
    run_calls encrypt e cs1 = Ok (he, encrypt_stream (tbc_key K) xs) /\
    run_calls decrypt d cs2 = Ok (hd, xs) /\ h_st hd = h_st he /\ h_key hd = h_key he.
Proof. exact roundtrip. Qed.

Theorem C08_empty_call : forall h, encrypt h [] = Ok (h, []) /\ decrypt h [] = Ok (h, []).
Proof. exact empty_call. Qed.

Theorem C08_step_table : forall k i p x, length k = 20%nat -> (i < 20)%nat ->
  encrypt (mk_half k (N.of_nat i) p) [x] =
    Ok (mk_half k (N.of_nat (S i mod 20)) ((N.lxor x (nth i k 0) + p) mod 256), [(N.lxor x (nth i k 0) + p) mod 256]) /\
  decrypt (mk_half k (N.of_nat i) p) [x] =
    Ok (mk_half k (N.of_nat (S i mod 20)) x, [N.lxor ((x + 256 - p) mod 256) (nth i k 0)]).
Proof. exact step_table. Qed.

Theorem C08_no_panic_inv : forall h data, length (h_key h) = 20%nat -> c_idx (h_st h) < 20 ->
  (exists h' out, encrypt h data = Ok (h', out) /\ h_key h' = h_key h /\ c_idx (h_st h') < 20 /\ length out = length data) /\
  (exists h' out, decrypt h data = Ok (h', out) /\ h_key h' = h_key h /\ c_idx (h_st h') < 20 /\ length out = length data).
Proof. exact no_panic_inv. Qed.

(* non-vacuity: a concrete session key, derived key and first ciphertext bytes, evaluated with the
   concrete HMAC-SHA1 *)
Example C08_nonvacuous :
  let K := map N.of_nat (seq 1 40) in
  exists h out h', encrypter_new K = Ok h /\ length (h_key h) = 20%nat /\
    run_calls encrypt h [[1;2;3]; []; [255]] = Ok (h', out) /\ length out = 4%nat /\ c_idx (h_st h') = 4.
Proof. cbn zeta. eexists; eexists; eexists. vm_compute. repeat split; reflexivity. Qed.

Print Assumptions C08_key.
Print Assumptions C08_seeds.
Print Assumptions C08_enc_calls.
Print Assumptions C08_dec_calls.
Print Assumptions C08_roundtrip.
Print Assumptions C08_empty_call.
Print Assumptions C08_step_table.
Print Assumptions C08_no_panic_inv.
