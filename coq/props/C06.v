(* C06 — world-login proof is accepted iff name, session key and both seeds match. *)
From WS Require Import lib.Bytes lib.Res lib.Tape lib.Sha1 Consts model.Vanilla model.Tbc model.Wrath model.Server
  model.WorldProof proofs.Handshake proofs.WorldProof.
Local Open Scope N_scope.

(* Spec value: SHA-1(username | 00 00 00 00 | client seed LE | server seed LE | session key). *)

(* client side, each of the three modules: proof value and the crypto object built from K *)
Theorem C06_client_vanilla : forall seed U K sseed,
  vanilla_client seed U K sseed = Ok (world_proof U K seed sseed, Vanilla.crypto_new K).
Proof. intros. unfold vanilla_client. now rewrite client_spec. Qed.
Theorem C06_client_tbc : forall seed U K sseed,
  tbc_client seed U K sseed =
  match Tbc.crypto_new K with Ok c => Ok (world_proof U K seed sseed, c) | Err e => Err e | Panic => Panic end.
Proof. intros. apply client_spec. Qed.
Theorem C06_client_wrath : forall seed U K sseed,
  wrath_client seed U K sseed =
  match Wrath.client_crypto_new K with Ok c => Ok (world_proof U K seed sseed, c) | Err e => Err e | Panic => Panic end.
Proof. intros. apply client_spec. Qed.

(* server side: crypto handed out exactly when the presented proof equals the value for its own
   seed; otherwise an error carrying both proofs *)
Theorem C06_server_iff_vanilla : forall seed U K pf cseed,
  (pf = world_proof U K cseed seed -> vanilla_server seed U K pf cseed = Ok (Vanilla.crypto_new K)) /\
  (pf <> world_proof U K cseed seed ->
     vanilla_server seed U K pf cseed = Err {| me_client_proof := pf; me_server_proof := world_proof U K cseed seed |}).
Proof. intros. unfold vanilla_server. apply (server_iff (fun k => Ok (Vanilla.crypto_new k))). Qed.
Theorem C06_server_iff_tbc : forall seed U K pf cseed,
  (pf = world_proof U K cseed seed -> tbc_server seed U K pf cseed = lift (Tbc.crypto_new K)) /\
  (pf <> world_proof U K cseed seed ->
     tbc_server seed U K pf cseed = Err {| me_client_proof := pf; me_server_proof := world_proof U K cseed seed |}).
Proof. intros. apply server_iff. Qed.
Theorem C06_server_iff_wrath : forall seed U K pf cseed,
  (pf = world_proof U K cseed seed -> wrath_server seed U K pf cseed = lift (Wrath.server_crypto_new K)) /\
  (pf <> world_proof U K cseed seed ->
     wrath_server seed U K pf cseed = Err {| me_client_proof := pf; me_server_proof := world_proof U K cseed seed |}).
Proof. intros. apply server_iff. Qed.

(* the crypto constructors themselves do not fail *)
Theorem C06_tbc_new_ok : forall K, exists c, Tbc.crypto_new K = Ok c.
Proof. exact tbc_new_ok. Qed.

(* all 160 single-bit changes of the proof are refused (each module); stated on the shared decision *)
Theorem C06_bitflip : forall seed U K cseed i, (i < 160)%nat ->
  flip_bit i (world_proof U K cseed seed) <> world_proof U K cseed seed.
Proof. intros. apply flip_bit_neq. unfold world_proof. rewrite sha1_length. lia. Qed.

(* binding of username, both seeds and every byte of the key (collision form) *)
Theorem C06_binding : forall U K cs ss U' K' cs' ss',
  length U = length U' -> cs < 2 ^ 32 -> ss < 2 ^ 32 -> cs' < 2 ^ 32 -> ss' < 2 ^ 32 ->
  world_proof U K cs ss = world_proof U' K' cs' ss' ->
  (U = U' /\ cs = cs' /\ ss = ss' /\ K = K') \/ collision.
Proof. exact world_binding. Qed.

Theorem C06_seed_accessor : forall t, proof_seed_new t = (le_to_N (firstn 4 t), skipn 4 t).
Proof. exact seed_draw. Qed.

Print Assumptions C06_client_vanilla.
Print Assumptions C06_client_tbc.
Print Assumptions C06_client_wrath.
Print Assumptions C06_server_iff_vanilla.
Print Assumptions C06_server_iff_tbc.
Print Assumptions C06_server_iff_wrath.
Print Assumptions C06_tbc_new_ok.
Print Assumptions C06_bitflip.
Print Assumptions C06_binding.
Print Assumptions C06_seed_accessor.
