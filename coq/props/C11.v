(* C11 -- all header entry points agree; failed reads leave the cipher untouched.
   Only statements; every proof is `exact` of a lemma from proofs/HeaderIo.v.

   Vocabulary (lib/IoScript.v, a modelled dependency: std::io::Read::read_exact / Write::write_all):
     a reader is a script, the list of outcomes of its successive read calls: [Data bs] (these
     bytes are available; the call takes at most what it asked for, the rest stays for the next
     call; [Data []] is a zero-length read), [Fail kd]; an exhausted script is end of file.
     [delivers s bs]   every event of s is a non-empty fragment or an Interrupted error, and the
                       fragments concatenate to bs (ANY fragmentation, ANY number of interruptions)
     [stops tail kd]   tail starts with what makes a waiting read_exact fail with kd: its end or a
                       zero-length read (kd = UnexpectedEof), or [Fail kd] with kd <> Interrupted
     a writer is the list of outcomes of its write calls: [Accept n], [WFail kd]; exhausted = accepts all.
     [write_outcome buf wr x]   wr is a prefix of buf; all of buf iff x = Ok; a proper prefix and
                       kd <> Interrupted if x = Err kd; x is never Panic
   Models (model/HeaderIo.v): v_ / t_ / w_ prefixes = vanilla / tbc / wrath halves; v_crypto_, t_crypto_,
     cc_ (ClientCrypto), sc_ (ServerCrypto) = the combined objects.  V, T, W = model/Vanilla.v, Tbc.v,
     Wrath.v.  A wrapper returns [Ok (new state, io result)]; the outer [Panic] is an unwinding panic.
   Invariants: [wf_v h] = key length 40 and index < 40; [wf_t h] = key length 20 and index < 20;
     [PW.wf_se], [PW.wf_cd], [rc4_inv] as in C09 / C10 (array lengths and u8 ranges). *)
From WS Require Import lib.Bytes lib.Res lib.Calls lib.IoScript Consts spec.HeaderCipher model.HeaderCipher
  model.Rc4 model.HeaderIo proofs.HeaderCipher proofs.Rc4 proofs.HeaderIo.
Local Open Scope N_scope.

(* ---------------------------------------------------------------- the std loops ----------- *)

(* the model of read_exact satisfies the loop of std::io::default_read_exact, one iteration at a time, written with the one-call reader [reader_read]: Ok(0) ends with UnexpectedEof, Interrupted is retried, any other error is returned at once *)
Theorem C11_read_exact_is_std_loop : forall n s,
 read_exact n s =
  match n with
  | O => Ok ([], s)
  | S _ =>
    match reader_read n s with
    | (_, Ok []) => Err UnexpectedEof
    | (s', Ok bs) =>
      match read_exact (n - length bs) s' with
      | Ok (o, r) => Ok (bs ++ o, r) | Err kd => Err kd | Panic => Panic
      end
    | (s', Err kd) => if is_interrupted kd then read_exact n s' else Err kd
    | (_, Panic) => Panic
    end
  end.
Proof. exact read_exact_loop. Qed.

(* likewise write_all: Ok(0) gives WriteZero, Interrupted is retried, any other error is returned at once *)
Theorem C11_write_all_is_std_loop : forall buf w,
 write_all buf w =
  match buf with
  | [] => ([], w, Ok tt)
  | _ :: _ =>
    match writer_write buf w with
    | (w', Ok O) => ([], w', Err WriteZero)
    | (w', Ok k) => let '(wr, w'', x) := write_all (skipn k buf) w' in (firstn k buf ++ wr, w'', x)
    | (w', Err kd) => if is_interrupted kd then write_all buf w' else ([], w', Err kd)
    | (w', Panic) => ([], w', Panic)
    end
  end.
Proof. exact write_all_loop. Qed.

(* fragmentation and interruptions change nothing: if the script delivers at least n bytes (whatever follows in [post]), read_exact returns the first n, and what is left of the script delivers the remaining ones *)
Theorem C11_read_exact_fragmented : forall pre,
 forall post bs n, delivers pre bs -> (n <= length bs)%nat ->
  exists rest, read_exact n (pre ++ post) = Ok (firstn n bs, rest ++ post) /\ delivers rest (skipn n bs).
Proof. exact read_exact_delivers. Qed.

(* every failure: fewer than n bytes delivered (any offset 0..n-1, any fragmentation) and then end of file, a zero-length read, or an error of any kind other than Interrupted: that error comes back *)
Theorem C11_read_exact_failure_offsets : forall pre,
 forall tail bs n kd, delivers pre bs -> (length bs < n)%nat -> stops tail kd ->
  read_exact n (pre ++ tail) = Err kd.
Proof. exact read_exact_stops. Qed.

(* and an error arises in no other way *)
Theorem C11_read_exact_failure_only_so : forall s,
 forall n kd, read_exact n s = Err kd ->
  exists pre tail bs, s = pre ++ tail /\ delivers pre bs /\ (length bs < n)%nat /\ stops tail kd.
Proof. exact read_exact_err_inv. Qed.

(* write_all: the writer received a prefix of the buffer -- all of it exactly when the result is Ok *)
Theorem C11_write_all_outcome : forall w,
 forall buf wr w' x, write_all buf w = (wr, w', x) ->
  exists suffix, buf = wr ++ suffix /\
    match x with
    | Ok _ => suffix = []
    | Err kd => suffix <> [] /\ kd <> Interrupted
    | Panic => False
    end.
Proof. exact write_all_spec. Qed.

(* ---------------------------------------------------------------- typed helpers ----------- *)

(* server header: big-endian u16 size, little-endian u16 opcode; from_array inverts it *)
Theorem C11_server_layout : forall size opcode,
 size < 65536 -> opcode < 65536 ->
  V.server_header_bytes size opcode = [size / 256; size mod 256; opcode mod 256; opcode / 256] /\
  V.server_header_from_array (V.server_header_bytes size opcode) = Some (size, opcode).
Proof. exact server_layout. Qed.

(* client header: big-endian u16 size, little-endian u32 opcode; from_array inverts it *)
Theorem C11_client_layout : forall size opcode,
 size < 65536 -> opcode < 4294967296 ->
  V.client_header_bytes size opcode =
    [size / 256; size mod 256; opcode mod 256; opcode / 256 mod 256; opcode / 65536 mod 256; opcode / 16777216] /\
  V.client_header_from_array (V.client_header_bytes size opcode) = Some (size, opcode).
Proof. exact client_layout. Qed.

(* Vanilla: each typed helper is the raw operation on the wire layout (same bytes AND same resulting state); the combined object is the half *)
Theorem C11_helpers_vanilla : 
(* the typed encrypt helpers are the raw call on the wire layout: same bytes, same new state *)
  (forall h size opcode,
     V.encrypt_server_header h size opcode = V.encrypt h (be16 size ++ le16 opcode) /\
     V.encrypt_client_header h size opcode = V.encrypt h (be16 size ++ le32 opcode)) /\
  (* the typed decrypt helpers are the raw call followed by from_array *)
  (forall h data, wf_v h -> length data = 4%nat ->
     exists h' out hd, V.decrypt h data = Ok (h', out) /\ V.server_header_from_array out = Some hd /\
                       V.decrypt_server_header h data = Ok (h', hd) /\ wf_v h') /\
  (forall h data, wf_v h -> length data = 6%nat ->
     exists h' out hd, V.decrypt h data = Ok (h', out) /\ V.client_header_from_array out = Some hd /\
                       V.decrypt_client_header h data = Ok (h', hd) /\ wf_v h') /\
  (* the combined object: every typed method is the half's method on the matching field, the other
     field untouched -- including decrypt_client_header, which the source writes out again *)
  (forall c size opcode data,
     v_crypto_encrypt_server_header c size opcode = v_on_enc (fun e => V.encrypt_server_header e size opcode) c /\
     v_crypto_encrypt_client_header c size opcode = v_on_enc (fun e => V.encrypt_client_header e size opcode) c /\
     v_crypto_decrypt_server_header c data = v_on_dec (fun d => V.decrypt_server_header d data) c /\
     V.crypto_decrypt_client_header c data = v_on_dec (fun d => V.decrypt_client_header d data) c /\
     V.crypto_encrypt c data = v_on_enc (fun e => V.encrypt e data) c /\
     V.crypto_decrypt c data = v_on_dec (fun d => V.decrypt d data) c).
Proof. exact helpers_vanilla. Qed.

(* Vanilla: for every cipher state, size and opcode, what a typed encrypt helper produced is read back by the typed decrypt helper of a decrypter in the same state, and both end in the same state *)
Theorem C11_helpers_roundtrip_vanilla : forall K n p,
  bytesn 40 K -> p < 256 ->
  let e := PV.mk_half K (N.of_nat (n mod 40)) p in
  (forall size opcode, size < 65536 -> opcode < 65536 ->
     exists e' w, V.encrypt_server_header e size opcode = Ok (e', w) /\ length w = 4%nat /\
                  V.decrypt_server_header e w = Ok (e', (size, opcode))) /\
  (forall size opcode, size < 65536 -> opcode < 4294967296 ->
     exists e' w, V.encrypt_client_header e size opcode = Ok (e', w) /\ length w = 6%nat /\
                  V.decrypt_client_header e w = Ok (e', (size, opcode))).
Proof. exact helpers_roundtrip_vanilla. Qed.

(* TBC: the same *)
Theorem C11_helpers_tbc : 
(forall h size opcode,
     T.encrypt_server_header h size opcode = T.encrypt h (be16 size ++ le16 opcode) /\
     T.encrypt_client_header h size opcode = T.encrypt h (be16 size ++ le32 opcode)) /\
  (forall h data, wf_t h -> length data = 4%nat ->
     exists h' out hd, T.decrypt h data = Ok (h', out) /\ V.server_header_from_array out = Some hd /\
                       t_decrypt_server_header h data = Ok (h', hd) /\ wf_t h') /\
  (forall h data, wf_t h -> length data = 6%nat ->
     exists h' out hd, T.decrypt h data = Ok (h', out) /\ V.client_header_from_array out = Some hd /\
                       t_decrypt_client_header h data = Ok (h', hd) /\ wf_t h') /\
  (forall c size opcode data,
     t_crypto_encrypt_server_header c size opcode = t_on_enc (fun e => T.encrypt_server_header e size opcode) c /\
     t_crypto_encrypt_client_header c size opcode = t_on_enc (fun e => T.encrypt_client_header e size opcode) c /\
     t_crypto_decrypt_server_header c data = t_on_dec (fun d => t_decrypt_server_header d data) c /\
     t_crypto_decrypt_client_header c data = t_on_dec (fun d => t_decrypt_client_header d data) c /\
     T.crypto_encrypt c data = t_on_enc (fun e => T.encrypt e data) c /\
     T.crypto_decrypt c data = t_on_dec (fun d => T.decrypt d data) c).
Proof. exact helpers_tbc. Qed.

(* TBC: the same *)
Theorem C11_helpers_roundtrip_tbc : forall k n p,
  bytesn 20 k -> p < 256 ->
  let e := PT.mk_half k (N.of_nat (n mod 20)) p in
  (forall size opcode, size < 65536 -> opcode < 65536 ->
     exists e' w, T.encrypt_server_header e size opcode = Ok (e', w) /\ length w = 4%nat /\
                  t_decrypt_server_header e w = Ok (e', (size, opcode))) /\
  (forall size opcode, size < 65536 -> opcode < 4294967296 ->
     exists e' w, T.encrypt_client_header e size opcode = Ok (e', w) /\ length w = 6%nat /\
                  t_decrypt_client_header e w = Ok (e', (size, opcode))).
Proof. exact helpers_roundtrip_tbc. Qed.

(* Wrath: the same for the four halves and the two combined objects; [wrath_server_layout] is be16 size ++ le16 opcode for size <= 0x7FFF, else (0x80 | size>>16), size>>8, size, then le16 opcode *)
Theorem C11_helpers_wrath : 
(* client header, ClientEncrypterHalf *)
  (forall h size opcode, W.encrypt_client_header h size opcode = W.ce_encrypt h (be16 size ++ le32 opcode)) /\
  (* server header, ServerEncrypterHalf: the bytes are the raw call on the layout, the cipher state
     is the raw call's (the 5-byte scratch buffer of the half is the only other field) *)
  (forall h size opcode, PW.wf_se h -> size <= 0x7FFFFF -> opcode < 65536 ->
     exists h1 h' out, W.se_encrypt h (wrath_server_layout size opcode) = Ok (h1, out) /\
       W.encrypt_server_header h size opcode = Ok (h', out) /\ W.se_rc4 h' = W.se_rc4 h1 /\ PW.wf_se h') /\
  (* client header, ServerDecrypterHalf *)
  (forall h data, rc4_inv (W.sd_rc4 h) -> length data = 6%nat ->
     exists h' out hd, W.sd_decrypt h data = Ok (h', out) /\ V.client_header_from_array out = Some hd /\
       W.decrypt_client_header h data = Ok (h', hd) /\ rc4_inv (W.sd_rc4 h')) /\
  (* server header, ClientDecrypterHalf, first step: raw call on the four bytes, then the marker bit *)
  (forall h buf, PW.wf_cd h -> length buf = 4%nat ->
     exists h1 b0 b1 b2 b3, W.cd_decrypt h buf = Ok (h1, [b0; b1; b2; b3]) /\ PW.wf_cd h1 /\
       W.attempt_decrypt_server_header h buf =
       Ok (if W.large_header b0
           then ({| W.cd_rc4 := W.cd_rc4 h1; W.cd_hdr := [b0; b1; b2; b3] |}, W.AdditionalByteRequired)
           else (h1, W.Header (b0 * 256 + b1) (b2 + 256 * b3)))) /\
  (* second step: raw call on the fifth byte, combined with the stash *)
  (forall h byte, PW.wf_cd h ->
     exists h1 b4 s0 s1 s2 s3, W.cd_decrypt h [byte] = Ok (h1, [b4]) /\ W.cd_hdr h = [s0; s1; s2; s3] /\ PW.wf_cd h1 /\
       W.decrypt_large_server_header h byte =
       Ok (h1, (N.land s0 127 * 65536 + s1 * 256 + s2, s3 + 256 * b4))) /\
  (* ClientCrypto / ServerCrypto: every method is the half's method on the matching field *)
  (forall c size opcode data,
     W.sc_decrypt_client_header c data = W.lift_enc W.sc_dec W.sc_set_dec (fun h => W.decrypt_client_header h data) c /\
     W.sc_encrypt_server_header c size opcode =
       W.lift_enc W.sc_enc W.sc_set_enc (fun h => W.encrypt_server_header h size opcode) c) /\
  (forall c size opcode buf byte,
     W.cc_encrypt_client_header c size opcode =
       W.lift_enc W.cc_enc W.cc_set_enc (fun h => W.encrypt_client_header h size opcode) c /\
     W.cc_attempt_decrypt_server_header c buf =
       W.lift_enc W.cc_dec W.cc_set_dec (fun h => W.attempt_decrypt_server_header h buf) c /\
     W.cc_decrypt_large_server_header c byte =
       W.lift_enc W.cc_dec W.cc_set_dec (fun h => W.decrypt_large_server_header h byte) c).
Proof. exact helpers_wrath. Qed.

(* ---------------------------------------------------------------- Read wrappers ----------- *)

(* Vanilla, halves and combined object, server (4) and client (6) header: a reader delivering the bytes in arbitrary fragments with arbitrary interruptions gives exactly the array call on the first 4 / 6 bytes (result and state), and leaves the rest of the stream *)
Theorem C11_read_fragmented_vanilla : forall s bs,
 delivers s bs ->
  (forall h, (4 <= length bs)%nat -> exists rest, delivers rest (skipn 4 bs) /\
     v_read_and_decrypt_server_header h s =
     match V.decrypt_server_header h (firstn 4 bs) with
     | Ok (h', hd) => Ok (h', Ok (hd, rest)) | Err e => Err e | Panic => Panic end) /\
  (forall h, (6 <= length bs)%nat -> exists rest, delivers rest (skipn 6 bs) /\
     v_read_and_decrypt_client_header h s =
     match V.decrypt_client_header h (firstn 6 bs) with
     | Ok (h', hd) => Ok (h', Ok (hd, rest)) | Err e => Err e | Panic => Panic end) /\
  (forall c, (4 <= length bs)%nat -> exists rest, delivers rest (skipn 4 bs) /\
     v_crypto_read_and_decrypt_server_header c s =
     match v_crypto_decrypt_server_header c (firstn 4 bs) with
     | Ok (c', hd) => Ok (c', Ok (hd, rest)) | Err e => Err e | Panic => Panic end) /\
  (forall c, (6 <= length bs)%nat -> exists rest, delivers rest (skipn 6 bs) /\
     v_crypto_read_and_decrypt_client_header c s =
     match V.crypto_decrypt_client_header c (firstn 6 bs) with
     | Ok (c', hd) => Ok (c', Ok (hd, rest)) | Err e => Err e | Panic => Panic end).
Proof. exact read_fragmented_vanilla. Qed.

(* TBC: the same *)
Theorem C11_read_fragmented_tbc : forall s bs,
 delivers s bs ->
  (forall h, (4 <= length bs)%nat -> exists rest, delivers rest (skipn 4 bs) /\
     t_read_and_decrypt_server_header h s =
     match t_decrypt_server_header h (firstn 4 bs) with
     | Ok (h', hd) => Ok (h', Ok (hd, rest)) | Err e => Err e | Panic => Panic end) /\
  (forall h, (6 <= length bs)%nat -> exists rest, delivers rest (skipn 6 bs) /\
     t_read_and_decrypt_client_header h s =
     match t_decrypt_client_header h (firstn 6 bs) with
     | Ok (h', hd) => Ok (h', Ok (hd, rest)) | Err e => Err e | Panic => Panic end) /\
  (forall c, (4 <= length bs)%nat -> exists rest, delivers rest (skipn 4 bs) /\
     t_crypto_read_and_decrypt_server_header c s =
     match t_crypto_decrypt_server_header c (firstn 4 bs) with
     | Ok (c', hd) => Ok (c', Ok (hd, rest)) | Err e => Err e | Panic => Panic end) /\
  (forall c, (6 <= length bs)%nat -> exists rest, delivers rest (skipn 6 bs) /\
     t_crypto_read_and_decrypt_client_header c s =
     match t_crypto_decrypt_client_header c (firstn 6 bs) with
     | Ok (c', hd) => Ok (c', Ok (hd, rest)) | Err e => Err e | Panic => Panic end).
Proof. exact read_fragmented_tbc. Qed.

(* Wrath client header (ServerDecrypterHalf, ServerCrypto): the same, 6 bytes *)
Theorem C11_read_fragmented_wrath_client_header : forall s bs,
 delivers s bs -> (6 <= length bs)%nat ->
  (forall h, exists rest, delivers rest (skipn 6 bs) /\
     w_read_and_decrypt_client_header h s =
     match W.decrypt_client_header h (firstn 6 bs) with
     | Ok (h', hd) => Ok (h', Ok (hd, rest)) | Err e => Err e | Panic => Panic end) /\
  (forall c, exists rest, delivers rest (skipn 6 bs) /\
     sc_read_and_decrypt_client_header c s =
     match W.sc_decrypt_client_header c (firstn 6 bs) with
     | Ok (c', hd) => Ok (c', Ok (hd, rest)) | Err e => Err e | Panic => Panic end).
Proof. exact read_fragmented_wrath_client_header. Qed.

(* Wrath server header (ClientDecrypterHalf): the wrapper is the documented two-step protocol on the delivered bytes [two_step]: attempt_decrypt_server_header on the first four; on AdditionalByteRequired decrypt_large_server_header on the fifth (UnexpectedEof with the state after the attempt if exactly four were delivered) *)
Theorem C11_read_fragmented_wrath_server_header : forall s bs h,
 delivers s bs -> (4 <= length bs)%nat ->
  exists rest4 rest5, delivers rest4 (skipn 4 bs) /\ delivers rest5 (skipn 5 bs) /\
    w_read_and_decrypt_server_header h s = two_step h bs rest4 rest5.
Proof. exact read_fragmented_wrath_server_header. Qed.

(* the same through ClientCrypto *)
Theorem C11_read_fragmented_wrath_server_header_facade : forall s bs c,
 delivers s bs -> (4 <= length bs)%nat ->
  exists rest4 rest5, delivers rest4 (skipn 4 bs) /\ delivers rest5 (skipn 5 bs) /\
    cc_read_and_decrypt_server_header c s =
    W.lift_enc W.cc_dec W.cc_set_dec (fun h => two_step h bs rest4 rest5) c.
Proof. exact read_fragmented_wrath_server_header_facade. Qed.

(* Vanilla: the reader fails (any error kind, or end of file) before the header is complete -- at any offset, see C11_read_exact_failure_offsets -- : the error is returned and the decrypter (the whole combined object) is EXACTLY what it was *)
Theorem C11_read_failure_vanilla : forall s kd,
  (forall h, read_exact 4 s = Err kd -> v_read_and_decrypt_server_header h s = Ok (h, Err kd)) /\
  (forall h, read_exact 6 s = Err kd -> v_read_and_decrypt_client_header h s = Ok (h, Err kd)) /\
  (forall c, read_exact 4 s = Err kd -> v_crypto_read_and_decrypt_server_header c s = Ok (c, Err kd)) /\
  (forall c, read_exact 6 s = Err kd -> v_crypto_read_and_decrypt_client_header c s = Ok (c, Err kd)).
Proof. exact read_failure_vanilla. Qed.

(* TBC: the same *)
Theorem C11_read_failure_tbc : forall s kd,
  (forall h, read_exact 4 s = Err kd -> t_read_and_decrypt_server_header h s = Ok (h, Err kd)) /\
  (forall h, read_exact 6 s = Err kd -> t_read_and_decrypt_client_header h s = Ok (h, Err kd)) /\
  (forall c, read_exact 4 s = Err kd -> t_crypto_read_and_decrypt_server_header c s = Ok (c, Err kd)) /\
  (forall c, read_exact 6 s = Err kd -> t_crypto_read_and_decrypt_client_header c s = Ok (c, Err kd)).
Proof. exact read_failure_tbc. Qed.

(* Wrath: the same for the 6-byte client header and for the first four bytes of a server header *)
Theorem C11_read_failure_wrath : forall s kd,
  (forall h, read_exact 6 s = Err kd -> w_read_and_decrypt_client_header h s = Ok (h, Err kd)) /\
  (forall c, read_exact 6 s = Err kd -> sc_read_and_decrypt_client_header c s = Ok (c, Err kd)) /\
  (forall h, read_exact 4 s = Err kd -> w_read_and_decrypt_server_header h s = Ok (h, Err kd)) /\
  (forall c, read_exact 4 s = Err kd -> cc_read_and_decrypt_server_header c s = Ok (c, Err kd)).
Proof. exact read_failure_wrath. Qed.

(* Wrath, long server header whose fifth byte cannot be read: the error is returned and the decrypter is exactly as after attempt_decrypt_server_header on the first four bytes (cipher advanced by four, stash written) *)
Theorem C11_wrath_fifth_byte_failure : forall h s four rest h1 kd,
  read_exact 4 s = Ok (four, rest) ->
  W.attempt_decrypt_server_header h four = Ok (h1, W.AdditionalByteRequired) ->
  read_exact 1 rest = Err kd ->
  w_read_and_decrypt_server_header h s = Ok (h1, Err kd) /\
  (forall c, W.cc_dec c = h ->
     cc_read_and_decrypt_server_header c s = Ok (W.cc_set_dec c h1, Err kd) /\
     W.cc_attempt_decrypt_server_header c four = Ok (W.cc_set_dec c h1, W.AdditionalByteRequired)).
Proof. exact wrath_fifth_byte_failure. Qed.

(* ... so supplying that byte later completes the header: for every long header written by a server encrypter in step, after the failed read one call of decrypt_large_server_header with the true fifth byte yields (size, opcode) and the two ciphers are in step again; the uninterrupted fragmented read gives the same *)
Theorem C11_wrath_resume : forall se cd size opcode,
 PW.wf_se se -> W.cd_rc4 cd = W.se_rc4 se ->
  0x7FFF < size -> size <= 0x7FFFFF -> opcode < 65536 ->
  exists se' a b c d e cd1 cd',
    W.encrypt_server_header se size opcode = Ok (se', [a; b; c; d; e]) /\
    W.attempt_decrypt_server_header cd [a; b; c; d] = Ok (cd1, W.AdditionalByteRequired) /\
    (forall s rest kd, read_exact 4 s = Ok ([a; b; c; d], rest) -> read_exact 1 rest = Err kd ->
       w_read_and_decrypt_server_header cd s = Ok (cd1, Err kd)) /\
    W.decrypt_large_server_header cd1 e = Ok (cd', (size, opcode)) /\
    W.cd_rc4 cd' = W.se_rc4 se' /\
    (forall s tail, delivers s ([a; b; c; d; e] ++ tail) ->
       exists rest, delivers rest tail /\
         w_read_and_decrypt_server_header cd s = Ok (cd', Ok ((size, opcode), rest))).
Proof. exact wrath_resume. Qed.

(* ---------------------------------------------------------------- Write wrappers ---------- *)

(* Vanilla: write_encrypted_X returns exactly the result of write_all on the encrypted header (an error is reported, never swallowed; on Ok the writer received exactly the header bytes), and the new state is the state after the typed helper in EVERY case *)
Theorem C11_write_error_vanilla : forall h w size opcode,
 wf_v h ->
  (exists h' buf wr w' x, V.encrypt_server_header h size opcode = Ok (h', buf) /\ length buf = 4%nat /\ wf_v h' /\
     write_all buf w = (wr, w', x) /\
     v_write_encrypted_server_header h w size opcode = Ok (h', (wr, w', x)) /\ write_outcome buf wr x) /\
  (exists h' buf wr w' x, V.encrypt_client_header h size opcode = Ok (h', buf) /\ length buf = 6%nat /\ wf_v h' /\
     write_all buf w = (wr, w', x) /\
     v_write_encrypted_client_header h w size opcode = Ok (h', (wr, w', x)) /\ write_outcome buf wr x).
Proof. exact write_vanilla. Qed.

(* TBC: the same *)
Theorem C11_write_error_tbc : forall h w size opcode,
 wf_t h ->
  (exists h' buf wr w' x, T.encrypt_server_header h size opcode = Ok (h', buf) /\ length buf = 4%nat /\ wf_t h' /\
     write_all buf w = (wr, w', x) /\
     t_write_encrypted_server_header h w size opcode = Ok (h', (wr, w', x)) /\ write_outcome buf wr x) /\
  (exists h' buf wr w' x, T.encrypt_client_header h size opcode = Ok (h', buf) /\ length buf = 6%nat /\ wf_t h' /\
     write_all buf w = (wr, w', x) /\
     t_write_encrypted_client_header h w size opcode = Ok (h', (wr, w', x)) /\ write_outcome buf wr x).
Proof. exact write_tbc. Qed.

(* Wrath: the same (server header of 4 or 5 bytes, client header of 6) *)
Theorem C11_write_error_wrath : forall w size opcode,
  (forall h, PW.wf_se h ->
     exists h' buf wr w' x, W.encrypt_server_header h size opcode = Ok (h', buf) /\
       length buf = (if 0x7FFF <? size then 5%nat else 4%nat) /\ PW.wf_se h' /\
       write_all buf w = (wr, w', x) /\
       w_write_encrypted_server_header h w size opcode = Ok (h', (wr, w', x)) /\ write_outcome buf wr x) /\
  (forall h, rc4_inv (W.ce_rc4 h) ->
     exists h' buf wr w' x, W.encrypt_client_header h size opcode = Ok (h', buf) /\ length buf = 6%nat /\
       rc4_inv (W.ce_rc4 h') /\ write_all buf w = (wr, w', x) /\
       w_write_encrypted_client_header h w size opcode = Ok (h', (wr, w', x)) /\ write_outcome buf wr x).
Proof. exact write_wrath. Qed.

(* the combined objects delegate *)
Theorem C11_write_facades : 
(forall c w size opcode,
     v_crypto_write_encrypted_server_header c w size opcode = v_on_enc (fun e => v_write_encrypted_server_header e w size opcode) c /\
     v_crypto_write_encrypted_client_header c w size opcode = v_on_enc (fun e => v_write_encrypted_client_header e w size opcode) c) /\
  (forall c w size opcode,
     t_crypto_write_encrypted_server_header c w size opcode = t_on_enc (fun e => t_write_encrypted_server_header e w size opcode) c /\
     t_crypto_write_encrypted_client_header c w size opcode = t_on_enc (fun e => t_write_encrypted_client_header e w size opcode) c) /\
  (forall c w size opcode,
     sc_write_encrypted_server_header c w size opcode =
       W.lift_enc W.sc_enc W.sc_set_enc (fun h => w_write_encrypted_server_header h w size opcode) c) /\
  (forall c w size opcode,
     cc_write_encrypted_client_header c w size opcode =
       W.lift_enc W.cc_enc W.cc_set_enc (fun h => w_write_encrypted_client_header h w size opcode) c).
Proof. exact write_facades. Qed.

(* what is NOT promised: a failed write does not roll the cipher back.  A writer that refuses the first call receives nothing, the error is returned, and the encrypter has advanced by the whole header (so it differs from the state before) *)
Theorem C11_write_failure_advances : forall kd w size opcode,
 kd <> Interrupted ->
  (forall h, wf_v h -> exists h' buf,
     V.encrypt_server_header h size opcode = Ok (h', buf) /\
     v_write_encrypted_server_header h (WFail kd :: w) size opcode = Ok (h', ([], w, Err kd)) /\
     c_idx (V.h_st h') = (c_idx (V.h_st h) + 4) mod 40 /\ h' <> h) /\
  (forall h, wf_v h -> exists h' buf,
     V.encrypt_client_header h size opcode = Ok (h', buf) /\
     v_write_encrypted_client_header h (WFail kd :: w) size opcode = Ok (h', ([], w, Err kd)) /\
     c_idx (V.h_st h') = (c_idx (V.h_st h) + 6) mod 40 /\ h' <> h) /\
  (forall h, wf_t h -> exists h' buf,
     T.encrypt_server_header h size opcode = Ok (h', buf) /\
     t_write_encrypted_server_header h (WFail kd :: w) size opcode = Ok (h', ([], w, Err kd)) /\
     c_idx (T.h_st h') = (c_idx (T.h_st h) + 4) mod 20 /\ h' <> h) /\
  (forall h, wf_t h -> exists h' buf,
     T.encrypt_client_header h size opcode = Ok (h', buf) /\
     t_write_encrypted_client_header h (WFail kd :: w) size opcode = Ok (h', ([], w, Err kd)) /\
     c_idx (T.h_st h') = (c_idx (T.h_st h) + 6) mod 20 /\ h' <> h) /\
  (forall h, PW.wf_se h -> exists h' buf,
     W.encrypt_server_header h size opcode = Ok (h', buf) /\
     w_write_encrypted_server_header h (WFail kd :: w) size opcode = Ok (h', ([], w, Err kd)) /\
     W.se_rc4 h' = adv (W.se_rc4 h) (if 0x7FFF <? size then 5 else 4) /\ W.se_rc4 h' <> W.se_rc4 h) /\
  (forall h, rc4_inv (W.ce_rc4 h) -> exists h' buf,
     W.encrypt_client_header h size opcode = Ok (h', buf) /\
     w_write_encrypted_client_header h (WFail kd :: w) size opcode = Ok (h', ([], w, Err kd)) /\
     W.ce_rc4 h' = adv (W.ce_rc4 h) 6 /\ W.ce_rc4 h' <> W.ce_rc4 h).
Proof. exact write_failure_advances. Qed.

(* ---------------------------------------------------------------- non-vacuity ------------- *)

(* a 4-byte header delivered as 1 + interruption + 2 + 3 bytes (two more than needed): read_exact
   returns the four bytes and leaves the surplus of the last fragment for the next call *)
Example C11_example_fragments :
  let s := [Data [1]; Fail Interrupted; Data [2; 3]; Fail Interrupted; Fail Interrupted; Data [4; 5; 6]] in
  delivers s [1; 2; 3; 4; 5; 6] /\
  read_exact 4 s = Ok ([1; 2; 3; 4], [Data [5; 6]]) /\
  read_exact 4 [Data [1; 2]; Fail (Other 7); Data [3; 4]] = Err (Other 7) /\
  read_exact 4 [Data [1; 2; 3]] = Err UnexpectedEof /\
  read_exact 4 [Data [1; 2; 3]; Data []; Data [4]] = Err UnexpectedEof /\
  write_all [1; 2; 3; 4] [Accept 1; WFail Interrupted; Accept 2; WFail (Other 3); Accept 9] = ([1; 2; 3], [Accept 9], Err (Other 3)) /\
  write_all [1; 2; 3; 4] [Accept 3; Accept 0] = ([1; 2; 3], [], Err WriteZero) /\
  write_all [1; 2; 3; 4] [Accept 1; Accept 9] = ([1; 2; 3; 4], [], Ok tt).
Proof.
  cbv zeta. split; [split; [repeat constructor|reflexivity]|]. repeat split; reflexivity.
Qed.

(* Vanilla end to end: a server header through write_encrypted_server_header into a writer taking
   one byte per call, back through read_and_decrypt_server_header from a reader delivering 3 + 1
   bytes with an interruption; a reader failing at offset 3 leaves the decrypter untouched *)
Example C11_example_vanilla :
  let K := map N.of_nat (seq 1 40) in
  let h := V.half_new K in
  wf_v h /\
  match v_write_encrypted_server_header h [Accept 1; Accept 1; WFail Interrupted; Accept 1; Accept 1] 0x1234 0xABCD with
  | Ok (h', (wire, _, x)) =>
    x = Ok tt /\ length wire = 4%nat /\ c_idx (V.h_st h') = 4 /\
    v_read_and_decrypt_server_header h [Data (firstn 3 wire); Fail Interrupted; Data (skipn 3 wire)] =
      Ok (h', Ok ((0x1234, 0xABCD), [])) /\
    v_read_and_decrypt_server_header h [Data (firstn 3 wire); Fail (Other 1); Data (skipn 3 wire)] =
      Ok (h, Err (Other 1))
  | _ => False
  end.
Proof. cbv zeta. split; [split; [reflexivity|cbn; lia]|]. vm_compute. repeat split; reflexivity. Qed.

(* Wrath end to end, concrete key: a long header (size 0x012345) whose fifth byte fails to arrive;
   the later decrypt_large_server_header on the true byte completes it and equals the
   uninterrupted read *)
Example C11_example_wrath_resume :
  let K := map N.of_nat (seq 1 40) in
  match W.server_enc_new K, W.client_dec_new K with
  | Ok se, Ok cd =>
    match W.encrypt_server_header se 0x012345 0x1EE with
    | Ok (_, [a; b; c; d; e]) =>
      match w_read_and_decrypt_server_header cd [Data [a; b]; Data [c; d]; Fail (Other 2); Data [e]] with
      | Ok (cd1, Err (Other 2)) =>
        match W.decrypt_large_server_header cd1 e,
              w_read_and_decrypt_server_header cd [Data [a]; Fail Interrupted; Data [b; c; d; e; 99]] with
        | Ok (cd2, hd), Ok (cd3, Ok (hd', rest)) =>
          hd = (0x012345, 0x1EE) /\ hd' = hd /\ rest = [Data [99]] /\
          PW.rc4_eqb (W.cd_rc4 cd2) (W.cd_rc4 cd3) = true /\ W.cd_hdr cd2 = W.cd_hdr cd3
        | _, _ => False
        end
      | _ => False
      end
    | _ => False
    end
  | _, _ => False
  end.
Proof. vm_compute. repeat split; reflexivity. Qed.

Print Assumptions C11_read_exact_is_std_loop.
Print Assumptions C11_write_all_is_std_loop.
Print Assumptions C11_read_exact_fragmented.
Print Assumptions C11_read_exact_failure_offsets.
Print Assumptions C11_read_exact_failure_only_so.
Print Assumptions C11_write_all_outcome.
Print Assumptions C11_server_layout.
Print Assumptions C11_client_layout.
Print Assumptions C11_helpers_vanilla.
Print Assumptions C11_helpers_roundtrip_vanilla.
Print Assumptions C11_helpers_tbc.
Print Assumptions C11_helpers_roundtrip_tbc.
Print Assumptions C11_helpers_wrath.
Print Assumptions C11_read_fragmented_vanilla.
Print Assumptions C11_read_fragmented_tbc.
Print Assumptions C11_read_fragmented_wrath_client_header.
Print Assumptions C11_read_fragmented_wrath_server_header.
Print Assumptions C11_read_fragmented_wrath_server_header_facade.
Print Assumptions C11_read_failure_vanilla.
Print Assumptions C11_read_failure_tbc.
Print Assumptions C11_read_failure_wrath.
Print Assumptions C11_wrath_fifth_byte_failure.
Print Assumptions C11_wrath_resume.
Print Assumptions C11_write_error_vanilla.
Print Assumptions C11_write_error_tbc.
Print Assumptions C11_write_error_wrath.
Print Assumptions C11_write_facades.
Print Assumptions C11_write_failure_advances.
