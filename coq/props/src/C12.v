(* C12 at source level: split, unsplit and is_pair_of as TRANSLATED FROM src/{vanilla,tbc,wrath}_header on
   this run (halves as (key, index, previous) triples, Wrath halves as cipher state [+ header buffer]). *)
From Coq Require Import List NArith.
From WS Require Import lib.Bytes lib.Res Consts Steps proofs.steps.Ctors.
Import ListNotations.
Local Open Scope N_scope.

(* re-joining as translated succeeds exactly when the two halves carry the same key bytes, returns the
   object made of exactly these two halves (nothing lost: index and previous byte of both directions
   are kept), reports the error otherwise, and never panics; both is_pair_of functions decide the same *)
Theorem C12_source_unsplit_iff : forall k1 i1 p1 k2 i2 p2,
  (k1 = k2 -> tr_vanilla_unsplit k1 i1 p1 k2 i2 p2 = Some (inl ((k2, i2, p2), (k1, i1, p1)))) /\
  (k1 <> k2 -> tr_vanilla_unsplit k1 i1 p1 k2 i2 p2 = Some (inr tt)) /\
  tr_vanilla_enc_is_pair_of k1 i1 p1 k2 i2 p2 = Some (list_eqb k1 k2) /\
  tr_vanilla_dec_is_pair_of k2 i2 p2 k1 i1 p1 = Some (list_eqb k1 k2).
Proof.
  intros k1 i1 p1 k2 i2 p2. split; [|split; [|split; reflexivity]].
  - intros ->. unfold tr_vanilla_unsplit. rewrite list_eqb_refl. reflexivity.
  - intros H. exact (vanilla_source_unsplit_refuses k1 k2 i1 p1 i2 p2 H).
Qed.

(* split hands out the two halves unchanged (encrypter first), for all four combined objects *)
Theorem C12_source_split : forall d e dw ew,
  tr_vanilla_split d e = Some (e, d) /\ tr_tbc_split d e = Some (e, d) /\
  tr_wrath_client_split dw e = Some (e, dw) /\ tr_wrath_server_split d ew = Some (ew, d).
Proof. intros. repeat split. Qed.

(* a fresh object, split and re-joined, is the same object *)
Theorem C12_source_split_unsplit : forall K,
  exists d e, tr_vanilla_crypto_new K = Some (d, e) /\ tr_vanilla_split d e = Some (e, d) /\
    (let '(k1, i1, p1) := e in let '(k2, i2, p2) := d in tr_vanilla_unsplit k1 i1 p1 k2 i2 p2) = Some (inl (d, e)).
Proof. exact vanilla_source_split_unsplit. Qed.

(* the two methods of the combined objects that have a body of their own -- vanilla HeaderCrypto::decrypt_client_header
   and wrath ServerCrypto::decrypt_client_header -- as translated, with the object's raw decrypt being the half's raw
   decrypt on the decrypting half (the delegation table), do exactly what the half's method as translated does on
   that half: same header, same new half, the other half untouched.  For every raw cipher that keeps lengths. *)
Theorem C12_source_own_bodies : forall (H C : Type) (get : C -> H) (set : C -> H -> C)
    (raw : H -> list N -> option (H * list N)) (c : C) (data : list N),
  (forall h d h' o, raw h d = Some (h', o) -> length o = length d) -> length data = 6%nat ->
  let lifted := fun c d => match raw (get c) d with Some (h, o) => Some (set c h, o) | None => None end in
  tr_vanilla_crypto_decrypt_client_header lifted c data
    = match tr_vanilla_decrypt_client_header raw (get c) data with Some (h, hd) => Some (set c h, hd) | None => None end /\
  tr_wrath_server_crypto_decrypt_client_header lifted c data
    = match tr_wrath_decrypt_client_header raw (get c) data with Some (h, hd) => Some (set c h, hd) | None => None end.
Proof.
  intros H C get set raw c data Hraw Hl lifted. subst lifted.
  unfold tr_vanilla_crypto_decrypt_client_header, tr_vanilla_decrypt_client_header,
         tr_wrath_server_crypto_decrypt_client_header, tr_wrath_decrypt_client_header.
  destruct (raw (get c) data) as [[h o]|] eqn:E; [|split; reflexivity].
  pose proof (Hraw _ _ _ _ E) as L. rewrite Hl in L.
  destruct o as [|b0 [|b1 [|b2 [|b3 [|b4 [|b5 [|]]]]]]]; try discriminate L.
  split; reflexivity.
Qed.

Print Assumptions C12_source_unsplit_iff.
Print Assumptions C12_source_split.
Print Assumptions C12_source_split_unsplit.
Print Assumptions C12_source_own_bodies.
