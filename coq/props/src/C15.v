(* C15 at source level: the convenience generators (PIN grid seed, PIN salt, matrix-card seed, integrity
   salt) and the three ProofSeed::default bodies as TRANSLATED FROM the source on this run; the positions
   of the draws inside into_server / verify_reconnection_attempt / calculate_reconnect_values are in
   props/src/C02.v and props/src/C05.v. *)
From WS Require Import lib.Bytes lib.Res lib.Tape Consts Steps model.Random model.WorldProof proofs.steps.Draws.
Local Open Scope N_scope.

(* each value IS the next 4 / 8 / 16 bytes of the random source, unchanged, and exactly that many are consumed *)
Theorem C15_source_draws : forall t,
  tr_pin_get_pin_grid_seed t = Some (le_to_N (firstn 4 t), skipn 4 t) /\
  tr_matrix_get_matrix_card_seed t = Some (le_to_N (firstn 8 t), skipn 8 t) /\
  tr_pin_get_pin_salt t = Some (firstn 16 t, skipn 16 t) /\
  tr_integrity_get_salt_value t = Some (firstn 16 t, skipn 16 t) /\
  tr_vanilla_proof_seed_default t = Some (le_to_N (firstn 4 t), skipn 4 t) /\
  tr_tbc_proof_seed_default t = Some (le_to_N (firstn 4 t), skipn 4 t) /\
  tr_wrath_proof_seed_default t = Some (le_to_N (firstn 4 t), skipn 4 t).
Proof. exact draws_source_spec. Qed.

Print Assumptions C15_source_draws.
