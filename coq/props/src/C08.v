(* C08 at source level: the statements of props/C08.v about the two loop bodies TRANSLATED FROM
   src/tbc_header/{encrypt,decrypt}.rs on this run, with the HMAC-derived 20-byte key.
   Only statements; every proof is `exact` of a lemma from proofs/steps/. *)
From WS Require Import lib.Bytes lib.Res lib.StepLoop Consts Steps spec.HeaderCipher proofs.HeaderCipher proofs.Tbc proofs.steps.Tbc lib.Hmac proofs.steps.Ctors.
Local Open Scope N_scope.

Theorem C08_source_enc_calls : forall K chunks,
  calls_loop (tr_tbc_encrypt_step (tbc_key K)) (0, 0) chunks =
  Some ((N.of_nat (length (concat chunks) mod 20), last (encrypt_stream (tbc_key K) (concat chunks)) 0),
        encrypt_stream (tbc_key K) (concat chunks)).
Proof. exact tbc_source_enc_calls. Qed.

Theorem C08_source_dec_calls : forall K chunks,
  calls_loop (tr_tbc_decrypt_step (tbc_key K)) (0, 0) chunks =
  Some ((N.of_nat (length (concat chunks) mod 20), last (concat chunks) 0), decrypt_stream (tbc_key K) (concat chunks)).
Proof. exact tbc_source_dec_calls. Qed.

Print Assumptions C08_source_enc_calls.
Print Assumptions C08_source_dec_calls.

(* the key derivation as translated from the two `new` bodies (HMAC-SHA1 object keyed with the seed
   literal in that body, updated with the session key, finalized, converted to [u8; 20]): both halves
   start at (index, previous) = (0, 0) with the SAME key HMAC-SHA1(seed, K), for every session key, and
   the conversion never panics; the combined object holds exactly these two halves *)
Theorem C08_source_key : forall K,
  tr_tbc_encrypter_new K = Some (hmac_sha1 tbc_seed K, 0, 0) /\
  tr_tbc_decrypter_new K = Some (hmac_sha1 tbc_seed K, 0, 0) /\
  tr_tbc_crypto_new K = Some ((hmac_sha1 tbc_seed K, 0, 0), (hmac_sha1 tbc_seed K, 0, 0)).
Proof.
  intros K. rewrite proofs.steps.Ctors.tbc_crypto_new_translated, proofs.steps.Ctors.tbc_encrypter_new_translated,
    proofs.steps.Ctors.tbc_decrypter_new_translated.
  unfold model.Tbc.crypto_new. destruct (new_spec K) as [-> ->]. repeat split.
Qed.
Print Assumptions C08_source_key.
