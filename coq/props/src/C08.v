(* C08 at source level: the statements of props/C08.v about the two loop bodies TRANSLATED FROM
   src/tbc_header/{encrypt,decrypt}.rs on this run, with the HMAC-derived 20-byte key.
   Only statements; every proof is `exact` of a lemma from proofs/steps/. *)
From WS Require Import lib.Bytes lib.Res lib.StepLoop Consts Steps spec.HeaderCipher proofs.HeaderCipher proofs.Tbc proofs.steps.Tbc.
Local Open Scope N_scope.

Theorem C08_source_enc_calls : forall K chunks,
  calls_loop (tr_tbc_encrypt_step (tbc_key K)) (0, 0) chunks =
  Some ((N.of_nat (length (concat chunks) mod 20), last (encrypt_stream (tbc_key K) (concat chunks)) 0),
        encrypt_stream (tbc_key K) (concat chunks)).
Proof. exact tbc_source_enc_calls. Qed.

Theorem C08_source_dec_calls : forall K chunks,
  calls_loop (tr_tbc_decrypt_step (tbc_key K)) (0, 0) chunks =
  Some ((N.of_nat (length (concat chunks) mod 20), last (concat chunks) 0), decrypt_stream (tbc_key K) (concat chunks)).
Proof. exact tbc_source_dec_calls. Qed.

Print Assumptions C08_source_enc_calls.
Print Assumptions C08_source_dec_calls.
