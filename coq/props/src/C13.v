(* C13 at source level: NormalizedString::new (its inner function) as TRANSLATED FROM
   src/normalized_string.rs on this run. *)
From WS Require Import lib.Bytes lib.Res Consts Steps model.NormalizedString spec.NormalizedString
  proofs.NormalizedString proofs.steps.NormString.
Local Open Scope N_scope.

(* the translated constructor is the spec function on every string: one equation with all clauses
   (accepted iff 1..16 bytes of printable ASCII, upper-cased text, length error first, else the first
   offending character, never a panic) *)
Theorem C13_source_new_is_spec : forall s, Forall scalar s ->
  tr_normalized_string_new s = ns_view (ns_spec s).
Proof. intros s _. rewrite normalized_string_new_translated. rewrite (new_spec s). reflexivity. Qed.

Theorem C13_source_accept_iff : forall s, Forall scalar s ->
  ((exists a l, tr_normalized_string_new s = Some (inl (a, l))) <-> ((1 <= length s <= 16)%nat /\ Forall printable s)).
Proof.
  intros s _. rewrite normalized_string_new_translated. rewrite <- (accept_iff s). split.
  - intros (a & l & H). destruct (ns_new s) as [t|e|]; [exists t; reflexivity|discriminate|discriminate].
  - intros (t & ->). exists (ns_arr t), (ns_len t). reflexivity.
Qed.

Theorem C13_source_no_panic : forall s, tr_normalized_string_new s <> None.
Proof.
  intro s. rewrite normalized_string_new_translated. rewrite (new_spec s).
  unfold ns_spec. destruct (_ || _)%bool; [discriminate|]. destruct (first_bad s); discriminate.
Qed.

(* all constructors and conversions agree: each of the four other bodies, as translated, is new *)
Theorem C13_source_constructors_agree : forall s,
  tr_normalized_string_from_str s = tr_normalized_string_new s /\
  tr_normalized_string_from_string s = tr_normalized_string_new s /\
  tr_normalized_string_try_from_str s = tr_normalized_string_new s /\
  tr_normalized_string_try_from_string s = tr_normalized_string_new s.
Proof. exact normalized_string_constructors_translated. Qed.

Print Assumptions C13_source_new_is_spec.
Print Assumptions C13_source_constructors_agree.
Print Assumptions C13_source_accept_iff.
Print Assumptions C13_source_no_panic.
