(* C06 at source level: ProofSeed::into_client_header_crypto / into_server_header_crypto of the three
   modules as TRANSLATED FROM src/{vanilla,tbc,wrath}_header/mod.rs on this run. *)
From WS Require Import lib.Bytes lib.Res lib.Sha1 Consts Steps model.Server model.WorldProof proofs.steps.ApiWorld proofs.steps.Digests.
From WS Require model.Vanilla model.Tbc model.Wrath.
Local Open Scope N_scope.

Definition world_proof (u K : list N) (server_seed client_seed : N) : list N :=
  sha1 (u ++ le32 0 ++ le32 client_seed ++ le32 server_seed ++ K).

(* the client proves with ITS seed in the client slot and the server's seed in the server slot *)
Theorem C06_source_client_vanilla : forall seed u K server_seed,
  tr_vanilla_into_client_header_crypto seed u K server_seed =
  Some (world_proof u K server_seed seed, Vanilla.crypto_new K).
Proof. reflexivity. Qed.

(* the server of every module refuses any other 20 bytes, returning (presented, expected) *)
Theorem C06_source_server_refuses : forall seed u K cp client_seed,
  cp <> world_proof u K seed client_seed ->
  tr_vanilla_into_server_header_crypto seed u K cp client_seed = Some (inr (cp, world_proof u K seed client_seed)) /\
  tr_tbc_into_server_header_crypto seed u K cp client_seed = Some (inr (cp, world_proof u K seed client_seed)) /\
  tr_wrath_into_server_header_crypto seed u K cp client_seed = Some (inr (cp, world_proof u K seed client_seed)).
Proof.
  intros seed u K cp cs Hne.
  assert (E : list_eqb (calculate_world_server_proof u K seed cs) cp = false).
  { apply list_eqb_neq. intro H. apply Hne. symmetry. exact H. }
  unfold tr_vanilla_into_server_header_crypto, tr_tbc_into_server_header_crypto, tr_wrath_into_server_header_crypto.
  rewrite E. split; [reflexivity|]. split; reflexivity.
Qed.

(* and accepts the right one (Vanilla: the object is built from the raw session key) *)
Theorem C06_source_server_accepts_vanilla : forall seed u K client_seed,
  tr_vanilla_into_server_header_crypto seed u K (world_proof u K seed client_seed) client_seed = Some (inl (Vanilla.crypto_new K)).
Proof.
  intros. unfold tr_vanilla_into_server_header_crypto.
  change (calculate_world_server_proof u K seed client_seed) with (world_proof u K seed client_seed).
  rewrite list_eqb_refl. reflexivity.
Qed.

(* the translated functions are the model's, all six *)
Theorem C06_source_is_model : forall seed u K x n,
  tr_vanilla_into_client_header_crypto seed u K n = client_view (vanilla_client seed u K n) /\
  tr_vanilla_into_server_header_crypto seed u K x n = server_view (vanilla_server seed u K x n) /\
  tr_tbc_into_client_header_crypto seed u K n = client_view (tbc_client seed u K n) /\
  tr_tbc_into_server_header_crypto seed u K x n = server_view (tbc_server seed u K x n) /\
  tr_wrath_into_client_header_crypto seed u K n = client_view (wrath_client seed u K n) /\
  tr_wrath_into_server_header_crypto seed u K x n = server_view (wrath_server seed u K x n).
Proof.
  intros.
  split; [apply vanilla_into_client_translated|]. split; [apply vanilla_into_server_translated|].
  split; [apply tbc_into_client_translated|]. split; [apply tbc_into_server_translated|].
  split; [apply wrath_into_client_translated | apply wrath_into_server_translated].
Qed.

(* the proof value itself, as translated from src/vanilla_header/internal.rs:
   H(name | 0u32 LE | client seed LE | server seed LE | session key) *)
Theorem C06_source_proof_value : forall u K ss cs,
  tr_world_calculate_world_server_proof u K ss cs = Some (lib.Sha1.sha1 (u ++ le32 0 ++ le32 cs ++ le32 ss ++ K)).
Proof. exact proofs.steps.Digests.calculate_world_server_proof_translated. Qed.

Print Assumptions C06_source_client_vanilla.
Print Assumptions C06_source_proof_value.
Print Assumptions C06_source_server_refuses.
Print Assumptions C06_source_server_accepts_vanilla.
Print Assumptions C06_source_is_model.
