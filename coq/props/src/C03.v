(* C03 at source level: SKey::as_equal_slice as TRANSLATED FROM src/key.rs on this run.
   Only statements; every proof is `exact` of a lemma from proofs/steps/. *)
From Coq Require Import ZArith.
From WS Require Import lib.Bytes lib.Res lib.StepLoop Consts Steps spec.Srp6 model.Bigint model.Key model.Srp primes.NFacts proofs.Srp proofs.steps.Key proofs.steps.Formulas proofs.steps.Interleave proofs.steps.Digests.
Local Open Scope Z_scope.

(* the strip that precedes the SHA-1 interleave, for every 32-byte secret *)
Theorem C03_source_strip : forall s : list N, length s = 32%nat ->
  tr_skey_as_equal_slice 33 s = Some (strip s).
Proof. exact skey_source_strip. Qed.

(* the formulas, as translated from src/srp_internal.rs and src/srp_internal_client.rs: byte-exact WoW SRP6 *)
Theorem C03_source_verifier : forall U P salt,
  tr_srp_calculate_password_verifier Default U P salt = Some (LE32 (sp_v 7 Nz (sp_x U P salt))).
Proof. intros. rewrite calculate_password_verifier_translated, verifier_spec. reflexivity. Qed.

Theorem C03_source_server_B : forall v b,
  let B := sp_B 3 7 Nz (le_to_Z v) (le_to_Z b) in
  (B <> 0 -> tr_srp_calculate_server_public_key Default v b = Some (inl (LE32 B))) /\
  (B = 0 -> tr_srp_calculate_server_public_key Default v b = Some (inr PublicKeyIsZero)).
Proof.
  intros v b. cbv zeta. destruct (server_public_key_spec v b) as [H1 H2]. split; intro H;
  rewrite calculate_server_public_key_translated; [rewrite (H1 H) | rewrite (H2 H)]; reflexivity.
Qed.

Theorem C03_source_server_S : forall A v u b,
  tr_srp_calculate_S Default A v u b = Some (LE32 (sp_S_server Nz (le_to_Z A) (le_to_Z v) (le_to_Z u) (le_to_Z b))).
Proof. intros. rewrite calculate_S_translated, S_spec. reflexivity. Qed.

(* the client, for ANY announced generator and ANY modulus 0 < N' < 2^256 *)
Theorem C03_source_client_A : forall a g n', 0 < le_to_Z n' -> le_to_Z n' < 2 ^ 256 ->
  let A := sp_A (Z.of_N g) (le_to_Z n') (le_to_Z a) in
  (A <> 0 -> tr_srp_calculate_client_public_key Default a g n' = Some (inl (LE32 A))) /\
  (A = 0 -> tr_srp_calculate_client_public_key Default a g n' = Some (inr PublicKeyIsZero)).
Proof.
  intros a g n' Hp Hl. cbv zeta. destruct (client_public_key_spec a g n' Hp Hl) as [H1 H2]. split; intro H;
  rewrite calculate_client_public_key_translated; [rewrite (H1 H) | rewrite (H2 H)]; reflexivity.
Qed.

Theorem C03_source_client_S : forall B x a u g n', 0 < le_to_Z n' -> le_to_Z n' < 2 ^ 256 ->
  tr_srp_calculate_client_S Default B x a u g n' =
  Some (LE32 (sp_S_client 3 (Z.of_N g) (le_to_Z n') (le_to_Z B) (le_to_Z x) (le_to_Z a) (le_to_Z u))).
Proof. intros. rewrite calculate_client_S_translated, client_S_spec by assumption. reflexivity. Qed.

(* the SHA-1 interleave and the whole server-side key derivation, through the translated functions only *)
Theorem C03_source_interleave : forall S : list N, length S = 32%nat ->
  tr_srp_calculate_interleaved S = Some (interleave (strip S)).
Proof. exact interleave_source_spec. Qed.

Theorem C03_source_u : forall A B, tr_srp_calculate_u A B = Some (calculate_u A B) /\ le_to_Z (calculate_u A B) = sp_u A B.
Proof. intros A B. split; [reflexivity | apply calculate_u_value]. Qed.

Theorem C03_source_session_key : forall A B v b, length A = 32%nat ->
  tr_srp_calculate_session_key Default A B v b
  = Some (sp_K (sp_S_server Nz (le_to_Z A) (le_to_Z v) (sp_u A B) (le_to_Z b))).
Proof. exact session_key_source_spec. Qed.

(* the digests, as translated: x = H(salt | H(U ":" P)); M1 = H((H(N) xor H(g)) | H(U) | salt | A | B | K) with the
   precalculated xor constant or, on the client, the one computed from the announced group; M2 = H(A | M1 | K);
   the reconnect proof = H(U | client data | server data | K); Integer::to_padded_32_byte_array_le is the
   model's padding on either back end *)
Theorem C03_source_digests : forall U P salt A B K M1 cd sd n g be z,
  tr_srp_calculate_x U P salt = Some (lib.Sha1.sha1 (salt ++ lib.Sha1.sha1 (U ++ [58%N] ++ P))) /\
  tr_srp_calculate_client_proof U K A B salt = Some (lib.Sha1.sha1 (xor_hash ++ lib.Sha1.sha1 U ++ salt ++ A ++ B ++ K)) /\
  tr_srp_calculate_client_proof_custom U K A B salt n g
    = Some (lib.Sha1.sha1 (xor_bytes (lib.Sha1.sha1 n) (lib.Sha1.sha1 [g]) ++ lib.Sha1.sha1 U ++ salt ++ A ++ B ++ K)) /\
  tr_srp_calculate_server_proof A M1 K = Some (lib.Sha1.sha1 (A ++ M1 ++ K)) /\
  tr_srp_calculate_reconnect_proof U cd sd K = Some (lib.Sha1.sha1 (U ++ cd ++ sd ++ K)) /\
  tr_bigint_to_padded_32 be z = match to_padded_32_byte_array_le be z with Ok a => Some a | _ => None end.
Proof.
  intros. rewrite proofs.steps.Digests.calculate_client_proof_custom_translated.
  repeat split. apply bigint_to_padded_32_translated.
Qed.

Print Assumptions C03_source_strip.
Print Assumptions C03_source_digests.
Print Assumptions C03_source_interleave.
Print Assumptions C03_source_u.
Print Assumptions C03_source_session_key.
Print Assumptions C03_source_verifier.
Print Assumptions C03_source_server_B.
Print Assumptions C03_source_server_S.
Print Assumptions C03_source_client_A.
Print Assumptions C03_source_client_S.
