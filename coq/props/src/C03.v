(* C03 at source level: SKey::as_equal_slice as TRANSLATED FROM src/key.rs on this run.
   Only statements; every proof is `exact` of a lemma from proofs/steps/. *)
From WS Require Import lib.Bytes lib.Res lib.StepLoop Consts Steps spec.Srp6 proofs.steps.Key.
Local Open Scope N_scope.

(* the strip that precedes the SHA-1 interleave, for every 32-byte secret *)
Theorem C03_source_strip : forall s : list N, length s = 32%nat ->
  tr_skey_as_equal_slice 33 s = Some (strip s).
Proof. exact skey_source_strip. Qed.

Print Assumptions C03_source_strip.
