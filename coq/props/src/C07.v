(* C07 at source level: the statements of props/C07.v about the two loop bodies TRANSLATED FROM
   src/vanilla_header/{encrypt,decrypt}.rs on this run (coq/Steps.v), not about the hand-written model.
   Only statements; every proof is `exact` of a lemma from proofs/steps/. *)
From WS Require Import lib.Bytes lib.Res lib.StepLoop Consts Steps spec.HeaderCipher proofs.HeaderCipher proofs.Vanilla proofs.steps.Vanilla.
Local Open Scope N_scope.

(* any partition of a plaintext stream into calls of the translated encrypt loop, starting from
   (index, previous) = (0, 0): the whole-stream recurrence, no panic, final state (length mod 40, last byte) *)
Theorem C07_source_enc_calls : forall K chunks, length K = 40%nat ->
  calls_loop (tr_vanilla_encrypt_step K) (0, 0) chunks =
  Some ((N.of_nat (length (concat chunks) mod 40), last (encrypt_stream K (concat chunks)) 0),
        encrypt_stream K (concat chunks)).
Proof. exact vanilla_source_enc_calls. Qed.

Theorem C07_source_dec_calls : forall K chunks, length K = 40%nat ->
  calls_loop (tr_vanilla_decrypt_step K) (0, 0) chunks =
  Some ((N.of_nat (length (concat chunks) mod 40), last (concat chunks) 0), decrypt_stream K (concat chunks)).
Proof. exact vanilla_source_dec_calls. Qed.

Print Assumptions C07_source_enc_calls.
Print Assumptions C07_source_dec_calls.

(* the constructors as translated: both halves hold the session key itself and start at (0, 0); the
   combined object holds exactly these two halves *)
Theorem C07_source_new : forall K,
  tr_vanilla_encrypter_new K = Some (K, 0, 0) /\ tr_vanilla_decrypter_new K = Some (K, 0, 0) /\
  tr_vanilla_crypto_new K = Some ((K, 0, 0), (K, 0, 0)).
Proof. intros K. repeat split. Qed.
Print Assumptions C07_source_new.
