(* C16 at source level: pin_to_bytes as TRANSLATED FROM src/pin.rs on this run.
   Only statements; every proof is `exact` of a lemma from proofs/steps/. *)
From WS Require Import lib.Bytes lib.Res lib.StepLoop Consts Steps spec.Select spec.Pin proofs.steps.Pin.
Local Open Scope N_scope.

Theorem C16_source_digits : forall pin out, pin < 2 ^ 32 -> length out = 10%nat ->
  tr_pin_to_bytes 11 pin out = Some (digits pin).
Proof. exact pin_source_digits. Qed.

(* the keypad layout computed by the translated remap_pin_grid is the Lehmer (factorial-base) decoding
   of seed mod 10! applied to the digits 0..9, for every seed; in particular never a panic *)
Theorem C16_source_grid : forall seed,
  tr_pin_remap_pin_grid seed = Some (grid seed) /\ grid seed = select 10 (seed mod fact 10) (iota 10).
Proof. intro seed. split; [exact (pin_source_grid seed) | reflexivity]. Qed.

Print Assumptions C16_source_digits.
Print Assumptions C16_source_grid.
