(* C16 at source level: pin_to_bytes as TRANSLATED FROM src/pin.rs on this run.
   Only statements; every proof is `exact` of a lemma from proofs/steps/. *)
From WS Require Import lib.Bytes lib.Res lib.Sha1 lib.StepLoop Consts Steps spec.Select spec.Pin model.Pin proofs.Pin proofs.steps.Pin.
Local Open Scope N_scope.

Theorem C16_source_digits : forall pin out, pin < 2 ^ 32 -> length out = 10%nat ->
  tr_pin_to_bytes 11 pin out = Some (digits pin).
Proof. exact pin_source_digits. Qed.

(* the keypad layout computed by the translated remap_pin_grid is the Lehmer (factorial-base) decoding
   of seed mod 10! applied to the digits 0..9, for every seed; in particular never a panic *)
Theorem C16_source_grid : forall seed,
  tr_pin_remap_pin_grid seed = Some (grid seed) /\ grid seed = select 10 (seed mod fact 10) (iota 10).
Proof. intro seed. split; [exact (pin_source_grid seed) | reflexivity]. Qed.

(* the hash as computed by the translated calculate_hash, for every u32 PIN, seed and pair of salts:
   None below 1000, otherwise SHA1(client_salt | SHA1(server_salt | ASCII positions of the digits in the
   layout)); no panic (find().unwrap() and `+= 0x30` included) *)
Theorem C16_source_hash : forall pin seed ss cs, pin < 2 ^ 32 ->
  tr_pin_calculate_hash pin seed ss cs =
  Some (if pin <? 1000 then None
        else Some (sha1 (cs ++ sha1 (ss ++ map (fun d => 48 + index_of d (grid seed)) (digits pin))))).
Proof.
  intros pin seed ss cs Hpin. rewrite pin_calculate_hash_translated, (proofs.Pin.calculate_hash_spec pin seed ss cs Hpin).
  reflexivity.
Qed.

(* the translated verification returns true exactly when a hash exists and equals the presented one *)
Theorem C16_source_verify_iff : forall pin seed ss cs h, pin < 2 ^ 32 ->
  exists b, tr_pin_verify_client_pin_hash pin seed ss cs h = Some b /\
            (b = true <-> 1000 <= pin /\ h = pin_hash seed pin ss cs).
Proof.
  intros pin seed ss cs h Hpin. destruct (proofs.Pin.verify_iff pin seed ss cs h Hpin) as (b & E & H).
  exists b. split; [|exact H]. rewrite pin_verify_client_pin_hash_translated, E. reflexivity.
Qed.

Print Assumptions C16_source_digits.
Print Assumptions C16_source_hash.
Print Assumptions C16_source_verify_iff.
Print Assumptions C16_source_grid.
