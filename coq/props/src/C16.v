(* C16 at source level: pin_to_bytes as TRANSLATED FROM src/pin.rs on this run.
   Only statements; every proof is `exact` of a lemma from proofs/steps/. *)
From WS Require Import lib.Bytes lib.Res lib.StepLoop Consts Steps spec.Pin proofs.steps.Pin.
Local Open Scope N_scope.

Theorem C16_source_digits : forall pin out, pin < 2 ^ 32 -> length out = 10%nat ->
  tr_pin_to_bytes 11 pin out = Some (digits pin).
Proof. exact pin_source_digits. Qed.

Print Assumptions C16_source_digits.
